package main

import (
	"go/ast"
	"go/constant"
	"os/exec"
	"path/filepath"
	"sort"
	"strings"
)

// multicodecDir locates the go-multicodec module the repo builds against (module cache, offline).
func multicodecDir(repo string) string {
	cmd := exec.Command("go", "list", "-m", "-f", "{{.Dir}}", "github.com/multiformats/go-multicodec")
	cmd.Dir = repo
	out, err := cmd.Output()
	if err != nil {
		return ""
	}
	return strings.TrimSpace(string(out))
}

// didCodes resolves the multicodec identifiers used in the did package to their numeric values.
type didCodes struct {
	did   *pkg
	mc    *pkg
	local map[string]string // did-package constant -> multicodec constant name
}

func newDidCodes(repo string) *didCodes {
	d := &didCodes{local: map[string]string{}}
	d.did = must(load(filepath.Join(repo, "did")))
	if dir := multicodecDir(repo); dir != "" {
		d.mc = must(load(dir))
	}
	if d.did == nil {
		return d
	}
	for _, f := range d.did.files {
		for _, decl := range f.Decls {
			gd, ok := decl.(*ast.GenDecl)
			if !ok {
				continue
			}
			for _, sp := range gd.Specs {
				vs, ok := sp.(*ast.ValueSpec)
				if !ok {
					continue
				}
				for i, n := range vs.Names {
					if i < len(vs.Values) {
						if sel, ok := vs.Values[i].(*ast.SelectorExpr); ok {
							if x, ok := sel.X.(*ast.Ident); ok && x.Name == "multicodec" {
								d.local[n.Name] = sel.Sel.Name
							}
						}
					}
				}
			}
		}
	}
	return d
}

// value of an expression that names a multicodec code: `P256`, `multicodec.Ed25519Pub`
func (d *didCodes) value(e ast.Expr) (uint64, string, bool) {
	name := ""
	switch x := e.(type) {
	case *ast.Ident:
		name = d.local[x.Name]
		if name == "" {
			return 0, x.Name, false
		}
	case *ast.SelectorExpr:
		if p, ok := x.X.(*ast.Ident); ok && p.Name == "multicodec" {
			name = x.Sel.Name
		}
	}
	if name == "" || d.mc == nil {
		return 0, name, false
	}
	v, ok := d.mc.constVal(name)
	if !ok || v.Kind() != constant.Int {
		return 0, name, false
	}
	u, exact := constant.Uint64Val(v)
	return u, name, exact
}

func leanNatList(vs []uint64) string {
	sort.Slice(vs, func(i, j int) bool { return vs[i] < vs[j] })
	var parts []string
	var last uint64
	for i, v := range vs {
		if i > 0 && v == last {
			continue
		}
		last = v
		parts = append(parts, strings.TrimSpace(strings.Replace(constant.MakeUint64(v).ExactString(), " ", "", -1)))
	}
	return "[" + strings.Join(parts, ", ") + "]"
}

func init() {
	extraFacts = append(extraFacts, func(repo string, o *out) {
		d := newDidCodes(repo)
		o.line("")
		o.line("-- multicodec tables of the did package (did/did.go, did/crypto.go)")
		if d.did == nil || d.mc == nil {
			o.missing("parseWhitelist", "did package or go-multicodec not loadable")
			return
		}
		// Parse: codes in the case clauses whose body returns a DID value
		var wl []uint64
		okWl := false
		if fd := d.did.funcDecl("", "Parse"); fd != nil {
			ast.Inspect(fd.Body, func(n ast.Node) bool {
				cc, ok := n.(*ast.CaseClause)
				if !ok || len(cc.List) == 0 {
					return true
				}
				accepting := false
				for _, st := range cc.Body {
					if r, ok := st.(*ast.ReturnStmt); ok && len(r.Results) == 2 {
						if id, ok := r.Results[1].(*ast.Ident); ok && id.Name == "nil" {
							accepting = true
						}
					}
				}
				if !accepting {
					return true
				}
				for _, e := range cc.List {
					if v, _, ok := d.value(e); ok {
						wl = append(wl, v)
						okWl = true
					} else {
						okWl = false
						return false
					}
				}
				return true
			})
		}
		if okWl {
			o.line("/-- multicodec codes `did.Parse` accepts -/")
			o.line("def parseWhitelist : List Nat := %s", leanNatList(wl))
		} else {
			o.missing("parseWhitelist", "could not read the accepting case clause of did.Parse")
		}
		// PubKey: keys of the unmarshaller table
		var tbl []uint64
		okTbl := false
		if fd := d.did.funcDecl("DID", "PubKey"); fd != nil {
			ast.Inspect(fd.Body, func(n ast.Node) bool {
				cl, ok := n.(*ast.CompositeLit)
				if !ok {
					return true
				}
				if _, isMap := cl.Type.(*ast.MapType); !isMap {
					return true
				}
				for _, el := range cl.Elts {
					kv, ok := el.(*ast.KeyValueExpr)
					if !ok {
						continue
					}
					if v, _, ok := d.value(kv.Key); ok {
						tbl = append(tbl, v)
						okTbl = true
					}
				}
				return false
			})
		}
		if !okTbl {
			// the table may be a `switch` over the code instead of a map literal — in PubKey itself or in an unexported helper it
			// calls. The codes with an unmarshaller are the values of the case clauses that do not just return an error.
			bodies := []*ast.BlockStmt{}
			if fd := d.did.funcDecl("DID", "PubKey"); fd != nil {
				bodies = append(bodies, fd.Body)
				ast.Inspect(fd.Body, func(n ast.Node) bool {
					if ce, ok := n.(*ast.CallExpr); ok {
						if id, ok := ce.Fun.(*ast.Ident); ok {
							if h := d.did.funcDecl("", id.Name); h != nil && h.Body != nil && !ast.IsExported(id.Name) {
								bodies = append(bodies, h.Body)
							}
						}
					}
					return true
				})
			}
			for _, b := range bodies {
				if okTbl {
					break
				}
				ast.Inspect(b, func(n ast.Node) bool {
					sw, ok := n.(*ast.SwitchStmt)
					if !ok || okTbl {
						return true
					}
					var vals []uint64
					all := true
					for _, st := range sw.Body.List {
						cc := st.(*ast.CaseClause)
						if len(cc.List) == 0 {
							continue // default
						}
						// a clause that only refuses: `return nil, <error>`
						refuses := false
						if len(cc.Body) == 1 {
							if rs, ok := cc.Body[0].(*ast.ReturnStmt); ok && len(rs.Results) == 2 {
								if id, ok := rs.Results[0].(*ast.Ident); ok && id.Name == "nil" {
									if id2, ok := rs.Results[1].(*ast.Ident); !ok || id2.Name != "nil" {
										refuses = true
									}
								}
							}
						}
						for _, e := range cc.List {
							v, _, ok := d.value(e)
							if !ok {
								all = false
								continue
							}
							if !refuses {
								vals = append(vals, v)
							}
						}
					}
					if all && len(vals) >= 3 {
						tbl, okTbl = vals, true
					}
					return true
				})
			}
		}
		if okTbl {
			o.line("/-- multicodec codes `DID.PubKey` has an unmarshaller for -/")
			o.line("def pubKeyTable : List Nat := %s", leanNatList(tbl))
		} else {
			o.missing("pubKeyTable", "could not read the unmarshaller table of DID.PubKey")
		}
		// FromPubKey: every code it can emit (assignments to `code`, and codeForCurve's results)
		var emit []uint64
		okEmit := false
		for _, fn := range []string{"FromPubKey", "codeForCurve"} {
			fd := d.did.funcDecl("", fn)
			if fd == nil {
				continue
			}
			ast.Inspect(fd.Body, func(n ast.Node) bool {
				switch x := n.(type) {
				case *ast.AssignStmt:
					if len(x.Lhs) == 1 && len(x.Rhs) == 1 {
						if id, ok := x.Lhs[0].(*ast.Ident); ok && id.Name == "code" {
							if v, _, ok := d.value(x.Rhs[0]); ok {
								emit = append(emit, v)
								okEmit = true
							}
						}
					}
				case *ast.ReturnStmt:
					if fn == "codeForCurve" && len(x.Results) == 2 {
						if id, ok := x.Results[1].(*ast.Ident); ok && id.Name == "nil" {
							if v, _, ok := d.value(x.Results[0]); ok {
								emit = append(emit, v)
								okEmit = true
							}
						}
					}
				}
				return true
			})
		}
		if okEmit {
			o.line("/-- multicodec codes `did.FromPubKey` can put into a DID -/")
			o.line("def fromPubKeyCodes : List Nat := %s", leanNatList(emit))
		} else {
			o.missing("fromPubKeyCodes", "could not read the codes emitted by did.FromPubKey")
		}
	})
}
