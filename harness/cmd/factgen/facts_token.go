package main

import (
	"fmt"
	"go/ast"
	"go/constant"
	"go/token"
	"os"
	"path/filepath"
	"strings"
	"unicode"
)

// schemaFields parses the Payload struct of an .ipldsch file: (name, type, optional, nullable).
func schemaFields(path string) ([][4]string, error) {
	b, err := os.ReadFile(path)
	if err != nil {
		return nil, err
	}
	var out [][4]string
	in := false
	for _, line := range strings.Split(string(b), "\n") {
		line = strings.TrimSpace(line)
		if i := strings.Index(line, "#"); i >= 0 {
			line = strings.TrimSpace(line[:i])
		}
		if strings.HasPrefix(line, "type Payload struct") {
			in = true
			continue
		}
		if !in || line == "" {
			continue
		}
		if line == "}" {
			break
		}
		f := strings.Fields(line)
		name := f[0]
		opt, null := "false", "false"
		rest := f[1:]
		for len(rest) > 0 && (rest[0] == "optional" || rest[0] == "nullable") {
			if rest[0] == "optional" {
				opt = "true"
			} else {
				null = "true"
			}
			rest = rest[1:]
		}
		typ := strings.ReplaceAll(strings.Join(rest, ""), " ", "")
		out = append(out, [4]string{name, typ, opt, null})
	}
	if len(out) == 0 {
		return nil, fmt.Errorf("no Payload struct in %s", path)
	}
	return out, nil
}

// structFields lists the fields of the Go struct tokenPayloadModel in declaration order.
func structFields(p *pkg) []string {
	var out []string
	for _, f := range p.files {
		ast.Inspect(f, func(n ast.Node) bool {
			ts, ok := n.(*ast.TypeSpec)
			if !ok || ts.Name.Name != "tokenPayloadModel" {
				return true
			}
			st, ok := ts.Type.(*ast.StructType)
			if !ok {
				return false
			}
			for _, fl := range st.Fields.List {
				for _, nm := range fl.Names {
					out = append(out, nm.Name)
				}
			}
			return false
		})
	}
	return out
}

// nonceMin finds N in `len(t.nonce) < N` inside validate().
func nonceMin(p *pkg) (string, bool) {
	fd := p.funcDecl("Token", "validate")
	if fd == nil {
		return "", false
	}
	res, ok := "", false
	ast.Inspect(fd.Body, func(n ast.Node) bool {
		be, isBin := n.(*ast.BinaryExpr)
		if !isBin || be.Op != token.LSS {
			return true
		}
		call, isCall := be.X.(*ast.CallExpr)
		if !isCall {
			return true
		}
		if id, isId := call.Fun.(*ast.Ident); !isId || id.Name != "len" || len(call.Args) != 1 {
			return true
		}
		if sel, isSel := call.Args[0].(*ast.SelectorExpr); !isSel || sel.Sel.Name != "nonce" {
			return true
		}
		if lit, isLit := be.Y.(*ast.BasicLit); isLit {
			res, ok = lit.Value, true
		}
		return true
	})
	return res, ok
}

func lowerFirst(s string) string {
	r := []rune(s)
	for i := range r {
		r[i] = unicode.ToLower(r[i])
	}
	return string(r)
}

func appendUvarint(b []byte, v uint64) []byte {
	for v >= 0x80 {
		b = append(b, byte(v)|0x80)
		v >>= 7
	}
	return append(b, byte(v))
}

func init() {
	extraFacts = append(extraFacts, func(repo string, o *out) {
		o.line("")
		o.line("-- payload schemas (token/*/…ipldsch), Go payload structs, nonce minimum, varsig headers")
		for _, kind := range []struct{ dir, file, pfx string }{{"token/delegation", "delegation.ipldsch", "dlg"}, {"token/invocation", "invocation.ipldsch", "inv"}} {
			fs, err := schemaFields(filepath.Join(repo, kind.dir, kind.file))
			if err != nil {
				o.missing(kind.pfx+"Schema", err.Error())
			} else {
				var parts []string
				for _, f := range fs {
					parts = append(parts, fmt.Sprintf("(%q, %q, %s, %s)", f[0], f[1], f[2], f[3]))
				}
				o.line("/-- fields of the %s Payload schema: (name, type, optional, nullable) -/", kind.pfx)
				o.line("def %sSchema : List (String × String × Bool × Bool) := [%s]", kind.pfx, strings.Join(parts, ", "))
			}
			p := must(load(filepath.Join(repo, kind.dir)))
			if p == nil {
				o.missing(kind.pfx+"StructFields", "package not loadable")
				continue
			}
			sf := structFields(p)
			if len(sf) == 0 {
				o.missing(kind.pfx+"StructFields", "tokenPayloadModel not found")
			} else {
				var l []string
				for _, s := range sf {
					l = append(l, lowerFirst(s))
				}
				o.line("/-- fields of the Go struct bound to that schema (bindnode binds by position), lower-cased -/")
				o.line("def %sStructFields : List String := %s", kind.pfx, leanStrList(l))
			}
			if v, ok := nonceMin(p); ok {
				o.line("/-- minimum nonce length enforced by validate() -/")
				o.line("def %sNonceMin : Nat := %s", kind.pfx, v)
			} else {
				o.missing(kind.pfx+"NonceMin", "no `len(t.nonce) < N` test in validate()")
			}
		}
		// varsig: key type -> header bytes
		vp := must(load(filepath.Join(repo, "token/internal/varsig")))
		d := newDidCodes(repo)
		if vp == nil || d.mc == nil {
			o.missing("varsigTable", "varsig package or go-multicodec not loadable")
			return
		}
		fd := vp.funcDecl("", "keyTypeToHeader")
		if fd == nil {
			o.missing("varsigTable", "keyTypeToHeader not found")
			return
		}
		locals := map[string]uint64{}
		if v, ok := vp.constVal("Prefix"); ok {
			if u, exact := constant.Uint64Val(v); exact {
				locals["Prefix"] = u
			}
		}
		ast.Inspect(fd.Body, func(n ast.Node) bool {
			if vs, ok := n.(*ast.ValueSpec); ok {
				for i, nm := range vs.Names {
					if i < len(vs.Values) {
						if tv, ok := vp.info.Types[vs.Values[i]]; ok && tv.Value != nil {
							if u, exact := constant.Uint64Val(tv.Value); exact {
								locals[nm.Name] = u
							}
						}
					}
				}
			}
			return true
		})
		var rows []string
		okAll := true
		ast.Inspect(fd.Body, func(n ast.Node) bool {
			kv, ok := n.(*ast.KeyValueExpr)
			if !ok {
				return true
			}
			ksel, ok := kv.Key.(*ast.SelectorExpr)
			if !ok {
				return true
			}
			call, ok := kv.Value.(*ast.CallExpr)
			if !ok {
				return true
			}
			var hdr []byte
			for _, a := range call.Args {
				switch x := a.(type) {
				case *ast.Ident:
					v, ok := locals[x.Name]
					if !ok {
						okAll = false
					}
					hdr = appendUvarint(hdr, v)
				case *ast.SelectorExpr:
					v, _, ok := d.value(x)
					if !ok {
						okAll = false
					}
					hdr = appendUvarint(hdr, v)
				default:
					okAll = false
				}
			}
			rows = append(rows, fmt.Sprintf("(%q, %s)", strings.TrimPrefix(ksel.Sel.Name, "KeyType_"), leanBytes(string(hdr))))
			return false
		})
		if okAll && len(rows) > 0 {
			o.line("/-- varsig header per libp2p key type (keyTypeToHeader) -/")
			o.line("def varsigTable : List (String × List UInt8) := [%s]", strings.Join(rows, ", "))
		} else {
			o.missing("varsigTable", "could not evaluate keyTypeToHeader")
		}
	})
}
