package main

// fallbacks: the value each fact has at the pinned commit (hand-written expectation). When a fact cannot be read off the
// current source it is emitted with this value, so that the executable model keeps compiling, and its name is listed in
// `Facts.notExtracted`: the theorems `*_facts_extracted` of the properties that rest on the fact then fail — a broken obligation of
// those properties, and of no other.
var fallbacks = map[string]string{
	"separator":                 `def separator : List UInt8 := [47]`,
	"separatorStr":              `def separatorStr : String := "/"`,
	"maxInt53":                  `def maxInt53 : Int := 9007199254740991`,
	"minInt53":                  `def minInt53 : Int := -9007199254740991`,
	"dlgTag":                    `def dlgTag : List UInt8 := [117, 99, 97, 110, 47, 100, 108, 103, 64, 49, 46, 48, 46, 48, 45, 114, 99, 46, 49]`,
	"dlgTagStr":                 `def dlgTagStr : String := "ucan/dlg@1.0.0-rc.1"`,
	"invTag":                    `def invTag : List UInt8 := [117, 99, 97, 110, 47, 105, 110, 118, 64, 49, 46, 48, 46, 48, 45, 114, 99, 46, 49]`,
	"invTagStr":                 `def invTagStr : String := "ucan/inv@1.0.0-rc.1"`,
	"parseWhitelist":            `def parseWhitelist : List Nat := [231, 237, 4608, 4609, 4610, 4613]`,
	"pubKeyTable":               `def pubKeyTable : List Nat := [231, 236, 237, 4608, 4609, 4610, 4613]`,
	"fromPubKeyCodes":           `def fromPubKeyCodes : List Nat := [231, 237, 4608, 4609, 4610, 4613]`,
	"kindEqual":                 `def kindEqual : List UInt8 := [61, 61]`,
	"kindEqualStr":              `def kindEqualStr : String := "=="`,
	"kindGreaterThan":           `def kindGreaterThan : List UInt8 := [62]`,
	"kindGreaterThanStr":        `def kindGreaterThanStr : String := ">"`,
	"kindGreaterThanOrEqual":    `def kindGreaterThanOrEqual : List UInt8 := [62, 61]`,
	"kindGreaterThanOrEqualStr": `def kindGreaterThanOrEqualStr : String := ">="`,
	"kindLessThan":              `def kindLessThan : List UInt8 := [60]`,
	"kindLessThanStr":           `def kindLessThanStr : String := "<"`,
	"kindLessThanOrEqual":       `def kindLessThanOrEqual : List UInt8 := [60, 61]`,
	"kindLessThanOrEqualStr":    `def kindLessThanOrEqualStr : String := "<="`,
	"kindNot":                   `def kindNot : List UInt8 := [110, 111, 116]`,
	"kindNotStr":                `def kindNotStr : String := "not"`,
	"kindAnd":                   `def kindAnd : List UInt8 := [97, 110, 100]`,
	"kindAndStr":                `def kindAndStr : String := "and"`,
	"kindOr":                    `def kindOr : List UInt8 := [111, 114]`,
	"kindOrStr":                 `def kindOrStr : String := "or"`,
	"kindLike":                  `def kindLike : List UInt8 := [108, 105, 107, 101]`,
	"kindLikeStr":               `def kindLikeStr : String := "like"`,
	"kindAll":                   `def kindAll : List UInt8 := [97, 108, 108]`,
	"kindAllStr":                `def kindAllStr : String := "all"`,
	"kindAny":                   `def kindAny : List UInt8 := [97, 110, 121]`,
	"kindAnyStr":                `def kindAnyStr : String := "any"`,
	"dlgSchema":                 `def dlgSchema : List (String × String × Bool × Bool) := [("iss", "DID", false, false), ("aud", "DID", false, false), ("sub", "DID", true, false), ("cmd", "String", false, false), ("pol", "Any", false, false), ("nonce", "Bytes", false, false), ("meta", "{String:Any}", true, false), ("nbf", "Int", true, false), ("exp", "Int", false, true)]`,
	"dlgStructFields":           `def dlgStructFields : List String := ["iss", "aud", "sub", "cmd", "pol", "nonce", "meta", "nbf", "exp"]`,
	"dlgNonceMin":               `def dlgNonceMin : Nat := 12`,
	"invSchema":                 `def invSchema : List (String × String × Bool × Bool) := [("iss", "DID", false, false), ("sub", "DID", false, false), ("aud", "DID", true, false), ("cmd", "String", false, false), ("args", "{String:Any}", false, false), ("prf", "[Link]", false, false), ("meta", "{String:Any}", true, false), ("nonce", "Bytes", true, false), ("exp", "Int", false, true), ("iat", "Int", true, false), ("cause", "Link", true, false)]`,
	"invStructFields":           `def invStructFields : List String := ["iss", "sub", "aud", "cmd", "args", "prf", "meta", "nonce", "exp", "iat", "cause"]`,
	"invNonceMin":               `def invNonceMin : Nat := 12`,
	"varsigTable":               `def varsigTable : List (String × List UInt8) := [("RSA", [52, 133, 36, 18, 128, 2, 113]), ("Ed25519", [52, 237, 1, 113]), ("Secp256k1", [52, 231, 1, 18, 113]), ("ECDSA", [52, 128, 164, 192, 6, 18, 113])]`,
}

// fallbackOrder keeps the output stable
var fallbackOrder = []string{"separator", "separatorStr", "maxInt53", "minInt53", "dlgTag", "dlgTagStr", "invTag", "invTagStr", "parseWhitelist", "pubKeyTable", "fromPubKeyCodes", "kindEqual", "kindEqualStr", "kindGreaterThan", "kindGreaterThanStr", "kindGreaterThanOrEqual", "kindGreaterThanOrEqualStr", "kindLessThan", "kindLessThanStr", "kindLessThanOrEqual", "kindLessThanOrEqualStr", "kindNot", "kindNotStr", "kindAnd", "kindAndStr", "kindOr", "kindOrStr", "kindLike", "kindLikeStr", "kindAll", "kindAllStr", "kindAny", "kindAnyStr", "dlgSchema", "dlgStructFields", "dlgNonceMin", "invSchema", "invStructFields", "invNonceMin", "varsigTable"}
