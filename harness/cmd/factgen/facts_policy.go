package main

import "path/filepath"

func init() {
	extraFacts = append(extraFacts, func(repo string, o *out) {
		p := must(load(filepath.Join(repo, "pkg/policy")))
		o.line("")
		o.line("-- statement kind strings of pkg/policy/policy.go")
		for _, kv := range [][2]string{
			{"KindEqual", "kindEqual"}, {"KindGreaterThan", "kindGreaterThan"}, {"KindGreaterThanOrEqual", "kindGreaterThanOrEqual"},
			{"KindLessThan", "kindLessThan"}, {"KindLessThanOrEqual", "kindLessThanOrEqual"}, {"KindNot", "kindNot"},
			{"KindAnd", "kindAnd"}, {"KindOr", "kindOr"}, {"KindLike", "kindLike"}, {"KindAll", "kindAll"}, {"KindAny", "kindAny"},
		} {
			o.constString(p, kv[0], kv[1])
		}
	})
}
