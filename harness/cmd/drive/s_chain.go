package main

import (
	"crypto/sha256"
	"errors"
	"fmt"
	"math/big"
	"strconv"
	"strings"
	"time"

	"github.com/ipfs/go-cid"
	"github.com/ipld/go-ipld-prime/datamodel"
	"github.com/libp2p/go-libp2p/core/crypto"
	"github.com/mr-tron/base58"
	"github.com/multiformats/go-multihash"
	"github.com/ucan-wg/go-ucan/did"
	"github.com/ucan-wg/go-ucan/pkg/args"
	"github.com/ucan-wg/go-ucan/pkg/command"
	"github.com/ucan-wg/go-ucan/pkg/policy"
	"github.com/ucan-wg/go-ucan/token/delegation"
	"github.com/ucan-wg/go-ucan/token/invocation"
)

func init() {
	register(stream{
		name: "chain",
		rule: "real signed delegations (sealed, then decoded) and invocations over a pool of 5 Ed25519 principals, checked with ExecutionAllowed / ExecutionAllowedWithArgsHook against a map-backed loader. Families: (principals) every chain of ≤ K links (K=2 quick, 3 thorough) over every (issuer, audience, subject∈{0,1,2,absent}) assignment × every invocation (issuer, subject) with a varying audience; (commands) conforming chains of 1–3 links with every assignment of a 6-command lattice (top, parent, child, sibling, shared textual prefix) to invocation and links; (time) every present/absent/past/future combination of not-before and expiration on the invocation and each link; (policy) constraining statements distributed over every link × argument maps, with and without an argument hook (replacing, failing); (random) chains of ≤ 8 (40 thorough) links with 0–2 deviations of any kind at any position, missing and duplicated proofs, irrelevant fields varied; (histories) the same invocation token validated several times while the loader's content, the argument hook and the wall clock (a bound two seconds away) change between validations. Added later: every scenario is decided FIVE ways on one token (twice in a row; through the hook entry point with an identity hook; with a hook that first validates an unrelated invocation; with a hook that first validates the scenario's repaired twin) and each verdict is held against the model; after construction the caller adds a key to the Args value it handed in (the token must not change); (twins) principals 5–9 = the key bytes of 0–4 under another key-type codec at every naming position; (key-types) RSA, P-256 and secp256k1 principals at every role, delegations decoded and as constructed; (command-pairs) every ordered pair of valid commands ≤ 4 (5) bytes over {/,a,b} as delegated/invoked and root/leaf, decided one after the other; (after-root, variant-cid, long-then-cut) proofs listed after the root, links named by another CID over the same digest, a 12-link chain alternating with cut versions of itself; (policy-long) 15…1000 always-true statements around the deciding one; (fresh-nbf, iat-future) constructed delegations with not-before = now, invocations issued in the future over not-yet-active links; (shared-policies) delegations built from policy slices that share one backing array; IsValidAt probes at years 1…100000 and 2^53-1 s.; (policy-optional) every operator over an optional selector on missing, null and present arguments at every link; (policy-neighbours) neighbouring links with policies of the same shape over different arguments, and the same statement over values of different kinds that print alike (100 / 100.0, bytes / their DAG-JSON map); (policy-non-finite) −Inf, +Inf and NaN arguments (own and from the hook) under every ordering statement; histories with a hook that overrides values inside the writeable clone it was given; (policy-beyond-int64) hand-assembled arguments and hook results holding an integer beyond int64 under every ordering statement; (policy-string-slice) slices of string arguments with multi-byte characters; (policy-whole-args) statements over the whole argument map and its value list, arguments supplied sorted and unsorted; (time-far) bounds some 285 years away; (command-multibyte) commands with multi-byte characters sharing prefixes that end inside or right after a character; (command-fold) commands differing only by lowercase letters that Unicode case folding equates (σ/ς, µ/μ, ſ/s, ı/i, θ/ϑ, β/ϐ); (command-concat) (delegated, invoked) pairs whose texts concatenate to the same string, decided one after the other in both orders. (case-twins) principals 13–17 = the identifier of 0–4 with the case of one letter flipped, at every naming position; (aligned-repeat) rule-conforming chains in which one delegation occurs twice or the subject reappears; (loader-error) a loader that reports an error of its own (not \"not found\") for one proof of a conforming chain, with and without handing the token over, both entry points; policies that use one selector twice (first where its failure does not decide) and connectives/quantifiers with one operand over missing required and one over missing optional data. The same arguments put together by the invoker through several options (WithArguments then WithArgument, WithArgument for each, WithArguments twice) on conforming chains with policies: how the arguments were assembled is irrelevant to authorization. Principals without an extractable key (well-formed did:key texts whose material is no key of the announced type) in every role, issuers included, two different ones where the rule wants the same; invocations without any proof, self-issued or not, expired or not, with and without a hook. Non-trivial = the chain has ≥ 1 link and at most two clause groups fail. Distinct = distinct protocol lines.",
		run:  runChainStream,
		eval: evalChain,
		cmp:  cmpChain,

		classByDirection: true,
	})
}

// cmpChain compares only the verdict (allowed / denied), never the error class: which rule is reported
// first when several fail is not part of any property. The direction names the property concerned.
func cmpChain(line, g, m string) string {
	if strings.HasPrefix(line, "chain.validat") {
		// chain.validat <kind> <nbf> <exp> <t>: the property fixes the answer STRICTLY inside and strictly outside the window; at
		// an instant that equals a bound it says nothing (inclusive and exclusive bounds both satisfy it), so nothing is compared
		if f := strings.Fields(line); len(f) >= 5 && (f[4] == f[2] || f[4] == f[3]) {
			return ""
		}
		if g != m {
			return "IsValidAt differs"
		}
		return ""
	}
	if strings.HasPrefix(line, "go.chain.sharedpolicies") {
		if g != "ok" {
			return "go-allows-model-denies:policy" // a statement of a chain stopped binding (or a delegation was changed)
		}
		return ""
	}
	if strings.HasPrefix(line, "go.chain.sharedproofs") {
		if g != "ok" {
			return "go-allows-model-denies:command,principal" // a chain that widens / breaks was allowed because of an earlier one
		}
		return ""
	}
	if strings.HasPrefix(line, "chain.history") {
		gs, ms := strings.Split(g, ";"), strings.Split(m, ";")
		if len(gs) != len(ms) {
			return "harness/model error: step counts differ: " + g + " / " + m
		}
		for i := range gs {
			if d := cmpChain("chain.allowed", gs[i], ms[i]); d != "" {
				return d
			}
		}
		return ""
	}
	if strings.HasPrefix(g, "multi:") {
		// the same token gave different verdicts (again / identity hook): each is held against the model
		for _, gi := range strings.Split(strings.TrimPrefix(g, "multi:"), "|") {
			if d := cmpChain(line, gi, m); d != "" {
				return d
			}
		}
		return ""
	}
	gok, mok := g == "ok", m == "ok"
	if strings.HasPrefix(g, "bad") || strings.HasPrefix(m, "bad") || m == "driver-inconsistent" || g == "panic" {
		return "harness/model error: " + g + " / " + m
	}
	switch {
	case gok && !mok:
		return "go-allows-model-denies:" + strings.TrimPrefix(m, "deny ")
	case !gok && mok:
		return "model-allows-go-denies"
	}
	return ""
}

// ---- principals (deterministic pool, independent of the run seed)

type principal struct {
	priv crypto.PrivKey
	did  did.DID
}

var pool []principal

type detReader struct{ s uint64 }

func (r *detReader) Read(p []byte) (int, error) {
	for i := range p {
		r.s = r.s*6364136223846793005 + 1442695040888963407
		p[i] = byte(r.s >> 56)
	}
	return len(p), nil
}

func principals() []principal {
	if pool != nil {
		return pool
	}
	rd := &detReader{s: 42}
	for i := 0; i < 5; i++ {
		priv, pub, err := crypto.GenerateEd25519Key(rd)
		if err != nil {
			panic(err)
		}
		d, err := did.FromPubKey(pub)
		if err != nil {
			panic(err)
		}
		pool = append(pool, principal{priv, d})
	}
	// twins: principal 5+k has the key BYTES of principal k under another key-type multicodec (P-256, 0x1200).
	// did.Parse does not look at the key material, so these are well-formed DIDs; they have no private key
	// and appear only where a principal is named (subject, audience), never as an issuer. To the model they
	// are simply other principals: a validator that compares key bytes only would confuse them with k.
	for k := 0; k < 5; k++ {
		raw, err := pool[k].priv.GetPublic().Raw()
		if err != nil {
			panic(err)
		}
		d, err := did.Parse("did:key:z" + base58.Encode(append([]byte{0x80, 0x24}, raw...)))
		if err != nil {
			panic(err)
		}
		pool = append(pool, principal{nil, d})
	}
	// principals of the other key algorithms (10 RSA, 11 P-256, 12 secp256k1): their identifiers are long, or
	// have several possible spellings; decoded tokens carry the parsed identifier, constructed ones the built one
	for _, alg := range []string{"rsa", "p256", "secp256k1"} {
		k := keyFor(alg, 3)
		pool = append(pool, principal{k.priv, k.did})
	}
	// case twins: principal 13+k is the identifier of principal k with the case of ONE letter flipped (base58 is case-sensitive:
	// another byte string, hence another principal — one that has no key here; like the twins above it appears only where a
	// principal is named). did.Parse accepts it as long as the multicodec prefix survives.
	for k := 0; k < 5; k++ {
		txt := pool[k].did.String()
		var twin did.DID
		found := false
		for i := len(txt) - 1; i > len("did:key:z")+4 && !found; i-- {
			c := txt[i]
			var f byte
			switch {
			case c >= 'a' && c <= 'z':
				f = c - 'a' + 'A'
			case c >= 'A' && c <= 'Z':
				f = c - 'A' + 'a'
			default:
				continue
			}
			if d, err := did.Parse(txt[:i] + string(f) + txt[i+1:]); err == nil && d != pool[k].did && strings.EqualFold(d.String(), txt) {
				twin, found = d, true
			}
		}
		if !found {
			panic("no case twin for principal " + fmt.Sprint(k))
		}
		pool = append(pool, principal{nil, twin})
	}
	return pool
}

// ---- building real tokens from the abstract scenario

type mapLoader map[cid.Cid]*delegation.Token

func (l mapLoader) GetDelegation(c cid.Cid) (*delegation.Token, error) {
	t, ok := l[c]
	if !ok {
		return nil, delegation.ErrDelegationNotFound
	}
	return t, nil
}

// failingLoader reports, for the listed CIDs, an error that is not ErrDelegationNotFound (an I/O failure, a revocation
// service that is down …) — with or without the token it holds.
type failingLoader struct {
	inner     mapLoader
	failing   map[cid.Cid]bool
	withToken map[cid.Cid]bool
}

var errLoaderIO = errors.New("loader: backing store unavailable")

func (l failingLoader) GetDelegation(c cid.Cid) (*delegation.Token, error) {
	if l.failing[c] {
		if l.withToken[c] {
			return l.inner[c], errLoaderIO
		}
		return nil, errLoaderIO
	}
	return l.inner.GetDelegation(c)
}

type sealedDlg struct {
	tok *delegation.Token // decoded from the sealed bytes
	cid cid.Cid
	raw *delegation.Token // as the constructor returned it (never sealed: sub-second bounds, caller's slices)
}

var dlgCache = map[string]sealedDlg{}

func optOffset(s string) (*time.Duration, error) {
	if s == "-" {
		return nil, nil
	}
	v, err := strconv.ParseInt(s, 10, 64)
	if err != nil {
		return nil, err
	}
	d := time.Duration(v) * time.Second
	return &d, nil
}

// buildDlg builds, seals and decodes the delegation described by "iss~aud~sub~cmdhex~policy~nbf~exp".
func buildDlg(desc string) (sealedDlg, error) {
	f := strings.Split(desc, "~")
	if s, ok := dlgCache[desc]; ok && !(len(f) == 7 && f[5] == "0") { // a not-before of "now" is built afresh each time
		return s, nil
	}
	if len(f) != 7 {
		return sealedDlg{}, fmt.Errorf("bad delegation record %q", desc)
	}
	ps := principals()
	iss, _ := strconv.Atoi(f[0])
	aud, _ := strconv.Atoi(f[1])
	var opts []delegation.Option
	if f[2] != "-" {
		sub, _ := strconv.Atoi(f[2])
		opts = append(opts, delegation.WithSubject(ps[sub].did))
	}
	cmd, err := command.Parse(unhx(f[3]))
	if err != nil {
		return sealedDlg{}, err
	}
	pol, cerr, perr := buildPolicy(f[4])
	if perr != nil || cerr != nil {
		return sealedDlg{}, fmt.Errorf("bad policy %v %v", perr, cerr)
	}
	nbf, err := optOffset(f[5])
	if err != nil {
		return sealedDlg{}, err
	}
	exp, err := optOffset(f[6])
	if err != nil {
		return sealedDlg{}, err
	}
	if nbf != nil {
		opts = append(opts, delegation.WithNotBeforeIn(*nbf))
	}
	if exp != nil {
		opts = append(opts, delegation.WithExpirationIn(*exp))
	}
	tkn, err := delegation.New(ps[iss].did, ps[aud].did, cmd, pol, opts...)
	if err != nil {
		return sealedDlg{}, err
	}
	if ps[iss].priv == nil {
		// an issuer the harness has no key for (a DID that parses but holds no extractable key): the delegation exists as a
		// constructed value only, filed under a link derived from its description (the validator never sees sealed bytes)
		h := sha256.Sum256([]byte("keyless:" + desc))
		mh, _ := multihash.Encode(h[:], multihash.SHA2_256)
		s := sealedDlg{tkn, cid.NewCidV1(0x71, mh), tkn}
		dlgCache[desc] = s
		return s, nil
	}
	data, c, err := tkn.ToSealed(ps[iss].priv)
	if err != nil {
		return sealedDlg{}, err
	}
	dec, c2, err := delegation.FromSealed(data)
	if err != nil {
		return sealedDlg{}, err
	}
	if c != c2 {
		return sealedDlg{}, fmt.Errorf("cid mismatch between seal and unseal")
	}
	s := sealedDlg{dec, c, tkn}
	dlgCache[desc] = s
	return s, nil
}

// variantCid is another CID over the same digest: raw codec, dag-pb codec, or CIDv0. No loader has it.
func variantCid(c cid.Cid, i int) cid.Cid {
	switch i % 3 {
	case 0:
		return cid.NewCidV1(cid.Raw, c.Hash())
	case 1:
		return cid.NewCidV1(cid.DagProtobuf, c.Hash())
	}
	return cid.NewCidV0(c.Hash())
}

func unknownCid(i int) cid.Cid {
	h, _ := multihash.Sum([]byte("unknown-"+strconv.Itoa(i)), multihash.SHA2_256, -1)
	return cid.NewCidV1(cid.DagCBOR, h)
}

func argsFromNode(n datamodel.Node) (*args.Args, error) {
	a := args.New()
	if n.Kind() != datamodel.Kind_Map {
		return nil, fmt.Errorf("arguments must be a map")
	}
	it := n.MapIterator()
	for !it.Done() {
		k, v, err := it.Next()
		if err != nil {
			return nil, err
		}
		ks, _ := k.AsString()
		if err := a.Add(ks, v); err != nil {
			if strings.Contains(err.Error(), "exceeds safe") || strings.Contains(err.Error(), "out of range") {
				// a value Add refuses for its size: the caller assembles the Args value by hand (the fields are exported)
				a.Keys = append(a.Keys, ks)
				a.Values[ks] = v
				continue
			}
			return nil, err
		}
	}
	return a, nil
}

func classOf(err error) string {
	switch {
	case err == nil:
		return "ok"
	case errors.Is(err, invocation.ErrNoProof):
		return "deny noProof"
	case errors.Is(err, invocation.ErrMissingDelegation):
		return "deny missing"
	case errors.Is(err, invocation.ErrWrongSub):
		return "deny wrongSub"
	case errors.Is(err, invocation.ErrBrokenChain):
		return "deny brokenChain"
	case errors.Is(err, invocation.ErrCommandNotCovered):
		return "deny command"
	case errors.Is(err, invocation.ErrLastNotRoot):
		return "deny lastNotRoot"
	case errors.Is(err, invocation.ErrTokenInvalidNow):
		return "deny time"
	case errors.Is(err, invocation.ErrPolicyNotSatisfied):
		return "deny policy"
	}
	return "deny other"
}

var errHook = errors.New("hook failed")

// sharedProofs: the caller keeps using (and changing) the proof slice it handed to invocation.New — the next invocation is
// built from the same backing array with one link replaced, or from a shared prefix extended twice. Each invocation is decided
// on the proofs IT names at the time of the check: a chain that widens the command or breaks the alignment is refused whatever
// was validated before.
func sharedProofs() (out string) {
	defer func() {
		if r := recover(); r != nil {
			out = fmt.Sprint("panic ", r)
		}
	}()
	ps := principals()
	mk := func(desc string) sealedDlg {
		d, err := buildDlg(desc)
		if err != nil {
			panic(err)
		}
		return d
	}
	// 0 → 1 → 2, subject 0
	for round := 0; round < 3; round++ {
		// (commands of this check's own, different in every round: these delegations have not been seen by any earlier validation)
		base := fmt.Sprintf("/shared-proofs-%d-%d", round, time.Now().UnixNano()%1000003)
		root := mk("0~1~0~" + hxs(base) + "~P()~-~-")
		leaf := mk("1~2~0~" + hxs(base) + "~P()~-~-")
		narrowRoot := mk("0~1~0~" + hxs(base+"/bar") + "~P()~-~-") // under it, the leaf's command is a widening
		foreignRoot := mk("3~1~3~" + hxs(base) + "~P()~-~-")       // another subject: the chain is not the subject's
		loader := mapLoader{root.cid: root.tok, leaf.cid: leaf.tok, narrowRoot.cid: narrowRoot.tok, foreignRoot.cid: foreignRoot.tok}
		cmd := command.MustParse(base)
		prf := make([]cid.Cid, 0, 8)
		prf = append(prf, leaf.cid, root.cid)
		good, err := invocation.New(ps[2].did, ps[0].did, cmd, prf)
		if err != nil {
			return "fixture: " + err.Error()
		}
		if err := good.ExecutionAllowed(loader); err != nil {
			return "a conforming chain is refused: " + err.Error()
		}
		// the caller rewrites its slice for the next invocation
		prf[1] = narrowRoot.cid
		wide, err := invocation.New(ps[2].did, ps[0].did, cmd, prf)
		if err != nil {
			return "fixture: " + err.Error()
		}
		if err := wide.ExecutionAllowed(loader); err == nil {
			return "after a conforming chain was validated, a chain whose leaf widens the root's command is allowed (the caller reused its proof slice)"
		}
		prf[1] = foreignRoot.cid
		foreign, err := invocation.New(ps[2].did, ps[0].did, cmd, prf)
		if err != nil {
			return "fixture: " + err.Error()
		}
		if err := foreign.ExecutionAllowed(loader); err == nil {
			return "after a conforming chain was validated, a chain rooted at another subject is allowed (the caller reused its proof slice)"
		}
		// two proof lists grown from one shared prefix with spare capacity
		prefix := make([]cid.Cid, 0, 4)
		prefix = append(prefix, leaf.cid)
		a := append(prefix, root.cid)
		ia, err := invocation.New(ps[2].did, ps[0].did, cmd, a)
		if err != nil {
			return "fixture: " + err.Error()
		}
		if err := ia.ExecutionAllowed(loader); err != nil {
			return "a conforming chain is refused: " + err.Error()
		}
		b := append(prefix, narrowRoot.cid) // overwrites a[1] in the shared backing array
		ib, err := invocation.New(ps[2].did, ps[0].did, cmd, b)
		if err != nil {
			return "fixture: " + err.Error()
		}
		if err := ib.ExecutionAllowed(loader); err == nil {
			return "a widening chain is allowed after a conforming one was validated (two proof lists sharing a backing array)"
		}
	}
	return "ok"
}

// sharedPolicies: delegations built in this process from policy slices that share one backing array (each policy is
// the previous one with a statement appended). Validating an invocation under one chain must not change what another
// delegation demands: the admin chain refuses arguments that violate its own statement before and after.
func sharedPolicies() (out string) {
	defer func() {
		if r := recover(); r != nil {
			out = fmt.Sprint("panic ", r)
		}
	}()
	ps := principals()
	stmt := func(sel string, v int64) policy.Policy {
		return policy.MustConstruct(policy.LessThanOrEqual(sel, basicInt(v)))
	}
	base := make(policy.Policy, 0, 8)
	rootPol := append(base, stmt(".a?", 100)...)
	editorPol := append(rootPol, stmt(".b?", 100)...)
	adminPol := append(editorPol, stmt(".c?", 100)...)
	cmd := command.MustParse("/shared")
	root, err := delegation.Root(ps[0].did, ps[1].did, cmd, rootPol)
	if err != nil {
		return "fixture: " + err.Error()
	}
	editor, err := delegation.New(ps[1].did, ps[2].did, cmd, editorPol, delegation.WithSubject(ps[0].did))
	if err != nil {
		return "fixture: " + err.Error()
	}
	admin, err := delegation.New(ps[1].did, ps[3].did, cmd, adminPol, delegation.WithSubject(ps[0].did))
	if err != nil {
		return "fixture: " + err.Error()
	}
	cidOf := func(t *delegation.Token, k crypto.PrivKey) cid.Cid {
		_, c, err := t.ToSealed(k)
		if err != nil {
			panic(err)
		}
		return c
	}
	rc, ec, ac := cidOf(root, ps[0].priv), cidOf(editor, ps[1].priv), cidOf(admin, ps[1].priv)
	loader := mapLoader{rc: root, ec: editor, ac: admin}
	adminBefore := admin.Policy().String()
	mk := func(iss int, leaf cid.Cid, key string, v int64) *invocation.Token {
		t, err := invocation.New(ps[iss].did, ps[0].did, cmd, []cid.Cid{leaf, rc}, invocation.WithArgument(key, v))
		if err != nil {
			panic(err)
		}
		return t
	}
	bad := mk(3, ac, "c", 1000) // violates the admin delegation's own statement
	good := mk(2, ec, "b", 1)
	if err := bad.ExecutionAllowed(loader); err == nil {
		return "the admin chain allows arguments that violate its statement (before anything else was validated)"
	}
	for i := 0; i < 3; i++ {
		if err := good.ExecutionAllowed(loader); err != nil {
			return "the editor chain refuses conforming arguments: " + err.Error()
		}
		if err := bad.ExecutionAllowed(loader); err == nil {
			return "after an invocation of the editor chain was validated, the admin chain allows arguments that violate its statement"
		}
	}
	if after := admin.Policy().String(); after != adminBefore {
		return "validating invocations changed the policy of a delegation that was only read"
	}
	return "ok"
}

var otherInv *invocation.Token
var otherLoader mapLoader

// otherInvocation is a fixed, valid invocation with a two-link chain over principals 4 → 3 → 2 and other commands.
func otherInvocation() (*invocation.Token, mapLoader) {
	if otherInv != nil {
		return otherInv, otherLoader
	}
	ps := principals()
	root, err := buildDlg("4~3~4~" + hxs("/other") + "~P()~-~-")
	if err != nil {
		panic(err)
	}
	leaf, err := buildDlg("3~2~4~" + hxs("/other/x") + "~P()~-~-")
	if err != nil {
		panic(err)
	}
	otherLoader = mapLoader{root.cid: root.tok, leaf.cid: leaf.tok}
	otherInv, err = invocation.New(ps[2].did, ps[4].did, command.MustParse("/other/x/y"), []cid.Cid{leaf.cid, root.cid})
	if err != nil {
		panic(err)
	}
	return otherInv, otherLoader
}

func evalChain(line string) (out string, rd string) {
	defer func() {
		if r := recover(); r != nil {
			out = "panic"
		}
	}()
	f := strings.Fields(line)
	if f[0] == "chain.validat" {
		return evalValidAt(f), line
	}
	if f[0] == "go.chain.sharedpolicies" {
		return sharedPolicies(), line
	}
	if f[0] == "go.chain.sharedproofs" {
		return sharedProofs(), line
	}
	if f[0] == "chain.history" {
		h, err := newHistory(f)
		if err != nil {
			return "bad-history " + err.Error(), line
		}
		h.runUntilSleep()
		h.sleepPastShortBounds()
		h.runRest()
		return h.result(), line
	}
	rd = line
	// f: chain.allowed inv prf dlgs now args hook [irrelevant]
	ps := principals()
	var table []sealedDlg
	loader := mapLoader{}
	rawDlg := len(f) > 7 && strings.Contains(f[7], "rawdlg")
	if f[3] != "-" {
		for _, d := range strings.Split(f[3], "#") {
			s, err := buildDlg(d)
			if err != nil {
				return "bad-dlg " + err.Error(), rd
			}
			table = append(table, s)
			loader[s.cid] = s.tok
			if rawDlg {
				loader[s.cid] = s.raw // the token as constructed, not as decoded
			}
		}
	}
	var prf []cid.Cid
	failing := map[cid.Cid]bool{} // proofs for which the loader reports a failure of its own (not "not found")
	withToken := map[cid.Cid]bool{}
	if f[2] != "-" {
		for i, p := range strings.Split(f[2], ".") {
			if p == "x" {
				prf = append(prf, unknownCid(i))
				continue
			}
			if strings.HasPrefix(p, "e") || strings.HasPrefix(p, "n") {
				// eK: the loader holds delegation K but reports an error of its own TOGETHER with it; nK: it reports that
				// error and no token. Either way the delegation could not be obtained.
				k, _ := strconv.Atoi(p[1:])
				prf = append(prf, table[k].cid)
				failing[table[k].cid] = true
				withToken[table[k].cid] = p[0] == 'e'
				continue
			}
			if strings.HasPrefix(p, "v") {
				k, _ := strconv.Atoi(p[1:])
				prf = append(prf, variantCid(table[k].cid, i))
				continue
			}
			k, _ := strconv.Atoi(p)
			prf = append(prf, table[k].cid)
		}
	}
	iv := strings.Split(f[1], ",")
	iss, _ := strconv.Atoi(iv[0])
	sub, _ := strconv.Atoi(iv[1])
	cmd, err := command.Parse(unhx(iv[3]))
	if err != nil {
		return "bad-cmd", rd
	}
	var opts []invocation.Option
	if iv[2] != "-" {
		a, _ := strconv.Atoi(iv[2])
		opts = append(opts, invocation.WithAudience(ps[a].did))
	}
	exp, err := optOffset(iv[4])
	if err != nil {
		return "bad-exp", rd
	}
	if exp != nil {
		opts = append(opts, invocation.WithExpirationIn(*exp))
	}
	an, err := parseNode(f[5])
	if err != nil {
		return "bad-args", rd
	}
	a, err := argsFromNode(an)
	if err != nil {
		return "bad-args " + err.Error(), rd
	}
	// how the invoker puts the arguments together is irrelevant to authorization as well: one WithArguments (the default), a
	// WithArguments for the first half followed by a WithArgument for each of the others ("argsplit"), a WithArgument for each
	// ("argeach"), two WithArguments ("argtwice") — the token holds the same arguments, in the same order, each time
	how := ""
	if len(f) > 7 {
		for _, o := range strings.Split(f[7], ",") {
			if strings.HasPrefix(o, "arg") {
				how = o
			}
		}
	}
	half := func(from, to int) *args.Args {
		h := args.New()
		for _, k := range a.Keys[from:to] {
			h.Keys = append(h.Keys, k)
			h.Values[k] = a.Values[k]
		}
		return h
	}
	n := len(a.Keys)
	switch how {
	case "argsplit":
		opts = append(opts, invocation.WithArguments(half(0, n/2)))
		for _, k := range a.Keys[n/2:] {
			opts = append(opts, invocation.WithArgument(k, a.Values[k]))
		}
	case "argeach":
		for _, k := range a.Keys {
			opts = append(opts, invocation.WithArgument(k, a.Values[k]))
		}
	case "argtwice":
		opts = append(opts, invocation.WithArguments(half(0, n/2)), invocation.WithArguments(half(n/2, n)))
	default:
		opts = append(opts, invocation.WithArguments(a))
	}
	// fields irrelevant to authorization: meta, nonce, cause, iat
	if len(f) > 7 {
		for _, o := range strings.Split(f[7], ",") {
			switch o {
			case "meta":
				opts = append(opts, invocation.WithMeta("k", "v"))
			case "nonce":
				opts = append(opts, invocation.WithNonce([]byte("0123456789abcdef")))
			case "cause":
				c := unknownCid(99)
				opts = append(opts, invocation.WithCause(&c))
			case "emptynonce":
				opts = append(opts, invocation.WithEmptyNonce())
			case "noiat":
				opts = append(opts, invocation.WithoutInvokedAt())
			case "iat":
				opts = append(opts, invocation.WithInvokedAtIn(-time.Hour*24*365))
			case "iatfuture":
				opts = append(opts, invocation.WithInvokedAtIn(3*time.Hour))
			}
		}
	}
	inv, err := invocation.New(ps[iss].did, ps[sub].did, cmd, prf, opts...)
	if err != nil {
		return "bad-inv " + err.Error(), rd
	}
	// the caller keeps using the Args value it handed to the constructor: the token must not change with it
	before := inv.Arguments().String()
	_ = a.Add("zz-added-by-the-caller-afterwards", int64(1000))
	if after := inv.Arguments().String(); after != before {
		return "bad-token-shares-the-callers-arguments", rd
	}
	if len(failing) > 0 {
		return "multi:" + classOf(inv.ExecutionAllowed(failingLoader{loader, failing, withToken})) + "|" + classOf(inv.ExecutionAllowedWithArgsHook(failingLoader{loader, failing, withToken},
			func(a args.ReadOnly) (*args.Args, error) { return a.WriteableClone(), nil })), rd
	}
	switch f[6] {
	case "-":
		// the decision, asked three ways on the same token: twice in a row (a verdict must not depend on an
		// earlier call) and through the hook entry point with a hook that hands back the arguments unchanged
		v1 := classOf(inv.ExecutionAllowed(loader))
		v2 := classOf(inv.ExecutionAllowed(loader))
		v3 := classOf(inv.ExecutionAllowedWithArgsHook(loader, func(a args.ReadOnly) (*args.Args, error) { return a.WriteableClone(), nil }))
		// … and with a hook that, before answering, validates an unrelated (allowed) invocation: one validation
		// running inside another must not disturb it
		oi, ol := otherInvocation()
		v4 := classOf(inv.ExecutionAllowedWithArgsHook(loader, func(a args.ReadOnly) (*args.Args, error) {
			if err := oi.ExecutionAllowed(ol); err != nil {
				return nil, fmt.Errorf("the unrelated invocation was refused: %w", err)
			}
			return a.WriteableClone(), nil
		}))
		// … and with a hook that validates the "repaired twin" of this very invocation: same principals, every
		// command "/", no policies, no time bounds (what one validation loads must not leak into another)
		v5 := v1
		if f[3] != "-" && f[2] != "-" {
			var tprf []cid.Cid
			tl := mapLoader{}
			okTwin := true
			var tcids []cid.Cid
			for _, d := range strings.Split(f[3], "#") {
				p := strings.Split(d, "~")
				if len(p) != 7 {
					okTwin = false
					break
				}
				p[3], p[4], p[5], p[6] = hxs("/"), "P()", "-", "-"
				td, err := buildDlg(strings.Join(p, "~"))
				if err != nil {
					okTwin = false
					break
				}
				tl[td.cid] = td.tok
				tcids = append(tcids, td.cid)
			}
			if okTwin {
				for _, p := range strings.Split(f[2], ".") {
					if k, err := strconv.Atoi(p); err == nil && k < len(tcids) {
						tprf = append(tprf, tcids[k])
					}
				}
				if twin, err := invocation.New(ps[iss].did, ps[sub].did, command.Top(), tprf); err == nil {
					v5 = classOf(inv.ExecutionAllowedWithArgsHook(loader, func(a args.ReadOnly) (*args.Args, error) {
						_ = twin.ExecutionAllowed(tl)
						return a.WriteableClone(), nil
					}))
				}
			}
		}
		if (v1 == "ok") != (v2 == "ok") || (v1 == "ok") != (v3 == "ok") || (v1 == "ok") != (v4 == "ok") || (v1 == "ok") != (v5 == "ok") {
			return "multi:" + v1 + "|" + v2 + "|" + v3 + "|" + v4 + "|" + v5, rd
		}
		return v1, rd
	case "!":
		return classOf(inv.ExecutionAllowedWithArgsHook(loader, func(args.ReadOnly) (*args.Args, error) { return nil, errHook })), rd
	default:
		hn, err := parseNode(f[6])
		if err != nil {
			return "bad-hook", rd
		}
		ha, err := argsFromNode(hn)
		if err != nil {
			return "bad-hook " + err.Error(), rd
		}
		return classOf(inv.ExecutionAllowedWithArgsHook(loader, func(args.ReadOnly) (*args.Args, error) { return ha, nil })), rd
	}
}

// chain.validat <dlg|inv> <nbf ns|-> <exp ns|-> <t ns>: IsValidAt of a constructed token
func evalValidAt(f []string) string {
	ps := principals()
	// instants are nanoseconds since 1970 as decimal text, possibly beyond int64
	inst := func(s string) time.Time {
		v, _ := new(big.Int).SetString(s, 10)
		sec, ns := new(big.Int).DivMod(v, big.NewInt(1e9), new(big.Int))
		return time.Unix(sec.Int64(), ns.Int64())
	}
	parse := func(s string) *time.Time {
		if s == "-" {
			return nil
		}
		t := inst(s)
		return &t
	}
	nbf, exp := parse(f[2]), parse(f[3])
	t := inst(f[4])
	if f[1] == "dlg" {
		var opts []delegation.Option
		if nbf != nil {
			opts = append(opts, delegation.WithNotBefore(*nbf))
		}
		if exp != nil {
			opts = append(opts, delegation.WithExpiration(*exp))
		}
		tkn, err := delegation.Root(ps[0].did, ps[1].did, command.Top(), nil, opts...)
		if err != nil {
			return "bad-dlg " + err.Error()
		}
		if (nbf != nil && !tkn.NotBefore().Equal(*nbf)) || (exp != nil && !tkn.Expiration().Equal(*exp)) {
			return "bad-bounds-altered"
		}
		return bstr(tkn.IsValidAt(t))
	}
	var opts []invocation.Option
	if exp != nil {
		opts = append(opts, invocation.WithExpiration(*exp))
	}
	tkn, err := invocation.New(ps[0].did, ps[0].did, command.Top(), nil, opts...)
	if err != nil {
		return "bad-inv " + err.Error()
	}
	if exp != nil && !tkn.Expiration().Equal(*exp) {
		return "bad-bounds-altered"
	}
	return bstr(tkn.IsValidAt(t))
}

// ---- scenario generation

type link struct {
	iss, aud, sub int // sub -1 = absent
	cmd, pol      string
	nbf, exp      string
}

func (l link) String() string {
	sub := "-"
	if l.sub >= 0 {
		sub = strconv.Itoa(l.sub)
	}
	pol := l.pol
	if pol == "" {
		pol = "P()"
	}
	nbf, exp := l.nbf, l.exp
	if nbf == "" {
		nbf = "-"
	}
	if exp == "" {
		exp = "-"
	}
	return fmt.Sprintf("%d~%d~%s~%s~%s~%s~%s", l.iss, l.aud, sub, hxs(l.cmd), pol, nbf, exp)
}

type scenario struct {
	iss, sub, aud int // aud -1 = absent
	cmd           string
	exp           string
	links         []link // proof order: links[0] was issued to the invoker
	prf           []string
	args, hook    string
	irr           string
}

func (s scenario) line() string {
	aud := "-"
	if s.aud >= 0 {
		aud = strconv.Itoa(s.aud)
	}
	exp := s.exp
	if exp == "" {
		exp = "-"
	}
	var ds []string
	for _, l := range s.links {
		ds = append(ds, l.String())
	}
	dl := "-"
	if len(ds) > 0 {
		dl = strings.Join(ds, "#")
	}
	prf := s.prf
	if prf == nil {
		for i := range s.links {
			prf = append(prf, strconv.Itoa(i))
		}
	}
	pr := "-"
	if len(prf) > 0 {
		pr = strings.Join(prf, ".")
	}
	a := s.args
	if a == "" {
		a = "m()"
	}
	h := s.hook
	if h == "" {
		h = "-"
	}
	irr := s.irr
	if irr == "" {
		irr = "none"
	}
	return fmt.Sprintf("chain.allowed %d,%d,%s,%s,%s %s %s 0 %s %s %s", s.iss, s.sub, aud, hxs(s.cmd), exp, pr, dl, a, h, irr)
}

func (c *ctx) emitScenario(s scenario, tag string) {
	c.emitG(s.line(), "chain", func(g string) bool { return len(s.links) > 0 },
		func(g string) []string { return []string{tag + ":" + strings.ReplaceAll(g, " ", "-")} })
}

// conforming returns a rule-conforming chain of n links: subject 0 is the root issuer, principals
// 0 → 1 → … → n (the invoker); all commands "/", no policy, no time bounds.
func conforming(n int) scenario {
	s := scenario{iss: n % 5, sub: 0, aud: -1, cmd: "/"}
	// principals along the chain: p[0]=subject ... p[n]=invoker, drawn from the pool of 5 cyclically
	for i := 0; i < n; i++ {
		// links[0] is issued to the invoker: issuer p[n-1], audience p[n]
		s.links = append(s.links, link{iss: (n - 1 - i) % 5, aud: (n - i) % 5, sub: 0, cmd: "/"})
	}
	return s
}

var cmdLattice = []string{"/", "/foo", "/foo/bar", "/foobar", "/foo/baz", "/fo"}
var timeChoices = []string{"", "-7200", "7200"}
var argMaps = []string{"m()", "m(61:i1)", "m(61:i2,62:s78)", "m(61:i1,62:s78,6c:l(i1,i2))"}
var polChoices = []string{"", "P(ceq(" + "2e61" + ",i1))", "P(ceq(2e62,s78))", "P(cgt(2e61,i1))", "P(ceq(2e613f,i1))", "P(A(2e6c,cgt(2e,i0)))", "P(ceq(2e61,i1);ceq(2e62,s78))",
	"P(cle(" + hxs(".zz.a?") + ",i10))", "P(A(" + hxs(".b[]?") + ",k(2e,2a)))"}
var irrChoices = []string{"none", "meta", "nonce", "cause", "noiat", "iat", "meta,nonce,cause,iat", "emptynonce", "emptynonce,noiat", "iatfuture", "rawdlg", "argsplit", "argeach", "argtwice", "argsplit,meta", "argtwice,rawdlg"}

func runChainStream(c *ctx) error {
	principals()
	k := 2
	if c.thoro {
		k = 3
	}
	// (1) principals, exhaustive over 3 principals and an absent subject
	var dl []link
	for iss := 0; iss < 3; iss++ {
		for aud := 0; aud < 3; aud++ {
			for sub := -1; sub < 3; sub++ {
				dl = append(dl, link{iss: iss, aud: aud, sub: sub, cmd: "/"})
			}
		}
	}
	var rec func(cur []link, left int)
	n := 0
	rec = func(cur []link, left int) {
		for iss := 0; iss < 3; iss++ {
			for sub := 0; sub < 3; sub++ {
				n++
				s := scenario{iss: iss, sub: sub, aud: (n % 5) - 1, cmd: "/", links: cur}
				if s.aud >= 3 {
					s.aud = 3 // a stranger
				}
				c.emitScenario(s, "principals")
			}
		}
		if left == 0 {
			return
		}
		for _, d := range dl {
			rec(append(append([]link(nil), cur...), d), left-1)
		}
	}
	rec(nil, k)
	// (2) command lattice on conforming chains
	for n := 1; n <= 3; n++ {
		idx := make([]int, n+1)
		for {
			s := conforming(n)
			s.cmd = cmdLattice[idx[0]]
			for i := 0; i < n; i++ {
				s.links[i].cmd = cmdLattice[idx[i+1]]
			}
			c.emitScenario(s, "commands")
			j := 0
			for j <= n {
				idx[j]++
				if idx[j] < len(cmdLattice) {
					break
				}
				idx[j] = 0
				j++
			}
			if j > n {
				break
			}
		}
	}
	// (3) time bounds on conforming chains
	for n := 1; n <= 3; n++ {
		tot := 3
		for i := 0; i < n; i++ {
			tot *= 9
		}
		if n == 3 && !c.thoro {
			continue
		}
		for code := 0; code < tot; code++ {
			s := conforming(n)
			x := code
			s.exp = timeChoices[x%3]
			x /= 3
			for i := 0; i < n; i++ {
				s.links[i].nbf = timeChoices[x%3]
				x /= 3
				s.links[i].exp = timeChoices[x%3]
				x /= 3
			}
			c.emitScenario(s, "time")
		}
	}
	// (4) policies on conforming chains, with and without hooks
	for n := 1; n <= 3; n++ {
		tot := 1
		for i := 0; i < n; i++ {
			tot *= len(polChoices)
		}
		for code := 0; code < tot; code++ {
			for ai, a := range argMaps {
				s := conforming(n)
				x := code
				for i := 0; i < n; i++ {
					s.links[i].pol = polChoices[x%len(polChoices)]
					x /= len(polChoices)
				}
				s.args = a
				c.emitScenario(s, "policy")
				if n == 1 || code%7 == 0 {
					// the same arguments put together in another way by the invoker (several options instead of one)
					for _, how := range []string{"argsplit", "argeach", "argtwice"} {
						v := s
						v.irr = how
						c.emitScenario(v, "policy-args-assembly")
					}
				}
				if code%5 == 0 {
					// the hook's result decides, whatever the token's own arguments are
					h := s
					h.hook = argMaps[(ai+1+code)%len(argMaps)]
					c.emitScenario(h, "hook")
					if code%35 == 0 {
						h.hook = "!"
						c.emitScenario(h, "hook")
					}
				}
			}
		}
	}
	// (2b) every ordered pair of valid commands over {/,a,b} up to a length, as (delegated, invoked) of a one-link
	// chain and as (root, leaf) of a two-link chain whose leaf equals the invoked command, all decided in this one
	// process one after the other (an answer remembered under a lossy key shows up as a wrong later answer)
	{
		maxc := 4
		if c.thoro {
			maxc = 5
		}
		var cmds []string
		var gen func(cur string)
		gen = func(cur string) {
			if len(cur) >= 1 && (cur == "/" || cur[len(cur)-1] != '/') {
				cmds = append(cmds, cur)
			}
			if len(cur) == maxc {
				return
			}
			for _, ch := range "/ab" {
				gen(cur + string(ch))
			}
		}
		gen("/")
		for _, d := range cmds {
			for _, o := range cmds {
				s := conforming(1)
				s.links[0].cmd = d
				s.cmd = o
				c.emitScenario(s, "command-pairs")
			}
		}
		for i, d := range cmds {
			for j, o := range cmds {
				if (i+j)%3 != 0 && !c.thoro {
					continue
				}
				s := conforming(2)
				s.links[1].cmd = d
				s.links[0].cmd = o
				s.cmd = o
				c.emitScenario(s, "command-pairs")
			}
		}
	}
	// (4b) optional selectors over a missing, a null and a present value, for every operator, at every link of 1- and 2-link
	// chains: a statement over missing OPTIONAL data passes (every operator alike), one over a null value is evaluated on null
	// (the arguments keep their null entries), and the verdict is the conjunction over all links
	{
		zq := hxs(".z?")
		optPols := []string{
			"P(ceq(" + zq + ",i10))", "P(cgt(" + zq + ",i10))", "P(cge(" + zq + ",i10))", "P(clt(" + zq + ",i10))", "P(cle(" + zq + ",i10))",
			"P(k(" + zq + "," + hxs("x*") + "))", "P(!(ceq(" + zq + ",i10)))", "P(A(" + zq + ",cgt(2e,i0)))", "P(E(" + zq + ",cgt(2e,i0)))",
			"P(cle(" + hxs(".z") + ",i10))", "P(cle(" + zq + ",i10);cge(" + hxs(".y?") + ",i1))",
			// one selector used twice: first where its failure does not decide (inside an `or` whose other branch holds), then required
			"P(|(ceq(" + hxs(".z") + ",i5);ceq(" + hxs(".y?") + ",i1));cle(" + hxs(".z") + ",i10))",
			"P(|(cle(" + hxs(".z") + ",i10);!(ceq(" + hxs(".q?") + ",i1)));cle(" + hxs(".z") + ",i10))",
			// a connective or quantifier with one operand over missing REQUIRED data and one over missing OPTIONAL data, no decisive one
			"P(&(ceq(" + hxs(".r") + ",i1);ceq(" + zq + ",i5)))", "P(&(ceq(" + zq + ",i5);ceq(" + hxs(".r") + ",i1)))",
			"P(|(ceq(" + hxs(".r") + ",i1);ceq(" + zq + ",i7)))", "P(|(ceq(" + zq + ",i7);ceq(" + hxs(".r") + ",i1)))",
			"P(A(" + hxs(".w") + ",&(ceq(" + hxs(".r") + ",i1);ceq(" + hxs(".o?") + ",i1))))",
		}
		optArgs := []string{"m()", "m(7a:n)", "m(7a:i5)", "m(7a:i50)", "m(79:n,7a:i5)", "m(7a:s78)", "m(7a:l(i1,i2))", "m(7a:l())", "m(79:i1)", "m(72:i1)", "m(72:i1,7a:i5)", "m(77:l(m(),m(72:i1)))"}
		for n := 1; n <= 2; n++ {
			for pos := 0; pos < n; pos++ {
				for _, pl := range optPols {
					for _, a := range optArgs {
						s := conforming(n)
						s.links[pos].pol = pl
						s.args = a
						c.emitScenario(s, "policy-optional")
						if n == 2 {
							t := conforming(n)
							t.links[pos].pol = pl
							t.links[1-pos].pol = optPols[4]
							t.args = a
							c.emitScenario(t, "policy-optional")
						}
					}
				}
			}
		}
		// statements over the WHOLE argument map (selector ".") and over the list of its values (".[]"), with the arguments handed
		// to the constructor in sorted and in unsorted order: the arguments are one map, however they were put together
		for _, pl := range []string{"P(ceq(2e,m(61:i1,62:s78)))", "P(ceq(2e5b5d,l(i1,s78)))", "P(!(ceq(2e,m(61:i1,62:s78))))"} {
			for _, a := range []string{"m(61:i1,62:s78)", "m(62:s78,61:i1)", "m(62:s78,61:i1,63:i0)", "m(63:i0,62:s78,61:i1)", "m(62:s78)", "m()"} {
				for n := 1; n <= 2; n++ {
					s := conforming(n)
					s.links[n-1].pol = pl
					s.args = a
					c.emitScenario(s, "policy-whole-args")
				}
			}
		}
		// arguments that hold an integer beyond int64 (only a hand-assembled Args value or an argument hook can supply one:
		// Add and the decoders refuse it): it is never ordered with, nor equal to, anything — at every link
		for _, pl := range []string{"P(clt(2e61,i100))", "P(cle(2e61,i0))", "P(cgt(2e61,i-1))", "P(cge(2e61,i-5))", "P(ceq(2e61,i-1))", "P(A(2e6c,clt(2e,i100)))", "P(!(clt(2e61,i100)))"} {
			for _, a := range []string{"m(61:i18446744073709551615)", "m(61:i9223372036854775808)", "m(6c:l(i1,i18446744073709551615))", "m(61:i5,6c:l(i1))"} {
				for n := 1; n <= 2; n++ {
					for pos := 0; pos < n; pos++ {
						s := conforming(n)
						s.links[pos].pol = pl
						s.args = a
						c.emitScenario(s, "policy-beyond-int64")
						h := conforming(n)
						h.links[pos].pol = pl
						h.args = "m(61:i5,6c:l(i1))"
						h.hook = a
						c.emitScenario(h, "policy-beyond-int64")
					}
				}
			}
		}
		// arguments that are not finite numbers (−Inf, +Inf, NaN; they cannot be sealed, so only the invocation's own arguments and
		// hook results can hold them): ordered with nothing
		for _, pl := range []string{"P(cle(2e61,d4059000000000000))", "P(clt(2e61,d4059000000000000))", "P(cge(2e61,dc059000000000000))", "P(cgt(2e61,dc059000000000000))", "P(ceq(2e61,d4059000000000000))"} {
			for _, a := range []string{"m(61:dfff0000000000000)", "m(61:d7ff0000000000000)", "m(61:d7ff8000000000001)", "m(61:d4049000000000000)"} {
				for n := 1; n <= 2; n++ {
					for pos := 0; pos < n; pos++ {
						s := conforming(n)
						s.links[pos].pol = pl
						s.args = a
						c.emitScenario(s, "policy-non-finite")
						h := conforming(n)
						h.links[pos].pol = pl
						h.args = "m(61:d4049000000000000)"
						h.hook = a
						c.emitScenario(h, "policy-non-finite")
					}
				}
			}
		}
		// slices of STRING arguments that hold multi-byte characters (a slice counts characters, not bytes)
		for _, pl := range []string{"P(!(ceq(" + hxs(".p[0:6]") + ",s" + hxsRaw("/café/") + ")))", "P(ceq(" + hxs(".p[0:6]") + ",s" + hxsRaw("/café/") + "))", "P(ceq(" + hxs(".p[1:3]") + ",s" + hxsRaw("ca") + "))",
			"P(ceq(" + hxs(".p[-3:]") + ",s" + hxsRaw("txt") + "))", "P(k(" + hxs(".p[:5]") + "," + hxs("/caf*") + "))", "P(ceq(" + hxs(".p[4:5]") + ",s" + hxsRaw("é") + "))"} {
			for _, a := range []string{"m(70:s" + hxsRaw("/café/menu.txt") + ")", "m(70:s" + hxsRaw("/cafe/menu.txt") + ")", "m(70:s" + hxsRaw("/日本/é.txt") + ")", "m(70:s" + hxsRaw("é") + ")"} {
				for n := 1; n <= 2; n++ {
					s := conforming(n)
					s.links[n-1].pol = pl
					s.args = a
					c.emitScenario(s, "policy-string-slice")
				}
			}
		}
		// neighbouring links whose policies have the same shape (one statement of one kind each) over different arguments
		for _, pair := range [][2]string{
			{"P(ceq(2e61,i1))", "P(ceq(2e62,s78))"}, {"P(cgt(2e61,i0))", "P(cgt(2e62,i0))"}, {"P(ceq(2e61,i1))", "P(ceq(2e61,i2))"},
			{"P(k(2e62," + hxs("x*") + "))", "P(k(2e63," + hxs("y*") + "))"},
			// the same statement over values of different KINDS that print alike: integer 100 / float 100.0, bytes "abc" / the
			// map DAG-JSON writes for them
			{"P(cle(2e61,i100))", "P(cle(2e61,d4059000000000000))"}, {"P(ceq(2e61,i100))", "P(ceq(2e61,d4059000000000000))"},
			{"P(ceq(2e61,b616263))", "P(ceq(2e61,m(2f:m(6279746573:s59574a6a))))"},
		} {
			for _, a := range []string{"m(61:i1,62:s78)", "m(61:i1,62:s79)", "m(61:i2,62:s78)", "m(61:i1,62:i5)", "m(61:i1,62:i0)", "m(61:i1,62:s78,63:s79)", "m(61:i1,62:s78,63:s78)",
				"m(61:d4049400000000000)", "m(61:i50)", "m(61:i100)", "m(61:d4059000000000000)", "m(61:b616263)", "m(61:m(2f:m(6279746573:s59574a6a)))"} {
				for n := 2; n <= 3; n++ {
					for pos := 0; pos+1 < n; pos++ {
						s := conforming(n)
						s.links[pos].pol, s.links[pos+1].pol = pair[0], pair[1]
						s.args = a
						c.emitScenario(s, "policy-neighbours")
						s2 := conforming(n)
						s2.links[pos].pol, s2.links[pos+1].pol = pair[1], pair[0]
						s2.args = a
						c.emitScenario(s2, "policy-neighbours")
					}
				}
			}
		}
	}
	// (3c) bounds a long way off: expirations some 285 years ahead (beyond what a nanosecond count in 64 bits can hold) and
	// not-before bounds as far back, on the invocation and on each link of conforming chains: still valid now
	for n := 1; n <= 3; n++ {
		for pos := -1; pos < n; pos++ {
			s := conforming(n)
			if pos < 0 {
				s.exp = "9000000000"
			} else {
				s.links[pos].exp = "9000000000"
			}
			c.emitScenario(s, "time-far")
			if pos >= 0 {
				t := conforming(n)
				t.links[pos].exp = "9000000000"
				t.links[pos].nbf = "-9000000000"
				c.emitScenario(t, "time-far")
				u := conforming(n)
				u.links[pos].nbf = "-9000000000"
				u.links[(pos+1)%n].exp = "-7200"
				c.emitScenario(u, "time-far")
			}
		}
	}
	// (2c) commands with multi-byte characters: byte length ≠ character count; shared prefixes that end inside or right after
	// a multi-byte character
	{
		mb := []string{"/", "/é", "/éé", "/éé/x", "/éé/xyz", "/éé/x/y", "/é/é", "/ééé", "/ほげ", "/ほげ/ふが", "/ほげふ", "/e/x", "/éé/é"}
		for _, d := range mb {
			for _, o := range mb {
				s := conforming(1)
				s.links[0].cmd = d
				s.cmd = o
				c.emitScenario(s, "command-multibyte")
				t := conforming(2)
				t.links[1].cmd = d
				t.links[0].cmd = o
				t.cmd = o
				c.emitScenario(t, "command-multibyte")
			}
		}
	}
	// (1e) a loader that FAILS (an error of its own, not "not found") for one proof of an otherwise conforming chain, with and
	// without handing the token over along with the error: the delegation could not be obtained, the invocation is refused
	for n := 1; n <= 4; n++ {
		for j := 0; j < n; j++ {
			for _, mode := range []string{"e", "n"} {
				s := conforming(n)
				for i := 0; i < n; i++ {
					if i == j {
						s.prf = append(s.prf, mode+strconv.Itoa(i))
					} else {
						s.prf = append(s.prf, strconv.Itoa(i))
					}
				}
				c.emitScenario(s, "loader-error")
			}
		}
	}
	// (2d) commands that differ only by lowercase letters which Unicode case FOLDING equates (σ/ς, µ/μ, ſ/s, ı/i …): each
	// is its own valid command; neither covers the other. (2e) pairs of (delegated, invoked) commands whose texts CONCATENATE
	// to the same string, decided one after the other in both orders: ("/a", "/a/b/cc") is covered, ("/a/a", "/b/cc") is not.
	{
		fold := []string{"/σ", "/ς", "/ς/send", "/σ/send", "/µ", "/μ", "/µ/x", "/μ/x", "/ſ", "/s", "/s/x", "/ſ/x", "/ı", "/i", "/i/ı", "/ǆ", "/ǆ/a", "/θ", "/ϑ", "/ϑ/a", "/β/a", "/ϐ"}
		for _, d := range fold {
			for _, o := range fold {
				s := conforming(1)
				s.links[0].cmd = d
				s.cmd = o
				c.emitScenario(s, "command-fold")
				if len(d) == len(o) || strings.HasPrefix(o, d) || strings.HasPrefix(d, o) {
					t := conforming(2)
					t.links[1].cmd = d
					t.links[0].cmd = o
					t.cmd = o
					c.emitScenario(t, "command-fold")
				}
			}
		}
		type pr struct{ d, o string }
		for _, q := range [][2]pr{{{"/a", "/a/b/cc"}, {"/a/a", "/b/cc"}}, {{"/x", "/x/yy/z"}, {"/x/x", "/yy/z"}}, {{"/", "/q/q"}, {"/q", "/q"}}, {{"/q", "/q"}, {"/", "/q/q"}},
			{{"/é", "/é/é/k"}, {"/é/é", "/k"}}, {{"/m/n", "/m/n/m/n"}, {"/m/n/m", "/n/m/n"}}} {
			for _, order := range [][2]int{{0, 1}, {1, 0}, {0, 1}} {
				for _, k := range order {
					s := conforming(1)
					s.links[0].cmd = q[k].d
					s.cmd = q[k].o
					c.emitScenario(s, "command-concat")
					t := conforming(2)
					t.links[1].cmd = q[k].d
					t.links[0].cmd = q[k].o
					t.cmd = q[k].o
					c.emitScenario(t, "command-concat")
				}
			}
		}
	}
	// (1c) case twins (principals 13–17): the same places as the twins above
	for n := 1; n <= 3; n++ {
		s := conforming(n)
		s.sub = 13 + s.sub
		c.emitScenario(s, "case-twins")
		for j := 0; j < n; j++ {
			a := conforming(n)
			a.links[j].aud += 13
			c.emitScenario(a, "case-twins")
			b := conforming(n)
			b.links[j].sub += 13
			c.emitScenario(b, "case-twins")
		}
	}
	// (1d) aligned chains in which a delegation occurs more than once (the same CID twice in the proof list): a → b → a → b,
	// a root that delegates to itself first. Rule-conforming, hence allowed.
	{
		mk := func(prs []int) scenario {
			// prs: principals from the subject (root issuer) to the invoker
			n := len(prs) - 1
			s := scenario{iss: prs[n], sub: prs[0], aud: -1, cmd: "/"}
			for i := 0; i < n; i++ {
				s.links = append(s.links, link{iss: prs[n-1-i], aud: prs[n-i], sub: prs[0], cmd: "/"})
			}
			return s
		}
		for _, prs := range [][]int{{0, 1, 0, 1}, {0, 0, 0}, {0, 0, 1}, {0, 1, 0, 1, 0, 1}, {0, 1, 2, 0, 1}, {0, 1, 1, 1, 2}} {
			c.emitScenario(mk(prs), "aligned-repeat")
		}
	}
	// (1b) twins: a principal named in a conforming chain is replaced by the DID that has the same key bytes under
	// another key type (never an issuer: it has no key). The chain no longer conforms.
	for n := 1; n <= 3; n++ {
		s := conforming(n)
		s.sub = 5 + s.sub
		c.emitScenario(s, "twins")
		for j := 0; j < n; j++ {
			a := conforming(n)
			a.links[j].aud += 5
			c.emitScenario(a, "twins")
			b := conforming(n)
			b.links[j].sub += 5
			c.emitScenario(b, "twins")
			// and consistently everywhere but one place
			e := conforming(n)
			e.sub += 5
			for q := 0; q < n; q++ {
				if q != j {
					e.links[q].sub += 5
				}
			}
			c.emitScenario(e, "twins")
		}
		// the invocation's audience is irrelevant, also when it is a twin
		d := conforming(n)
		d.aud = 5
		c.emitScenario(d, "twins")
	}
	// (1b') principals WITHOUT an extractable key (5–9: well-formed did:key texts whose key material is not a key of the announced
	// type) in every role, issuers included — such delegations exist as constructed values only. Two different ones are two
	// principals: a chain that names one where the rule wants the other is refused like any other misalignment.
	{
		mk := func(rootIss, rootSub, rootAud, leafIss, invSub int, two bool) scenario {
			s := scenario{iss: 1, sub: invSub, aud: -1, cmd: "/", irr: "rawdlg"}
			if two {
				s.links = []link{{iss: leafIss, aud: 1, sub: rootSub, cmd: "/"}, {iss: rootIss, aud: rootAud, sub: rootSub, cmd: "/"}}
			} else {
				s.links = []link{{iss: rootIss, aud: 1, sub: rootSub, cmd: "/"}}
			}
			return s
		}
		c.emitScenario(mk(5, 5, 1, 0, 5, false), "keyless") // conforming: root issued by its keyless subject to the invoker
		c.emitScenario(mk(5, 5, 1, 0, 6, false), "keyless") // the invocation names another keyless subject
		c.emitScenario(mk(5, 6, 1, 0, 6, false), "keyless") // the last delegation is not issued by its subject
		c.emitScenario(mk(5, 5, 6, 6, 5, true), "keyless")  // conforming two-link chain through a keyless middle principal
		c.emitScenario(mk(5, 5, 6, 7, 5, true), "keyless")  // the leaf is issued by another keyless principal than the root's audience
		c.emitScenario(mk(5, 5, 6, 6, 7, true), "keyless")  // … and the invocation names a third one as subject
		c.emitScenario(mk(8, 8, 9, 9, 8, true), "keyless")
		c.emitScenario(mk(8, 8, 9, 5, 8, true), "keyless")
	}
	// (1b") invocations WITHOUT any proof, issued by their own subject or by someone else, unexpired, expired and without
	// expiration, also with an argument hook: there is no chain, so nothing is allowed — and an expired one is refused whatever
	// else is said about it
	for _, iss := range []int{0, 1} {
		for _, sub := range []int{0, 1} {
			for _, exp := range []string{"", "-7200", "7200"} {
				for _, hook := range []string{"", "m()"} {
					s := scenario{iss: iss, sub: sub, aud: -1, cmd: "/", exp: exp, hook: hook}
					c.emitScenario(s, "no-proof")
				}
			}
		}
	}
	// (1c) principals of every key algorithm at every role of a conforming chain, with decoded and with
	// constructed delegations
	for n := 1; n <= 3; n++ {
		for _, special := range []int{10, 11, 12} {
			for role := 0; role <= n; role++ { // role 0 = subject/root issuer … role n = invoker
				for _, irr := range []string{"none", "rawdlg"} {
					s := conforming(n)
					sub := func(p int) int {
						if p == role%5 {
							return special
						}
						return p
					}
					// conforming(n) uses principals 0..n cyclically (n ≤ 3 < 5): replace principal `role` everywhere
					s.iss, s.sub = sub(s.iss), sub(s.sub)
					for i := range s.links {
						s.links[i].iss, s.links[i].aud, s.links[i].sub = sub(s.links[i].iss), sub(s.links[i].aud), sub(s.links[i].sub)
					}
					s.irr = irr
					c.emitScenario(s, "key-types")
				}
			}
		}
	}
	// (3b) delegations used as constructed (never sealed): a not-before of "now" keeps its sub-second part and is
	// already in the past when the check runs
	for n := 1; n <= 3; n++ {
		for pos := 0; pos < n; pos++ {
			for _, irr := range []string{"rawdlg", "none"} {
				s := conforming(n)
				s.links[pos].nbf = "0"
				s.irr = irr
				c.emitScenario(s, "fresh-nbf")
				t := conforming(n)
				t.links[pos].nbf = "0"
				t.links[(pos+1)%n].exp = "7200"
				t.irr = irr
				c.emitScenario(t, "fresh-nbf")
			}
		}
	}
	// (1d) proofs listed AFTER the root, links named by another CID over the same digest, and a long valid chain
	// followed by the same chain cut short (a decision must not be helped by what an earlier one left behind)
	for n := 1; n <= 3; n++ {
		base := func() []string {
			var prf []string
			for q := 0; q < n; q++ {
				prf = append(prf, strconv.Itoa(q))
			}
			return prf
		}
		for _, extra := range []string{"x", strconv.Itoa(n - 1), "0", strconv.Itoa(n)} {
			s := conforming(n)
			// an unrelated, non-root delegation is available as table entry n
			s.links = append(s.links, link{iss: 3, aud: 4, sub: 0, cmd: "/"})
			s.prf = append(base(), extra)
			c.emitScenario(s, "after-root")
		}
		for q := 0; q < n; q++ {
			s := conforming(n)
			s.prf = base()
			s.prf[q] = "v" + strconv.Itoa(q)
			c.emitScenario(s, "variant-cid")
		}
	}
	{
		long := 12
		s := conforming(long)
		// conforming() cycles over 5 principals: fine, repeated principals are allowed
		c.emitScenario(s, "long-then-cut")
		for cut := long - 1; cut >= 9; cut-- {
			t := conforming(long)
			var prf []string
			for q := 0; q < cut; q++ {
				prf = append(prf, strconv.Itoa(q))
			}
			t.prf = prf
			c.emitScenario(t, "long-then-cut")
			c.emitScenario(s, "long-then-cut")
		}
	}
	// (3c) an issue time in the future does not move the instant of the check
	for n := 1; n <= 2; n++ {
		for pos := 0; pos < n; pos++ {
			s := conforming(n)
			s.links[pos].nbf = "7200"
			s.irr = "iatfuture"
			c.emitScenario(s, "iat-future")
			t := conforming(n)
			t.links[pos].exp = "7200"
			t.irr = "iatfuture"
			c.emitScenario(t, "iat-future")
		}
	}
	c.emit("go.chain.sharedpolicies 0", "chain", true, "shared-policies")
	c.emit("go.chain.sharedproofs 0", "chain", true, "shared-proofs")
	// (4b) long policies: k always-true statements followed (or preceded) by the one that decides, on each link
	for _, k := range []int{15, 16, 17, 63, 64, 65, 127, 128, 129, 255, 256, 257, 1000} {
		if k > 129 && !c.thoro && k != 257 {
			continue
		}
		filler := strings.Repeat("ceq(2e613f,i1);", k)
		for n := 1; n <= 2; n++ {
			for pos := 0; pos < n; pos++ {
				for _, last := range []bool{true, false} {
					for _, pass := range []bool{true, false} {
						s := conforming(n)
						dec := "ceq(2e62,s78)"
						if last {
							s.links[pos].pol = "P(" + filler + dec + ")"
						} else {
							s.links[pos].pol = "P(" + dec + ";" + strings.TrimSuffix(filler, ";") + ")"
						}
						// the other links carry fillers too, so that the aggregated policy is long
						for q := 0; q < n; q++ {
							if q != pos {
								s.links[q].pol = "P(" + strings.TrimSuffix(filler, ";") + ")"
							}
						}
						if pass {
							s.args = "m(61:i1,62:s78)"
						} else {
							s.args = "m(61:i1,62:s79)"
						}
						c.emitScenario(s, "policy-long")
					}
				}
			}
		}
	}
	// (5) random chains with deviations
	nr, maxLen := 4000, 8
	if c.thoro {
		nr, maxLen = 40000, 40
	}
	for i := 0; i < nr; i++ {
		ln := 1 + c.rng.Intn(maxLen)
		if c.rng.Chance(1, 2) {
			ln = 1 + c.rng.Intn(4)
		}
		s := conforming(ln)
		// attenuating command sequence from the root down
		depth := 0
		path := []string{"", "/foo", "/foo/bar", "/foo/bar/baz"}
		for j := ln - 1; j >= 0; j-- {
			if c.rng.Chance(1, 3) && depth < 3 {
				depth++
			}
			s.links[j].cmd = cmdOr(path[depth])
		}
		if c.rng.Chance(1, 3) && depth < 3 {
			depth++
		}
		s.cmd = cmdOr(path[depth])
		// satisfiable policies and valid windows
		s.args = "m(61:i1,62:s78,6c:l(i1,i2))"
		for j := range s.links {
			if c.rng.Chance(1, 3) {
				s.links[j].pol = []string{"P(ceq(2e61,i1))", "P(ceq(2e62,s78))", "P(ceq(2e613f,i1))", "P(A(2e6c,cgt(2e,i0)))", "P(ceq(2e7a3f,i5))"}[c.rng.Intn(5)]
			}
			if c.rng.Chance(1, 4) {
				s.links[j].nbf = "-7200"
			}
			if c.rng.Chance(1, 4) {
				s.links[j].exp = "7200"
			}
		}
		if c.rng.Chance(1, 4) {
			s.exp = "7200"
		}
		s.aud = c.rng.Intn(6) - 1
		if s.aud > 4 {
			s.aud = 4
		}
		s.irr = irrChoices[c.rng.Intn(len(irrChoices))]
		// deviations
		nd := c.rng.Intn(3)
		if c.rng.Chance(1, 3) {
			nd = 0
		}
		tag := "random-conforming"
		for d := 0; d < nd; d++ {
			tag = "random-deviating"
			j := c.rng.Intn(ln)
			switch c.rng.Intn(12) {
			case 0:
				s.links[j].iss = (s.links[j].iss + 1 + c.rng.Intn(4)) % 5
			case 1:
				s.links[j].aud = (s.links[j].aud + 1 + c.rng.Intn(4)) % 5
			case 2:
				s.links[j].sub = c.rng.Intn(6) - 1
				if s.links[j].sub > 4 {
					s.links[j].sub = 4
				}
			case 3:
				s.links[j].cmd = cmdLattice[c.rng.Intn(len(cmdLattice))]
			case 4:
				s.links[j].exp = "-7200"
			case 5:
				s.links[j].nbf = "7200"
			case 6:
				s.links[j].pol = []string{"P(ceq(2e61,i2))", "P(ceq(2e7a,i1))", "P(cgt(2e61,i1))", "P(E(2e6c,cgt(2e,i5)))"}[c.rng.Intn(4)]
			case 7:
				s.exp = "-7200"
			case 8:
				s.sub = c.rng.Intn(5)
			case 9:
				s.iss = c.rng.Intn(5)
			case 10: // missing / duplicated / truncated / permuted proofs
				var prf []string
				for q := range s.links {
					prf = append(prf, strconv.Itoa(q))
				}
				switch c.rng.Intn(4) {
				case 0:
					prf[j] = "x"
				case 1:
					prf = append(prf[:j+1], prf[j:]...)
				case 2:
					prf = prf[:j]
				default:
					q := c.rng.Intn(ln)
					prf[j], prf[q] = prf[q], prf[j]
				}
				s.prf = prf
			default:
				s.cmd = cmdLattice[c.rng.Intn(len(cmdLattice))]
			}
		}
		c.emitScenario(s, tag)
	}
	// (7) histories: the same invocation token validated repeatedly while the loader, the hook and the
	// clock change (a result remembered from an earlier validation must not leak into a later one)
	var hl []string
	hist := func(s scenario, steps string) {
		l := s.line()
		f := strings.Fields(l)
		// chain.allowed inv prf dlgs now args hook irr  ->  chain.history inv prf dlgs args steps
		hl = append(hl, "chain.history "+f[1]+" "+f[2]+" "+f[3]+" "+f[5]+" "+steps)
	}
	passArgs, failArgs := "m(61:i1)", "m(61:i2)"
	for n := 1; n <= 3; n++ {
		for pos := 0; pos < n; pos++ {
			// loader content changes between validations
			s := conforming(n)
			hist(s, "all/-,"+allBut(n, pos)+"/-,all/-")
			hist(s, allBut(n, pos)+"/-,all/-,none/-")
			// arguments: a policy on link pos; own arguments pass or fail, hooks pass or fail, in every order
			p := conforming(n)
			p.links[pos].pol = "P(ceq(2e61,i1))"
			p.args = passArgs
			hist(p, "all/-,all/"+failArgs+",all/-,all/"+passArgs+",all/!")
			hist(p, "all/"+failArgs+",all/-,all/"+failArgs)
			// a hook that changes a value IN the writeable clone it was given (the clone's map is the clone's own): the token's
			// arguments are what they were, before and after
			p.args = passArgs
			hist(p, "all/~"+failArgs+",all/-,all/~"+failArgs+",all/-")
			p.args = failArgs
			hist(p, "all/~"+passArgs+",all/-,all/-")
			hist(p, "all/-,all/"+passArgs+",all/-,all/"+failArgs)
			hist(p, "all/"+passArgs+",all/-,all/"+passArgs+",all/-")
			// time passes: a bound two seconds away on link pos (expiration or not-before), or on the invocation
			e := conforming(n)
			e.links[pos].exp = "2"
			hist(e, "all/-,T,all/-")
			b := conforming(n)
			b.links[pos].nbf = "2"
			hist(b, "all/-,T,all/-,all/-")
			// a link that becomes active while another one stays expired: refused before and after
			for other := 0; other < n; other++ {
				if other != pos {
					x := conforming(n)
					x.links[pos].nbf = "2"
					x.links[other].exp = "-7200"
					hist(x, "all/-,T,all/-,all/-")
				}
			}
		}
		ie := conforming(n)
		ie.exp = "2"
		hist(ie, "all/-,all/-,T,all/-")
	}
	c.runHistories(hl)
	// (6) IsValidAt across the timeline: probes on either side of each bound
	base := time.Now().Add(48 * time.Hour).Truncate(time.Second).UnixNano()
	deltas := []int64{-3600e9, -1e9, -1, 0, 1, 1e9, 3600e9}
	for _, kind := range []string{"dlg", "inv"} {
		for _, hasN := range []bool{false, true} {
			for _, hasE := range []bool{false, true} {
				if kind == "inv" && hasN {
					continue
				}
				nbf, exp := "-", "-"
				if hasN {
					nbf = strconv.FormatInt(base, 10)
				}
				if hasE {
					exp = strconv.FormatInt(base+7200e9, 10)
				}
				for _, b := range []int64{base, base + 7200e9} {
					for _, d := range deltas {
						c.emit("chain.validat "+kind+" "+nbf+" "+exp+" "+strconv.FormatInt(b+d, 10), "chain.validat", d != 0, "validat:"+kind)
					}
				}
			}
		}
	}
	// (6b) bounds and probes far from today: beyond the range of int64 nanoseconds (year 2262), at the edge of the
	// 53-bit seconds the wire format allows, at year 1 and before 1970
	{
		sec := func(y int) string { // seconds since 1970 of 1 January of year y, as nanoseconds text
			t := time.Date(y, 1, 1, 0, 0, 0, 0, time.UTC).Unix()
			return new(big.Int).Mul(big.NewInt(t), big.NewInt(1e9)).String()
		}
		far := []string{sec(1), sec(1000), sec(1969), sec(2100), sec(2262), sec(2263), sec(2300), sec(5000), sec(100000),
			new(big.Int).Mul(big.NewInt(9007199254740991), big.NewInt(1e9)).String()}
		for _, kind := range []string{"dlg", "inv"} {
			for bi, b := range far {
				if kind == "dlg" && bi < 3 {
					continue // the delegation constructors refuse bounds in the past
				}
				for _, t := range far {
					if t == b {
						continue
					}
					c.emit("chain.validat "+kind+" - "+b+" "+t, "chain.validat", true, "validat-far:"+kind)
					if kind == "dlg" {
						c.emit("chain.validat "+kind+" "+b+" - "+t, "chain.validat", true, "validat-far:"+kind)
					}
				}
			}
		}
	}
	c.r.Exhaustive = true
	c.r.ExhaustiveNote = "families (1)–(4) and (6) are enumerated completely at the stated bounds; family (5) is sampled"
	return nil
}

// allBut names every loader entry except one
func allBut(n, skip int) string {
	var ks []string
	for i := 0; i < n; i++ {
		if i != skip {
			ks = append(ks, strconv.Itoa(i))
		}
	}
	if len(ks) == 0 {
		return "none"
	}
	return strings.Join(ks, ".")
}

func cmdOr(s string) string {
	if s == "" {
		return "/"
	}
	return s
}

var _ = datamodel.Null

// ---- histories: the SAME invocation token validated several times while the loader's content, the
// argument hook and the wall clock change between validations

type history struct {
	inv     *invocation.Token
	table   []sealedDlg
	steps   []string
	next    int
	out     []string
	latest  time.Time // the latest "short" bound among the tokens (everything at +2 s)
	created time.Time
}

// newHistory parses: chain.history <inv> <prf> <dlgs> <args> <steps>
func newHistory(f []string) (*history, error) {
	ps := principals()
	h := &history{created: time.Now()}
	dlgCache = map[string]sealedDlg{} // histories need fresh tokens: their short bounds are relative to now
	if f[3] != "-" {
		for _, d := range strings.Split(f[3], "#") {
			s, err := buildDlg(d)
			if err != nil {
				return nil, err
			}
			h.table = append(h.table, s)
			for _, b := range []*time.Time{s.tok.NotBefore(), s.tok.Expiration()} {
				if b != nil && b.Before(h.created.Add(time.Hour)) && b.After(h.latest) {
					h.latest = *b
				}
			}
		}
	}
	dlgCache = map[string]sealedDlg{}
	var prf []cid.Cid
	if f[2] != "-" {
		for i, p := range strings.Split(f[2], ".") {
			if p == "x" {
				prf = append(prf, unknownCid(i))
				continue
			}
			k, _ := strconv.Atoi(p)
			prf = append(prf, h.table[k].cid)
		}
	}
	iv := strings.Split(f[1], ",")
	iss, _ := strconv.Atoi(iv[0])
	sub, _ := strconv.Atoi(iv[1])
	cmd, err := command.Parse(unhx(iv[3]))
	if err != nil {
		return nil, err
	}
	var opts []invocation.Option
	if iv[2] != "-" {
		a, _ := strconv.Atoi(iv[2])
		opts = append(opts, invocation.WithAudience(ps[a].did))
	}
	exp, err := optOffset(iv[4])
	if err != nil {
		return nil, err
	}
	if exp != nil {
		opts = append(opts, invocation.WithExpirationIn(*exp))
	}
	an, err := parseNode(f[4])
	if err != nil {
		return nil, err
	}
	a, err := argsFromNode(an)
	if err != nil {
		return nil, err
	}
	opts = append(opts, invocation.WithArguments(a))
	h.inv, err = invocation.New(ps[iss].did, ps[sub].did, cmd, prf, opts...)
	if err != nil {
		return nil, err
	}
	if e := h.inv.Expiration(); e != nil && e.Before(h.created.Add(time.Hour)) && e.After(h.latest) {
		h.latest = *e
	}
	h.steps = strings.Split(f[5], ",")
	return h, nil
}

func (h *history) step(st string) (out string) {
	// a validation that panics is a validation that did not allow (and is reported as such, with the panic text)
	defer func() {
		if r := recover(); r != nil {
			out = "deny PANIC " + strings.ReplaceAll(strings.ReplaceAll(fmt.Sprint(r), "\n", " "), ";", ",")
		}
	}()
	p := strings.Split(st, "/")
	loader := mapLoader{}
	for i, s := range h.table {
		keep := p[0] == "all"
		if !keep && p[0] != "none" {
			for _, k := range strings.Split(p[0], ".") {
				if k == strconv.Itoa(i) {
					keep = true
				}
			}
		}
		if keep {
			loader[s.cid] = s.tok
		}
	}
	var err error
	switch p[1] {
	case "-":
		err = h.inv.ExecutionAllowed(loader)
	case "!":
		err = h.inv.ExecutionAllowedWithArgsHook(loader, func(args.ReadOnly) (*args.Args, error) { return nil, errHook })
	default:
		if strings.HasPrefix(p[1], "~") {
			// the hook overrides values in the writeable clone: existing keys through the clone's value map, new keys with Add
			hn, e := parseNode(p[1][1:])
			if e != nil || hn.Kind() != datamodel.Kind_Map {
				return "bad-hook"
			}
			err = h.inv.ExecutionAllowedWithArgsHook(loader, func(ro args.ReadOnly) (*args.Args, error) {
				cl := ro.WriteableClone()
				it := hn.MapIterator()
				for !it.Done() {
					k, v, _ := it.Next()
					ks, _ := k.AsString()
					if _, present := cl.Values[ks]; present {
						cl.Values[ks] = v
					} else if e := cl.Add(ks, v); e != nil {
						return nil, e
					}
				}
				return cl, nil
			})
			return classOf(err)
		}
		hn, e := parseNode(p[1])
		if e != nil {
			return "bad-hook"
		}
		ha, e := argsFromNode(hn)
		if e != nil {
			return "bad-hook"
		}
		err = h.inv.ExecutionAllowedWithArgsHook(loader, func(args.ReadOnly) (*args.Args, error) { return ha, nil })
	}
	return classOf(err)
}

func (h *history) runUntilSleep() {
	for h.next < len(h.steps) && h.steps[h.next] != "T" {
		h.out = append(h.out, h.step(h.steps[h.next]))
		h.next++
	}
}

func (h *history) sleepPastShortBounds() {
	if h.next < len(h.steps) && h.steps[h.next] == "T" {
		h.next++
		if !h.latest.IsZero() {
			if d := time.Until(h.latest.Add(60 * time.Millisecond)); d > 0 {
				time.Sleep(d)
			}
		}
	}
}

func (h *history) runRest() {
	for h.next < len(h.steps) {
		if h.steps[h.next] != "T" {
			h.out = append(h.out, h.step(h.steps[h.next]))
		}
		h.next++
	}
}

func (h *history) result() string { return strings.Join(h.out, ";") }

// runHistories builds all histories, runs their steps up to the time step, sleeps once, then runs the rest.
func (c *ctx) runHistories(lines []string) {
	var hs []*history
	for _, l := range lines {
		h, err := newHistory(strings.Fields(l))
		if err != nil {
			c.emitPre(l, "bad-history "+err.Error(), l, "chain.history", false, "history:bad")
			hs = append(hs, nil)
			continue
		}
		h.runUntilSleep()
		hs = append(hs, h)
	}
	for _, h := range hs {
		if h != nil {
			h.sleepPastShortBounds()
		}
	}
	for i, h := range hs {
		if h == nil {
			continue
		}
		h.runRest()
		c.emitPre(lines[i], h.result(), lines[i], "chain.history", true, "history:"+strconv.Itoa(len(h.out))+"steps")
	}
}
