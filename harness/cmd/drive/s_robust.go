package main

import (
	"bytes"
	"encoding/base64"
	"fmt"
	"os"
	"os/exec"
	"runtime"
	"runtime/debug"
	"sort"
	"strconv"
	"strings"
	"time"

	"github.com/ipld/go-ipld-prime"
	"github.com/ipld/go-ipld-prime/codec/dagcbor"
	"github.com/ipld/go-ipld-prime/codec/dagjson"
	"github.com/ucan-wg/go-ucan/did"
	"github.com/ucan-wg/go-ucan/pkg/container"
	"github.com/ucan-wg/go-ucan/pkg/policy"
	"github.com/ucan-wg/go-ucan/pkg/policy/selector"
	"github.com/ucan-wg/go-ucan/token"
	"github.com/ucan-wg/go-ucan/token/delegation"
	"github.com/ucan-wg/go-ucan/token/invocation"
)

func init() {
	register(stream{
		name: "robust",
		rule: "every entry point that takes untrusted data — token.FromSealed/FromDagJson and the typed equivalents, the four container readers, policy.FromIPLD/FromDagJson, selector.Parse, did.Parse+PubKey, Policy.Match/PartialMatch on arbitrary nodes, and ExecutionAllowed on decoded invocations — fed with random bytes, mutations of valid artefacts (bit flips, truncations, splices, duplicated ranges), hostile CBOR heads (lengths up to 2^64−1), integers ≥ 2^63 and other wrong kinds inside CORRECTLY SIGNED envelopes, invalid key material, and nesting of depth 10^2…10^5 (10^6 thorough) in lists, maps, not/and policies and selectors. Each call runs under recover; inputs that may exhaust the stack run in a child process with a time and memory limit. Observable: value | error | panic | crash | timeout. For the growth families the bytes allocated by one call are measured at n, 2n, 4n. Non-trivial = every case. Distinct = distinct protocol lines. THIS STREAM IS A TEST (fuzz-like sampling), supporting the tie; it is not a proof.",
		run:  runRobustStream,
		eval: evalRobust,
		cmp: func(line, g, m string) string {
			f := strings.Fields(g + " -")
			switch f[0] {
			case "value", "error":
				return ""
			}
			return "entry point does not fail cleanly: " + f[0]
		},
		classByDirection: true,
		limit:            5 * time.Minute, // a case may run three child processes of up to 60 s each
	})
}

type entry struct {
	name string
	f    func(b []byte) error
}

var robustEntries = []entry{
	{"token.FromSealed", func(b []byte) error { _, _, err := token.FromSealed(b); return err }},
	{"token.FromSealedReader", func(b []byte) error { _, _, err := token.FromSealedReader(bytes.NewReader(b)); return err }},
	{"token.FromDagJson", func(b []byte) error { _, err := token.FromDagJson(b); return err }},
	{"delegation.FromSealed", func(b []byte) error { _, _, err := delegation.FromSealed(b); return err }},
	{"delegation.FromDagJson", func(b []byte) error { _, err := delegation.FromDagJson(b); return err }},
	{"invocation.FromSealed", func(b []byte) error { _, _, err := invocation.FromSealed(b); return err }},
	{"invocation.FromDagJson", func(b []byte) error { _, err := invocation.FromDagJson(b); return err }},
	{"container.FromCar", func(b []byte) error { _, err := container.FromCar(b); return err }},
	{"container.FromCarBase64", func(b []byte) error { _, err := container.FromCarBase64(b); return err }},
	{"container.FromCbor", func(b []byte) error { _, err := container.FromCbor(b); return err }},
	{"container.FromCborBase64", func(b []byte) error { _, err := container.FromCborBase64(b); return err }},
	{"policy.FromDagJson", func(b []byte) error { _, err := policy.FromDagJson(string(b)); return err }},
	{"policy.FromIPLD(cbor)", func(b []byte) error {
		n, err := ipld.Decode(b, dagcbor.Decode)
		if err != nil {
			return err
		}
		p, err := policy.FromIPLD(n)
		if err == nil {
			_, _ = p.Match(n)
		}
		return err
	}},
	{"policy.Match(cbor)", func(b []byte) error {
		n, err := ipld.Decode(b, dagcbor.Decode)
		if err != nil {
			return err
		}
		for _, p := range robustPolicies() {
			_, _ = p.Match(n)
			_, _ = p.PartialMatch(n)
		}
		return nil
	}},
	{"selector.Parse", func(b []byte) error {
		s, err := selector.Parse(string(b))
		if err == nil {
			_ = s.String()
			for _, v := range robustNodes() {
				_, _ = s.Select(v)
			}
		}
		return err
	}},
	{"did.Parse+PubKey", func(b []byte) error {
		d, err := did.Parse(string(b))
		if err != nil {
			return err
		}
		_ = d.String()
		_, err = d.PubKey()
		return err
	}},
	{"invocation.ExecutionAllowed", func(b []byte) error {
		t, _, err := invocation.FromSealed(b)
		if err != nil {
			return err
		}
		return t.ExecutionAllowed(mapLoader{})
	}},
}

var robustPol []policy.Policy

func robustPolicies() []policy.Policy {
	if robustPol == nil {
		robustPol = []policy.Policy{
			policy.MustConstruct(policy.Equal(".", basicInt(1)), policy.GreaterThan(".a", basicInt(0)), policy.LessThanOrEqual(".[0]?", basicInt(9))),
			policy.MustConstruct(policy.All(".", policy.Or(policy.GreaterThanOrEqual(".", basicInt(1)), policy.Like(".s?", "a*"))), policy.Any(".l?", policy.Not(policy.Equal(".[1:]", basicInt(3))))),
			policy.MustConstruct(policy.Equal(".a.b[-1]", basicInt(1)), policy.LessThan(".[]", basicInt(2))),
		}
	}
	return robustPol
}

func robustNodes() []ipld.Node {
	var out []ipld.Node
	for _, t := range selValues {
		if n, err := parseNode(t); err == nil {
			out = append(out, n)
		}
	}
	return out
}

func runEntry(name string, b []byte) (out string) {
	defer func() {
		if r := recover(); r != nil {
			out = "panic " + strings.ReplaceAll(fmt.Sprint(r), " ", "_")
		}
	}()
	for _, e := range robustEntries {
		if e.name == name {
			done := make(chan string, 1)
			go func() {
				defer func() {
					if r := recover(); r != nil {
						done <- "panic " + strings.ReplaceAll(fmt.Sprint(r), " ", "_")
					}
				}()
				if err := e.f(b); err != nil {
					done <- "error"
				} else {
					done <- "value"
				}
			}()
			select {
			case r := <-done:
				return r
			case <-time.After(20 * time.Second):
				return "timeout"
			}
		}
	}
	return "bad-entry"
}

// runChild executes one entry point on the bytes of a generated input in a separate process, so that a
// fatal stack overflow or an out-of-memory kill is observed instead of taking the harness down.
func runChild(name, gen string) string {
	r, _ := runChildAlloc(name, gen)
	return r
}

func runChildAlloc(name, gen string) (string, float64) {
	var childAlloc float64
	r := func() string {
		cmd := exec.Command(os.Args[0], "child", name, gen)
		cmd.Env = append(os.Environ(), "GOMEMLIMIT=3GiB", "GOMAXPROCS=2")
		var outb, errb bytes.Buffer
		cmd.Stdout, cmd.Stderr = &outb, &errb
		if err := cmd.Start(); err != nil {
			return "bad-child " + err.Error()
		}
		done := make(chan error, 1)
		go func() { done <- cmd.Wait() }()
		select {
		case err := <-done:
			if err == nil {
				childAlloc = 0
				f := strings.Fields(outb.String())
				if len(f) >= 2 {
					a, _ := strconv.ParseUint(f[len(f)-1], 10, 64)
					childAlloc = float64(a)
					return strings.Join(f[:len(f)-1], " ")
				}
				return strings.TrimSpace(outb.String())
			}
			e := errb.String()
			switch {
			case strings.Contains(e, "stack overflow") || strings.Contains(e, "goroutine stack exceeds"):
				return "crash stack-overflow"
			case strings.Contains(e, "out of memory") || strings.Contains(e, "cannot allocate"):
				return "crash out-of-memory"
			}
			return "crash " + strings.ReplaceAll(strings.SplitN(strings.TrimSpace(e), "\n", 2)[0], " ", "_")
		case <-time.After(60 * time.Second):
			_ = cmd.Process.Kill()
			return "timeout"
		}
	}()
	return r, childAlloc
}

// childMain is invoked as `drive child <entry> <generator>`
func childMain(name, gen string) {
	debug.SetMaxStack(1 << 30)
	b := generate(gen)
	runtime.GC()
	var m0, m1 runtime.MemStats
	runtime.ReadMemStats(&m0)
	r := runEntry(name, b)
	runtime.ReadMemStats(&m1)
	fmt.Println(r, m1.TotalAlloc-m0.TotalAlloc)
}

// generate builds a (possibly huge) input from a compact descriptor: kind:n[:extra]
func generate(gen string) []byte {
	p := strings.Split(gen, ":")
	n, _ := strconv.Atoi(p[1])
	switch p[0] {
	case "cbor-nested-lists": // [[[[…]]]]
		return append(bytes.Repeat([]byte{0x81}, n), 0x80)
	case "cbor-nested-maps": // {"a":{"a":…}}
		return append(bytes.Repeat([]byte{0xa1, 0x61, 0x61}, n), 0xa0)
	case "json-nested-lists":
		return []byte(strings.Repeat("[", n) + strings.Repeat("]", n))
	case "policy-nested-not": // [["not",["not",…["==",".a",1]]]]
		inner := []byte{0x83, 0x62, '=', '=', 0x62, '.', 'a', 0x01}
		return append(append([]byte{0x81}, bytes.Repeat([]byte{0x82, 0x63, 'n', 'o', 't'}, n)...), inner...)
	case "policy-nested-and":
		inner := []byte{0x83, 0x62, '=', '=', 0x62, '.', 'a', 0x01}
		return append(append([]byte{0x81}, bytes.Repeat([]byte{0x82, 0x63, 'a', 'n', 'd', 0x81}, n)...), inner...)
	case "policy-wide": // n statements
		st := []byte{0x83, 0x62, '=', '=', 0x62, '.', 'a', 0x01}
		var hd []byte
		hd = append(hd, 0x9a, byte(n>>24), byte(n>>16), byte(n>>8), byte(n))
		return append(hd, bytes.Repeat(st, n)...)
	case "selector-long":
		return []byte("." + strings.Repeat("a.", n) + "a")
	case "selector-brackets":
		return []byte("." + strings.Repeat("[0]", n))
	case "envelope-nested-args": // a well-formed (unsigned) envelope whose args nest n lists
		return envelopeWithArgs(append(bytes.Repeat([]byte{0x81}, n), 0x80))
	case "car-huge-section":
		return append([]byte{0xff, 0xff, 0xff, 0xff, 0x0f}, make([]byte, n)...)
	case "cbor-huge-array-head":
		return []byte{0x9b, 0xff, 0xff, 0xff, 0xff, 0xff, 0xff, 0xff, 0xff}
	case "cbor-huge-bytes-head":
		return []byte{0x5b, 0x00, 0x00, 0x00, 0x10, 0x00, 0x00, 0x00, 0x00, 1, 2, 3}
	}
	return nil
}

// cborText / cborBytes encode a canonical head followed by the content
func cborHead(major byte, n uint64) []byte {
	switch {
	case n < 24:
		return []byte{major<<5 | byte(n)}
	case n < 1<<8:
		return []byte{major<<5 | 24, byte(n)}
	case n < 1<<16:
		return []byte{major<<5 | 25, byte(n >> 8), byte(n)}
	case n < 1<<32:
		return []byte{major<<5 | 26, byte(n >> 24), byte(n >> 16), byte(n >> 8), byte(n)}
	}
	return []byte{major<<5 | 27, byte(n >> 56), byte(n >> 48), byte(n >> 40), byte(n >> 32), byte(n >> 24), byte(n >> 16), byte(n >> 8), byte(n)}
}
func cborText(s string) []byte { return append(cborHead(3, uint64(len(s))), s...) }
func cborBin(b []byte) []byte  { return append(cborHead(2, uint64(len(b))), b...) }

// signedEnvelope builds a correctly signed envelope of the given tag around a payload map whose values
// are given as raw CBOR, so that any malformed value can sit behind a valid signature.
// Keys are written in canonical order (length first, then bytewise).
func signedEnvelope(k keyed, tag string, fields map[string][]byte) []byte {
	keys := make([]string, 0, len(fields))
	for f := range fields {
		keys = append(keys, f)
	}
	sort.Slice(keys, func(i, j int) bool {
		if len(keys[i]) != len(keys[j]) {
			return len(keys[i]) < len(keys[j])
		}
		return keys[i] < keys[j]
	})
	var pl bytes.Buffer
	pl.Write(cborHead(5, uint64(len(keys))))
	for _, f := range keys {
		pl.Write(cborText(f))
		pl.Write(fields[f])
	}
	var sp bytes.Buffer
	sp.Write([]byte{0xa2, 0x61, 'h'})
	sp.Write(cborBin([]byte(unhx(varsigHex[k.alg]))))
	sp.Write(cborText(tag))
	sp.Write(pl.Bytes())
	sig, _ := k.priv.Sign(sp.Bytes())
	var env bytes.Buffer
	env.WriteByte(0x82)
	env.Write(cborBin(sig))
	env.Write(sp.Bytes())
	return env.Bytes()
}

// hostileCbor returns one CBOR value: mostly well-formed random data, with hostile items mixed in.
func hostileCbor(c *ctx, depth int) []byte {
	r := c.rng.Intn(100)
	switch {
	case r < 12:
		return cborHead(0, uint64(c.rng.Intn(1000)))
	case r < 18:
		return cborHead(0, []uint64{1 << 53, 1<<53 - 1, 1<<63 - 1, 1 << 63, 1<<64 - 1}[c.rng.Intn(5)])
	case r < 24:
		return cborHead(1, []uint64{0, 5, 1<<53 - 2, 1<<53 - 1, 1 << 53, 1<<63 - 1, 1 << 63, 1<<64 - 1}[c.rng.Intn(8)])
	case r < 34:
		return cborText([]string{"", "a", "héllo", "a*b", ".x", "did:key:z6Mk", "/x/y"}[c.rng.Intn(7)])
	case r < 37:
		return append(cborHead(3, 2), 0xff, 0xfe) // invalid UTF-8
	case r < 44:
		return cborBin(c.rng.Bytes(c.rng.Intn(40)))
	case r < 50:
		return [][]byte{{0xf4}, {0xf5}, {0xf6}, {0xf7}, {0xf9, 0x7e, 0}, {0xfb, 0x7f, 0xf0, 0, 0, 0, 0, 0, 0}, {0xfb, 0x7f, 0xf8, 0, 0, 0, 0, 0, 0}, {0xfb, 0x3f, 0xf8, 0, 0, 0, 0, 0, 0}, {0xfb, 0x80, 0, 0, 0, 0, 0, 0, 0}}[c.rng.Intn(9)]
	case r < 55:
		return append([]byte{0xd8, 0x2a}, cborBin(append([]byte{0}, c.rng.Bytes(c.rng.Intn(40))...))...) // a link, mostly an invalid CID
	case r < 58:
		return append(cborHead(6, uint64(c.rng.Intn(100))), 0x01) // some other tag
	case r < 61:
		return [][]byte{{0x9f, 0x01, 0xff}, {0xbf, 0xff}, {0x5f, 0x41, 0x00, 0xff}, {0x9b, 0, 0, 0, 1, 0, 0, 0, 0}, {0xbb, 0xff, 0xff, 0xff, 0xff, 0xff, 0xff, 0xff, 0xff}, {0x7b, 0, 0, 0, 0, 0xff, 0xff, 0xff, 0xff}}[c.rng.Intn(6)]
	}
	if depth <= 0 {
		return []byte{0x01}
	}
	n := c.rng.Intn(4)
	if r < 80 {
		out := cborHead(4, uint64(n))
		for i := 0; i < n; i++ {
			out = append(out, hostileCbor(c, depth-1)...)
		}
		return out
	}
	out := cborHead(5, uint64(n))
	for i := 0; i < n; i++ {
		switch c.rng.Intn(12) {
		case 0:
			out = append(out, 0x01) // a key that is not a string
		case 1:
			out = append(out, cborText("a")...) // likely a duplicate or out of order
		default:
			out = append(out, cborText(strings.Repeat(string(rune('a'+i)), i+1))...)
		}
		out = append(out, hostileCbor(c, depth-1)...)
	}
	return out
}

func envelopeWithArgs(argsCbor []byte) []byte {
	k := keyFor("ed25519", 0)
	aud := keyFor("ed25519", 1)
	// payload map built by hand so that arbitrary CBOR can be spliced in as the value of "args"
	var pl bytes.Buffer
	pl.Write([]byte{0xa7})
	wr := func(key string, val []byte) { pl.WriteByte(0x60 | byte(len(key))); pl.WriteString(key); pl.Write(val) }
	txt := func(s string) []byte {
		var b bytes.Buffer
		b.WriteByte(0x78)
		b.WriteByte(byte(len(s)))
		b.WriteString(s)
		return b.Bytes()
	}
	wr("cmd", []byte{0x62, '/', 'x'})
	wr("exp", []byte{0xf6})
	wr("iss", txt(k.did.String()))
	wr("prf", []byte{0x80})
	wr("sub", txt(aud.did.String()))
	wr("args", []byte{0xa1, 0x61, 'a'})
	pl.Write(argsCbor)
	wr("nonce", append([]byte{0x4c}, []byte("nonce-nonce-")...))
	// sigPayload {h, tag: payload}
	var sp bytes.Buffer
	sp.Write([]byte{0xa2, 0x61, 'h', 0x44, 0x34, 0xed, 0x01, 0x71, 0x73})
	sp.WriteString("ucan/inv@1.0.0-rc.1")
	sp.Write(pl.Bytes())
	sig, _ := k.priv.Sign(sp.Bytes())
	var env bytes.Buffer
	env.Write([]byte{0x82, 0x58, byte(len(sig))})
	env.Write(sig)
	env.Write(sp.Bytes())
	return env.Bytes()
}

func evalRobust(line string) (string, string) {
	f := strings.Fields(line)
	switch f[0] {
	case "go.robust.bytes":
		return runEntry(f[1], []byte(unhx(f[2]))), f[1] + " on " + strconv.Itoa(len(unhx(f[2]))) + " bytes"
	case "go.robust.gen":
		if len(f) > 3 && f[3] == "child" {
			return runChild(f[1], f[2]), f[1] + " on " + f[2] + " (child process)"
		}
		return runEntry(f[1], generate(f[2])), f[1] + " on " + f[2]
	case "go.robust.growth":
		return growthCheck(f[1], f[2]), line
	}
	return "bad-line", line
}

// growthCheck measures the bytes allocated by one call at n, 2n, 4n: more than ~2.6× per doubling means the
// memory use is not bounded by a constant plus a multiple of the input size.
func growthCheck(name, family string) string {
	p := strings.Split(family, ":")
	n, _ := strconv.Atoi(p[1])
	var allocs []float64
	for _, k := range []int{n, 2 * n, 4 * n} {
		r, a := runChildAlloc(name, p[0]+":"+strconv.Itoa(k))
		if r != "value" && r != "error" {
			return r
		}
		allocs = append(allocs, a+1)
	}
	if allocs[1]/allocs[0] > 2.7 && allocs[2]/allocs[1] > 2.7 {
		return fmt.Sprintf("superlinear allocation %.0f→%.0f→%.0f bytes for inputs n, 2n, 4n (n=%d)", allocs[0], allocs[1], allocs[2], n)
	}
	return "value"
}

func runRobustStream(c *ctx) error {
	// corpus of valid artefacts
	var corpus [][]byte
	for i := 0; i < 4; i++ {
		for _, kind := range []string{"dlg", "inv"} {
			if b, _, _, err := sealFixture(kind, []string{"ed25519", "p256"}[i%2], i); err == nil {
				corpus = append(corpus, b)
				if n, err := ipld.Decode(b, dagcbor.Decode); err == nil {
					var buf bytes.Buffer
					if ipld.EncodeStreaming(&buf, n, dagjson.Encode) == nil {
						corpus = append(corpus, buf.Bytes())
					}
				}
			}
		}
	}
	for _, f := range []string{"car", "cbor", "carb64", "cborb64"} {
		if b, err := writeWith(f, false, sealedSet(c, 2)); err == nil {
			corpus = append(corpus, b)
		}
	}
	corpus = append(corpus, []byte(`[["==",".a",1],["and",[["like",".s","a*"],["not",["any",".l",[">",".",2]]]]]]`), []byte(`.foo["bar"][1:-1][]?.baz`),
		[]byte(keyFor("p256", 0).did.String()), []byte(keyFor("secp256k1", 0).did.String()))
	n := 1500
	if c.thoro {
		n = 30000
	}
	emit := func(name string, b []byte, tag string) {
		c.emitG("go.robust.bytes "+name+" "+hx(b), "robust:"+name, func(string) bool { return true },
			func(g string) []string { return []string{tag + ":" + strings.Fields(g)[0]} })
	}
	for i := 0; i < n; i++ {
		var b []byte
		tag := "mutated"
		switch c.rng.Intn(5) {
		case 0:
			b = c.rng.Bytes(c.rng.Intn(200))
			tag = "random"
		default:
			src := corpus[c.rng.Intn(len(corpus))]
			b = append([]byte(nil), src...)
			for k := 1 + c.rng.Intn(3); k > 0 && len(b) > 0; k-- {
				p := c.rng.Intn(len(b))
				switch c.rng.Intn(6) {
				case 0:
					b[p] ^= byte(1 << c.rng.Intn(8))
				case 1:
					b = b[:p]
				case 2:
					b = append(b[:p], b[p+min(len(b)-p, 1+c.rng.Intn(8)):]...)
				case 3:
					q := c.rng.Intn(len(b))
					if p > q {
						p, q = q, p
					}
					b = append(append(append([]byte(nil), b[:q]...), b[p:q]...), b[q:]...)
				case 4:
					b[p] = []byte{0xff, 0x00, 0x9f, 0xbf, 0x7f, 0x5f, 0x1b, 0x3b, 0xfb, 0xf7, 0xd8}[c.rng.Intn(11)]
				default:
					ins := [][]byte{{0x1b, 0xff, 0xff, 0xff, 0xff, 0xff, 0xff, 0xff, 0xff}, {0x3b, 0xff, 0xff, 0xff, 0xff, 0xff, 0xff, 0xff, 0xff}, {0x9b, 0x7f, 0xff, 0xff, 0xff, 0xff, 0xff, 0xff, 0xff}, {0xd8, 0x2a, 0x41, 0x00}}[c.rng.Intn(4)]
					b = append(append(append([]byte(nil), b[:p]...), ins...), b[p:]...)
				}
			}
		}
		e := robustEntries[c.rng.Intn(len(robustEntries))]
		emit(e.name, b, tag)
	}
	// well-signed envelopes around hostile argument values
	for _, av := range [][]byte{
		{0x1b, 0x80, 0, 0, 0, 0, 0, 0, 0}, {0x1b, 0xff, 0xff, 0xff, 0xff, 0xff, 0xff, 0xff, 0xff}, {0x3b, 0x7f, 0xff, 0xff, 0xff, 0xff, 0xff, 0xff, 0xff},
		{0x81, 0x1b, 0xff, 0xff, 0xff, 0xff, 0xff, 0xff, 0xff, 0xff}, {0xa1, 0x61, 'k', 0x1b, 0x80, 0, 0, 0, 0, 0, 0, 1}, {0xfb, 0x7f, 0xf8, 0, 0, 0, 0, 0, 1}, {0xf6}, {0x40},
	} {
		b := envelopeWithArgs(av)
		for _, e := range []string{"token.FromSealed", "invocation.FromSealed", "invocation.ExecutionAllowed", "container.FromCbor"} {
			emit(e, b, "signed-hostile-args")
		}
	}
	// correctly signed delegations and invocations in which one or two fields hold hostile values
	hostileDids := []string{"did:key:z", "did:key:zDn", "did:key:z6Mk", "did:web:example.com", "did:key:z" + strings.Repeat("1", 40), "did:key:" + keyFor("p256", 0).did.String()[8:30], "x",
		keyFor("p256", 0).did.String() + "1", keyFor("secp256k1", 0).did.String()[:40], "did:key:zDnaeSMnptAKpH3AN6wHoR6yiaxq2xWnESvJ4DMqD4SXbX49" /* P-256 code over an off-curve point */}
	ns := 400
	if c.thoro {
		ns = 8000
	}
	for i := 0; i < ns; i++ {
		k := keyFor([]string{"ed25519", "p256", "secp256k1", "rsa"}[c.rng.Intn(4)], c.rng.Intn(3))
		other := keyFor("ed25519", 3)
		kind := []string{"dlg", "inv"}[c.rng.Intn(2)]
		var fields map[string][]byte
		if kind == "dlg" {
			fields = map[string][]byte{"iss": cborText(k.did.String()), "aud": cborText(other.did.String()), "sub": cborText(k.did.String()), "cmd": cborText("/x"),
				"pol": {0x81, 0x83, 0x62, '=', '=', 0x62, '.', 'a', 0x01}, "nonce": cborBin([]byte("nonce-nonce-")), "exp": {0xf6}}
		} else {
			fields = map[string][]byte{"iss": cborText(k.did.String()), "sub": cborText(k.did.String()), "cmd": cborText("/x"), "args": {0xa0}, "prf": {0x80},
				"nonce": cborBin([]byte("nonce-nonce-")), "exp": {0xf6}}
		}
		var touched []string
		for m := 1 + c.rng.Intn(2); m > 0; m-- {
			names := []string{"iss", "aud", "sub", "cmd", "pol", "args", "prf", "nonce", "exp", "nbf", "meta", "iat", "cause", "extra"}
			f := names[c.rng.Intn(len(names))]
			touched = append(touched, f)
			switch c.rng.Intn(6) {
			case 0:
				delete(fields, f)
			case 1:
				fields[f] = cborText(hostileDids[c.rng.Intn(len(hostileDids))])
			case 2:
				if f == "pol" { // a policy around hostile operands
					fields[f] = append(append([]byte{0x81, 0x83}, cborText([]string{"==", ">", "<=", "like", "all", "any", "nope"}[c.rng.Intn(7)])...), append(cborText([]string{".", ".a", ".[0]", ".a[", "a", ".[1:2]"}[c.rng.Intn(6)]), hostileCbor(c, 2)...)...)
				} else {
					fields[f] = append(cborHead(5, 1), append(cborText("k"), hostileCbor(c, 3)...)...)
				}
			default:
				fields[f] = hostileCbor(c, 3)
			}
		}
		b := signedEnvelope(k, "ucan/"+kind+"@1.0.0-rc.1", fields)
		sort.Strings(touched)
		for _, e := range []string{"token.FromSealed", map[string]string{"dlg": "delegation.FromSealed", "inv": "invocation.ExecutionAllowed"}[kind], "container.FromCbor"} {
			if e == "container.FromCbor" {
				if i%4 != 0 {
					continue
				}
				b = append(append([]byte{0xa1}, cborText("ctn-v1")...), append([]byte{0x81}, cborBin(b)...)...)
			}
			c.emitG("go.robust.bytes "+e+" "+hx(b), "robust:"+e, func(string) bool { return true },
				func(g string) []string {
					return []string{"signed-hostile:" + kind + ":" + strings.Join(touched, "+") + ":" + strings.Fields(g)[0]}
				})
		}
	}
	// hostile declared lengths in front of, and after, a valid CAR (every container reader)
	if car, err := writeWith("car", false, sealedSet(c, 1)); err == nil {
		for _, hv := range hostileVarints {
			for _, b := range [][]byte{append(append([]byte(nil), hv...), car...), append(append(append([]byte(nil), car...), hv...), 1, 2, 3), hv} {
				for _, e := range []string{"container.FromCar", "container.FromCarBase64", "container.FromCbor"} {
					in := b
					if e == "container.FromCarBase64" {
						in = []byte(base64.StdEncoding.EncodeToString(b))
					}
					emit(e, in, "hostile-length")
				}
			}
		}
	}
	// data with integers beyond int64 offered to policy matching
	for _, d := range [][]byte{{0x1b, 0xff, 0xff, 0xff, 0xff, 0xff, 0xff, 0xff, 0xff}, {0xa1, 0x61, 'a', 0x1b, 0x80, 0, 0, 0, 0, 0, 0, 0}, {0x81, 0x1b, 0x80, 0, 0, 0, 0, 0, 0, 0},
		{0xa2, 0x61, 'a', 0xa1, 0x61, 'b', 0x81, 0x1b, 0xff, 0xff, 0xff, 0xff, 0xff, 0xff, 0xff, 0xff, 0x61, 'l', 0x82, 0x01, 0x1b, 0x80, 0, 0, 0, 0, 0, 0, 0}} {
		emit("policy.Match(cbor)", d, "huge-int-data")
	}
	// a policy whose literal is beyond int64
	emit("policy.FromIPLD(cbor)", []byte{0x81, 0x83, 0x62, '=', '=', 0x61, '.', 0x1b, 0xff, 0xff, 0xff, 0xff, 0xff, 0xff, 0xff, 0xff}, "huge-int-policy")
	emit("policy.FromIPLD(cbor)", []byte{0x81, 0x83, 0x61, '>', 0x61, '.', 0x1b, 0x80, 0, 0, 0, 0, 0, 0, 0}, "huge-int-policy")
	// generated families: nesting and size (child process when the depth could exhaust the stack)
	depths := []int{100, 10000, 100000}
	if c.thoro {
		depths = append(depths, 1000000, 3000000)
	}
	gen := func(name, g string, child bool) {
		l := "go.robust.gen " + name + " " + g
		if child {
			l += " child"
		}
		c.emitG(l, "robust:"+name+"|"+strings.Split(g, ":")[0], func(string) bool { return true }, func(g2 string) []string {
			return []string{"gen:" + strings.Split(g, ":")[0] + ":" + strings.Fields(g2)[0]}
		})
	}
	for _, d := range depths {
		child := d >= 100000
		ds := strconv.Itoa(d)
		gen("token.FromSealed", "cbor-nested-lists:"+ds, child)
		gen("container.FromCbor", "cbor-nested-lists:"+ds, child)
		gen("container.FromCbor", "cbor-nested-maps:"+ds, child)
		gen("token.FromDagJson", "json-nested-lists:"+ds, child)
		gen("policy.FromIPLD(cbor)", "policy-nested-and:"+ds, child)
		gen("invocation.FromSealed", "envelope-nested-args:"+ds, child)
		gen("invocation.ExecutionAllowed", "envelope-nested-args:"+ds, child)
		gen("policy.Match(cbor)", "cbor-nested-lists:"+ds, child)
		gen("selector.Parse", "selector-long:"+ds, false)
		gen("selector.Parse", "selector-brackets:"+ds, false)
	}
	for _, d := range []int{100, 2000, 20000} {
		gen("policy.FromIPLD(cbor)", "policy-nested-not:"+strconv.Itoa(d), d >= 20000)
	}
	gen("container.FromCar", "car-huge-section:8", false)
	gen("container.FromCbor", "cbor-huge-array-head:0", false)
	gen("token.FromSealed", "cbor-huge-bytes-head:0", false)
	// allocation growth
	for _, fam := range []struct{ e, g string }{
		{"policy.FromIPLD(cbor)", "policy-nested-not:1500"}, {"policy.FromIPLD(cbor)", "policy-nested-and:1500"}, {"policy.FromIPLD(cbor)", "policy-wide:3000"},
		{"selector.Parse", "selector-long:5000"}, {"selector.Parse", "selector-brackets:5000"}, {"container.FromCbor", "cbor-nested-lists:5000"},
		{"invocation.FromSealed", "envelope-nested-args:3000"},
	} {
		c.emitG("go.robust.growth "+fam.e+" "+fam.g, "robust-growth:"+fam.e+"|"+strings.Split(fam.g, ":")[0], func(string) bool { return true }, func(g string) []string { return []string{"growth:" + strings.Fields(g)[0]} })
	}
	return nil
}
