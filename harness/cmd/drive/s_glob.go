package main

import (
	"github.com/ipld/go-ipld-prime"
	"github.com/ipld/go-ipld-prime/codec/dagjson"
	"github.com/ipld/go-ipld-prime/datamodel"
	"github.com/ipld/go-ipld-prime/fluent/qp"
	"strings"
	"unicode/utf8"

	"github.com/ipld/go-ipld-prime/node/basicnode"
	"github.com/ucan-wg/go-ucan/pkg/policy"
)

func init() {
	register(stream{
		name: "glob",
		rule: "every (pattern, string) pair over the alphabet {a,b,*,\\} with |pattern| ≤ N and |string| ≤ N (N=4 quick, 5 thorough), evaluated through policy.Like + Policy.Match on a string node, plus random longer pairs and multi-byte UTF-8. Added later: every statement is also matched as decoded from its own IPLD and DAG-JSON form, and again on the first object after it matched other strings. Every pair over the bytes {0xff,0xfe,0xe2,0x82,0xac,*} up to length 3 (bytes that are not UTF-8, one character taken apart) plus the replacement character: the match is on bytes (no DAG-JSON leg for patterns that are not UTF-8). Bytes whose low seven bits are those of '*' or '\\\\' (0xaa, 0xdc) in patterns and strings; every statement is matched again after another like statement with escapes was built. A pattern the constructor refuses is also offered to FromIPLD and FromDagJson, which must refuse it. One text cut into (pattern, string) at two places, the two pairs matched one right after the other, in both orders. Non-trivial = the pattern contains a wildcard or an escape. Distinct = distinct protocol lines.",
		run:  runGlobStream,
		eval: evalGlob,
		cmp: func(line, g, m string) string {
			// Go reports one bit; the model reports implementation-model and spec bits
			if g == "err" || m == "err" {
				if g != m {
					return "parse accept/reject differs"
				}
				return ""
			}
			if m != g+" "+g {
				return "like(p,s) ≠ (s ∈ Lang p)"
			}
			return ""
		},
	})
}

// goLike evaluates `like` through the public API: Like constructor + Match on a string node.
func goLike(p, s string) string {
	pol, err := policy.Construct(policy.Like(".", p))
	if err != nil {
		// a pattern the constructor refuses is refused by the decoders too (a statement that arrives in a token is a decoded one)
		if nd, e := qp.BuildList(basicnode.Prototype.Any, 1, func(la datamodel.ListAssembler) {
			qp.ListEntry(la, qp.List(3, func(st datamodel.ListAssembler) {
				qp.ListEntry(st, qp.String("like"))
				qp.ListEntry(st, qp.String("."))
				qp.ListEntry(st, qp.String(p))
			}))
		}); e == nil {
			if pd, e := policy.FromIPLD(nd); e == nil {
				return "decoder accepts a pattern the constructor refuses: " + pd.String()
			}
			if js, e := ipld.Encode(nd, dagjson.Encode); e == nil && utf8.ValidString(p) {
				if pd, e := policy.FromDagJson(string(js)); e == nil {
					return "DAG-JSON decoder accepts a pattern the constructor refuses: " + pd.String()
				}
			}
		}
		return "err"
	}
	n := basicnode.NewString(s)
	ok, _ := pol.Match(n)
	// another statement with an escaped pattern of its own is built (and used) while this one is alive: a compiled pattern
	// belongs to its statement
	if other, err := policy.Construct(policy.Like(".", "q\\*r\\\\s*")); err == nil {
		other.Match(basicnode.NewString("q*r\\s!"))
		if okAgain, _ := pol.Match(n); okAgain != ok {
			return "history: the statement answers " + bstr(ok) + " and, after another like statement was built, " + bstr(okAgain)
		}
	}
	// the same statement decoded from IPLD and from DAG-JSON must decide the same way
	if nd, err := pol.ToIPLD(); err == nil {
		if p2, err := policy.FromIPLD(nd); err == nil {
			if ok2, _ := p2.Match(n); ok2 != ok {
				return "roundtrip: built=" + bstr(ok) + " decoded=" + bstr(ok2)
			}
		} else {
			return "roundtrip: built policy does not decode"
		}
		// (JSON text cannot carry bytes that are not UTF-8: such a pattern has no DAG-JSON form to compare with)
		if js, err := ipld.Encode(nd, dagjson.Encode); err == nil && utf8.ValidString(p) {
			if p3, err := policy.FromDagJson(string(js)); err == nil {
				if ok3, _ := p3.Match(n); ok3 != ok {
					return "roundtrip: built=" + bstr(ok) + " dagjson=" + bstr(ok3)
				}
			}
		}
	}
	// and again on the first object after it was used on other strings
	for _, o := range []string{"", "*", s + "x", "\\", p} {
		pol.Match(basicnode.NewString(o))
	}
	if ok4, _ := pol.Match(n); ok4 != ok {
		return "history: fresh=" + bstr(ok) + " later=" + bstr(ok4)
	}
	return bstr(ok)
}

func evalGlob(line string) (string, string) {
	f := strings.Fields(line)
	p, s := unhx(f[1]), unhx(f[2])
	return goLike(p, s), "Like(\".\", " + q(p) + ") on " + q(s)
}

func runGlobStream(c *ctx) error {
	n := 4
	if c.thoro {
		n = 5
	}
	var strs []string
	allStrings("ab*\\", n, func(s string) { strs = append(strs, s) })
	for _, p := range strs {
		nt := strings.ContainsAny(p, "*\\")
		for _, s := range strs {
			c.emitG("glob.like "+hxs(p)+" "+hxs(s), "glob.Match", func(string) bool { return nt },
				func(g string) []string { return []string{"like:" + g} })
		}
	}
	// bytes that are not UTF-8, the replacement character, and the three bytes of one character taken apart: the match is on
	// BYTES (0xff ≠ 0xfe ≠ U+FFFD; a wildcard may stand for part of a character)
	{
		var pats, subjects []string
		allStrings("\xff\xfe\xe2\x82\xac*", 3, func(s string) { pats = append(pats, s) })
		allStrings("\xff\xfe\xe2\x82\xac", 3, func(s string) { subjects = append(subjects, s) })
		subjects = append(subjects, "\uFFFD", "id-\xfe-1", "id-\uFFFD", "\xe2\x82\xac", "a\xffb")
		pats = append(pats, "\uFFFD", "id-\xff*", "id-\xff", "\xe2*\xac", "*\xff*", "a\\\xffb")
		for _, p := range pats {
			for _, s := range subjects {
				c.emitG("glob.like "+hxs(p)+" "+hxs(s), "glob.Match", func(string) bool { return strings.ContainsAny(p, "*\\") },
					func(g string) []string { return []string{"like-bytes:" + g} })
			}
		}
	}
	// bytes that equal '*' (0x2a) or '\\' (0x5c) in their low seven bits (0xaa, 0xdc — halves of ordinary two-byte characters such as
	// ª ê Ü ܐ) are ordinary bytes; and the string may hold '*' and '\\' themselves
	{
		var pats, subjects []string
		allStrings("\xaa\xdc\xc3a*", 3, func(s string) { pats = append(pats, s) })
		allStrings("\xaa\xdc\xc3a*\\", 2, func(s string) { subjects = append(subjects, s) })
		pats = append(pats, "f\xc3\xaate", "\xdc\x90", "\\\xaa", "\\\xdc*", "a\xdc", "\xc3\xaa*\xdc\x90")
		subjects = append(subjects, "f\xc3\xaate", "f\xc3\xa3te", "\xdc\x90", "\xdc", "\xaa", "a\xdc", "a\\", "a*", "\xc3\xaax\xdc\x90")
		for _, p := range pats {
			for _, s := range subjects {
				c.emitG("glob.like "+hxs(p)+" "+hxs(s), "glob.Match", func(string) bool { return true },
					func(g string) []string { return []string{"like-highbit:" + g} })
			}
		}
	}
	// one text cut into (pattern, string) at two different places, the two pairs evaluated one right after the other, in
	// both orders (over different letters, so that each order meets its texts for the first time): the outcome of a match is
	// a function of (pattern, string), not of their concatenation nor of what was matched before
	{
		var words []string
		allStrings("cd*\\", n, func(s string) { words = append(words, s) })
		one := func(p, s string) {
			c.emitG("glob.like "+hxs(p)+" "+hxs(s), "glob.Match", func(string) bool { return strings.ContainsAny(p, "*\\") },
				func(g string) []string { return []string{"like-cut:" + g} })
		}
		for _, w := range words {
			if !strings.Contains(w, "*") {
				continue
			}
			v := strings.NewReplacer("c", "e", "d", "f").Replace(w)
			for i := 0; i <= len(w); i++ {
				for j := i + 1; j <= len(w); j++ {
					one(w[:i], w[i:])
					one(w[:j], w[j:])
					one(v[:j], v[j:])
					one(v[:i], v[i:])
				}
			}
		}
	}
	// random longer pairs, built so that matches are likely: derive the string from the pattern
	alpha := []string{"a", "b", "c", "*", "\\", "é", "日", "\xff", "\xfe", "\uFFFD"}
	for i := 0; i < 20000; i++ {
		var pb, sb strings.Builder
		l := c.rng.Intn(10)
		for j := 0; j < l; j++ {
			switch c.rng.Intn(5) {
			case 0: // wildcard: string gets an arbitrary run
				pb.WriteString("*")
				for k := c.rng.Intn(4); k > 0; k-- {
					sb.WriteString(alpha[c.rng.Intn(len(alpha))])
				}
			case 1: // escape
				ch := alpha[c.rng.Intn(len(alpha))]
				pb.WriteString("\\" + ch)
				sb.WriteString(ch)
			default:
				ch := alpha[c.rng.Intn(3)]
				pb.WriteString(ch)
				sb.WriteString(ch)
			}
		}
		p, s := pb.String(), sb.String()
		if c.rng.Chance(1, 3) && len(s) > 0 { // perturb the string
			k := c.rng.Intn(len(s))
			s = s[:k] + alpha[c.rng.Intn(len(alpha))] + s[k+1:]
		}
		c.emitG("glob.like "+hxs(p)+" "+hxs(s), "glob.Match", func(string) bool { return true },
			func(g string) []string { return []string{"like-random:" + g} })
	}
	c.r.Exhaustive = true
	c.r.ExhaustiveNote = "all pairs over {a,b,*,\\} up to the stated length are enumerated; longer pairs are sampled"
	return nil
}
