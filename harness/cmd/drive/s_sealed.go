package main

import (
	"bytes"
	"crypto/elliptic"
	"encoding/asn1"
	"fmt"
	"io"
	"math/big"
	"strings"
	"testing/iotest"
	"time"

	"github.com/decred/dcrd/dcrec/secp256k1/v4"
	"github.com/ipfs/go-cid"
	"github.com/ipld/go-ipld-prime"
	"github.com/ipld/go-ipld-prime/codec/dagcbor"
	"github.com/libp2p/go-libp2p/core/crypto"
	"github.com/multiformats/go-multicodec"
	"github.com/multiformats/go-multihash"
	"github.com/ucan-wg/go-ucan/did"
	"github.com/ucan-wg/go-ucan/pkg/command"
	"github.com/ucan-wg/go-ucan/pkg/policy"
	"github.com/ucan-wg/go-ucan/token"
	"github.com/ucan-wg/go-ucan/token/delegation"
	"github.com/ucan-wg/go-ucan/token/invocation"
	"verifharness/internal/cborx"
)

func init() {
	register(stream{
		name: "sealed",
		rule: "(cbor) random IPLD trees with canonically ordered maps: dagcbor.Encode versus the model's encoder, and decode-then-recompare versus the model's accept on canonical bytes and on single-tweak re-encodings; (sealed) real delegations and invocations sealed with Ed25519, secp256k1, P-256 and RSA keys: the CID of ToSealed / ToSealedWriter / FromSealed / FromSealedReader (generic and typed) against an independent CIDv1(dag-cbor, sha2-256) of the bytes; every data-preserving re-encoding of each sealed token — a wider length prefix at each head, an indefinite-length form of each string/list/map, swapped map entries, an extra element in the outer list — and key-less signature re-encodings (ECDSA s ↦ n−s, a trailing byte after the DER signature), each offered to all six unsealing functions; the honest bytes followed by a line end, padding, another CBOR item or the token a second time (the sealed form is the whole input). A token whose values and lengths sit exactly at the CBOR head-size boundaries (23/24, 255/256, 65535/65536, 2^32−1/2^32, and their negative counterparts) under the same re-encodings. Tokens with one field of 4095 … 300000 bytes through every sealing and unsealing API. Non-trivial = re-encoded or mutated inputs. Distinct = distinct protocol lines.",
		run:  runSealedStream,
		eval: evalSealed,
		cmp:  cmpSealed,

		classByDirection: true,
	})
}

func cmpSealed(line, g, m string) string {
	f := strings.Fields(line)
	switch f[0] {
	case "cbor.encode", "cbor.accept":
		if g != m {
			return "dagcbor≠model"
		}
		return ""
	case "go.sealed.apis":
		if g != "ok" {
			return "cid-apis-disagree"
		}
		return ""
	case "sealed.reenc":
		if strings.HasPrefix(g, "acc") {
			if m == "rej" {
				return "accepts-noncanonical-bytes"
			}
			if strings.Contains(g, "cid=BAD") {
				return "cid-is-not-hash-of-bytes"
			}
			if strings.Contains(g, "unique=NO") {
				return "same-content-two-cids:" + f[4]
			}
		}
		return ""
	}
	return ""
}

func independentCid(b []byte) cid.Cid {
	h, _ := multihash.Sum(b, multihash.SHA2_256, -1)
	return cid.NewCidV1(uint64(multicodec.DagCbor), h)
}

// sigPayloadOf returns the canonical bytes of element [1] of the envelope (the signed content).
func sigPayloadOf(b []byte) []byte {
	n, err := ipld.Decode(b, dagcbor.Decode)
	if err != nil {
		return nil
	}
	sp, err := n.LookupByIndex(1)
	if err != nil {
		return nil
	}
	out, err := ipld.Encode(sp, dagcbor.Encode)
	if err != nil {
		return nil
	}
	return out
}

type unsealFn struct {
	name string
	f    func([]byte) (cid.Cid, error)
}

var unsealers = []unsealFn{
	{"token.FromSealed", func(b []byte) (cid.Cid, error) { _, c, err := token.FromSealed(b); return c, err }},
	{"token.FromSealedReader", func(b []byte) (cid.Cid, error) {
		_, c, err := token.FromSealedReader(iotest.OneByteReader(bytes.NewReader(b)))
		return c, err
	}},
	{"delegation.FromSealed", func(b []byte) (cid.Cid, error) { _, c, err := delegation.FromSealed(b); return c, err }},
	{"delegation.FromSealedReader", func(b []byte) (cid.Cid, error) {
		_, c, err := delegation.FromSealedReader(bytes.NewReader(b))
		return c, err
	}},
	{"invocation.FromSealed", func(b []byte) (cid.Cid, error) { _, c, err := invocation.FromSealed(b); return c, err }},
	{"invocation.FromSealedReader", func(b []byte) (cid.Cid, error) {
		_, c, err := invocation.FromSealedReader(iotest.DataErrReader(bytes.NewReader(b)))
		return c, err
	}},
}

func evalSealed(line string) (out string, rd string) {
	defer func() {
		if r := recover(); r != nil {
			out = fmt.Sprint("panic ", r)
		}
	}()
	f := strings.Fields(line)
	rd = line
	switch f[0] {
	case "cbor.encode":
		n, err := parseNode(f[1])
		if err != nil {
			return "bad-node", rd
		}
		b, err := ipld.Encode(n, dagcbor.Encode)
		if err != nil {
			return "encode-err", rd
		}
		return hx(b), rd
	case "cbor.accept":
		b := []byte(unhx(f[1]))
		n, err := ipld.Decode(b, dagcbor.Decode)
		if err != nil {
			return "rej", rd
		}
		c, err := ipld.Encode(n, dagcbor.Encode)
		if err != nil || !bytes.Equal(c, b) {
			return "rej", rd
		}
		return "acc " + dumpNode(n), rd
	case "sealed.reenc":
		// sealed.reenc <b'> <b> <api> <tweak>
		bp, b := []byte(unhx(f[1])), []byte(unhx(f[2]))
		var u *unsealFn
		for i := range unsealers {
			if unsealers[i].name == f[3] {
				u = &unsealers[i]
			}
		}
		if u == nil {
			return "bad-api", rd
		}
		c, err := u.f(bp)
		if err != nil {
			return "rej", rd
		}
		cidOK, same, unique := "ok", "diff", "yes"
		if c != independentCid(bp) {
			cidOK = "BAD"
		}
		if sp := sigPayloadOf(bp); sp != nil && bytes.Equal(sp, sigPayloadOf(b)) {
			same = "same"
			if !bytes.Equal(bp, b) {
				unique = "NO"
			}
		}
		return "acc cid=" + cidOK + " content=" + same + " unique=" + unique, rd
	case "go.sealed.apis":
		// go.sealed.apis <kind> <alg> <n>: all sealing and unsealing APIs report the independent CID of the bytes
		return sealedApis(f[1], f[2], f[3]), rd
	}
	return "bad-line", rd
}

// ---- token fixtures

type keyed struct {
	alg  string
	priv crypto.PrivKey
	did  did.DID
}

var keyCache = map[string]keyed{}

func keyFor(alg string, i int) keyed {
	id := fmt.Sprintf("%s#%d", alg, i)
	if k, ok := keyCache[id]; ok {
		return k
	}
	var priv crypto.PrivKey
	var d did.DID
	var err error
	switch alg {
	case "ed25519":
		priv, d, err = did.GenerateEd25519()
	case "secp256k1":
		priv, d, err = did.GenerateSecp256k1()
	case "p256":
		priv, d, err = did.GenerateECDSAWithCurve(multicodec.P256Pub)
	case "p384":
		priv, d, err = did.GenerateECDSAWithCurve(multicodec.P384Pub)
	case "p521":
		priv, d, err = did.GenerateECDSAWithCurve(multicodec.P521Pub)
	case "rsa":
		priv, d, err = did.GenerateRSA()
	}
	if err != nil {
		panic(err)
	}
	k := keyed{alg, priv, d}
	keyCache[id] = k
	return k
}

// sealFixture builds and seals a token; n selects among a few payload shapes.
func sealFixture(kind, alg string, n int) ([]byte, cid.Cid, keyed, error) {
	k := keyFor(alg, 0)
	aud := keyFor("ed25519", 1)
	if kind == "dlg" {
		pol := policy.Policy{}
		if n%2 == 1 {
			pol = policy.MustConstruct(policy.Equal(".a", basicInt(1)), policy.Like(".s", "x*"))
		}
		opts := []delegation.Option{delegation.WithNonce([]byte("nonce-nonce-" + fmt.Sprint(n)))}
		if n%3 == 1 {
			opts = append(opts, delegation.WithMeta("k", "v"), delegation.WithMeta("n", int64(7)))
		}
		if n%3 == 2 {
			opts = append(opts, delegation.WithExpirationIn(3600e9), delegation.WithNotBeforeIn(-3600e9))
		}
		if n >= 100 && n < 200 {
			opts = append(opts, delegation.WithMeta("big", bytes.Repeat([]byte{0xa5}, bigFieldSize(n))))
		}
		if n == 200 {
			// values and lengths exactly at the points where a CBOR head grows: 23/24, 255/256, 65535/65536, 2^32-1/2^32
			for i, v := range headBoundaries {
				opts = append(opts, delegation.WithMeta(fmt.Sprintf("v%02d", i), v), delegation.WithMeta(fmt.Sprintf("w%02d", i), -1-v))
			}
			opts = append(opts, delegation.WithMeta("s23", strings.Repeat("x", 23)), delegation.WithMeta("s24", strings.Repeat("x", 24)), delegation.WithMeta("s255", strings.Repeat("y", 255)),
				delegation.WithMeta("s256", strings.Repeat("y", 256)), delegation.WithMeta("b255", bytes.Repeat([]byte{7}, 255)), delegation.WithMeta("b256", bytes.Repeat([]byte{7}, 256)))
		}
		t, err := delegation.Root(k.did, aud.did, command.MustParse("/foo/bar"), pol, opts...)
		if err != nil {
			return nil, cid.Undef, k, err
		}
		b, c, err := t.ToSealed(k.priv)
		return b, c, k, err
	}
	if n >= 100 && n < 200 {
		// one large field: a string argument (a single write of that size for a streaming encoder)
		big := strings.Repeat("x", bigFieldSize(n))
		t, err := invocation.New(k.did, aud.did, command.MustParse("/foo"), []cid.Cid{independentCid([]byte("p1"))},
			invocation.WithNonce([]byte("nonce-nonce-big")), invocation.WithoutInvokedAt(), invocation.WithArgument("big", big))
		if err != nil {
			return nil, cid.Undef, k, err
		}
		b, c, err := t.ToSealed(k.priv)
		return b, c, k, err
	}
	opts := []invocation.Option{invocation.WithNonce([]byte("nonce-nonce-" + fmt.Sprint(n))), invocation.WithoutInvokedAt()}
	if n == 200 {
		for i, v := range headBoundaries {
			opts = append(opts, invocation.WithArgument(fmt.Sprintf("v%02d", i), v), invocation.WithArgument(fmt.Sprintf("w%02d", i), -1-v))
		}
		opts = append(opts, invocation.WithArgument("s255", strings.Repeat("y", 255)), invocation.WithArgument("s256", strings.Repeat("y", 256)),
			invocation.WithArgument("l24", seqAny(24)), invocation.WithArgument("l23", seqAny(23)), invocation.WithExpiration(time.Unix(4294967295, 0)))
	}
	if n%2 == 1 {
		opts = append(opts, invocation.WithArgument("a", int64(1)), invocation.WithArgument("s", "xyz"), invocation.WithArgument("l", []any{int64(1), "two"}))
	}
	if n%3 == 1 {
		opts = append(opts, invocation.WithAudience(aud.did), invocation.WithMeta("k", "v"))
	}
	if n%3 == 2 {
		opts = append(opts, invocation.WithExpirationIn(3600e9))
		c := independentCid([]byte("cause"))
		opts = append(opts, invocation.WithCause(&c))
	}
	t, err := invocation.New(k.did, aud.did, command.MustParse("/foo"), []cid.Cid{independentCid([]byte("p1")), independentCid([]byte("p2"))}, opts...)
	if err != nil {
		return nil, cid.Undef, k, err
	}
	b, c, err := t.ToSealed(k.priv)
	return b, c, k, err
}

// headBoundaries: the largest argument of each CBOR head size and its successor
var headBoundaries = []int64{23, 24, 255, 256, 65535, 65536, 4294967295, 4294967296}

// bigFieldSize: shapes 100… carry one field of this many bytes (around the sizes at which buffers are typically flushed)
func bigFieldSize(n int) int {
	sizes := []int{4095, 4096, 4097, 5000, 20000, 65536, 70000, 300000}
	return sizes[(n-100)%len(sizes)]
}

func sealedApis(kind, alg, ns string) string {
	var n int
	fmt.Sscan(ns, &n)
	b, c, k, err := sealFixture(kind, alg, n)
	if err != nil {
		return "seal-error: " + err.Error()
	}
	want := independentCid(b)
	if c != want {
		return "ToSealed cid is not the hash of its bytes"
	}
	// writer variant: same bytes, same CID
	var buf bytes.Buffer
	var wc cid.Cid
	if kind == "dlg" {
		t, _, err := delegation.FromSealed(b)
		if err != nil {
			return "FromSealed rejects an honest token: " + err.Error()
		}
		wc, err = t.ToSealedWriter(&buf, k.priv)
		if err != nil {
			return "ToSealedWriter: " + err.Error()
		}
	} else {
		t, _, err := invocation.FromSealed(b)
		if err != nil {
			return "FromSealed rejects an honest token: " + err.Error()
		}
		wc, err = t.ToSealedWriter(&buf, k.priv)
		if err != nil {
			return "ToSealedWriter: " + err.Error()
		}
	}
	if wc != independentCid(buf.Bytes()) {
		return "ToSealedWriter cid is not the hash of the bytes written"
	}
	// one token sealed again and again (ECDSA signatures differ from call to call): every call reports the CID of the
	// bytes IT returned or wrote
	{
		var tk interface {
			ToSealed(crypto.PrivKey) ([]byte, cid.Cid, error)
			ToSealedWriter(io.Writer, crypto.PrivKey) (cid.Cid, error)
		}
		if kind == "dlg" {
			tk, _, _ = delegation.FromSealed(b)
		} else {
			tk, _, _ = invocation.FromSealed(b)
		}
		for r := 0; r < 3; r++ {
			b2, c2, err := tk.ToSealed(k.priv)
			if err != nil {
				return fmt.Sprintf("ToSealed (call %d on one token): %v", r+1, err)
			}
			if c2 != independentCid(b2) {
				return fmt.Sprintf("ToSealed (call %d on one token): cid is not the hash of the bytes returned", r+1)
			}
			var w2 bytes.Buffer
			c3, err := tk.ToSealedWriter(&w2, k.priv)
			if err != nil {
				return fmt.Sprintf("ToSealedWriter (call %d on one token): %v", r+1, err)
			}
			if c3 != independentCid(w2.Bytes()) {
				return fmt.Sprintf("ToSealedWriter (call %d on one token): cid is not the hash of the bytes written", r+1)
			}
			if _, c4, err := token.FromSealed(b2); err != nil || c4 != c2 {
				return fmt.Sprintf("ToSealed (call %d on one token): FromSealed reports another cid for the same bytes (%v)", r+1, err)
			}
			// the caller does what it likes with the bytes it was given (here: wipes them): the next sealing is not affected
			for i := range b2 {
				b2[i] = 0
			}
			for i := range w2.Bytes() {
				w2.Bytes()[i] = 0xff
			}
		}
	}
	if sigDeterministic(alg) && !bytes.Equal(buf.Bytes(), b) {
		return "ToSealedWriter bytes differ from ToSealed bytes"
	}
	for _, u := range unsealers {
		if (kind == "dlg") == strings.HasPrefix(u.name, "invocation.") {
			continue
		}
		got, err := u.f(b)
		if err != nil {
			return u.name + " rejects an honest token: " + err.Error()
		}
		if got != want {
			return u.name + " reports a cid that is not the hash of the bytes"
		}
	}
	return "ok"
}

func sigDeterministic(alg string) bool { return alg == "ed25519" || alg == "rsa" }

// ---- generation

func sortedTree(c *ctx, depth int) string {
	// like randTree but maps list their keys in DAG-CBOR order (length, then bytewise) and are unique
	k := c.rng.Intn(10)
	if depth == 0 && k >= 6 {
		k = c.rng.Intn(6)
	}
	switch k {
	case 6, 7:
		n := c.rng.Intn(4)
		var parts []string
		for i := 0; i < n; i++ {
			parts = append(parts, sortedTree(c, depth-1))
		}
		return "l(" + strings.Join(parts, ",") + ")"
	case 8, 9:
		keys := []string{"", "a", "b", "h", "aa", "ab", "zz", "iss", "ucan/x"}
		var parts []string
		for _, key := range keys { // already in canonical order
			if c.rng.Chance(1, 3) {
				parts = append(parts, hxsRaw(key)+":"+sortedTree(c, depth-1))
			}
		}
		return "m(" + strings.Join(parts, ",") + ")"
	case 2:
		return "i" + []string{"0", "23", "24", "255", "256", "65535", "65536", "4294967295", "4294967296", "-1", "-24", "-25", "-256", "-257", "9007199254740991", "-9007199254740991", "9223372036854775807", "-9223372036854775808"}[c.rng.Intn(18)]
	case 5:
		if c.rng.Chance(1, 3) {
			return "k" + hxsRaw(string(independentCid(c.rng.Bytes(4)).Bytes()))
		}
		return "b" + hxsRaw(string(c.rng.Bytes(c.rng.Intn(30))))
	default:
		return randTree(c, 0)
	}
}

func runSealedStream(c *ctx) error {
	// (cbor) encoder and acceptance on random canonical trees and their single-tweak re-encodings
	n := 3000
	if c.thoro {
		n = 40000
	}
	for i := 0; i < n; i++ {
		t := sortedTree(c, 3)
		c.emit("cbor.encode "+t, "dagcbor.Encode", true, "cbor:encode")
		nd, err := parseNode(t)
		if err != nil {
			continue
		}
		b, err := ipld.Encode(nd, dagcbor.Encode)
		if err != nil {
			continue
		}
		c.emit("cbor.accept "+hx(b), "dagcbor.Decode+recompare", true, "cbor:accept-canonical")
		it, _, err := cborx.Parse(b)
		if err != nil {
			continue
		}
		for k := 0; k < 2; k++ {
			var buf bytes.Buffer
			tw := cborx.Tweak{Target: c.rng.Intn(it.Count()), Kind: []string{"widen", "indef", "swap"}[c.rng.Intn(3)]}
			if it.Encode(&buf, tw) {
				c.emit("cbor.accept "+hx(buf.Bytes()), "dagcbor.Decode+recompare", true, "cbor:accept-"+tw.Kind)
			}
		}
		// random byte mutation
		if len(b) > 0 {
			m := append([]byte(nil), b...)
			m[c.rng.Intn(len(m))] ^= byte(1 << c.rng.Intn(8))
			c.emit("cbor.accept "+hx(m), "dagcbor.Decode+recompare", true, "cbor:accept-bitflip")
		}
	}
	// (sealed) CID agreement across APIs and re-encodings of sealed tokens
	algs := []string{"ed25519", "secp256k1", "p256"}
	if c.thoro {
		algs = append(algs, "rsa")
	}
	shapes := 3
	if c.thoro {
		shapes = 6
	}
	for _, kind := range []string{"dlg", "inv"} {
		for s := 100; s < 108; s++ {
			c.emit(fmt.Sprintf("go.sealed.apis %s ed25519 %d", kind, s), "cid-apis", true, "apis-big-field")
		}
	}
	for _, kind := range []string{"dlg", "inv"} {
		for _, alg := range algs {
			for _, s := range append(seq(shapes), 200) {
				if s == 200 && alg != "ed25519" {
					continue // the shape with values and lengths at every head-size boundary: once
				}
				c.emit(fmt.Sprintf("go.sealed.apis %s %s %d", kind, alg, s), "cid-apis", true, "apis:"+alg)
				b, _, k, err := sealFixture(kind, alg, s)
				if err != nil {
					return err
				}
				it, _, err := cborx.Parse(b)
				if err != nil {
					return err
				}
				apis := unsealers
				emitRe := func(bp []byte, tweak string) {
					for _, u := range apis {
						if (kind == "dlg") == strings.HasPrefix(u.name, "invocation.") {
							continue
						}
						if !c.thoro && s > 0 && !strings.HasPrefix(u.name, "token.") {
							continue
						}
						c.emit("sealed.reenc "+hx(bp)+" "+hx(b)+" "+u.name+" "+tweak, "sealed."+u.name, true, "reenc:"+tweak)
					}
				}
				for tgt := 0; tgt < it.Count(); tgt++ {
					for _, kindT := range []string{"widen", "indef", "swap"} {
						var buf bytes.Buffer
						if it.Encode(&buf, cborx.Tweak{Target: tgt, Kind: kindT}) {
							emitRe(buf.Bytes(), kindT)
						}
					}
				}
				// an extra element in the outer list (not covered by the signature)
				if len(it.Kids) == 2 {
					ext := *it
					ext.Arg = 3
					ext.Kids = append(append([]*cborx.Item(nil), it.Kids...), &cborx.Item{Major: 7, AI: 22})
					var buf bytes.Buffer
					ext.Encode(&buf, cborx.Tweak{Target: -1})
					emitRe(buf.Bytes(), "outer-extra")
				}
				// signature re-encodings that need no key
				for _, sv := range sigVariants(k.alg, it.Kids[0].Data) {
					mod := *it
					sig := *it.Kids[0]
					sig.Data = sv.sig
					mod.Kids = []*cborx.Item{&sig, it.Kids[1]}
					var buf bytes.Buffer
					mod.Encode(&buf, cborx.Tweak{Target: -1})
					emitRe(buf.Bytes(), sv.name)
				}
				// identity: the honest bytes themselves
				emitRe(b, "identity")
				// the honest bytes FOLLOWED by something: a line end, padding, another CBOR item, the token a second time. The sealed
				// form is the whole input (its CID is the hash of all of it): anything after the token makes it another input
				if s == 0 || c.thoro {
					for name, tail := range map[string][]byte{"lf": {'\n'}, "nul": {0}, "ff": {0xff}, "cbor-null": {0xf6}, "empty-list": {0x80},
						"blank": {' '}, "self": b, "64-zeros": make([]byte, 64)} {
						emitRe(append(append([]byte(nil), b...), tail...), "tail-"+name)
					}
				}
			}
		}
	}
	return nil
}

type sigVariant struct {
	name string
	sig  []byte
}

func curveOrder(alg string) *big.Int {
	switch alg {
	case "p256":
		return elliptic.P256().Params().N
	case "p384":
		return elliptic.P384().Params().N
	case "p521":
		return elliptic.P521().Params().N
	case "secp256k1":
		return secp256k1.S256().N
	}
	return nil
}

func sigVariants(alg string, sig []byte) []sigVariant {
	var out []sigVariant
	out = append(out, sigVariant{"sig-trailing-byte", append(append([]byte(nil), sig...), 0)})
	if n := curveOrder(alg); n != nil {
		var rs struct{ R, S *big.Int }
		if rest, err := asn1.Unmarshal(sig, &rs); err == nil && len(rest) == 0 {
			rs.S = new(big.Int).Sub(n, rs.S)
			if b, err := asn1.Marshal(rs); err == nil {
				out = append(out, sigVariant{"ecdsa-s-negation", b})
			}
		}
	}
	return out
}

var _ = io.EOF

func seq(n int) []int {
	out := make([]int, n)
	for i := range out {
		out[i] = i
	}
	return out
}

func seqAny(n int) []any {
	out := make([]any, n)
	for i := range out {
		out[i] = int64(i)
	}
	return out
}
