package main

import (
	"bytes"
	"crypto/rand"
	"errors"
	"fmt"
	"strings"

	"github.com/ucan-wg/go-ucan/pkg/command"
	"github.com/ucan-wg/go-ucan/pkg/meta"
	"github.com/ucan-wg/go-ucan/token/delegation"
	"github.com/ucan-wg/go-ucan/token/invocation"
	"golang.org/x/crypto/nacl/secretbox"
)

func init() {
	register(stream{
		name: "meta",
		rule: "key validation (nil, empty, 1–64 bytes, all-zero, one non-zero byte) against the model; plaintexts (empty, short, long, binary, invalid UTF-8) × key pairs: AddEncrypted then GetEncryptedString/GetEncryptedBytes, directly and after the token is sealed and unsealed (delegation and invocation, DAG-CBOR and DAG-JSON), with the right key, a wrong key, and EVERY single-bit modification of the stored value — the decryption verdict of x/crypto's secretbox.Open computed by the harness is given to the model as an oracle; stored length = plaintext + 40; two encryptions of one value differ; crypto/rand.Reader replaced by a source that fails after 0…30 bytes (encryption must fail unless a whole nonce was drawn, and store the drawn nonce); the plaintext occurs neither in the stored value nor in the sealed token. Added later: the key rules through the four WithEncryptedMeta* token options; one option value used for two tokens (ciphertexts must differ); an encrypted value under an existing key (refused or readable, never dropped silently); a plaintext returned by GetEncryptedBytes stays what it was while other values are read. Plaintexts of 4095…1 MiB bytes (around 4 KiB and 64 KiB) round-trip; one key BUFFER that holds key A, is overwritten with key B and then wiped: each call uses the bytes the buffer holds at that moment. Values encrypted under K are refused, by all four getters, to keys of another length that contain K or are contained in it, and to K changed in its first or last byte only. A valid key with one more byte in front or behind, for every value of that byte, and with two-byte tails (CR LF, blanks, NULs, padding): refused as a key of the wrong size, never trimmed into the valid key. Stored values sealed by the harness under the all-zero key: the all-zero key (and nil, 31- and 33-byte zero keys) is refused by the getters whatever the value would open to. Non-trivial = every case. Distinct = distinct protocol lines.",
		run:  runMetaStream,
		eval: evalMeta,
		cmp: func(line, g, m string) string {
			if strings.HasPrefix(line, "go.") {
				if g != "ok" {
					return "encrypted metadata contract broken"
				}
				return ""
			}
			if strings.HasPrefix(line, "meta.key") {
				// C19 says that missing, wrongly sized and all-zero keys are REFUSED (by both directions), not which error names which
				// defect, nor how the message reads: a refusal is compared as a refusal
				gf, mf := strings.Fields(g + " -")[0], strings.Fields(m + " -")[0]
				if strings.HasPrefix(g, "encrypt:") {
					return "encryption and decryption apply different key rules"
				}
				if (gf == "ok") != (mf == "ok") {
					return "go=" + gf + " model=" + mf
				}
				return ""
			}
			if strings.HasPrefix(line, "meta.entropy") {
				// C19 wants two encryptions of one value to differ; it does not say how many random bytes are drawn, nor that the
				// stored nonce IS the bytes drawn (it may be derived from more of them). What would endanger the property is an
				// encryption that SUCCEEDS although the source of randomness failed before a nonce's worth of bytes arrived (the
				// model's "err"), or one that succeeds with a nonce that is not random at all (all zero). A refusal is always fine.
				if strings.HasPrefix(g, "ok") && strings.HasPrefix(m, "err") {
					return "go=ok model=err"
				}
				if g == "ok "+strings.Repeat("00", 24) {
					return "go=ok with an all-zero nonce"
				}
				if g == "short-stored-value" {
					return "go=short-stored-value"
				}
				return ""
			}
			if g != m {
				return "go=" + strings.Fields(g + " -")[0] + " model=" + strings.Fields(m + " -")[0]
			}
			return ""
		},
		classByDirection: true,
	})
}

func keyArg(s string) []byte {
	if s == "nil" {
		return nil
	}
	if s == "-" {
		return []byte{}
	}
	return []byte(unhx(s))
}

func evalMeta(line string) (out string, rd string) {
	defer func() {
		if r := recover(); r != nil {
			out = fmt.Sprint("panic ", r)
		}
	}()
	f := strings.Fields(line)
	rd = line
	switch f[0] {
	case "meta.key":
		k := keyArg(f[1])
		m := meta.NewMeta()
		err := m.AddEncrypted("k", "plaintext", k)
		// decryption must apply the same rule
		m2 := meta.NewMeta()
		_ = m2.Add("k", bytes.Repeat([]byte{1}, 64))
		_, derr := m2.GetEncryptedBytes("k", k)
		cls := func(e error) string {
			s := ""
			if e != nil {
				s = e.Error()
			}
			switch {
			case e == nil:
				return "ok"
			case strings.Contains(s, "required"):
				return "err noKey"
			case strings.Contains(s, "invalid key size"):
				return "err keySize"
			case strings.Contains(s, "all zeros"):
				return "err zeroKey"
			}
			return "other"
		}
		a := cls(err)
		if a == "ok" { // valid key: decryption of garbage then fails for another reason (or, were the key rule not applied, the same)
			return "ok", rd
		}
		if derr == nil {
			return "encrypt:" + a + " decrypt:ok", rd
		}
		return a, rd
	case "meta.get":
		k := keyArg(f[1])
		m := meta.NewMeta()
		if err := m.Add("k", []byte(unhx(f[2]))); err != nil {
			return "bad-add", rd
		}
		got, err := m.ReadOnly().GetEncryptedBytes("k", k)
		gs, serr := m.ReadOnly().GetEncryptedString("k", k)
		if (err == nil) != (serr == nil) || (err == nil && gs != string(got)) {
			return "string/bytes getters disagree", rd
		}
		if err != nil {
			return "err", rd
		}
		return "ok " + hx(got), rd
	case "meta.entropy":
		// the entropy source delivers exactly the given bytes, then fails: AddEncrypted must fail unless
		// a whole nonce arrived, and the nonce stored must be what was drawn
		var key []byte
		if f[1] != "nil" {
			key = []byte(unhx(f[1]))
		}
		saved := rand.Reader
		rand.Reader = &failingReader{data: []byte(unhx(f[2]))}
		m := meta.NewMeta()
		err := m.AddEncrypted("k", []byte("value"), key)
		rand.Reader = saved
		if err != nil {
			return "err", rd
		}
		b, _ := m.GetBytes("k")
		if len(b) < 24 {
			return "short-stored-value", rd
		}
		return "ok " + hx(b[:24]), rd
	case "meta.len":
		var n int
		fmt.Sscan(f[1], &n)
		m := meta.NewMeta()
		key := bytes.Repeat([]byte{7}, 32)
		if err := m.AddEncrypted("k", make([]byte, n), key); err != nil {
			return "err", rd
		}
		b, _ := m.GetBytes("k")
		return fmt.Sprint(len(b)), rd
	case "go.meta.roundtrip":
		var i int
		fmt.Sscan(f[1], &i)
		return metaRoundTrip(i), rd
	case "go.meta.size":
		var n int
		fmt.Sscan(f[1], &n)
		return metaSizeRoundTrip(n), rd
	case "go.meta.keybuffer":
		return metaKeyBuffer(), rd
	case "go.meta.relatedkeys":
		return metaRelatedKeys(), rd
	}
	return "bad-line", rd
}

var metaPlain = [][]byte{{}, []byte("a"), []byte("secret-value-0123456789"), bytes.Repeat([]byte("long plaintext! "), 200), {0, 1, 2, 0xff, 0xfe, 0}, []byte("h\xc3\xa9llo \xff\xfe")}

// failingReader delivers its data, then an error
type failingReader struct{ data []byte }

func (r *failingReader) Read(p []byte) (int, error) {
	if len(r.data) == 0 {
		return 0, errors.New("entropy source failed")
	}
	n := copy(p, r.data)
	r.data = r.data[n:]
	return n, nil
}

// metaSizeRoundTrip: a plaintext of n bytes (around the sizes where a length limit or a buffer boundary would sit) is stored,
// is 40 bytes longer in storage, and is returned unchanged with the same key and refused with another one.
func metaSizeRoundTrip(n int) string {
	pt := make([]byte, n)
	for i := range pt {
		pt[i] = byte(i*7 + n)
	}
	key := bytes.Repeat([]byte{0x42}, 32)
	other := bytes.Repeat([]byte{0x43}, 32)
	m := meta.NewMeta()
	if err := m.AddEncrypted("v", pt, key); err != nil {
		return fmt.Sprintf("AddEncrypted refuses a %d-byte value: %v", n, err)
	}
	st, _ := m.GetBytes("v")
	if len(st) != n+40 {
		return fmt.Sprintf("stored length %d for a %d-byte plaintext", len(st), n)
	}
	got, err := m.ReadOnly().GetEncryptedBytes("v", key)
	if err != nil {
		return fmt.Sprintf("a %d-byte value that was added cannot be read with the same key: %v", n, err)
	}
	if !bytes.Equal(got, pt) {
		return fmt.Sprintf("a %d-byte value comes back changed", n)
	}
	if _, err := m.ReadOnly().GetEncryptedBytes("v", other); err == nil {
		return fmt.Sprintf("a %d-byte value is returned for another key", n)
	}
	if err := m.AddEncrypted("s", string(pt[:n/2]), key); err != nil {
		return fmt.Sprintf("AddEncrypted refuses a %d-byte string: %v", n/2, err)
	}
	return "ok"
}

// metaKeyBuffer: the key is its 32 BYTES at the time of the call, not the slice that carries them. One buffer holds key A for an
// encryption and is then overwritten with key B (a caller rotating or wiping keys in place): a read through that buffer is a read
// with B and must fail; a value added through it is encrypted under B; a buffer wiped to zeroes is an all-zero key and refused.
func metaKeyBuffer() string {
	a := bytes.Repeat([]byte{0x11}, 32)
	b := bytes.Repeat([]byte{0x22}, 32)
	buf := append([]byte(nil), a...)
	m := meta.NewMeta()
	pt := []byte("value under key A")
	for round := 0; round < 3; round++ {
		copy(buf, a)
		name := fmt.Sprint("v", round)
		if err := m.AddEncrypted(name, pt, buf); err != nil {
			return "AddEncrypted: " + err.Error()
		}
		if got, err := m.ReadOnly().GetEncryptedBytes(name, buf); err != nil || !bytes.Equal(got, pt) {
			return "a value cannot be read back through the buffer it was encrypted with"
		}
		copy(buf, b) // the same slice now holds key B
		if _, err := m.ReadOnly().GetEncryptedBytes(name, buf); err == nil {
			return "after the caller's key buffer was overwritten with another key, a read through it still returns the data (the earlier key bytes were remembered)"
		}
		nameB := fmt.Sprint("w", round)
		if err := m.AddEncrypted(nameB, pt, buf); err != nil {
			return "AddEncrypted (key B): " + err.Error()
		}
		if _, err := m.ReadOnly().GetEncryptedBytes(nameB, append([]byte(nil), a...)); err == nil {
			return "a value added through a buffer that holds key B is readable with key A"
		}
		if got, err := m.ReadOnly().GetEncryptedBytes(nameB, append([]byte(nil), b...)); err != nil || !bytes.Equal(got, pt) {
			return "a value added through a buffer that holds key B is not readable with a copy of key B"
		}
		for i := range buf {
			buf[i] = 0 // wiped
		}
		if err := m.AddEncrypted(fmt.Sprint("z", round), pt, buf); err == nil {
			return "an all-zero key is accepted when it sits in a buffer that held a valid key before"
		}
		if _, err := m.ReadOnly().GetEncryptedBytes(nameB, buf); err == nil {
			return "a read with an all-zero key returns data"
		}
	}
	return "ok"
}

func openOracle(key, stored []byte) string {
	if len(key) != 32 || len(stored) < 24 {
		return "x"
	}
	var k [32]byte
	var n [24]byte
	copy(k[:], key)
	copy(n[:], stored[:24])
	out, ok := secretbox.Open(nil, stored[24:], &n, &k)
	if !ok {
		return "x" // refused ("-" is the empty plaintext)
	}
	return hx(out)
}

func metaRoundTrip(i int) string {
	pt := metaPlain[i%len(metaPlain)]
	key := bytes.Repeat([]byte{byte(i + 1)}, 32)
	other := bytes.Repeat([]byte{byte(i + 2)}, 32)
	m := meta.NewMeta()
	if err := m.AddEncrypted("s", string(pt), key); err != nil {
		return "AddEncrypted(string): " + err.Error()
	}
	if err := m.AddEncrypted("b", pt, key); err != nil {
		return "AddEncrypted([]byte): " + err.Error()
	}
	if err := m.AddEncrypted("x", 42, key); !errors.Is(err, meta.ErrNotEncryptable) {
		return "AddEncrypted accepted a value that is neither a string nor bytes"
	}
	s1, _ := m.GetBytes("s")
	s2, _ := m.GetBytes("b")
	if bytes.Equal(s1, s2) {
		return "two encryptions of the same value are identical"
	}
	if len(s1) != len(pt)+40 {
		return fmt.Sprintf("stored length %d for a %d-byte plaintext", len(s1), len(pt))
	}
	if len(pt) >= 8 && (bytes.Contains(s1, pt) || bytes.Contains(s2, pt)) {
		return "the plaintext appears in the stored value"
	}
	check := func(where string, ro meta.ReadOnly) string {
		gs, err := ro.GetEncryptedString("s", key)
		if err != nil || gs != string(pt) {
			return where + ": GetEncryptedString does not return the value that was added"
		}
		gb, err := ro.GetEncryptedBytes("b", key)
		if err != nil || !bytes.Equal(gb, pt) {
			return where + ": GetEncryptedBytes does not return the value that was added"
		}
		if _, err := ro.GetEncryptedBytes("b", other); err == nil {
			return where + ": reading with a different key returned data"
		}
		if _, err := ro.GetEncryptedString("s", other); err == nil {
			return where + ": reading with a different key returned data"
		}
		return ""
	}
	if p := check("in memory", m.ReadOnly()); p != "" {
		return p
	}
	// a value that was read stays what it was while other values are read (no buffer shared between reads)
	{
		m2 := meta.NewMeta()
		ptA, ptB := append([]byte("first value - "), pt...), append([]byte("second value, other key - "), pt...)
		if m2.AddEncrypted("a", ptA, key) != nil || m2.AddEncrypted("b", ptB, other) != nil {
			return "AddEncrypted failed for two values under two keys"
		}
		gotA, err := m2.ReadOnly().GetEncryptedBytes("a", key)
		if err != nil {
			return "GetEncryptedBytes: " + err.Error()
		}
		keep := append([]byte(nil), gotA...)
		for r := 0; r < 3; r++ {
			if _, err := m2.ReadOnly().GetEncryptedBytes("b", other); err != nil {
				return "GetEncryptedBytes (second value): " + err.Error()
			}
			_, _ = m2.ReadOnly().GetEncryptedBytes("b", key) // a refused read
		}
		if !bytes.Equal(gotA, keep) || !bytes.Equal(gotA, ptA) {
			return "a value returned by GetEncryptedBytes changed when another value was read afterwards"
		}
	}
	// through the token options: the same key rules, one fresh ciphertext per token, nothing silently dropped
	{
		k := keyFor("ed25519", 0)
		aud := keyFor("ed25519", 1)
		for _, bad := range [][]byte{nil, {}, key[:31], append(append([]byte(nil), key...), 1), append(append([]byte(nil), key...), key...), make([]byte, 32)} {
			if _, err := delegation.Root(k.did, aud.did, command.Top(), nil, delegation.WithEncryptedMetaString("s", "v", bad)); err == nil {
				return fmt.Sprintf("delegation.WithEncryptedMetaString accepts a key of %d bytes (nil: %v, all zero: %v)", len(bad), bad == nil, len(bad) == 32)
			}
			if _, err := delegation.Root(k.did, aud.did, command.Top(), nil, delegation.WithEncryptedMetaBytes("s", []byte("v"), bad)); err == nil {
				return fmt.Sprintf("delegation.WithEncryptedMetaBytes accepts a key of %d bytes", len(bad))
			}
			if _, err := invocation.New(k.did, aud.did, command.Top(), nil, invocation.WithEncryptedMetaString("s", "v", bad)); err == nil {
				return fmt.Sprintf("invocation.WithEncryptedMetaString accepts a key of %d bytes", len(bad))
			}
			if _, err := invocation.New(k.did, aud.did, command.Top(), nil, invocation.WithEncryptedMetaBytes("s", []byte("v"), bad)); err == nil {
				return fmt.Sprintf("invocation.WithEncryptedMetaBytes accepts a key of %d bytes", len(bad))
			}
		}
		opt := delegation.WithEncryptedMetaString("s", string(pt), key)
		d1, e1 := delegation.Root(k.did, aud.did, command.Top(), nil, opt)
		d2, e2 := delegation.Root(k.did, aud.did, command.Top(), nil, opt)
		if e1 != nil || e2 != nil {
			return "one option value used for two delegations is refused"
		}
		c1, _ := d1.Meta().GetBytes("s")
		c2, _ := d2.Meta().GetBytes("s")
		if bytes.Equal(c1, c2) {
			return "one option value used for two tokens stored the same ciphertext (same nonce) in both"
		}
		iopt := invocation.WithEncryptedMetaBytes("s", pt, key)
		i1, e1 := invocation.New(k.did, aud.did, command.Top(), nil, iopt)
		i2, e2 := invocation.New(k.did, aud.did, command.Top(), nil, iopt)
		if e1 == nil && e2 == nil {
			c1, _ := i1.Meta().GetBytes("s")
			c2, _ := i2.Meta().GetBytes("s")
			if bytes.Equal(c1, c2) {
				return "one option value used for two invocations stored the same ciphertext (same nonce) in both"
			}
		}
		// a key used twice: either the constructor refuses, or the encrypted value is there and readable
		if d, err := delegation.Root(k.did, aud.did, command.Top(), nil, delegation.WithMeta("s", "plain"), delegation.WithEncryptedMetaString("s", string(pt), key)); err == nil {
			if got, err := d.Meta().GetEncryptedString("s", key); err != nil || got != string(pt) {
				if plain, perr := d.Meta().GetString("s"); perr != nil || plain != "plain" {
					return "a duplicate metadata key was accepted and neither value is readable"
				}
				return "an encrypted value added under an existing metadata key was silently dropped (the constructor reported no error)"
			}
		}
	}
	// through sealed tokens
	k := keyFor("ed25519", 0)
	aud := keyFor("ed25519", 1)
	d, err := delegation.Root(k.did, aud.did, command.Top(), nil, delegation.WithEncryptedMetaString("s", string(pt), key), delegation.WithEncryptedMetaBytes("b", pt, key))
	if err != nil {
		return "delegation with encrypted meta: " + err.Error()
	}
	sealed, _, err := d.ToSealed(k.priv)
	if err != nil {
		return "ToSealed: " + err.Error()
	}
	if len(pt) >= 8 && bytes.Contains(sealed, pt) {
		return "the plaintext appears in the sealed delegation"
	}
	d2, _, err := delegation.FromSealed(sealed)
	if err != nil {
		return "FromSealed: " + err.Error()
	}
	if p := check("after seal/unseal of a delegation", d2.Meta()); p != "" {
		return p
	}
	js, err := d.ToDagJson(k.priv)
	if err == nil {
		if d3, err := delegation.FromDagJson(js); err != nil {
			return "FromDagJson: " + err.Error()
		} else if p := check("after DAG-JSON round trip of a delegation", d3.Meta()); p != "" {
			return p
		}
	}
	inv, err := invocation.New(k.did, aud.did, command.Top(), nil, invocation.WithEncryptedMetaString("s", string(pt), key), invocation.WithEncryptedMetaBytes("b", pt, key))
	if err != nil {
		return "invocation with encrypted meta: " + err.Error()
	}
	isealed, _, err := inv.ToSealed(k.priv)
	if err != nil {
		return "ToSealed: " + err.Error()
	}
	if len(pt) >= 8 && bytes.Contains(isealed, pt) {
		return "the plaintext appears in the sealed invocation"
	}
	i2, _, err := invocation.FromSealed(isealed)
	if err != nil {
		return "FromSealed: " + err.Error()
	}
	if p := check("after seal/unseal of an invocation", i2.Meta()); p != "" {
		return p
	}
	return "ok"
}

func runMetaStream(c *ctx) error {
	// keys
	keys := []string{"nil", "-"}
	for _, n := range []int{1, 16, 31, 32, 33, 64} {
		keys = append(keys, hx(make([]byte, n)), hx(bytes.Repeat([]byte{9}, n)))
		one := make([]byte, n)
		one[n-1] = 1
		keys = append(keys, hx(one))
		first := make([]byte, n)
		first[0] = 0x80
		keys = append(keys, hx(first))
	}
	// a valid key with ONE more byte, for every value of that byte (a key "normalised" before its size is looked at — a line
	// ending, a blank, a NUL trimmed — would be taken for the 32-byte key), and with the usual two-byte tails / heads
	valid := bytes.Repeat([]byte{0x4b}, 32)
	for b := 0; b < 256; b++ {
		keys = append(keys, hx(append(append([]byte(nil), valid...), byte(b))), hx(append([]byte{byte(b)}, valid...)))
	}
	for _, tail := range []string{"\r\n", "\n\n", "  ", "\x00\x00", "\n\r", "\t\n", "==", "\r\n\r\n"} {
		keys = append(keys, hx(append(append([]byte(nil), valid...), tail...)), hx(append([]byte(tail), valid...)))
	}
	for _, k := range keys {
		c.emit("meta.key "+k, "meta.validateKey", true, "key")
	}
	for _, n := range []int{0, 1, 15, 16, 17, 1000} {
		c.emit(fmt.Sprintf("meta.len %d", n), "meta.layout", true, "layout")
	}
	// a failing entropy source: 0…30 bytes delivered before the failure, good and bad keys
	for _, n := range []int{0, 1, 5, 23, 24, 25, 30} {
		for _, k := range []string{hx(bytes.Repeat([]byte{3}, 32)), "nil", hx(make([]byte, 32)), hx(bytes.Repeat([]byte{3}, 16))} {
			c.emit("meta.entropy "+k+" "+hx(bytes.Repeat([]byte{0xa5}, n)), "meta.entropy", true, "entropy-fault")
		}
	}
	for i := 0; i < 12; i++ {
		c.emit(fmt.Sprintf("go.meta.roundtrip %d", i), "meta.roundtrip", true, "roundtrip")
	}
	for _, n := range []int{4095, 4096, 4097, 16384, 65519, 65520, 65521, 65535, 65536, 65537, 100000, 1 << 20} {
		c.emit(fmt.Sprintf("go.meta.size %d", n), "meta.roundtrip", true, "roundtrip-size")
	}
	c.emit("go.meta.keybuffer 0", "meta.roundtrip", true, "key-buffer")
	c.emit("go.meta.relatedkeys 0", "meta.roundtrip", true, "related-keys")
	// every single-bit modification of stored values, and reads with wrong / malformed keys
	for i, pt := range metaPlain {
		if len(pt) > 100 && !c.thoro {
			pt = pt[:100]
		}
		key := bytes.Repeat([]byte{byte(i + 1)}, 32)
		m := meta.NewMeta()
		if err := m.AddEncrypted("k", pt, key); err != nil {
			return err
		}
		stored, _ := m.GetBytes("k")
		get := func(k []byte, st []byte, tag string) {
			ks := hx(k)
			if k == nil {
				ks = "nil"
			}
			c.emitG("meta.get "+ks+" "+hx(st)+" "+openOracle(k, st), "meta.get:"+tag, func(string) bool { return true },
				func(g string) []string { return []string{tag + ":" + strings.Fields(g)[0]} })
		}
		get(key, stored, "genuine")
		get(bytes.Repeat([]byte{0x55}, 32), stored, "wrong-key")
		get(nil, stored, "nil-key")
		get(make([]byte, 32), stored, "zero-key")
		get(key[:31], stored, "short-key")
		// a stored value that was NOT made by AddEncrypted: sealed (by the harness, with x/crypto's secretbox) under the all-zero
		// key. The key rules are the getters' own: the all-zero key is refused whatever the stored value would open to.
		{
			var zk [32]byte
			var nonce [24]byte
			for j := range nonce {
				nonce[j] = byte(0x30 + i + j)
			}
			forged := secretbox.Seal(nonce[:], pt, &nonce, &zk)
			get(zk[:], forged, "zero-key-forged")
			get(nil, forged, "nil-key-forged")
			get(zk[:31], forged, "short-zero-key-forged")
			get(make([]byte, 33), forged, "long-zero-key-forged")
		}
		for b := 0; b < len(stored)*8; b++ {
			mod := append([]byte(nil), stored...)
			mod[b/8] ^= 1 << (b % 8)
			get(key, mod, "bitflip")
		}
		for _, cut := range []int{0, 1, 23, 24, 25, 39, 40} {
			if cut <= len(stored) {
				get(key, stored[:cut], "truncated")
			}
		}
		get(key, append(append([]byte(nil), stored...), 0), "extended")
	}
	return nil
}

// metaRelatedKeys: values encrypted under a valid key K must not be readable — by any getter — with a key of another
// length that merely CONTAINS K or is contained in it (K plus a byte, K twice, K without its last zero byte, K with a
// zero byte in front), nor with K changed in its first or last byte only.
func metaRelatedKeys() string {
	for round := 0; round < 4; round++ {
		k := bytes.Repeat([]byte{byte(0x11 * (round + 1))}, 32)
		k[0], k[31] = byte(round+1), 0 // the last byte zero: cutting it off loses no non-zero byte
		if round%2 == 1 {
			k[31] = 0x7f
		}
		m := meta.NewMeta()
		if err := m.AddEncrypted("s", "a secret string", k); err != nil {
			return "AddEncrypted: " + err.Error()
		}
		if err := m.AddEncrypted("b", []byte("secret bytes"), k); err != nil {
			return "AddEncrypted: " + err.Error()
		}
		if err := m.AddEncrypted("e", "", k); err != nil {
			return "AddEncrypted: " + err.Error()
		}
		flipFirst, flipLast := append([]byte(nil), k...), append([]byte(nil), k...)
		flipFirst[0] ^= 1
		flipLast[31] ^= 0x80
		others := map[string][]byte{"K+1 byte": append(append([]byte(nil), k...), 0), "K+1 byte (non-zero)": append(append([]byte(nil), k...), 9), "K twice": append(append([]byte(nil), k...), k...),
			"K without its last byte": k[:31], "0 then K": append([]byte{0}, k...), "K, first byte changed": flipFirst, "K, last byte changed": flipLast, "first 16 bytes of K": k[:16],
			"K+LF": append(append([]byte(nil), k...), '\n'), "K+CRLF": append(append([]byte(nil), k...), '\r', '\n'), "K+blank": append(append([]byte(nil), k...), ' '), "blank+K": append([]byte{' '}, k...), "K+tab+LF": append(append([]byte(nil), k...), '\t', '\n')}
		for name, o := range others {
			for _, key := range []string{"s", "b", "e"} {
				if v, err := m.GetEncryptedBytes(key, o); err == nil {
					return fmt.Sprintf("GetEncryptedBytes(%q) with %s (%d bytes) returns %q", key, name, len(o), v)
				}
				if v, err := m.GetEncryptedString(key, o); err == nil {
					return fmt.Sprintf("GetEncryptedString(%q) with %s (%d bytes) returns %q", key, name, len(o), v)
				}
				if v, err := m.ReadOnly().GetEncryptedBytes(key, o); err == nil {
					return fmt.Sprintf("ReadOnly.GetEncryptedBytes(%q) with %s (%d bytes) returns %q", key, name, len(o), v)
				}
				if v, err := m.ReadOnly().GetEncryptedString(key, o); err == nil {
					return fmt.Sprintf("ReadOnly.GetEncryptedString(%q) with %s (%d bytes) returns %q", key, name, len(o), v)
				}
			}
			if len(o) != 32 {
				if err := meta.NewMeta().AddEncrypted("x", "v", o); err == nil {
					return fmt.Sprintf("AddEncrypted accepts %s (%d bytes)", name, len(o))
				}
			}
		}
		// and K itself still reads all three
		if v, err := m.GetEncryptedString("s", k); err != nil || v != "a secret string" {
			return "the right key no longer reads the string"
		}
		if v, err := m.GetEncryptedBytes("b", k); err != nil || string(v) != "secret bytes" {
			return "the right key no longer reads the bytes"
		}
		if v, err := m.GetEncryptedString("e", k); err != nil || v != "" {
			return "the right key no longer reads the empty string"
		}
	}
	return "ok"
}
