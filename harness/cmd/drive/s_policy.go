package main

import (
	"fmt"
	"strings"

	"github.com/ipld/go-ipld-prime/datamodel"
	"github.com/ucan-wg/go-ucan/pkg/policy"
)

func init() {
	register(stream{
		name: "policy",
		rule: "every policy of one statement of depth ≤ 2 built from 5 comparison operators × 5 selectors × 4 literals, like × 2 selectors × 3 patterns, not, binary and/or (both operand orders), all/any over a list selector — each against 16 data trees; every ordered pair of 28 boundary numbers (floats incl. ±MaxFloat64, denormals, NaN, ±Inf, ±0; ints up to the int64 limits) under each of the five comparison operators (maps with present/missing/optional/null fields, ints, floats incl. NaN/±Inf/−0, strings, lists of maps, empty collections, boundary integers ±(2^53−1)), together with the negated statement (so that the four-valued result is observable through Match/PartialMatch); plus grammar-random policies of depth ≤ 4 with 1–3 statements, each also in a randomly permuted form, against random trees. Added later: every policy object is also evaluated after it was used on 17 other data values, as an equal object decoded from its IPLD form that sees the other data first, and as decoded from IPLD (identical matching); overlapping slices of one policy (p[:n-1], p[1:]) answer the same before and after p is matched and p prints the same; selectors with a failing required segment before an optional last one, optional iterators on non-lists, explicit nulls under optional selectors; integer neighbours beyond 2^53. like patterns without a wildcard but with escapes, on strings that hold backslashes; all/any over lists whose elements have the same content under different kinds (string/bytes, 1/1.0, true/1) or repeat, in every order, with element statements that tell the kinds apart; one text cut into (like pattern, string) at two places, matched one right after the other in both orders. Every like pattern over {a, *, \\} of up to 3 (thorough 4) letters that the constructor accepts, as a policy statement on every string over these letters of up to 3 (thorough 4). Policies of two top-level statements over values without a faithful printed form (±Inf, NaN, 2.0 / 2): every statement is evaluated. Non-trivial = the statement has a connective/quantifier/negation or a selector that does not resolve. Distinct = distinct protocol lines.",
		run:  runPolicyStream,
		eval: evalPolicy,
	})
}

// ---- statement text -> policy.Constructor (Go side of the protocol)

type stmtParser struct{ s string }

func (p *stmtParser) eat(pref string) bool {
	if strings.HasPrefix(p.s, pref) {
		p.s = p.s[len(pref):]
		return true
	}
	return false
}

func (p *stmtParser) hexArg() string {
	if p.eat("-") {
		return ""
	}
	b, r := takeHexStr(p.s)
	p.s = r
	return string(b)
}

func (p *stmtParser) stmt() (policy.Constructor, error) {
	switch {
	case len(p.s) >= 4 && p.s[0] == 'c' && p.s[3] == '(':
		op := p.s[1:3]
		p.s = p.s[4:]
		sel := p.hexArg()
		if !p.eat(",") {
			return nil, fmt.Errorf("expected ,")
		}
		n, r, err := parseNodeAt(p.s)
		if err != nil {
			return nil, err
		}
		p.s = r
		if !p.eat(")") {
			return nil, fmt.Errorf("expected )")
		}
		switch op {
		case "eq":
			return policy.Equal(sel, n), nil
		case "gt":
			return policy.GreaterThan(sel, n), nil
		case "ge":
			return policy.GreaterThanOrEqual(sel, n), nil
		case "lt":
			return policy.LessThan(sel, n), nil
		case "le":
			return policy.LessThanOrEqual(sel, n), nil
		}
		return nil, fmt.Errorf("bad op %s", op)
	case p.eat("k("):
		sel := p.hexArg()
		if !p.eat(",") {
			return nil, fmt.Errorf("expected ,")
		}
		pat := p.hexArg()
		if !p.eat(")") {
			return nil, fmt.Errorf("expected )")
		}
		return policy.Like(sel, pat), nil
	case p.eat("!("):
		c, err := p.anyStmt()
		if err != nil {
			return nil, err
		}
		if !p.eat(")") {
			return nil, fmt.Errorf("expected )")
		}
		return policy.Not(c), nil
	case p.eat("&("):
		cs, err := p.stmts()
		if err != nil {
			return nil, err
		}
		return policy.And(cs...), nil
	case p.eat("|("):
		cs, err := p.stmts()
		if err != nil {
			return nil, err
		}
		return policy.Or(cs...), nil
	}
	return nil, fmt.Errorf("bad statement text %q", p.s)
}

func (p *stmtParser) quant() (policy.Constructor, bool, error) {
	isAll := strings.HasPrefix(p.s, "A(")
	if !isAll && !strings.HasPrefix(p.s, "E(") {
		return nil, false, nil
	}
	p.s = p.s[2:]
	sel := p.hexArg()
	if !p.eat(",") {
		return nil, true, fmt.Errorf("expected ,")
	}
	c, err := p.anyStmt()
	if err != nil {
		return nil, true, err
	}
	if !p.eat(")") {
		return nil, true, fmt.Errorf("expected )")
	}
	if isAll {
		return policy.All(sel, c), true, nil
	}
	return policy.Any(sel, c), true, nil
}

func (p *stmtParser) anyStmt() (policy.Constructor, error) {
	if c, ok, err := p.quant(); ok {
		return c, err
	}
	return p.stmt()
}

func (p *stmtParser) stmts() ([]policy.Constructor, error) {
	var cs []policy.Constructor
	if p.eat(")") {
		return cs, nil
	}
	for {
		c, err := p.anyStmt()
		if err != nil {
			return nil, err
		}
		cs = append(cs, c)
		if p.eat(")") {
			return cs, nil
		}
		if !p.eat(";") {
			return nil, fmt.Errorf("expected ; or )")
		}
	}
}

func buildPolicy(text string) (policy.Policy, error, error) {
	if !strings.HasPrefix(text, "P(") {
		return nil, nil, fmt.Errorf("bad policy text")
	}
	p := &stmtParser{s: text[2:]}
	cs, err := p.stmts()
	if err != nil {
		return nil, nil, err
	}
	if p.s != "" {
		return nil, nil, fmt.Errorf("trailing policy text %q", p.s)
	}
	pol, cerr := policy.Construct(cs...)
	return pol, cerr, nil
}

var polProbeNodes []datamodel.Node

// polProbes are the data values a policy object is also evaluated against between two evaluations of
// the case's own data (state remembered by the policy from one evaluation must not change the next one).
func polProbes() []datamodel.Node {
	if polProbeNodes == nil {
		for _, d := range append(append([]string{}, polData...), "m(61:i1)", "m(62:i3)", "m(63:l(i1,i2))", "l(m(61:i1),m(62:i2))", "m()") {
			if n, err := parseNode(d); err == nil {
				polProbeNodes = append(polProbeNodes, n)
			}
		}
	}
	return polProbeNodes
}

func goPolicyMatch(pol policy.Policy, n datamodel.Node) (out string) {
	defer func() {
		if r := recover(); r != nil {
			out = "panic"
		}
	}()
	once := func(p policy.Policy) string {
		m, _ := p.Match(n)
		pm, _ := p.PartialMatch(n)
		return bstr(m) + " " + bstr(pm)
	}
	printed := pol.String()
	r1 := once(pol)
	// a shorter view of the same statements (an overlapping slice) answers the same before and after the whole
	// policy was matched, and the policy prints the same afterwards: matching does not reorder or rewrite anything
	if len(pol) >= 2 {
		head := pol[:len(pol)-1]
		tail := pol[1:]
		onceP := func(p policy.Policy) string {
			m, _ := p.Match(n)
			pm, _ := p.PartialMatch(n)
			return bstr(m) + " " + bstr(pm)
		}
		h1, t1 := onceP(head), onceP(tail)
		onceP(pol)
		if h2, t2 := onceP(head), onceP(tail); h1 != h2 || t1 != t2 {
			return "history: an overlapping policy slice answered " + h1 + "/" + t1 + " before and " + h2 + "/" + t2 + " after the whole policy was matched"
		}
	}
	if after := pol.String(); after != printed {
		return "history: the policy prints differently after it was matched"
	}
	// history: the same policy object is used on other data, then on this data again
	func() {
		defer func() { recover() }()
		for _, pn := range polProbes() {
			pol.Match(pn)
			pol.PartialMatch(pn)
		}
	}()
	if r2 := once(pol); r2 != r1 {
		return "history: fresh=" + r1 + " after-other-data=" + r2
	}
	// and a second, equal policy object (decoded from the first one's IPLD form) that sees the other data FIRST
	if nd, err := pol.ToIPLD(); err == nil {
		if pb, err := policy.FromIPLD(nd); err == nil {
			func() {
				defer func() { recover() }()
				for _, pn := range polProbes() {
					pb.Match(pn)
					pb.PartialMatch(pn)
				}
			}()
			if r2 := once(pb); r2 != r1 {
				return "history: fresh=" + r1 + " other-data-first=" + r2
			}
		}
	}
	// the policy as it reads back from its own IPLD form matches identically (DAG-JSON is left out here: go-ipld-prime
	// prints a float without fraction as an integer, which is a codec matter and is reported under C07)
	if nd, err := pol.ToIPLD(); err == nil {
		if p2, err := policy.FromIPLD(nd); err == nil {
			if r3 := once(p2); r3 != r1 {
				return "roundtrip: built=" + r1 + " decoded=" + r3
			}
		}
	}
	return r1
}

func evalPolicy(line string) (string, string) {
	f := strings.Fields(line)
	if f[0] == "go.pol.concat" {
		var n int
		fmt.Sscan(f[1], &n)
		return policyConcat(n), line
	}
	pol, cerr, perr := buildPolicy(f[1])
	if perr != nil {
		return "bad-line " + perr.Error(), line
	}
	rd := f[1] + " on " + f[3]
	if cerr != nil {
		return "cerr", rd
	}
	rd = strings.ReplaceAll(pol.String(), "\n", " ") + " on " + f[3]
	n, err := parseNode(f[3])
	if err != nil {
		return "bad-node", rd
	}
	return goPolicyMatch(pol, n), rd
}

// ---- generators

var polData = []string{
	"m(61:i1,62:i2,6c:l(i1,i2,i3),73:s78797a)",
	"m(61:i2)", "m(62:i1)", "m()", "m(61:s78)", "m(61:d3ff8000000000000,62:d4000000000000000)",
	"m(6c:l())", "m(6c:l(m(61:i1),m(61:i2)))", "m(6c:l(m(61:i1),m()))", "m(61:n)", "n", "l(i1,i2)",
	"m(61:d7ff8000000000001,62:d7ff0000000000000)", "m(61:i9007199254740991,62:i-9007199254740991)",
	"m(61:d8000000000000000,62:d0000000000000000)", "m(6c:l(i2,s78,i1),73:s2a)",
	"m(61:n,62:n,6e:n)", "m(6e:n,73:s78)", "m(6c:l(n,i1),6e:i1)", // explicit nulls under optional selectors
	"m(73:s5c785c795c7a)", "m(73:s615c62)", "m(73:s78797a5c)", // strings holding backslashes (a pattern's own text, an escaped backslash)
}

// boundary numbers: floats 0, -0, ±1, 1.5, ±MaxFloat64, ±SmallestNonzero, ±1e308, 2^53, 2^53+2, 0.1+0.2, 0.3,
// NaN, ±Inf; integers 0, ±1, 2, ±(2^53-1), ±2^31, MaxInt64, MinInt64
var polNumbers = []string{
	"d0000000000000000", "d8000000000000000", "d3ff0000000000000", "dbff0000000000000", "d3ff8000000000000",
	"d7fefffffffffffff", "dffefffffffffffff", "d0000000000000001", "d8000000000000001",
	"d7fe1ccf385ebc8a0", "dffe1ccf385ebc8a0", "d4340000000000000", "d4340000000000001",
	"d3fd3333333333334", "d3fd3333333333333", "d7ff8000000000001", "d7ff0000000000000", "dfff0000000000000",
	"i0", "i1", "i-1", "i2", "i9007199254740991", "i-9007199254740991", "i2147483648", "i-2147483648",
	"i9223372036854775807", "i-9223372036854775808",
	"i9007199254740992", "i9007199254740993", "i-9007199254740992", "i-9007199254740993", "i9223372036854775806", // neighbours that a float64 cannot tell apart
	"i9223372036854775808", "i18446744073709551615", // unsigned values beyond int64: AsInt fails on these (C09)
}

var polOps = []string{"eq", "gt", "ge", "lt", "le"}
var polSels = []string{".a", ".b?", ".c", ".", ".c?", ".zz.a?", ".s[]?", ".n?"}
var polLits = []string{"i1", "i2", "s78", "d3ff8000000000000"}

func polLeaves() []string {
	var ls []string
	for _, op := range polOps {
		for _, s := range polSels {
			for _, l := range polLits {
				ls = append(ls, "c"+op+"("+hxs(s)+","+l+")")
			}
		}
	}
	for _, s := range []string{".s", ".a"} {
		// (patterns without any wildcard but with escapes are still patterns: `\x` is the letter x, `\\` one backslash)
		for _, p := range []string{"x*", "*", "\\*", "\\x\\y\\z", "x\\yz", "xyz", "\\xyz\\", "a\\\\b"} {
			ls = append(ls, "k("+hxs(s)+","+hxs(p)+")")
		}
	}
	return ls
}

func polLetters(text string) string { return "L" } // generated selectors are ASCII only

func runPolicyStream(c *ctx) error {
	leaves := polLeaves()
	one := func(st, class string, nt bool) {
		for _, d := range polData {
			for _, s := range []string{st, "!(" + st + ")"} {
				c.emitG("pol.match P("+s+") L "+d, class, func(string) bool { return nt },
					func(g string) []string { return []string{"match:" + strings.ReplaceAll(g, " ", "")} })
			}
		}
	}
	for _, l := range leaves {
		one(l, "policy.leaf", strings.Contains(l, hxs(".c")) || strings.Contains(l, hxs(".b?")))
	}
	// binary connectives over a reduced leaf set (both operand orders arise from the product)
	var red []string
	for i, l := range leaves {
		if c.thoro || i%3 == 0 {
			red = append(red, l)
		}
	}
	for _, a := range red {
		for _, b := range red {
			one("&("+a+";"+b+")", "policy.and", true)
			one("|("+a+";"+b+")", "policy.or", true)
		}
	}
	one("&()", "policy.and", true)
	one("|()", "policy.or", true)
	elemSt := []string{"ceq(" + hxs(".a") + ",i1)", "cgt(" + hxs(".") + ",i1)", "ceq(" + hxs(".a?") + ",i1)", "cle(" + hxs(".") + ",i2)", "k(" + hxs(".") + "," + hxs("x*") + ")"}
	for _, sel := range []string{".l", ".l?", ".c", ".c?", ".a", "."} {
		for _, e := range elemSt {
			one("A("+hxs(sel)+","+e+")", "policy.all", true)
			one("E("+hxs(sel)+","+e+")", "policy.any", true)
		}
	}
	// quantifiers over lists whose elements have the SAME content under different kinds (string / bytes, 1 / 1.0, true / 1) or
	// simply repeat, in every order, with element statements that tell the kinds apart: every element is examined, whatever
	// came before it
	{
		elems := [][]string{{"s616263", "b616263"}, {"i1", "d3ff0000000000000"}, {"T", "i1"}, {"s31", "i1"}, {"s", "b"}, {"n", "s"}, {"i1", "i1", "i2"},
			{"s616263", "s616263", "b616263"}, {"b616263", "b616263", "s616263"}, {"m(61:i1)", "m(61:i1)", "m(61:i2)"}, {"l(i1)", "l(i1)", "l(d3ff0000000000000)"}}
		inner := []string{"k(" + hxs(".") + "," + hxs("a*") + ")", "ceq(" + hxs(".") + ",b616263)", "ceq(" + hxs(".") + ",s616263)", "ceq(" + hxs(".") + ",i1)",
			"ceq(" + hxs(".") + ",d3ff0000000000000)", "cge(" + hxs(".") + ",i1)", "cle(" + hxs(".") + ",d3ff0000000000000)", "ceq(" + hxs(".") + ",T)", "ceq(" + hxs(".") + ",s)",
			"ceq(" + hxs(".a") + ",i1)", "ceq(" + hxs(".[0]") + ",i1)", "!(ceq(" + hxs(".") + ",s616263))"}
		for _, es := range elems {
			var perms [][]string
			permute(es, func(p []string) { perms = append(perms, append([]string(nil), p...)) })
			for _, pm := range perms {
				d := "l(" + strings.Join(pm, ",") + ")"
				for _, in := range inner {
					for _, q := range []string{"A", "E"} {
						c.emitG("pol.match P("+q+"("+hxs(".")+","+in+")) L "+d, "policy.quantifier-mixed", func(string) bool { return true },
							func(g string) []string { return []string{"quantifier-mixed:" + strings.ReplaceAll(g, " ", "")} })
					}
				}
			}
		}
	}
	// one text cut into (pattern, string) at two different places, the two `like` statements evaluated one right after the
	// other, in both orders (over different letters): Match is a function of (policy, data), not of what was matched before
	{
		var words []string
		allStrings("cd*\\", 4, func(s string) { words = append(words, s) })
		one := func(p, str string) {
			tb := 0
			for tb < len(p) && p[len(p)-1-tb] == '\\' {
				tb++
			}
			if tb%2 == 1 {
				return // a pattern ending in a lone backslash is refused by the constructor
			}
			c.emitG("pol.match P(k("+hxs(".")+","+hxs(p)+")) L s"+hxsRaw(str), "policy.like-history", func(string) bool { return true },
				func(g string) []string { return []string{"like-history:" + strings.ReplaceAll(g, " ", "")} })
		}
		for _, w := range words {
			if !strings.Contains(w, "*") {
				continue
			}
			v := strings.NewReplacer("c", "e", "d", "f").Replace(w)
			for i := 0; i <= len(w); i++ {
				for j := i + 1; j <= len(w); j++ {
					one(w[:i], w[i:])
					one(w[:j], w[j:])
					one(v[:j], v[j:])
					one(v[:i], v[i:])
				}
			}
		}
	}
	// EVERY like pattern over {a, *, \} of up to 3 (thorough: 4) letters that the constructor accepts, as a statement of a
	// policy, on every string over the same letters of up to 3 (thorough: 4): among them an escaped star next to a wildcard
	// (`\**` is "a star, then anything"), wildcards in a row, an escaped backslash before a star
	{
		pl, sl := 3, 3
		if c.thoro {
			pl, sl = 4, 4
		}
		var pats, strs []string
		allStrings("a*\\", pl, func(s string) { pats = append(pats, s) })
		allStrings("a*\\", sl, func(s string) { strs = append(strs, s) })
		for _, p := range pats {
			tb := 0
			for tb < len(p) && p[len(p)-1-tb] == '\\' {
				tb++
			}
			if tb%2 == 1 || !strings.Contains(p, "*") {
				continue
			}
			for _, str := range strs {
				c.emitG("pol.match P(k("+hxs(".")+","+hxs(p)+")) L s"+hxsRaw(str), "policy.like-exhaustive", func(string) bool { return true },
					func(g string) []string { return []string{"like-exhaustive:" + strings.ReplaceAll(g, " ", "")} })
			}
		}
	}
	// policies of TWO top-level statements over values that have no faithful printed form (±Inf and NaN print alike, 2.0 prints
	// like 2, bytes print like the map DAG-JSON writes for them): every statement of a policy is evaluated, also when it
	// "looks like" one that was evaluated before
	{
		vals := []string{"d7ff0000000000000", "dfff0000000000000", "d7ff8000000000000", "d4000000000000000", "i2", "b6162", "m(2f:m(6279746573:s59574a)))"}
		for _, x := range vals[:5] {
			for _, y := range vals[:5] {
				if x == y {
					continue
				}
				for _, d := range []string{"m(61:" + x + ",62:" + x + ")", "m(61:" + x + ",62:" + y + ")", "m(61:" + y + ",62:" + x + ")"} {
					for _, pol := range []string{"P(ceq(" + hxs(".a") + "," + x + ");ceq(" + hxs(".b") + "," + y + "))", "P(ceq(" + hxs(".a") + "," + x + ");!(ceq(" + hxs(".b") + "," + y + ")))",
						"P(ceq(" + hxs(".a") + "," + x + ");ceq(" + hxs(".a") + "," + y + "))"} {
						c.emitG("pol.match "+pol+" L "+d, "policy.lookalike-statements", func(string) bool { return true },
							func(g string) []string { return []string{"lookalike:" + strings.ReplaceAll(g, " ", "")} })
					}
				}
			}
		}
	}
	// a constructed policy of n statements extended twice with append (a Policy is a slice; concatenating policies is what a
	// chain does): the two results are independent values, each matching as the concatenation of its parts
	for n := 0; n <= 17; n++ {
		c.emit(fmt.Sprintf("go.pol.concat %d", n), "policy.concat", true, "concat")
	}
	// ordering and equality on boundary numbers: every ordered pair of the set, every operator,
	// same-kind and cross-kind
	for _, a := range polNumbers {
		for _, b := range polNumbers {
			for _, op := range polOps {
				c.emitG("pol.match P(c"+op+"("+hxs(".")+","+a+")) L "+b, "policy.compare", func(string) bool { return true },
					func(g string) []string { return []string{"compare:" + strings.ReplaceAll(g, " ", "")} })
			}
		}
	}
	// integers beyond int64 nested in the data and in the policy value: never equal, never ordered, no panic
	for _, pair := range [][2]string{{"l(i1,i18446744073709551615)", "l(i1,i18446744073709551615)"}, {"l(i1,i2)", "l(i1,i9223372036854775808)"}, {"l(i1,i2)", "l(i3,i9223372036854775808)"},
		{"m(61:i1)", "m(61:i9223372036854775808)"}, {"m(61:i9223372036854775808,62:i1)", "m(61:i1,62:i1)"}, {"i1", "m(61:l(i9223372036854775808))"}} {
		for _, op := range polOps {
			for _, sel := range []string{".", ".a", ".[1]", ".a?", ".[]"} {
				c.emitG("pol.match P(c"+op+"("+hxs(sel)+","+pair[0]+")) L "+pair[1], "policy.compare", func(string) bool { return true },
					func(g string) []string { return []string{"compare-beyond-int64:" + strings.ReplaceAll(g, " ", "")} })
			}
		}
	}
	// random policies
	n := 6000
	if c.thoro {
		n = 100000
	}
	for i := 0; i < n; i++ {
		k := 1 + c.rng.Intn(3)
		var sts, perm []string
		for j := 0; j < k; j++ {
			s, p := randStmt(c, 3)
			sts = append(sts, s)
			perm = append(perm, p)
		}
		d := randPolData(c)
		for _, pt := range []string{strings.Join(sts, ";"), strings.Join(perm, ";")} {
			c.emitG("pol.match P("+pt+") L "+d, "policy.random", func(string) bool { return true },
				func(g string) []string { return []string{"match-random:" + strings.ReplaceAll(g, " ", "")} })
		}
	}
	c.r.Exhaustive = true
	c.r.ExhaustiveNote = "the depth ≤ 2 statement families over the stated selectors/literals/data are enumerated (binary connectives over every third leaf in the quick tier, all leaves in the thorough tier); deeper policies are sampled"
	return nil
}

// randStmt returns a random statement and the same statement with operands of and/or permuted.
func randStmt(c *ctx, depth int) (string, string) {
	k := c.rng.Intn(9)
	if depth == 0 {
		k = c.rng.Intn(3)
	}
	sels := []string{".a", ".b", ".a?", ".c", ".c?", ".", ".l", ".l[0]", ".l[0]?", ".l[5]?", ".s", ".l[]", ".m.a"}
	switch k {
	case 0, 1:
		s := "c" + polOps[c.rng.Intn(5)] + "(" + hxs(sels[c.rng.Intn(len(sels))]) + "," + randLit(c) + ")"
		return s, s
	case 2:
		s := "k(" + hxs(sels[c.rng.Intn(len(sels))]) + "," + hxs([]string{"x*", "*", "*z", "x*z", "\\*", "a*b*"}[c.rng.Intn(6)]) + ")"
		return s, s
	case 3:
		a, b := randStmt(c, depth-1)
		return "!(" + a + ")", "!(" + b + ")"
	case 4, 5, 6:
		n := c.rng.Intn(4)
		var as, bs []string
		for i := 0; i < n; i++ {
			a, b := randStmt(c, depth-1)
			as = append(as, a)
			bs = append(bs, b)
		}
		// permute the second rendering
		for i := len(bs) - 1; i > 0; i-- {
			j := c.rng.Intn(i + 1)
			bs[i], bs[j] = bs[j], bs[i]
		}
		op := "&("
		if k == 6 {
			op = "|("
		}
		return op + strings.Join(as, ";") + ")", op + strings.Join(bs, ";") + ")"
	default:
		a, b := randStmt(c, depth-1)
		q := "A("
		if k == 8 {
			q = "E("
		}
		sel := hxs([]string{".l", ".l?", ".", ".c?", ".m", ".l[1:]"}[c.rng.Intn(6)])
		return q + sel + "," + a + ")", q + sel + "," + b + ")"
	}
}

func randLit(c *ctx) string {
	if c.rng.Chance(1, 4) {
		return polNumbers[c.rng.Intn(len(polNumbers))]
	}
	return []string{"i0", "i1", "i2", "i3", "s78", "s", "d3ff8000000000000", "d7ff8000000000001", "d0000000000000000", "d8000000000000000",
		"n", "T", "l(i1,i2)", "m(61:i1)", "i9007199254740991", "b01"}[c.rng.Intn(16)]
}

func randPolData(c *ctx) string {
	if c.rng.Chance(1, 3) {
		return polData[c.rng.Intn(len(polData))]
	}
	var parts []string
	for _, k := range []string{"a", "b", "l", "s", "m"} {
		if c.rng.Chance(2, 3) {
			var v string
			switch k {
			case "l":
				n := c.rng.Intn(4)
				var es []string
				for i := 0; i < n; i++ {
					es = append(es, randTree(c, 1))
				}
				v = "l(" + strings.Join(es, ",") + ")"
			case "m":
				v = "m(61:" + randLit(c) + ")"
			default:
				v = randLit(c)
			}
			parts = append(parts, hxsRaw(k)+":"+v)
		}
	}
	return "m(" + strings.Join(parts, ",") + ")"
}

// permute calls f with every distinct ordering of xs
func permute(xs []string, f func([]string)) {
	seen := map[string]bool{}
	var rec func(cur []string, rest []string)
	rec = func(cur []string, rest []string) {
		if len(rest) == 0 {
			k := strings.Join(cur, ",")
			if !seen[k] {
				seen[k] = true
				f(cur)
			}
			return
		}
		for i := range rest {
			nr := append(append([]string(nil), rest[:i]...), rest[i+1:]...)
			rec(append(append([]string(nil), cur...), rest[i]), nr)
		}
	}
	rec(nil, xs)
}

// policyConcat: base = a constructed policy of n always-true statements; p1 = append(base, "to == carol"), p2 = append(base,
// "to == bob"), derived one after the other from the same base. p1 must still demand carol after p2 was derived.
func policyConcat(n int) (out string) {
	defer func() {
		if r := recover(); r != nil {
			out = "PANIC " + fmt.Sprint(r)
		}
	}()
	var cs []policy.Constructor
	for i := 0; i < n; i++ {
		cs = append(cs, policy.GreaterThanOrEqual(".n", basicInt(int64(-i))))
	}
	base, err := policy.Construct(cs...)
	if err != nil {
		return "construct: " + err.Error()
	}
	toCarol := policy.MustConstruct(policy.Equal(".to", basicString("carol")))
	toBob := policy.MustConstruct(policy.Equal(".to", basicString("bob")))
	data := func(to string) datamodel.Node {
		nd, _ := parseNode("m(6e:i5,746f:s" + hxsRaw(to) + ")")
		return nd
	}
	p1 := append(base, toCarol...)
	before, _ := p1.Match(data("bob"))
	p2 := append(base, toBob...)
	if ok, _ := p2.Match(data("bob")); !ok {
		return "base+toBob refuses bob"
	}
	if ok, _ := p2.Match(data("carol")); ok {
		return "base+toBob accepts carol"
	}
	after, _ := p1.Match(data("bob"))
	if before || after {
		return fmt.Sprintf("base+toCarol accepts bob (before deriving base+toBob: %v, after: %v)", before, after)
	}
	if ok, _ := p1.Match(data("carol")); !ok {
		return "base+toCarol refuses carol after base+toBob was derived from the same base"
	}
	if ok, _ := p1.PartialMatch(data("bob")); ok {
		return "base+toCarol partially matches bob after base+toBob was derived"
	}
	// and the same through the constructors And / Or of the base statements
	return "ok"
}
