package main

import (
	"bytes"
	"encoding/hex"
	"errors"
	"fmt"
	"io"
	"sort"
	"strings"
	"sync"
	"time"

	"github.com/ipfs/go-cid"
	"github.com/ipld/go-ipld-prime"
	"github.com/ipld/go-ipld-prime/codec/dagcbor"
	"github.com/ipld/go-ipld-prime/codec/dagjson"
	"github.com/ipld/go-ipld-prime/datamodel"
	"github.com/libp2p/go-libp2p/core/crypto"
	"github.com/ucan-wg/go-ucan/pkg/args"
	"github.com/ucan-wg/go-ucan/pkg/command"
	"github.com/ucan-wg/go-ucan/pkg/policy"
	"github.com/ucan-wg/go-ucan/token"
	"github.com/ucan-wg/go-ucan/token/delegation"
	"github.com/ucan-wg/go-ucan/token/invocation"
)

func init() {
	register(stream{
		name: "token",
		rule: "envelopes built by the harness itself (go-ipld-prime + libp2p, not go-ucan's envelope code) and offered to token.FromSealed / delegation.FromSealed / invocation.FromSealed and the DAG-JSON equivalents: (fields) every payload field of a valid delegation and invocation × {dropped, null, retyped to each IPLD kind, out-of-range, empty, malformed DID/command/policy/selector/pattern, short nonce} and an added unknown key, each CORRECTLY RE-SIGNED; (envelope) wrong, foreign or missing varsig header, extra SigPayload entry, extra outer element, swapped and unknown tags, signature by another key, truncated/empty/non-bytes signature, every payload field and the varsig header rewritten while KEEPING THE OLD SIGNATURE (after the genuine token was decoded), header variants with foreign hash/encoding/segments, a genuine and a forged token decoded from 8 goroutines at once; (bits) every single-bit flip of a sealed Ed25519 delegation and invocation; (values) every Go integer type at its boundary values through literal.Any (directly and nested), args.Add and meta.Add — stored exactly or rejected; (roundtrip) tokens from the constructors under every option combination × Ed25519/secp256k1/P-256/P-384/P-521 (RSA thorough) × {DAG-CBOR, DAG-JSON} × {generic, typed}. Compared: accept/reject and every decoded field. Added later: signatures of 257…65537 bytes (junk, padded, doubled); int64 extremes and pre-1970 instants in policy, arguments, metadata and time fields; round-trip option bits for instants at year 1/1000/1969, audience = subject and floats without fraction (the last is the open finding F-C07-dagjson-integral-float, in a class of its own); stream reads right after failed stream reads; a token naming issuer A but signed by B decoded while A's and B's keys are extracted concurrently (rounds bounded by time); ready-made IPLD nodes with out-of-range integers alone, in IPLD containers and in Go containers through Args.Add / literal.Any / WithArgument / WithMeta (kept ⇒ in range; seals ⇒ unseals); constructor well-formedness under unusual nonce options; command text assembled by New/Join stays refused, valid commands with empty segments are kept byte for byte. For EVERY key algorithm (RSA included) at every tier: signature of another key, empty, truncated, one-byte, junk and all-zero signatures, the genuine signature over a changed field, an empty varsig header, and a signature made over a non-canonical serialization that is shipped as such; the FromDagCbor / FromDagCborReader entry points (no canonical-form check of their own) on the same bytes; instants exactly at the Unix epoch in round trips. Round trips of an expiration in the last half second of the representable range and of argument sets merged twice over an earlier key. The well-formed varsig header of every OTHER supported key type in place of the issuer's, with the old signature and re-signed. Tokens built from a shared argument set answer GetNode for exactly their own arguments and their unsealed arguments Equal the original's. Commands held as converted strings or joined text (never parsed) come back from every decoder as they were sealed. delegation.Root with a WithSubject among the options (any position, undefined / foreign subject) returns a root token whose subject is its issuer. Every header variant also signed over the DAG-JSON form of the SigPayload (the signed form is the DAG-CBOR one); numbers a caller holds as text (json.Number) through literal.Any / args.Add / meta.Add: a string equal to the text, the exact number, or a refusal. Non-trivial = all but the unmodified fixtures. Distinct = distinct protocol lines.",
		run:  runTokenStream,
		eval: evalToken,
		cmp: func(line, g, m string) string {
			if strings.HasPrefix(line, "go.") {
				if g != "ok" {
					if strings.HasPrefix(line, "go.lit.") {
						return "a supplied value is silently altered"
					}
					return "seal/unseal round trip loses or alters a field"
				}
				return ""
			}
			if g == m {
				return ""
			}
			gf, mf := strings.Fields(g + " -")[0], strings.Fields(m + " -")[0]
			switch {
			case gf == "ok" && mf == "err":
				return "go-accepts-model-rejects"
			case gf == "err" && mf == "ok":
				return "go-rejects-model-accepts"
			}
			return "decoded-fields-differ"
		},

		classByDirection: true,
	})
}

var varsigHex = map[string]string{"ed25519": "34ed0171", "secp256k1": "34e7011271", "p256": "3480a4c0061271", "p384": "3480a4c0061271", "p521": "3480a4c0061271", "rsa": "34852412800271"}

// ---- independent helpers (no go-ucan code)

func nodeBytes(n datamodel.Node) []byte {
	b, err := ipld.Encode(n, dagcbor.Encode)
	if err != nil {
		return nil
	}
	return b
}

// pubFromDidText extracts the public key of a did:key string with the crypto libraries directly.
func pubFromDidText(text string) (crypto.PubKey, string) {
	code, m, ok := codeAndMaterial(text)
	if !ok {
		return nil, "-"
	}
	canon := canonicalOracle(code, m)
	if canon == "-" {
		return nil, "-"
	}
	defer func() { recover() }()
	switch code {
	case 0xed:
		k, _ := crypto.UnmarshalEd25519PublicKey(m)
		return k, canon
	case 0xe7:
		k, _ := crypto.UnmarshalSecp256k1PublicKey(m)
		return k, canon
	case 0x1200, 0x1201, 0x1202, 0x1205:
		// go through go-ucan-independent reconstruction: use the canonical oracle's verdict and rebuild via x509
		k := rebuildStdKey(code, m)
		return k, canon
	}
	return nil, "-"
}

type tokOracles struct{ lower, sig, key, letters string }

// oraclesFor inspects a generic envelope node and computes the oracle tokens for the model.
func oraclesFor(env datamodel.Node) tokOracles {
	o := tokOracles{"-", "F", "-", "L"}
	defer func() { recover() }()
	if env == nil || env.Kind() != datamodel.Kind_List || env.Length() < 2 {
		return o
	}
	sigN, _ := env.LookupByIndex(0)
	sp, _ := env.LookupByIndex(1)
	if sp.Kind() != datamodel.Kind_Map {
		return o
	}
	var payload datamodel.Node
	it := sp.MapIterator()
	for !it.Done() {
		k, v, _ := it.Next()
		ks, _ := k.AsString()
		if strings.HasPrefix(ks, "ucan/") {
			payload = v
		}
	}
	o.letters = lettersOracle(allStrings2(sp))
	if payload == nil || payload.Kind() != datamodel.Kind_Map {
		return o
	}
	if c, err := payload.LookupByString("cmd"); err == nil && c.Kind() == datamodel.Kind_String {
		s, _ := c.AsString()
		o.lower = hxs(strings.ToLower(s))
	}
	if i, err := payload.LookupByString("iss"); err == nil && i.Kind() == datamodel.Kind_String {
		s, _ := i.AsString()
		pub, canon := pubFromDidText(s)
		o.key = canon
		if pub != nil && sigN.Kind() == datamodel.Kind_Bytes {
			sig, _ := sigN.AsBytes()
			if ok, err := pub.Verify(nodeBytes(sp), sig); err == nil && ok {
				o.sig = "T"
			}
		}
	}
	return o
}

func allStrings2(n datamodel.Node) string {
	var sb strings.Builder
	var walk func(n datamodel.Node)
	walk = func(n datamodel.Node) {
		switch n.Kind() {
		case datamodel.Kind_String:
			s, _ := n.AsString()
			sb.WriteString(s)
		case datamodel.Kind_List:
			it := n.ListIterator()
			for !it.Done() {
				_, v, _ := it.Next()
				walk(v)
			}
		case datamodel.Kind_Map:
			it := n.MapIterator()
			for !it.Done() {
				_, v, _ := it.Next()
				walk(v)
			}
		}
	}
	walk(n)
	return sb.String()
}

// ---- dumps of decoded tokens (must mirror Driver/Token.lean)

func tsNode(t *time.Time) string {
	if t == nil {
		return "n"
	}
	return fmt.Sprintf("i%d", t.Unix())
}

func didNode(d interface {
	Defined() bool
	String() string
}) string {
	if !d.Defined() {
		return "n"
	}
	return "s" + hxsRaw(d.String())
}

func iterMapNode(it func(func(string, datamodel.Node) bool)) string {
	// arguments and metadata are maps: compared as sets of entries (sorted by key), not by insertion order
	m := map[string]string{}
	var keys []string
	it(func(k string, v datamodel.Node) bool {
		m[k] = dumpNode(v)
		keys = append(keys, k)
		return true
	})
	sort.Strings(keys)
	var parts []string
	for _, k := range keys {
		parts = append(parts, hxsRaw(k)+":"+m[k])
	}
	return "m(" + strings.Join(parts, ",") + ")"
}

func dumpDlg(t *delegation.Token) string {
	pol, err := t.Policy().ToIPLD()
	if err != nil {
		return "pol-err"
	}
	f := []string{
		hxsRaw("iss") + ":" + didNode(t.Issuer()), hxsRaw("aud") + ":" + didNode(t.Audience()), hxsRaw("sub") + ":" + didNode(t.Subject()),
		hxsRaw("cmd") + ":s" + hxsRaw(t.Command().String()), hxsRaw("pol") + ":" + dumpNode(pol), hxsRaw("nonce") + ":b" + hxsRaw(string(t.Nonce())),
		hxsRaw("meta") + ":" + iterMapNode(t.Meta().Iter()), hxsRaw("nbf") + ":" + tsNode(t.NotBefore()), hxsRaw("exp") + ":" + tsNode(t.Expiration()),
	}
	return "ok dlg m(" + strings.Join(f, ",") + ")"
}

func dumpInv(t *invocation.Token) string {
	var prf []string
	for _, c := range t.Proof() {
		prf = append(prf, "k"+hxsRaw(string(c.Bytes())))
	}
	cause := "n"
	if t.Cause() != nil {
		cause = "k" + hxsRaw(string(t.Cause().Bytes()))
	}
	f := []string{
		hxsRaw("iss") + ":" + didNode(t.Issuer()), hxsRaw("sub") + ":" + didNode(t.Subject()), hxsRaw("aud") + ":" + didNode(t.Audience()),
		hxsRaw("cmd") + ":s" + hxsRaw(t.Command().String()), hxsRaw("args") + ":" + iterMapNode(t.Arguments().Iter()), hxsRaw("prf") + ":l(" + strings.Join(prf, ",") + ")",
		hxsRaw("meta") + ":" + iterMapNode(t.Meta().Iter()), hxsRaw("nonce") + ":b" + hxsRaw(string(t.Nonce())), hxsRaw("exp") + ":" + tsNode(t.Expiration()),
		hxsRaw("iat") + ":" + tsNode(t.InvokedAt()), hxsRaw("cause") + ":" + cause,
	}
	return "ok inv m(" + strings.Join(f, ",") + ")"
}

func dumpAny(t token.Token) string {
	switch x := t.(type) {
	case *delegation.Token:
		return dumpDlg(x)
	case *invocation.Token:
		return dumpInv(x)
	}
	return "ok unknown"
}

func evalToken(line string) (out string, rd string) {
	defer func() {
		if r := recover(); r != nil {
			out = fmt.Sprint("panic ", r)
		}
	}()
	f := strings.Fields(line)
	rd = f[0] + " " + f[1]
	switch f[0] {
	case "tok.sealed":
		b := []byte(unhx(f[2]))
		if n, err := ipld.Decode(b, dagcbor.Decode); err == nil {
			rd += " " + dumpNode(n)
		}
		switch f[1] {
		case "any":
			t, _, err := token.FromSealed(b)
			if err != nil {
				return "err", rd
			}
			return dumpAny(t), rd
		case "dlg":
			t, _, err := delegation.FromSealed(b)
			if err != nil {
				return "err", rd
			}
			return dumpDlg(t), rd
		case "inv":
			t, _, err := invocation.FromSealed(b)
			if err != nil {
				return "err", rd
			}
			return dumpInv(t), rd
		}
	case "tok.cbor":
		// the FromDagCbor entry points, bytes and reader variants (which must agree)
		b := []byte(unhx(f[2]))
		if n, err := ipld.Decode(b, dagcbor.Decode); err == nil {
			rd += " " + dumpNode(n)
		}
		var viaBytes, viaReader string
		switch f[1] {
		case "any":
			if t, err := token.FromDagCbor(b); err != nil {
				viaBytes = "err"
			} else {
				viaBytes = dumpAny(t)
			}
			if t, err := token.FromDagCborReader(bytes.NewReader(b)); err != nil {
				viaReader = "err"
			} else {
				viaReader = dumpAny(t)
			}
		case "dlg":
			if t, err := delegation.FromDagCbor(b); err != nil {
				viaBytes = "err"
			} else {
				viaBytes = dumpDlg(t)
			}
			if t, err := delegation.FromDagCborReader(bytes.NewReader(b)); err != nil {
				viaReader = "err"
			} else {
				viaReader = dumpDlg(t)
			}
		case "inv":
			if t, err := invocation.FromDagCbor(b); err != nil {
				viaBytes = "err"
			} else {
				viaBytes = dumpInv(t)
			}
			if t, err := invocation.FromDagCborReader(bytes.NewReader(b)); err != nil {
				viaReader = "err"
			} else {
				viaReader = dumpInv(t)
			}
		default:
			return "bad-line", rd
		}
		if viaBytes != viaReader {
			return "FromDagCbor and FromDagCborReader differ: " + viaBytes + " ≠ " + viaReader, rd
		}
		return viaBytes, rd
	case "tok.json":
		n, err := parseNode(f[2])
		if err != nil {
			return "bad-node", rd
		}
		var buf bytes.Buffer
		if err := ipld.EncodeStreaming(&buf, n, dagjson.Encode); err != nil {
			return "bad-json", rd
		}
		rd += " " + buf.String()
		switch f[1] {
		case "any":
			t, err := token.FromDagJson(buf.Bytes())
			if err != nil {
				return "err", rd
			}
			return dumpAny(t), rd
		case "dlg":
			t, err := delegation.FromDagJson(buf.Bytes())
			if err != nil {
				return "err", rd
			}
			return dumpDlg(t), rd
		case "inv":
			t, err := invocation.FromDagJson(buf.Bytes())
			if err != nil {
				return "err", rd
			}
			return dumpInv(t), rd
		}
	case "go.tok.honest":
		b := []byte(unhx(f[2]))
		var err error
		switch f[1] {
		case "any":
			_, _, err = token.FromSealed(b)
		case "dlg":
			_, _, err = delegation.FromSealed(b)
		case "inv":
			_, _, err = invocation.FromSealed(b)
		}
		if err != nil {
			return "an honest token with the specification's varsig header is refused: " + err.Error(), line[:40]
		}
		return "ok", line[:40]
	case "go.tok.roundtrip":
		return tokRoundTrip(f[1], f[2], f[3]), line
	case "go.tok.concurrent":
		return tokConcurrent(f[1], f[2]), line
	case "go.tok.sharedargs":
		var n int
		fmt.Sscan(f[1], &n)
		return tokSharedArgs(n), line
	case "go.cmd.history":
		return cmdHistory(len(f) > 1 && f[1] == "1"), line
	case "go.ctor.wf":
		return ctorWellFormed(len(f) > 1 && f[1] == "1"), line
	case "go.lit.textnum":
		return literalTextNumbers(), line
	case "go.lit.nodes":
		return literalNodes(len(f) > 1 && f[1] == "1"), line
	case "go.lit.exact":
		var i int
		fmt.Sscan(f[1], &i)
		return literalCheck(i), line
	}
	return "bad-line", rd
}

// ---- fixtures and mutations

type pfield struct{ k, v string }

func payloadText(fs []pfield) string {
	var parts []string
	for _, f := range fs {
		parts = append(parts, hxsRaw(f.k)+":"+f.v)
	}
	return "m(" + strings.Join(parts, ",") + ")"
}

func (c *ctx) tokenFixtures(alg string) (dlg, inv []pfield, k keyed) {
	k = keyFor(alg, 0)
	aud := keyFor("ed25519", 1)
	p1 := "k" + hxsRaw(string(independentCid([]byte("p1")).Bytes()))
	dlg = []pfield{
		{"iss", str(k.did.String())}, {"aud", str(aud.did.String())}, {"sub", str(k.did.String())}, {"cmd", str("/foo/bar")},
		{"pol", "l(l(" + str("==") + "," + str(".a") + ",i1),l(" + str("like") + "," + str(".s") + "," + str("x*") + "))"},
		{"nonce", "b" + hxsRaw("nonce-nonce-0")}, {"meta", "m(" + hxsRaw("k") + ":" + str("v") + ")"}, {"nbf", "i1700000000"}, {"exp", "i4102444800"},
	}
	inv = []pfield{
		{"iss", str(k.did.String())}, {"sub", str(aud.did.String())}, {"aud", str(aud.did.String())}, {"cmd", str("/foo")},
		{"args", "m(" + hxsRaw("a") + ":i1," + hxsRaw("s") + ":" + str("xyz") + ")"}, {"prf", "l(" + p1 + ")"},
		{"meta", "m(" + hxsRaw("k") + ":" + str("v") + ")"}, {"nonce", "b" + hxsRaw("nonce-nonce-1")}, {"exp", "i4102444800"}, {"iat", "i1700000000"}, {"cause", p1},
	}
	return
}

var retypes = []string{"n", "T", "i7", "d3ff8000000000000", "s", "s78", "b", "b0102", "l()", "l(i1)", "m()", "m(61:i1)", "k" + "01711220" + strings.Repeat("ab", 32),
	"i9007199254740991", "i9007199254740992", "i-9007199254740991", "i-9007199254740992", "i9223372036854775807", "i-9223372036854775808"}

// sealText signs the SigPayload text with the key and returns the sealed DAG-CBOR bytes.
func sealText(spText string, signer crypto.PrivKey, mangle func(sig []byte) string, outerExtra string) ([]byte, error) {
	sp, err := parseNode(spText)
	if err != nil {
		return nil, err
	}
	sig, err := signer.Sign(nodeBytes(sp))
	if err != nil {
		return nil, err
	}
	sigText := "b" + hxsRaw(string(sig))
	if mangle != nil {
		sigText = mangle(sig)
	}
	env, err := parseNode("l(" + sigText + "," + dumpNode(sp) + outerExtra + ")")
	if err != nil {
		return nil, err
	}
	return nodeBytes(env), nil
}

func (c *ctx) emitSealed(decoders []string, b []byte, tag string) {
	if b == nil {
		return
	}
	var o tokOracles
	n, err := ipld.Decode(b, dagcbor.Decode)
	if err == nil {
		o = oraclesFor(n)
	} else {
		o = tokOracles{"-", "F", "-", "L"}
	}
	for _, d := range decoders {
		c.emitG(fmt.Sprintf("tok.sealed %s %s %s %s %s %s", d, hx(b), o.lower, o.sig, o.key, o.letters), "token."+tag,
			func(string) bool { return true }, func(g string) []string { return []string{tag + ":" + strings.Fields(g)[0]} })
	}
	if err == nil && !strings.HasPrefix(tag, "bitflip") && (strings.Contains(tag, "noncanonical") || strings.HasPrefix(tag, "envelope:") || c.rng.Chance(1, 3)) {
		// the FromDagCbor entry points (no canonical-form check of their own) get the same bytes. Not the bit flips: a flipped bit
		// can produce an item (a half-precision float, an indefinite length) that the library's decoder reads and the model's does not;
		// FromSealed rejects those through its canonical-form check, FromDagCbor need not.
		for _, d := range decoders {
			c.emitG(fmt.Sprintf("tok.cbor %s %s %s %s %s %s", d, hx(b), o.lower, o.sig, o.key, o.letters), "token."+tag,
				func(string) bool { return true }, func(g string) []string { return []string{tag + "-cbor:" + strings.Fields(g)[0]} })
		}
	}
	if err == nil && c.rng.Chance(1, 4) && stringsValidUTF8(n) {
		// the DAG-JSON entry points get the same envelope (bytes become {"/":{"bytes":…}} in JSON text)
		var buf bytes.Buffer
		if ipld.EncodeStreaming(&buf, n, dagjson.Encode) == nil {
			if back, err := ipld.Decode(buf.Bytes(), dagjson.Decode); err == nil {
				o2 := oraclesFor(back)
				for _, d := range decoders {
					c.emitG(fmt.Sprintf("tok.json %s %s %s %s %s %s", d, dumpNode(back), o2.lower, o2.sig, o2.key, o2.letters), "token."+tag+".json",
						func(string) bool { return true }, func(g string) []string { return []string{tag + "-json:" + strings.Fields(g)[0]} })
				}
			}
		}
	}
}

func runTokenStream(c *ctx) error {
	all := []string{"any", "dlg", "inv"}
	algs := []string{"ed25519", "secp256k1", "p256", "rsa"}
	if c.thoro {
		algs = append(algs, "p384", "p521")
	}
	dlgTag, invTag := hxsRaw("ucan/dlg@1.0.0-rc.1"), hxsRaw("ucan/inv@1.0.0-rc.1")
	for ai, alg := range algs {
		dlg, inv, k := c.tokenFixtures(alg)
		hdr := "b" + varsigHex[alg]
		mk := func(tag string, fs []pfield) string { return "m(68:" + hdr + "," + tag + ":" + payloadText(fs) + ")" }
		for _, kind := range []struct {
			tag string
			fs  []pfield
		}{{dlgTag, dlg}, {invTag, inv}} {
			// the honest token
			b, err := sealText(mk(kind.tag, kind.fs), k.priv, nil, "")
			if err != nil {
				return err
			}
			c.emitSealed(all, b, "honest")
			// the same honest token — built by the harness with the varsig header THE SPECIFICATION gives for the key type — must be
			// accepted whatever the library's own table (and the model regenerated from it) says
			for _, d := range all {
				if (kind.tag == dlgTag && d == "inv") || (kind.tag == invTag && d == "dlg") {
					continue
				}
				c.emit(fmt.Sprintf("go.tok.honest %s %s", d, hx(b)), "token.honest-spec:"+alg, true, "honest-spec:"+alg)
			}
			if ai > 0 && !c.thoro {
				c.envelopeCore(all, alg, k, hdr, kind.tag, kind.fs, mk)
				continue
			}
			c.envelopeCore(all, alg, k, hdr, kind.tag, kind.fs, mk)
			// (fields) every field × every mutation, correctly re-signed
			for i, f := range kind.fs {
				mut := func(fs []pfield, tag string) {
					b, err := sealText(mk(kind.tag, fs), k.priv, nil, "")
					if err == nil {
						c.emitSealed(all, b, tag)
					}
				}
				drop := append(append([]pfield(nil), kind.fs[:i]...), kind.fs[i+1:]...)
				mut(drop, "field-drop:"+f.k)
				for _, rt := range retypes {
					fs := append([]pfield(nil), kind.fs...)
					fs[i].v = rt
					mut(fs, "field-retype:"+f.k)
				}
				for _, sv := range specialValues(f.k) {
					fs := append([]pfield(nil), kind.fs...)
					fs[i].v = sv
					mut(fs, "field-special:"+f.k)
				}
			}
			mutAdd := append(append([]pfield(nil), kind.fs...), pfield{"zz", "i1"})
			if b, err := sealText(mk(kind.tag, mutAdd), k.priv, nil, ""); err == nil {
				c.emitSealed(all, b, "field-unknown-key")
			}
			// (envelope)
			other := keyFor("ed25519", 7)
			envCases := []struct {
				name, sp string
				key      crypto.PrivKey
				mg       func([]byte) string
				extra    string
			}{
				{"hdr-other-type", "m(68:b" + varsigHex["rsa"] + "," + kind.tag + ":" + payloadText(kind.fs) + ")", k.priv, nil, ""},
				{"hdr-garbage", "m(68:b00," + kind.tag + ":" + payloadText(kind.fs) + ")", k.priv, nil, ""},
				{"hdr-not-bytes", "m(68:" + str("x") + "," + kind.tag + ":" + payloadText(kind.fs) + ")", k.priv, nil, ""},
				{"hdr-missing", "m(" + kind.tag + ":" + payloadText(kind.fs) + ")", k.priv, nil, ""},
				{"sp-extra-entry", "m(68:" + hdr + "," + kind.tag + ":" + payloadText(kind.fs) + "," + hxsRaw("zz") + ":i1)", k.priv, nil, ""},
				{"sp-two-tags", "m(" + dlgTag + ":" + payloadText(kind.fs) + "," + invTag + ":" + payloadText(kind.fs) + ")", k.priv, nil, ""},
				{"sp-extra-short-tag", "m(68:" + hdr + "," + hxsRaw("ucan/x") + ":" + payloadText(kind.fs) + "," + kind.tag + ":" + payloadText(kind.fs) + ")", k.priv, nil, ""},
				{"sp-extra-long-tag", "m(68:" + hdr + "," + kind.tag + ":" + payloadText(kind.fs) + "," + kind.tag + hxsRaw("x") + ":" + payloadText(kind.fs) + ")", k.priv, nil, ""},
				{"sp-extra-two-headers-like", "m(68:" + hdr + "," + hxsRaw("hh") + ":" + hdr + "," + kind.tag + ":" + payloadText(kind.fs) + ")", k.priv, nil, ""},
				{"sp-foreign-key", "m(68:" + hdr + "," + hxsRaw("zz") + ":" + payloadText(kind.fs) + ")", k.priv, nil, ""},
				{"tag-unknown", "m(68:" + hdr + "," + hxsRaw("ucan/xx@1") + ":" + payloadText(kind.fs) + ")", k.priv, nil, ""},
				{"tag-swapped", "m(68:" + hdr + "," + map[string]string{dlgTag: invTag, invTag: dlgTag}[kind.tag] + ":" + payloadText(kind.fs) + ")", k.priv, nil, ""},
				{"sig-other-key", mk(kind.tag, kind.fs), other.priv, nil, ""},
				{"sig-empty", mk(kind.tag, kind.fs), k.priv, func([]byte) string { return "b" }, ""},
				{"sig-truncated", mk(kind.tag, kind.fs), k.priv, func(s []byte) string { return "b" + hxsRaw(string(s[:len(s)-1])) }, ""},
				{"sig-not-bytes", mk(kind.tag, kind.fs), k.priv, func(s []byte) string { return "s" + hxsRaw(string(s)) }, ""},
				{"outer-extra", mk(kind.tag, kind.fs), k.priv, nil, ",n"},
				{"sig-padded-1025", mk(kind.tag, kind.fs), k.priv, func(s []byte) string { return "b" + hxsRaw(string(s)) + strings.Repeat("00", 1025-len(s)) }, ""},
				{"sig-junk-257", mk(kind.tag, kind.fs), k.priv, func(s []byte) string { return "b" + strings.Repeat("5a", 257) }, ""},
				{"sig-junk-1024", mk(kind.tag, kind.fs), k.priv, func(s []byte) string { return "b" + strings.Repeat("5a", 1024) }, ""},
				{"sig-junk-1025", mk(kind.tag, kind.fs), k.priv, func(s []byte) string { return "b" + strings.Repeat("5a", 1025) }, ""},
				{"sig-junk-4097", mk(kind.tag, kind.fs), k.priv, func(s []byte) string { return "b" + strings.Repeat("a5", 4097) }, ""},
				{"sig-junk-65537", mk(kind.tag, kind.fs), k.priv, func(s []byte) string { return "b" + strings.Repeat("c3", 65537) }, ""},
				{"sig-twice", mk(kind.tag, kind.fs), k.priv, func(s []byte) string { return "b" + hxsRaw(string(s)) + hxsRaw(string(s)) }, ""},
				{"payload-not-map", "m(68:" + hdr + "," + kind.tag + ":l())", k.priv, nil, ""},
			}
			for _, ec := range envCases {
				if b, err := sealText(ec.sp, ec.key, ec.mg, ec.extra); err == nil {
					c.emitSealed(all, b, "envelope:"+ec.name)
				}
			}
			// rewrites that KEEP THE OLD SIGNATURE (made after the genuine token has been decoded above):
			// a payload field, or the varsig header, changes while the signature is the one of the original
			origSP, _ := parseNode(mk(kind.tag, kind.fs))
			oldSig, _ := k.priv.Sign(nodeBytes(origSP))
			keepSig := func([]byte) string { return "b" + hxsRaw(string(oldSig)) }
			for i, f := range kind.fs {
				for _, nv := range oldSigRewrites(f.k, f.v) {
					fs := append([]pfield(nil), kind.fs...)
					fs[i].v = nv
					if b, err := sealText(mk(kind.tag, fs), k.priv, keepSig, ""); err == nil {
						c.emitSealed(all, b, "envelope:sig-old-field:"+f.k)
					}
				}
			}
			h0 := varsigHex[alg]
			hdrVariants := map[string]string{
				"dagjson": h0[:len(h0)-2] + "a902", "raw": h0[:len(h0)-2] + "55", "extra-segment": h0 + "71", "dropped-segment": h0[:len(h0)-2],
				"sha512": strings.Replace(h0, "12", "13", 1), "prefix-only": "34",
			}
			// the well-formed header of EVERY OTHER supported key type (a header that is merely "known" is not the issuer's)
			for oa, oh := range varsigHex {
				if oh != h0 {
					hdrVariants["of-"+oa] = oh
				}
			}
			for name, hv := range hdrVariants {
				sp := "m(68:b" + hv + "," + kind.tag + ":" + payloadText(kind.fs) + ")"
				if b, err := sealText(sp, k.priv, keepSig, ""); err == nil {
					c.emitSealed(all, b, "envelope:hdr-old-sig:"+name)
				}
				if b, err := sealText(sp, k.priv, nil, ""); err == nil {
					c.emitSealed(all, b, "envelope:hdr-resigned:"+name)
				}
				// … and signed over the DAG-JSON form of the SigPayload (what a header that announces another encoding would ask
				// for): the only signed form is the DAG-CBOR one
				if spn, err := parseNode(sp); err == nil {
					if js, err := ipld.Encode(spn, dagjson.Encode); err == nil {
						overJSON := func([]byte) string {
							sig, _ := k.priv.Sign(js)
							return "b" + hxsRaw(string(sig))
						}
						if b, err := sealText(sp, k.priv, overJSON, ""); err == nil {
							c.emitSealed(all, b, "envelope:hdr-json-signed:"+name)
						}
					}
				}
			}
			c.emit(fmt.Sprintf("go.tok.concurrent %s %s", map[string]string{dlgTag: "dlg", invTag: "inv"}[kind.tag], alg), "token.envelope:sig-concurrent", true, "concurrent:"+alg)
			// (bits) every single-bit flip of the honest sealed bytes
			if alg == "ed25519" {
				step := 1
				if !c.thoro {
					step = 3
				}
				for i := 0; i < len(b)*8; i += step {
					m := append([]byte(nil), b...)
					m[i/8] ^= 1 << (i % 8)
					dec := "any"
					if c.thoro && i%2 == 1 {
						dec = map[string]string{dlgTag: "dlg", invTag: "inv"}[kind.tag]
					}
					c.emitSealed([]string{dec}, m, "bitflip")
				}
			}
		}
	}
	// (values) every Go integer type at its boundaries through literal.Any, args.Add, meta.Add: exact or rejected
	for i := range numCases() {
		c.emit(fmt.Sprintf("go.lit.exact %d", i), "literal.exact", true, "literal")
	}
	c.emit("go.cmd.history 0", "literal.exact", true, "cmd-history")
	c.emit("go.lit.nodes 0", "literal.exact", true, "literal-nodes")
	c.emit("go.lit.textnum 0", "literal.exact", true, "literal-text-numbers")
	c.emit("go.ctor.wf 0", "literal.exact", true, "ctor-wellformed")
	// the same two checks again under the round-trip class: "seals but does not unseal" is a C07 matter as well
	c.emit("go.lit.nodes 1", "token.roundtrip-nodes", true, "literal-nodes")
	c.emit("go.ctor.wf 1", "token.roundtrip-ctor", true, "ctor-wellformed")
	c.emit("go.cmd.history 1", "token.roundtrip-cmd", true, "cmd-history")
	// several tokens built from ONE argument set (n keys) handed to WithArguments, each with an argument of its own
	// added afterwards, the shared set growing in between: each token seals and unseals with exactly its own arguments
	for n := 0; n <= 9; n++ {
		c.emit(fmt.Sprintf("go.tok.sharedargs %d", n), "token.roundtrip-shared", true, "sharedargs")
		// (the same check under the class of "values a caller supplies are stored exactly": what the caller does with ITS argument
		// set after the constructor returned does not reach the token)
		c.emit(fmt.Sprintf("go.tok.sharedargs %d again", n), "literal.exact-shared", true, "sharedargs")
	}
	// (roundtrip) constructor-built tokens
	rtAlgs := []string{"ed25519", "secp256k1", "p256", "p384", "p521", "rsa"}
	masks := 128
	for _, alg := range rtAlgs {
		for _, kind := range []string{"dlg", "inv"} {
			// bits 7–9 (early instants, audience = subject, integral floats): a few masks per algorithm
			for _, m := range []int{128, 129, 256, 257, 384, 128 + 16, 256 + 8, 512, 513, 512 + 2 + 4, 1024, 1025, 1026, 1024 + 3, 2048, 2049, 4096, 4097, 4096 + 2, 8192, 8193, 8192 + 2, 8192 + 1 + 2 + 4, 16384, 16385, 16386, 16384 + 4, 16384 + 5, 16384 + 32, 16384 + 1 + 4, 16384 + 3, 16384 + 3 + 8} {
				if !c.thoro && alg != "ed25519" && alg != "p256" {
					continue
				}
				cl := "token.roundtrip:" + alg
				if m&512 != 0 {
					cl = "token.roundtrip-intfloat:" + alg // a class of its own: an open finding lives here and must not crowd out other cases
				}
				c.emit(fmt.Sprintf("go.tok.roundtrip %s %s %d", kind, alg, m), cl, true, "roundtrip:"+kind+":"+alg)
			}
			for m := 0; m < masks; m++ {
				if !c.thoro && alg == "rsa" {
					if m != 7 {
						continue // did.GenerateRSA keys (3072 bits) are slow: one mask per token type in the quick tier
					}
				} else if !c.thoro && (alg != "ed25519" || m >= 64 && m%4 > 1) && m%5 != 0 {
					continue
				}
				c.emit(fmt.Sprintf("go.tok.roundtrip %s %s %d", kind, alg, m), "token.roundtrip:"+alg, true, "roundtrip:"+kind+":"+alg)
			}
		}
	}
	return nil
}

// envelopeCore: the signature and header cases every key algorithm gets at every tier — a failed verification is reported
// differently by each algorithm's library (a false result, or an error), and each must end in a rejection: the signature of
// another key, an empty, a truncated and a junk signature, the genuine signature over a payload that has since changed, an
// empty varsig header, and a signature made over a NON-canonical serialization of the payload (keys in another order) that is
// shipped in exactly that serialization.
func (c *ctx) envelopeCore(all []string, alg string, k keyed, hdr, tag string, fs []pfield, mk func(string, []pfield) string) {
	other := keyFor("ed25519", 7)
	sp := mk(tag, fs)
	origSP, err := parseNode(sp)
	if err != nil {
		return
	}
	oldSig, err := k.priv.Sign(nodeBytes(origSP))
	if err != nil {
		return
	}
	keepSig := func([]byte) string { return "b" + hxsRaw(string(oldSig)) }
	for _, ec := range []struct {
		name, sp string
		key      crypto.PrivKey
		mg       func([]byte) string
	}{
		{"sig-other-key", sp, other.priv, nil},
		{"sig-empty", sp, k.priv, func([]byte) string { return "b" }},
		{"sig-truncated", sp, k.priv, func(x []byte) string { return "b" + hxsRaw(string(x[:len(x)-1])) }},
		{"sig-one-byte", sp, k.priv, func(x []byte) string { return "b30" }},
		{"sig-junk-64", sp, k.priv, func(x []byte) string { return "b" + strings.Repeat("5a", 64) }},
		{"sig-zeroes", sp, k.priv, func(x []byte) string { return "b" + strings.Repeat("00", len(x)) }},
		{"hdr-empty", "m(68:b," + tag + ":" + payloadText(fs) + ")", k.priv, nil},
		{"hdr-empty-old-sig", "m(68:b," + tag + ":" + payloadText(fs) + ")", k.priv, keepSig},
	} {
		if b, err := sealText(ec.sp, ec.key, ec.mg, ""); err == nil {
			c.emitSealed(all, b, "envelope:"+ec.name+":"+alg)
		}
	}
	for i, f := range fs {
		for j, nv := range oldSigRewrites(f.k, f.v) {
			if j > 0 {
				break
			}
			g := append([]pfield(nil), fs...)
			g[i].v = nv
			if b, err := sealText(mk(tag, g), k.priv, keepSig, ""); err == nil {
				c.emitSealed(all, b, "envelope:sig-old-field:"+f.k+":"+alg)
			}
		}
	}
	// signed over a non-canonical serialization: the entries of the SigPayload, or of the payload, in reverse order
	hb, _ := hex.DecodeString(strings.TrimPrefix(hdr, "b"))
	tagText, _ := hex.DecodeString(tag)
	pn, err := parseNode(payloadText(fs))
	if err != nil {
		return
	}
	canonPayload := nodeBytes(pn)
	var revPayload bytes.Buffer
	{
		// the payload map with its entries written last to first
		revPayload.Write(cborHead(5, uint64(len(fs))))
		type ent struct{ k, v []byte }
		var es []ent
		it := pn.MapIterator()
		for !it.Done() {
			kn, vn, _ := it.Next()
			ks, _ := kn.AsString()
			es = append(es, ent{cborText(ks), nodeBytes(vn)})
		}
		for i := len(es) - 1; i >= 0; i-- {
			revPayload.Write(es[i].k)
			revPayload.Write(es[i].v)
		}
	}
	for name, spRaw := range map[string][]byte{
		"sp-order":      append(append(append(append([]byte{0xa2}, cborText(string(tagText))...), canonPayload...), cborText("h")...), cborBin(hb)...),
		"payload-order": append(append(append(append([]byte{0xa2}, cborText("h")...), cborBin(hb)...), cborText(string(tagText))...), revPayload.Bytes()...),
	} {
		sig, err := k.priv.Sign(spRaw)
		if err != nil {
			continue
		}
		env := append(append([]byte{0x82}, cborBin(sig)...), spRaw...)
		c.emitSealed(all, env, "envelope:sig-over-noncanonical:"+name+":"+alg)
	}
}

// oldSigRewrites: values that differ from the signed one (same length where possible, so that byte-level
// caches keyed by length or position cannot tell them apart)
func oldSigRewrites(field, orig string) []string {
	aud := keyFor("ed25519", 7)
	switch field {
	case "iss", "aud", "sub":
		return []string{str(aud.did.String())}
	case "cmd":
		return []string{str("/foo/baz"), str("/fox"), str("/")}
	case "pol":
		return []string{"l()", strings.Replace(orig, "i1", "i2", 1)}
	case "nonce":
		return []string{"b" + hxsRaw("nonce-nonce-X")}
	case "meta":
		return []string{"m(" + hxsRaw("k") + ":" + str("w") + ")"}
	case "nbf", "exp", "iat":
		return []string{"i1700000001", "i4102444801"}
	case "args":
		return []string{"m(" + hxsRaw("a") + ":i2," + hxsRaw("s") + ":" + str("xyz") + ")", "m()"}
	case "prf":
		return []string{"l()", "l(k" + hxsRaw(string(independentCid([]byte("p9")).Bytes())) + ")"}
	case "cause":
		return []string{"k" + hxsRaw(string(independentCid([]byte("p9")).Bytes()))}
	}
	return nil
}

// tokConcurrent decodes a genuine token and a forged one (a same-length field rewrite carrying the genuine
// signature) from many goroutines at once: the forged one must never be accepted.
func tokConcurrent(kind, alg string) string {
	k := keyFor(alg, 0)
	ctx0 := &ctx{}
	dlg, inv, _ := ctx0.tokenFixtures(alg)
	fs, tag := dlg, hxsRaw("ucan/dlg@1.0.0-rc.1")
	if kind == "inv" {
		fs, tag = inv, hxsRaw("ucan/inv@1.0.0-rc.1")
	}
	hdr := "b" + varsigHex[alg]
	mk := func(fs []pfield) string { return "m(68:" + hdr + "," + tag + ":" + payloadText(fs) + ")" }
	genuine, err := sealText(mk(fs), k.priv, nil, "")
	if err != nil {
		return "fixture: " + err.Error()
	}
	// deterministic schemes would let us reuse sealText's signature; sign explicitly so both envelopes share it
	sp, _ := parseNode(mk(fs))
	sig, _ := k.priv.Sign(nodeBytes(sp))
	keep := func([]byte) string { return "b" + hxsRaw(string(sig)) }
	genuine, _ = sealText(mk(fs), k.priv, keep, "")
	forgedFs := append([]pfield(nil), fs...)
	for i := range forgedFs {
		if forgedFs[i].k == "cmd" {
			forgedFs[i].v = str(map[string]string{"dlg": "/foo/baz", "inv": "/fox"}[kind])
		}
	}
	forged, _ := sealText(mk(forgedFs), k.priv, keep, "")
	if _, _, err := token.FromSealed(genuine); err != nil {
		return "genuine token refused: " + err.Error()
	}
	// the same payload (issuer k) signed by ANOTHER principal of the same algorithm, and that principal's own genuine token
	other := keyFor(alg, 5)
	impostor, _ := sealText(mk(fs), other.priv, nil, "")
	otherFs := append([]pfield(nil), fs...)
	for i := range otherFs {
		if otherFs[i].k == "iss" {
			otherFs[i].v = str(other.did.String())
		}
	}
	otherGenuine, _ := sealText(mk(otherFs), other.priv, nil, "")
	var wg sync.WaitGroup
	bad := make(chan string, 16)
	for g := 0; g < 4; g++ {
		wg.Add(1)
		go func(g int) {
			defer wg.Done()
			defer func() {
				if r := recover(); r != nil {
					bad <- fmt.Sprint("panic ", r)
				}
			}()
			deadline := time.Now().Add(1500 * time.Millisecond) // slow schemes (P-521, RSA) do fewer rounds
			for r := 0; r < 6000 && (r < 50 || time.Now().Before(deadline)); r++ {
				switch g {
				case 0:
					if _, err := k.did.PubKey(); err != nil {
						bad <- "PubKey failed under concurrency: " + err.Error()
						return
					}
				case 1:
					if _, err := other.did.PubKey(); err != nil {
						bad <- "PubKey failed under concurrency: " + err.Error()
						return
					}
				case 2:
					if otherGenuine != nil {
						if _, _, err := token.FromSealed(otherGenuine); err != nil {
							bad <- "genuine token of the second principal refused under concurrency: " + err.Error()
							return
						}
					}
				default:
					if impostor != nil {
						if _, _, err := token.FromSealed(impostor); err == nil {
							bad <- "a token naming one issuer but signed by another principal was accepted while both keys were being extracted concurrently"
							return
						}
					}
				}
			}
		}(g)
	}
	wg.Wait()
	select {
	case m := <-bad:
		return m
	default:
	}
	for g := 0; g < 8; g++ {
		wg.Add(1)
		go func(g int) {
			defer wg.Done()
			defer func() {
				if r := recover(); r != nil {
					bad <- fmt.Sprint("panic ", r)
				}
			}()
			deadline := time.Now().Add(2500 * time.Millisecond)
			for r := 0; r < 4000 && (r < 50 || time.Now().Before(deadline)); r++ {
				if g%2 == 0 {
					if _, _, err := token.FromSealed(genuine); err != nil {
						bad <- "genuine token refused under concurrency: " + err.Error()
						return
					}
				} else {
					if _, _, err := token.FromSealed(forged); err == nil {
						bad <- "a field rewrite carrying the old signature was accepted while the genuine token was being decoded concurrently"
						return
					}
				}
			}
		}(g)
	}
	wg.Wait()
	close(bad)
	for m := range bad {
		return m
	}
	return "ok"
}

func specialValues(field string) []string {
	switch field {
	case "iss", "aud", "sub":
		return []string{str("did:key:"), str("did:web:example.com"), str("did:key:z6Mk"), str("did:key:zAkb"), str("key"), str("did:key:z" + "1111")}
	case "cmd":
		return []string{str(""), str("/"), str("foo"), str("/foo/"), str("/Foo"), str("//"), str("/fÖo"), str("/a//b"),
			// cased characters outside category Lu (title-case digraphs, Roman numerals, circled capitals), their lowercase
			// forms, and text that is not UTF-8
			str("/crud/ǅ"), str("/crud/ǆ"), str("/Ⅰ/create"), str("/ⅰ/create"), str("/store/Ⓐdd"), str("/store/ⓐdd"), str("/ᾈ"), str("/ᾀ"), str("/a\xff"), str("/\xc3"), str("/ς/σ")}
	case "pol":
		return []string{"l()", "l(l())", "l(l(" + str("==") + "," + str("a") + ",i1))", "l(l(" + str("like") + "," + str(".a") + "," + str("a\\") + "))",
			"l(l(" + str("==") + "," + str(".a") + ",i9007199254740992))",
			"l(l(" + str("==") + "," + str(".a") + ",i1),l(" + str("==") + "," + str(".b") + ",i9007199254740992))",
			"l(l(" + str("==") + "," + str(".a") + ",l(l(i1),l(i-9007199254740992))))",
			"l(l(" + str("==") + "," + str(".a") + ",i-9223372036854775808))", "l(l(" + str(">") + "," + str(".a") + ",i9223372036854775807))",
			"l(l(" + str("==") + "," + str(".a") + ",l(i0,m(" + hxsRaw("k") + ":i-9223372036854775808))))",
			"l(l(" + str("and") + ",l(l(" + str("==") + "," + str(".a") + ",m(" + hxsRaw("x") + ":l()," + hxsRaw("y") + ":i9007199254740992)))))", "l(l(" + str("nope") + "," + str(".a") + ",i1))", "l(l(" + str("==") + "," + str(".a[") + ",i1))"}
	case "nonce":
		return []string{"b", "b" + hxsRaw("12345678901"), "b" + hxsRaw("123456789012"), "b00"}
	case "nbf", "exp", "iat":
		return []string{"i0", "i-1", "i9007199254740991", "i9007199254740992", "i-9007199254740991", "i-9007199254740992", "n",
			"i-9223372036854775808", "i9223372036854775807", "i-62135596800", "i-62135596801", "i253402300800"}
	case "args":
		return []string{"m()", "m(" + hxsRaw("a") + ":i9007199254740992)", "m(" + hxsRaw("a") + ":l(m(" + hxsRaw("b") + ":i-9007199254740992)))", "m(" + hxsRaw("a") + ":i9007199254740991)",
			"m(" + hxsRaw("a") + ":l(l(i1),l(i9007199254740992)))", "m(" + hxsRaw("a") + ":m(" + hxsRaw("x") + ":m()," + hxsRaw("y") + ":i9007199254740992))",
			"m(" + hxsRaw("a") + ":l()," + hxsRaw("b") + ":i-9007199254740992)",
			"m(" + hxsRaw("a") + ":i-9223372036854775808)", "m(" + hxsRaw("a") + ":i9223372036854775807)",
			"m(" + hxsRaw("a") + ":l(i1,m(" + hxsRaw("b") + ":l(i-9223372036854775808))))"}
	case "meta":
		return []string{"m()", "m(" + hxsRaw("a") + ":i9007199254740992)", "m(" + hxsRaw("a") + ":i-9223372036854775808)"}
	case "prf":
		return []string{"l()", "l(i1)", "l(" + str("x") + ")"}
	}
	return nil
}

type brokenReader struct{}

func (brokenReader) Read([]byte) (int, error) { return 0, errors.New("injected read failure") }

// tokRoundTrip builds a token with the constructors (option mask), seals and unseals it with every codec and
// decoder, and checks that every field survives (times at whole-second resolution).
func tokRoundTrip(kind, alg, ms string) string {
	var mask int
	fmt.Sscan(ms, &mask)
	k := keyFor(alg, 0)
	aud := keyFor("ed25519", 1)
	opt := func(i int) bool { return mask&(1<<i) != 0 }
	var want string
	var sealed, js []byte
	var err error
	if kind == "dlg" {
		pol := policy.Policy{}
		if opt(0) {
			pol = policy.MustConstruct(policy.Equal(".a.?", basicInt(1)), policy.And(policy.Like(".s???", "x*\\*"), policy.Not(policy.GreaterThan(".n", basicInt(-5)))),
				policy.Any(".l", policy.LessThanOrEqual(".", basicInt(9007199254740991))))
		}
		var opts []delegation.Option
		if opt(1) {
			opts = append(opts, delegation.WithMeta("s", "v"), delegation.WithMeta("i", int64(-7)), delegation.WithMeta("b", []byte{1, 2}), delegation.WithMeta("t", true))
		}
		if opt(2) {
			opts = append(opts, delegation.WithExpirationIn(time.Duration(1e18)))
		}
		if opt(3) {
			opts = append(opts, delegation.WithNotBeforeIn(-time.Hour*24*365*50))
		}
		if opt(4) {
			opts = append(opts, delegation.WithNonce(bytes.Repeat([]byte{0xff}, 40)))
		}
		if opt(5) {
			// extreme but finite bounds: the largest whole second the wire format admits
			opts = append(opts, delegation.WithExpiration(time.Unix(9007199254740991, 0)))
		}
		if opt(9) {
			pol = append(pol, policy.MustConstruct(policy.Equal(".f", literalFloat(2.0)), policy.GreaterThan(".g", literalFloat(-1e15)))...)
		}
		if opt(7) {
			opts = append(opts, delegation.WithNotBefore(time.Unix(9007199254740991, 0)))
		}
		if opt(13) {
			// links and bytes wherever a value may stand: metadata (top level and nested) and policy literals
			lk := independentCid([]byte("a link in a value position"))
			opts = append(opts, delegation.WithMeta("lnk", lk), delegation.WithMeta("nest", map[string]any{"l": lk, "ll": []any{lk, "s"}}), delegation.WithMeta("byt", []byte{1, 2, 3}))
			pol = append(pol, policy.MustConstruct(policy.Equal(".c", basicLink(lk)), policy.Any(".cs", policy.Equal(".", basicLink(lk))), policy.Equal(".bb", basicBytes([]byte("abc"))))...)
		}
		if opt(14) {
			// a not-before beyond what the wire format holds, next to an expiration that is fine (or absent): whatever the
			// constructor accepts must unseal
			opts = append(opts, delegation.WithNotBefore(time.Unix(9007199254740992+int64(mask%3), 0)))
		}
		// (bit 10, instants exactly at the Unix epoch, is for invocations: the delegation constructors refuse bounds in the past)
		var t *delegation.Token
		if opt(6) {
			// anything the constructors accept must survive: a time bound beyond 2^53 s, a command that was
			// never parsed. The constructor may refuse them; if it accepts, sealing and unsealing must work.
			cmd := command.New("Upper", "case")
			if mask%2 == 0 {
				cmd = command.MustParse("/ok")
				opts = append(opts, delegation.WithExpiration(time.Unix(9007199254740992, 0)))
			}
			t, err = delegation.Root(k.did, aud.did, cmd, pol, opts...)
			if err != nil {
				return "ok" // refused by the constructor: nothing to round-trip
			}
		} else if opt(14) {
			t, err = delegation.New(k.did, aud.did, command.MustParse("/far/future"), pol, opts...)
			if err != nil {
				return "ok" // refused by the constructor: nothing to round-trip
			}
		} else if mask%3 == 0 {
			t, err = delegation.Root(k.did, aud.did, command.MustParse("/"), pol, opts...)
		} else if mask%3 == 1 {
			t, err = delegation.New(k.did, aud.did, command.MustParse("/ほげ/ふが"), pol, append(opts, delegation.WithSubject(aud.did))...)
		} else {
			t, err = delegation.New(k.did, aud.did, command.MustParse("/a//b"), pol, opts...)
		}
		if err != nil {
			return "constructor: " + err.Error()
		}
		want = dumpDlg(t)
		if sealed, _, err = t.ToSealed(k.priv); err != nil {
			return "ToSealed: " + err.Error()
		}
		if js, err = t.ToDagJson(k.priv); err != nil {
			return "ToDagJson: " + err.Error()
		}
	} else {
		var opts []invocation.Option
		if opt(0) {
			opts = append(opts, invocation.WithArgument("a", int64(1)), invocation.WithArgument("s", "xyz"), invocation.WithArgument("l", []any{int64(1), "two", map[string]any{"k": true, "j": []any{}}}), invocation.WithArgument("b", []byte{9}),
				invocation.WithArgument("f", 1.5), invocation.WithArgument("big", int64(9007199254740991)))
		}
		if opt(1) {
			opts = append(opts, invocation.WithMeta("s", "v"), invocation.WithMeta("i", int64(-7)))
		}
		if opt(2) {
			opts = append(opts, invocation.WithExpirationIn(time.Hour*24*365*100))
		}
		if opt(3) {
			opts = append(opts, invocation.WithAudience(k.did))
		}
		if opt(4) {
			c := independentCid([]byte("cause"))
			opts = append(opts, invocation.WithCause(&c), invocation.WithoutInvokedAt())
		}
		prf := []cid.Cid{}
		for i := 0; i < mask%4; i++ {
			prf = append(prf, independentCid([]byte{byte(i)}))
		}
		icmd := command.MustParse("/foo/bar")
		if opt(5) {
			opts = append(opts, invocation.WithExpiration(time.Unix(9007199254740991, 0)))
		}
		if opt(6) {
			if mask%2 == 0 {
				opts = append(opts, invocation.WithExpiration(time.Unix(9007199254740992, 0)))
			} else {
				icmd = command.New("Upper", "case")
			}
		}
		if opt(7) {
			// instants a long way before 1970, down to Go's zero time (1 January of year 1)
			if mask%2 == 0 {
				opts = append(opts, invocation.WithInvokedAt(time.Time{}), invocation.WithExpiration(time.Date(1000, 1, 1, 0, 0, 0, 0, time.UTC)))
			} else {
				opts = append(opts, invocation.WithExpiration(time.Time{}), invocation.WithInvokedAt(time.Unix(-1, 0)))
			}
		}
		if opt(10) {
			// instants exactly at the Unix epoch
			if mask%2 == 0 {
				opts = append(opts, invocation.WithInvokedAt(time.Unix(0, 0)))
			} else {
				opts = append(opts, invocation.WithInvokedAt(time.Unix(0, 0)), invocation.WithExpiration(time.Unix(0, 0)))
			}
		}
		if opt(11) {
			// an expiration in the last half second of the representable range: what is stored is what was checked
			opts = append(opts, invocation.WithExpiration(time.Unix(9007199254740991, 600000000)))
		}
		if opt(14) {
			// an issue time beyond what the wire format holds next to an expiration that is fine; an issue time with a
			// sub-second part of more than half a second (written as the second it lies in)
			if mask%2 == 0 {
				opts = append(opts, invocation.WithInvokedAt(time.Unix(9007199254740992, 0)))
			} else if mask%4 == 1 {
				opts = append(opts, invocation.WithInvokedAt(time.Unix(1900000000, 600000000)), invocation.WithExpiration(time.Unix(2000000000, 700000000)))
			} else {
				// instants BEFORE 1970 with a sub-second part: the second they lie in is the one below (−1.5 s lies in second −2)
				opts = append(opts, invocation.WithInvokedAt(time.Unix(-2, 500000000)), invocation.WithExpiration(time.Unix(-1001, 700000000)))
			}
		}
		if opt(12) {
			// arguments given one by one and then merged with a set that overlaps them on an EARLIER key, twice
			more := args.New()
			_ = more.Add("k1", int64(5))
			_ = more.Add("zz", "new")
			opts = append(opts, invocation.WithArgument("k1", int64(1)), invocation.WithArgument("m", "mid"), invocation.WithArgument("z9", true),
				invocation.WithArguments(more), invocation.WithArguments(more))
		}
		if opt(13) {
			lk := independentCid([]byte("a link in a value position"))
			opts = append(opts, invocation.WithMeta("lnk", lk), invocation.WithArgument("lnk", lk), invocation.WithArgument("nest", []any{lk, map[string]any{"c": lk}}))
		}
		if opt(8) {
			// an audience naming the subject itself (after any other audience option, so that it is the one that counts)
			opts = append(opts, invocation.WithAudience(aud.did))
		}
		if opt(9) {
			// floats without a fractional part
			opts = append(opts, invocation.WithArgument("f0", 0.0), invocation.WithArgument("f3", 3.0), invocation.WithArgument("fl", []any{-2.0, 1e15}))
		}
		t, err := invocation.New(k.did, aud.did, icmd, prf, opts...)
		if err != nil {
			if opt(6) || opt(11) || opt(14) {
				return "ok" // refused by the constructor: nothing to round-trip
			}
			return "constructor: " + err.Error()
		}
		want = dumpInv(t)
		if sealed, _, err = t.ToSealed(k.priv); err != nil {
			return "ToSealed: " + err.Error()
		}
		if js, err = t.ToDagJson(k.priv); err != nil {
			return "ToDagJson: " + err.Error()
		}
	}
	check := func(name, got string, err error) string {
		if err != nil {
			return name + " rejects a token it sealed: " + err.Error()
		}
		if got != want {
			return name + " returns different fields: " + got + " ≠ " + want
		}
		return ""
	}
	var msgs []string
	add := func(s string) {
		if s != "" {
			msgs = append(msgs, s)
		}
	}
	{
		t, _, err := token.FromSealed(sealed)
		g := ""
		if err == nil {
			g = dumpAny(t)
		}
		add(check("token.FromSealed", g, err))
		tj, err := token.FromDagJson(js)
		g = ""
		if err == nil {
			g = dumpAny(tj)
		}
		add(check("token.FromDagJson", g, err))
	}
	{
		// the stream decoders agree with the buffered ones, also right after a stream that ended early or failed
		for round := 0; round < 3; round++ {
			_, _, _ = token.FromSealedReader(bytes.NewReader(sealed[:len(sealed)/2]))
			_, _, _ = token.FromSealedReader(io.MultiReader(bytes.NewReader(sealed[:len(sealed)-1]), brokenReader{}))
			t, _, err := token.FromSealedReader(bytes.NewReader(sealed))
			g := ""
			if err == nil {
				g = dumpAny(t)
			}
			add(check("token.FromSealedReader (after a failed read)", g, err))
			if kind == "dlg" {
				_, _, _ = delegation.FromSealedReader(bytes.NewReader(sealed[:len(sealed)/3]))
				td, _, err := delegation.FromSealedReader(bytes.NewReader(sealed))
				g = ""
				if err == nil {
					g = dumpDlg(td)
				}
				add(check("delegation.FromSealedReader (after a failed read)", g, err))
			} else {
				_, _, _ = invocation.FromSealedReader(bytes.NewReader(sealed[:len(sealed)/3]))
				ti, _, err := invocation.FromSealedReader(bytes.NewReader(sealed))
				g = ""
				if err == nil {
					g = dumpInv(ti)
				}
				add(check("invocation.FromSealedReader (after a failed read)", g, err))
			}
		}
	}
	if kind == "dlg" {
		t, _, err := delegation.FromSealed(sealed)
		g := ""
		if err == nil {
			g = dumpDlg(t)
		}
		add(check("delegation.FromSealed", g, err))
		tj, err := delegation.FromDagJson(js)
		g = ""
		if err == nil {
			g = dumpDlg(tj)
		}
		add(check("delegation.FromDagJson", g, err))
	} else {
		t, _, err := invocation.FromSealed(sealed)
		g := ""
		if err == nil {
			g = dumpInv(t)
		}
		add(check("invocation.FromSealed", g, err))
		tj, err := invocation.FromDagJson(js)
		g = ""
		if err == nil {
			g = dumpInv(tj)
		}
		add(check("invocation.FromDagJson", g, err))
	}
	if len(msgs) > 0 {
		return msgs[0]
	}
	return "ok"
}

// tokSharedArgs: three invocations built one after the other from the same *args.Args (n keys) passed to WithArguments as the
// first argument option, each followed by WithArgument with a key of its own; then the caller adds to the shared set. Every
// token must seal, unseal and carry the shared keys plus its own key — whatever was built from the same set later.
func tokSharedArgs(n int) (out string) {
	defer func() {
		if r := recover(); r != nil {
			out = "PANIC " + strings.ReplaceAll(fmt.Sprint(r), "\n", " ")
		}
	}()
	k, aud := keyFor("ed25519", 1), keyFor("ed25519", 2)
	common := args.New()
	want := map[string]int64{}
	for i := 0; i < n; i++ {
		key := fmt.Sprintf("c%d", i)
		if err := common.Add(key, int64(100+i)); err != nil {
			return "harness: " + err.Error()
		}
		want[key] = int64(100 + i)
	}
	var toks []*invocation.Token
	for j := 0; j < 3; j++ {
		t, err := invocation.New(k.did, aud.did, command.MustParse("/shared/args"), nil,
			invocation.WithArguments(common), invocation.WithArgument(fmt.Sprintf("own%d", j), int64(j)))
		if err != nil {
			return "constructor: " + err.Error()
		}
		toks = append(toks, t)
	}
	_ = common.Add("later", int64(-1))
	// every token is sealed BEFORE the first one is unsealed: a sealed form stays what it was while other tokens are sealed
	var sealedAll [][]byte
	for j, t := range toks {
		sealed, _, err := t.ToSealed(k.priv)
		if err != nil {
			return fmt.Sprintf("token %d: ToSealed: %v", j, err)
		}
		sealedAll = append(sealedAll, sealed)
	}
	for j, t := range toks {
		sealed := sealedAll[j]
		back, _, err := invocation.FromSealed(sealed)
		if err != nil {
			return fmt.Sprintf("token %d: FromSealed rejects a token it sealed: %v", j, err)
		}
		for name, tk := range map[string]*invocation.Token{"built": t, "decoded": back} {
			got := map[string]int64{}
			for key, v := range tk.Arguments().Iter() {
				if v == nil {
					return fmt.Sprintf("token %d (%s): argument %q has no value", j, name, key)
				}
				i, err := v.AsInt()
				if err != nil {
					return fmt.Sprintf("token %d (%s): argument %q: %v", j, name, key, err)
				}
				got[key] = i
			}
			exp := map[string]int64{fmt.Sprintf("own%d", j): int64(j)}
			for a, b := range want {
				exp[a] = b
			}
			if fmt.Sprint(got) != fmt.Sprint(exp) {
				return fmt.Sprintf("token %d (%s) carries %v, built with %v", j, name, got, exp)
			}
			// looked up by name: its own arguments are there, those of the other tokens and the caller's later one are not
			for key := range exp {
				if _, err := tk.Arguments().GetNode(key); err != nil {
					return fmt.Sprintf("token %d (%s): GetNode(%q): %v", j, name, key, err)
				}
			}
			for _, foreign := range []string{fmt.Sprintf("own%d", (j+1)%3), fmt.Sprintf("own%d", (j+2)%3), "later"} {
				if v, err := tk.Arguments().GetNode(foreign); err == nil && v != nil {
					return fmt.Sprintf("token %d (%s) answers GetNode(%q), an argument it was not built with", j, name, foreign)
				}
			}
		}
		// the unsealed token's arguments equal the original's (both directions)
		if !t.Arguments().Equals(back.Arguments()) || !back.Arguments().Equals(t.Arguments()) {
			return fmt.Sprintf("token %d: the unsealed token's arguments do not equal the original's", j)
		}
	}
	return "ok"
}
