package main

import (
	"bytes"
	"encoding/hex"
	"errors"
	"fmt"
	"io"
	"strings"

	"github.com/ucan-wg/go-ucan/token"
)

// The CID stream wrappers of token/internal/envelope (CIDReader, CIDWriter) driven directly, through the hook
// token.VerifCIDReader / token.VerifCIDWriter (build tag verif), with scripted inner readers and writers.

func init() {
	register(stream{
		name: "cidstream",
		rule: "envelope.CIDReader over a scripted inner reader: every history of ≤ 4 deliveries over {nothing, 2 bytes, 1 byte} × {nil, io.EOF, a failure} plus random longer histories (data together with io.EOF, reads after the end, failures with data, several failures); after the history CID() must be an error iff a delivery failed, and otherwise the CID of exactly the bytes delivered (the model returns the bytes hashed, the harness compares CIDs); every Read must hand its caller exactly what the inner reader delivered. envelope.CIDWriter: every split of a byte string into ≤ 4 writes, CID = CID of the concatenation. Non-trivial = the history has ≥ 2 deliveries. Distinct = distinct protocol lines.",
		run:  runCidStream,
		eval: evalCidStream,
		cmp: func(line, g, m string) string {
			if g == m && g == "err" {
				return ""
			}
			gf, mf := strings.Fields(g+" -"), strings.Fields(m+" -")
			if gf[0] != "ok" || mf[0] != "ok" {
				if gf[0] == "ok" && mf[0] == "err" {
					return "a CID is reported although a read failed"
				}
				if gf[0] == "err" && mf[0] == "ok" {
					return "no CID although no read failed"
				}
				return "go≠model"
			}
			hashed := []byte(unhx(mf[1]))
			if gf[1] != hx(independentCid(hashed).Bytes()) {
				return "the CID reported is not the CID of the bytes that streamed through"
			}
			return ""
		},
		classByDirection: true,
	})
}

type scriptedReader struct {
	hist []string
	pos  int
}

func deliveryOf(s string) ([]byte, error) {
	p := strings.SplitN(s, ":", 2)
	data := []byte(unhx(p[0]))
	switch {
	case p[1] == "o":
		return data, nil
	case p[1] == "e":
		return data, io.EOF
	}
	return data, errors.New("injected failure " + p[1][1:])
}

func (r *scriptedReader) Read(p []byte) (int, error) {
	if r.pos >= len(r.hist) {
		return 0, io.EOF
	}
	d, err := deliveryOf(r.hist[r.pos])
	r.pos++
	return copy(p, d), err
}

func evalCidStream(line string) (out string, rd string) {
	defer func() {
		if r := recover(); r != nil {
			out = fmt.Sprint("panic ", r)
		}
	}()
	f := strings.Fields(line)
	rd = line
	switch f[0] {
	case "cids.read":
		var hist []string
		if len(f) > 1 {
			hist = strings.Split(f[1], ",")
		}
		inner := &scriptedReader{hist: hist}
		cr := token.VerifCIDReader(inner)
		buf := make([]byte, 64)
		for i := range hist {
			want, wantErr := deliveryOf(hist[i])
			n, err := cr.Read(buf)
			if !bytes.Equal(buf[:n], want) || (err == nil) != (wantErr == nil) || (err != nil && err.Error() != wantErr.Error()) {
				return fmt.Sprintf("read %d hands its caller (%s, %v), the inner reader delivered (%s, %v)", i, hex.EncodeToString(buf[:n]), err, hex.EncodeToString(want), wantErr), rd
			}
		}
		c, err := cr.CID()
		if err != nil {
			return "err", rd
		}
		return "ok " + hx(c.Bytes()), rd
	case "cids.write":
		var chunks []string
		if len(f) > 1 {
			chunks = strings.Split(f[1], ",")
		}
		var sink bytes.Buffer
		cw := token.VerifCIDWriter(&sink)
		var all []byte
		for i, ch := range chunks {
			b := []byte(unhx(ch))
			all = append(all, b...)
			n, err := cw.Write(b)
			if err != nil || n != len(b) {
				return fmt.Sprintf("write %d: n=%d err=%v", i, n, err), rd
			}
		}
		if !bytes.Equal(sink.Bytes(), all) {
			return "the inner writer did not receive what was written", rd
		}
		c, err := cw.CID()
		if err != nil {
			return "err", rd
		}
		return "ok " + hx(c.Bytes()), rd
	}
	return "bad-line", rd
}

func runCidStream(c *ctx) error {
	datas := []string{"-", "6162", "63"}
	outs := []string{"o", "e", "f1"}
	var alpha []string
	for _, d := range datas {
		for _, o := range outs {
			alpha = append(alpha, d+":"+o)
		}
	}
	n := 4
	if c.thoro {
		n = 5
	}
	var rec func(cur []string, left int)
	rec = func(cur []string, left int) {
		if len(cur) > 0 {
			c.emit("cids.read "+strings.Join(cur, ","), "cidstream.read", len(cur) >= 2, fmt.Sprintf("read:%d", len(cur)))
		}
		if left == 0 {
			return
		}
		for _, a := range alpha {
			rec(append(append([]string(nil), cur...), a), left-1)
		}
	}
	c.emit("cids.read", "cidstream.read", false, "read:0")
	rec(nil, n)
	// random longer histories with larger chunks
	for i := 0; i < 3000; i++ {
		l := 1 + c.rng.Intn(12)
		var h []string
		for j := 0; j < l; j++ {
			d := hx(c.rng.Bytes(c.rng.Intn(40)))
			o := "o"
			switch c.rng.Intn(10) {
			case 0:
				o = "e"
			case 1:
				o = fmt.Sprintf("f%d", 1+c.rng.Intn(3))
			}
			if j == l-1 && c.rng.Chance(1, 2) {
				o = "e"
			}
			h = append(h, d+":"+o)
		}
		c.emit("cids.read "+strings.Join(h, ","), "cidstream.read", true, "read-random")
	}
	// writer: every split of a byte string into ≤ 4 writes (empty writes included)
	msg := "0123456789abcdef"
	for a := 0; a <= 8; a++ {
		for b := a; b <= 8; b++ {
			for d := b; d <= 8; d++ {
				parts := []string{hxs(msg[:a*2]), hxs(msg[a*2 : b*2]), hxs(msg[b*2 : d*2]), hxs(msg[d*2:])}
				c.emit("cids.write "+strings.Join(parts, ","), "cidstream.write", true, "write")
			}
		}
	}
	for i := 0; i < 500; i++ {
		l := 1 + c.rng.Intn(8)
		var parts []string
		for j := 0; j < l; j++ {
			parts = append(parts, hx(c.rng.Bytes(c.rng.Intn(5000))))
		}
		c.emit("cids.write "+strings.Join(parts, ","), "cidstream.write", true, "write-random")
	}
	return nil
}
