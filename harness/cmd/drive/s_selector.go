package main

import (
	"fmt"
	"github.com/ipld/go-ipld-prime/datamodel"
	"strconv"
	"strings"
	"unicode"

	"github.com/ucan-wg/go-ucan/pkg/policy"
	"github.com/ucan-wg/go-ucan/pkg/policy/selector"
)

func init() {
	register(stream{
		name: "selector",
		rule: "every selector made of ≤ K segments (K=2 quick, 3 thorough) from a 24-shape segment alphabet (field present/missing/empty-name, explicit field, index in/out of range/negative, open/closed/reversed/negative slices, iterator, identity; each optional or not) applied to each of 18 data values of every IPLD kind (maps, lists, valid/invalid UTF-8 strings, bytes, scalars, null); plus random longer selectors on random trees. Added later: a second parse of the same text is first applied to 12 values of other kinds and lengths and must then answer like the fresh one (a selector is not changed by being used); [==, selector, selected value] holds for the policy as built and as decoded; quoted field names containing ??; 48- and 50-byte strings of multi-byte characters. Quoted field names that begin or end with an escaped quote. Non-trivial = the selector has ≥ 2 segments and resolution gets past the first segment or involves an optional segment. Distinct = distinct protocol lines.",
		run:  runSelectorStream,
		eval: evalSelector,
		cmp:  cmpImplSpec,
	})
}

// cmpImplSpec: the model answers "<impl> | <spec>" (and, for sel.select, "| <other allowed reading>"); Go must equal impl = spec
// or the other allowed reading.
func cmpImplSpec(line, g, m string) string {
	parts := strings.Split(m, " | ")
	if len(parts) == 1 {
		if g != m {
			return "go≠model"
		}
		return ""
	}
	if parts[0] != parts[1] {
		return "model≠spec (theorem/driver mismatch)"
	}
	if g != parts[0] {
		// a third field, when present, is the model's answer under the other reading the property allows at a point it leaves
		// open (C12: an optional slice on a value that cannot be sliced, an optional iterator on a value it cannot
		// iterate; Model/Selector.lean, `Lat`; `C12_latitude_only_optional_slice_or_iterator` says the readings differ nowhere else)
		for _, alt := range parts[min(2, len(parts)):] {
			if g == alt {
				return ""
			}
		}
		return "go≠model=spec"
	}
	return ""
}

// lettersOracle lists the non-ASCII runes of s that Go's unicode tables classify as letters (\p{L}).
func lettersOracle(s string) string {
	seen := map[rune]bool{}
	var parts []string
	for _, r := range s {
		if r >= 0x80 && unicode.IsLetter(r) && !seen[r] {
			seen[r] = true
			parts = append(parts, strconv.Itoa(int(r)))
		}
	}
	return "L" + strings.Join(parts, ",")
}

func goSelect(text, node string) (out string) {
	defer func() {
		if r := recover(); r != nil {
			out = "panic"
		}
	}()
	sel, err := selector.Parse(text)
	if err != nil {
		return "perr"
	}
	n, err := parseNode(node)
	if err != nil {
		return "bad-node " + err.Error()
	}
	once := func() string {
		res, err := sel.Select(n)
		if err != nil {
			return "err"
		}
		if res == nil {
			return "none"
		}
		return "ok " + dumpNode(res)
	}
	r1 := once()
	// the same selector inside a policy statement: the statement [==, selector, <the value it selects>] holds for the
	// policy as built and for the policy as it reads back from its IPLD form (nothing of the selector is lost on the way)
	if res, err := sel.Select(n); err == nil && res != nil && res.Kind() != datamodel.Kind_Float {
		if pol, err := policy.Construct(policy.Equal(text, res)); err == nil {
			m1, _ := pol.Match(n)
			if nd, err := pol.ToIPLD(); err == nil {
				if p2, err := policy.FromIPLD(nd); err == nil {
					if m2, _ := p2.Match(n); m1 != m2 {
						return "roundtrip: [==, selector, selected value] is " + bstr(m1) + " as built and " + bstr(m2) + " as decoded"
					}
				} else {
					return "roundtrip: a policy built with this selector does not decode"
				}
			}
		}
	}
	// history: a second parse of the same text is first applied to values of other kinds and lengths, and only
	// then to this value: a parsed selector is not changed by being used
	if sel2, err := selector.Parse(text); err == nil {
		func() {
			defer func() { recover() }()
			for _, pn := range selProbes() {
				sel2.Select(pn)
			}
		}()
		sel = sel2
		if r2 := once(); r2 != r1 {
			return "history: fresh=" + r1 + " after-other-values=" + r2
		}
	}
	return r1
}

var selProbeNodes []datamodel.Node

func selProbes() []datamodel.Node {
	if selProbeNodes == nil {
		for _, d := range []string{"l()", "l(i1)", "l(i1,i2,i3)", "l(i1,i2,i3,i4,i5,i6,i7)", "s", "s616263646566", "b", "b0102030405", "m()", "m(61:l(i1,i2,i3,i4))", "n",
			"m(61:m(61:i1,62:l(i1,i2)),:i9,62:l(i10,i20,i30))"} {
			if n, err := parseNode(d); err == nil {
				selProbeNodes = append(selProbeNodes, n)
			}
		}
	}
	return selProbeNodes
}

func goParseSel(text string) (out string) {
	defer func() {
		if r := recover(); r != nil {
			out = "panic"
		}
	}()
	sel, err := selector.Parse(text)
	if err != nil {
		return "err"
	}
	var parts []string
	for _, s := range sel {
		fl := ""
		for _, b := range []bool{s.Identity(), s.Optional(), s.Iterator()} {
			_ = b
		}
		if s.Identity() {
			fl += "i"
		} else {
			fl += "-"
		}
		if s.Optional() {
			fl += "o"
		} else {
			fl += "-"
		}
		if s.Iterator() {
			fl += "t"
		} else {
			fl += "-"
		}
		sl := "-"
		if len(s.Slice()) == 2 {
			sl = fmt.Sprintf("%d,%d", s.Slice()[0], s.Slice()[1])
		} else if len(s.Slice()) != 0 {
			sl = fmt.Sprintf("len%d", len(s.Slice()))
		}
		parts = append(parts, fmt.Sprintf("%s:%s:%s:%d:%s", fl, sl, hxs(s.Field()), s.Index(), hxs(s.String())))
	}
	d := "."
	if len(parts) > 0 {
		d = strings.Join(parts, "/")
	}
	return "ok " + d + " " + hxs(sel.String())
}

func evalSelector(line string) (string, string) {
	f := strings.Fields(line)
	switch f[0] {
	case "sel.select":
		t := unhx(f[1])
		return goSelect(t, f[3]), "Parse(" + q(t) + ").Select(" + f[3] + ")"
	case "sel.parse":
		t := unhx(f[1])
		return goParseSel(t), "Parse(" + q(t) + ")"
	}
	return "bad-line", line
}

var selSegShapes = []string{
	".a", ".a?", ".zz", ".zz?", `["a"]`, `[""]`, `[""]?`, `["b"]?`, `["a??"]`,
	`["a\""]`, `["\"a"]`, `["\""]`, `["a\"b"]?`, // field names that begin or end with an (escaped) quote: kept as written between the outer quotes
	"[0]", "[0]?", "[-1]", "[5]", "[5]?", "[-7]?",
	"[1:]", "[:-1]", "[-2:5]", "[3:1]", "[:2]?", "[0:1]",
	"[]", "[]?", ".", ".b",
}

var selValues = []string{
	"n", "T", "i7", "d3ff8000000000000", "s68c3a96c6c6f", "s", "s61ff62", "b010203", "b",
	"l(i1,s78,l(i2,i3))", "l()", "m(61:m(61:i1,62:l(i1,i2)),:i9,62:l(i10,i20,i30))", "m()",
	"m(615c22:i1,5c2261:i2,5c22:i3,61:i4,615c:i5,2261:i6,615c2262:i7)", // keys a\" \"a \" a a\ "a a\"b
	"l(m(61:i1),m(61:i2,62:i3))", "m(7a7a:n,61:l())", "m(613f3f:i1,613f:i2,61:i3)", "m(61:s616263,62:b0a0b0c)", "l(n,n)", "m(61:n)",
	"sff", "se282acc0af41", // invalid UTF-8 only; a valid 3-byte rune followed by an overlong form and a letter
	"s" + strings.Repeat("c3a9", 24),                  // 24 two-byte characters: 48 bytes, byte length ≠ character count, beyond any small buffer
	"s61" + strings.Repeat("e282ac", 15) + "f09f9880", // 1-, 3- and 4-byte characters mixed, 50 bytes
}

// selClass abbreviates the shape of a selector (one letter per segment, "?" when optional) so that
// disagreements are grouped by the kind of segment sequence involved.
func selClass(segs []string) string {
	var sb strings.Builder
	for _, g := range segs {
		switch {
		case g == ".":
			sb.WriteString("i")
		case strings.HasPrefix(g, "[]"):
			sb.WriteString("t")
		case strings.HasPrefix(g, `[""]`):
			sb.WriteString("E")
		case strings.HasPrefix(g, `["`):
			sb.WriteString("F")
		case strings.HasPrefix(g, "[") && strings.Contains(g, ":"):
			sb.WriteString("s")
		case strings.HasPrefix(g, "["):
			sb.WriteString("x")
		default:
			sb.WriteString("f")
		}
		if strings.HasSuffix(g, "?") {
			sb.WriteString("?")
		}
	}
	return "selector.Select[" + sb.String() + "]"
}

func selText(segs []string) string {
	t := strings.Join(segs, "")
	if !strings.HasPrefix(t, ".") {
		t = "." + t
	}
	return t
}

func runSelectorStream(c *ctx) error {
	k := 2
	if c.thoro {
		k = 3
	}
	var rec func(cur []string, left int)
	emit := func(segs []string) {
		t := selText(segs)
		for _, v := range selValues {
			c.emitG("sel.select "+hxs(t)+" "+lettersOracle(t)+" "+v, selClass(segs),
				func(g string) bool { return len(segs) >= 2 && (strings.Contains(t, "?") || g != "err") },
				func(g string) []string { return []string{"select:" + strings.Fields(g)[0]} })
		}
	}
	rec = func(cur []string, left int) {
		emit(cur)
		if left == 0 {
			return
		}
		for _, s := range selSegShapes {
			rec(append(cur, s), left-1)
		}
	}
	rec(nil, k)
	// bounds written with leading zeros, two digits and more, on a list and a string long enough to tell position 8 from 10
	// and 15 from 17 (bounds are decimal)
	{
		long := "l(i0,i1,i2,i3,i4,i5,i6,i7,i8,i9,i10,i11,i12,i13,i14,i15,i16,i17,i18)"
		for _, t := range []string{".[010]", ".[10]", ".[08]", ".[8]", ".[017]", ".[17]", ".[010:]", ".[:010]", ".[08:010]", ".[-010]", ".[-10]", ".[010]?", ".[09:]", ".[0010]", ".[00]", ".[007]"} {
			for _, v := range []string{long, "s" + hxsRaw("abcdefghijklmnopqrs"), "b" + hxsRaw("abcdefghijklmnopqrs")} {
				c.emitG("sel.select "+hxs(t)+" "+lettersOracle(t)+" "+v, "selector.Select[decimal-bounds]",
					func(g string) bool { return true },
					func(g string) []string { return []string{"select-decimal:" + strings.Fields(g)[0]} })
			}
		}
	}
	// random longer selectors on random trees
	n := 20000
	if c.thoro {
		n = 200000
	}
	for i := 0; i < n; i++ {
		l := 1 + c.rng.Intn(6)
		var segs []string
		for j := 0; j < l; j++ {
			segs = append(segs, randSeg(c))
		}
		t := selText(segs)
		v := randTree(c, 3)
		c.emitG("sel.select "+hxs(t)+" "+lettersOracle(t)+" "+v, selClass(segs),
			func(g string) bool { return g != "err" && g != "perr" },
			func(g string) []string { return []string{"select-random:" + strings.Fields(g)[0]} })
	}
	c.r.Exhaustive = true
	c.r.ExhaustiveNote = "segment sequences up to the stated length over the 24 shapes × 18 values are enumerated; longer selectors and random trees are sampled"
	return nil
}

var fieldNames = []string{"a", "b", "c", "zz", "é", "a-b", "_x", "$", ""}

func randSeg(c *ctx) string {
	opt := ""
	if c.rng.Chance(1, 3) {
		opt = "?"
	}
	switch c.rng.Intn(7) {
	case 0:
		f := fieldNames[c.rng.Intn(6)]
		return "." + f + opt
	case 1:
		return `["` + fieldNames[c.rng.Intn(len(fieldNames))] + `"]` + opt
	case 2:
		return fmt.Sprintf("[%d]%s", c.rng.Intn(9)-4, opt)
	case 3:
		lo, hi := "", ""
		if c.rng.Chance(2, 3) {
			lo = strconv.Itoa(c.rng.Intn(9) - 4)
		}
		if c.rng.Chance(2, 3) || lo == "" {
			hi = strconv.Itoa(c.rng.Intn(9) - 4)
		}
		return "[" + lo + ":" + hi + "]" + opt
	case 4:
		return "[]" + opt
	case 5:
		return "."
	default:
		return "." + fieldNames[c.rng.Intn(3)] + opt
	}
}

// randTree produces a random node in protocol text form.
func randTree(c *ctx, depth int) string {
	k := c.rng.Intn(10)
	if depth == 0 && k >= 6 {
		k = c.rng.Intn(6)
	}
	switch k {
	case 0:
		return "n"
	case 1:
		if c.rng.Bool() {
			return "T"
		}
		return "F"
	case 2:
		return "i" + strconv.Itoa(c.rng.Intn(21)-10)
	case 3:
		return []string{"d3ff8000000000000", "d0000000000000000", "d8000000000000000", "d7ff8000000000001", "d7ff0000000000000", "dc000000000000000"}[c.rng.Intn(6)]
	case 4:
		return "s" + hxsRaw([]string{"", "abc", "héllo", "a\xffb", "日本語", "x"}[c.rng.Intn(6)])
	case 5:
		return "b" + hxsRaw(string(c.rng.Bytes(c.rng.Intn(5))))
	case 6, 7:
		n := c.rng.Intn(5)
		var parts []string
		for i := 0; i < n; i++ {
			parts = append(parts, randTree(c, depth-1))
		}
		return "l(" + strings.Join(parts, ",") + ")"
	default:
		n := c.rng.Intn(5)
		var parts []string
		used := map[string]bool{}
		for i := 0; i < n; i++ {
			key := fieldNames[c.rng.Intn(len(fieldNames))]
			if used[key] {
				continue
			}
			used[key] = true
			parts = append(parts, hxsRaw(key)+":"+randTree(c, depth-1))
		}
		return "m(" + strings.Join(parts, ",") + ")"
	}
}
