package main

import (
	"bytes"
	"encoding/base64"
	"encoding/binary"
	"fmt"
	"github.com/ucan-wg/go-ucan/pkg/command"
	"io"
	"sort"
	"strings"
	"sync"

	"github.com/ipfs/go-cid"
	"github.com/ipld/go-ipld-prime"
	"github.com/ipld/go-ipld-prime/codec/dagcbor"
	"github.com/ipld/go-ipld-prime/datamodel"
	"github.com/ucan-wg/go-ucan/pkg/container"
	"github.com/ucan-wg/go-ucan/token"
	"github.com/ucan-wg/go-ucan/token/delegation"
	"github.com/ucan-wg/go-ucan/token/invocation"
	"verifharness/internal/faultio"
)

func init() {
	register(stream{
		name: "container",
		rule: "sets of 0–4 sealed delegations and invocations written with every writer (4 formats × {bytes, io.Writer}) and read with every reader (4 formats × {bytes, 1-byte reads, data-with-EOF reads, random chunkings}); single-entry corruptions of the written container (bit flips in the data, the stored CID and the length prefix, a token with a bad signature, duplicated and reordered blocks, a block stored under a CID of another codec/hash, a wrong version, trailing bytes); truncation at EVERY byte offset and a read fault at every offset (every 3rd in the quick tier, plus always the structural offsets: around each section boundary and right after each length prefix); unrelated writers and readers used from 8 goroutines at once; a write fault at EVERY write call of every writer including the final flush of the base64 encoders; single tokens: FromSealedReader under five chunkings, cut and failing at every offset, ToSealedWriter failing at every write call. Compared: error/ok and the set of CIDs. Added later: a later CAR block stored under the CID of an earlier one (own data, garbage, truncated data); a container used as the proof loader of its own invocations, one of which names an invocation as proof; an honest stream read right after every failed or cut read (generic and typed readers); a read fault reported once together with data, the stream then continuing (every offset × 4 chunkings). Sets of 23, 24, 25 (255–257 thorough) tokens — where a CBOR list length changes its encoding — written and read back through every variant; read faults reported with an error that WRAPS io.EOF (a failure, not a clean end) at every offset and section boundary; tokens with one field of 5 kB … 1.6 MB through every stream entry point. One character of the base64 TEXT replaced by one outside the alphabet (start, middle, end, and the first characters of every CAR section whose offset is a multiple of three, where the decoder reports the corruption exactly between two sections). Tokens of exactly chosen sizes (the CAR block a few bytes either side of every power of two from 2^9 to 2^16; every size 420…4400 in the thorough tier) written and read back through every variant. A CAR container in which a section ends exactly at every multiple of 1 MiB up to 33 (thorough 65) MiB, read by the stream and the byte-slice readers. Non-trivial = every case but the unmodified round trips. Distinct = distinct protocol lines.",
		run:  runContainerStream,
		eval: evalContainer,
		cmp: func(line, g, m string) string {
			if strings.HasPrefix(line, "go.") {
				if g != "ok" {
					return "writer/reader API contract broken"
				}
				return ""
			}
			if g != m {
				return "go=" + strings.Fields(g + " -")[0] + " model=" + strings.Fields(m + " -")[0]
			}
			return ""
		},

		classByDirection: true,
	})
}

// ---- independent oracle: parse the container with our own framing code

func carSections(b []byte) [][]byte {
	var out [][]byte
	for len(b) > 0 {
		l, n := binary.Uvarint(b)
		if n <= 0 || l == 0 || uint64(len(b)-n) < l {
			return out
		}
		out = append(out, b[n:n+int(l)])
		b = b[n+int(l):]
	}
	return out
}

func unsealOracle(data []byte) string {
	_, c, err := token.FromSealed(data)
	if err != nil {
		return "-"
	}
	return hx(c.Bytes())
}

func containerOracle(format string, raw []byte) string {
	b := raw
	if strings.HasSuffix(format, "b64") {
		d, err := base64.StdEncoding.DecodeString(strings.NewReplacer("\n", "", "\r", "").Replace(string(raw)))
		if err != nil {
			// partial decode is what a streaming decoder would see; the oracle only needs the entries
			d2 := make([]byte, base64.StdEncoding.DecodedLen(len(raw)))
			n, _ := base64.StdEncoding.Decode(d2, raw)
			d = d2[:n]
		}
		b = d
	}
	var parts []string
	seen := map[string]bool{}
	add := func(s string) {
		if !seen[s] {
			seen[s] = true
			parts = append(parts, s)
		}
	}
	if strings.HasPrefix(format, "car") {
		secs := carSections(b)
		for i, s := range secs {
			if i == 0 {
				continue // header
			}
			n, c, err := cid.CidFromBytes(s)
			if err != nil {
				continue
			}
			data := s[n:]
			h, err := c.Prefix().Sum(data)
			add("H" + hx(s) + "=" + map[bool]string{true: "T", false: "F"}[err == nil && h.Equals(c)])
			add("U" + hx(data) + "=" + unsealOracle(data))
		}
	} else {
		n, err := ipld.Decode(b, dagcbor.Decode)
		if err == nil && n.Kind() == datamodel.Kind_Map {
			it := n.MapIterator()
			for !it.Done() {
				_, v, _ := it.Next()
				if v.Kind() == datamodel.Kind_List {
					li := v.ListIterator()
					for !li.Done() {
						_, e, _ := li.Next()
						if e.Kind() == datamodel.Kind_Bytes {
							d, _ := e.AsBytes()
							add("U" + hx(d) + "=" + unsealOracle(d))
						}
					}
				}
			}
		}
	}
	if len(parts) == 0 {
		return "-"
	}
	return strings.Join(parts, ";")
}

func readerResult(r container.Reader, err error) string {
	if err != nil {
		return "err"
	}
	var cids []string
	for c := range r {
		cids = append(cids, hx(c.Bytes()))
	}
	sort.Strings(cids)
	if len(cids) == 0 {
		return "ok -"
	}
	return "ok " + strings.Join(cids, ",")
}

func readContainer(format, variant, ending string, b []byte) (out string) {
	defer func() {
		if r := recover(); r != nil {
			out = fmt.Sprint("panic ", r)
		}
	}()
	if variant == "bytes" {
		switch format {
		case "car":
			return readerResult(container.FromCar(b))
		case "carb64":
			return readerResult(container.FromCarBase64(b))
		case "cbor":
			return readerResult(container.FromCbor(b))
		case "cborb64":
			return readerResult(container.FromCborBase64(b))
		}
	}
	rd := &faultio.Reader{Data: b, FailAt: -1}
	if ending == "fault" {
		rd.FailAt = len(b)
	}
	if strings.HasPrefix(variant, "wrapeof-") { // the fault is reported with an error that wraps io.EOF
		rd.Err = faultio.ErrWrappedEOF
		variant = strings.TrimPrefix(variant, "wrapeof-")
	}
	switch {
	case variant == "stream1":
		rd.Chunks = []int{1}
	case variant == "streamdata":
		rd.DataEOF = true
	case strings.HasPrefix(variant, "chunks"):
		for _, c := range strings.Split(strings.TrimPrefix(variant, "chunks"), ".") {
			var k int
			fmt.Sscan(c, &k)
			rd.Chunks = append(rd.Chunks, k)
		}
	}
	switch format {
	case "car":
		return readerResult(container.FromCarReader(rd))
	case "carb64":
		return readerResult(container.FromCarBase64Reader(rd))
	case "cbor":
		return readerResult(container.FromCborReader(rd))
	case "cborb64":
		return readerResult(container.FromCborBase64Reader(rd))
	}
	return "bad-format"
}

func evalContainer(line string) (string, string) {
	f := strings.Fields(line)
	switch f[0] {
	case "ctn.read":
		// ctn.read <format> <ending> <bytes> <oracle> <variant>
		b := []byte(unhx(f[3]))
		variant := "bytes"
		if len(f) > 5 {
			variant = f[5]
		}
		return readContainer(f[1], variant, f[2], b), fmt.Sprintf("container read %s/%s/%s of %d bytes", f[1], variant, f[2], len(b))
	case "go.ctn.write":
		return containerWriteCheck(f[1], f[2]), line
	case "go.ctn.sizes":
		var lo, hi int
		fmt.Sscan(f[2], &lo)
		fmt.Sscan(f[3], &hi)
		return containerSizes(f[1], lo, hi), line
	case "go.ctn.aligned":
		var mib int
		fmt.Sscan(f[1], &mib)
		return containerAligned(mib), line
	case "go.ctn.concurrent":
		return containerConcurrent(), line
	case "go.ctn.loader":
		return containerAsLoader(), line
	case "go.tok.stream":
		return tokenStreamCheck(f[1], f[2], f[3]), line
	case "go.tok.streambig":
		return tokenStreamBig(f[1], f[2]), line
	}
	return "bad-line", line
}

// ---- fixtures

func sealedSet(c *ctx, n int) [][]byte {
	var out [][]byte
	for i := 0; i < n; i++ {
		kind := []string{"dlg", "inv"}[i%2]
		shape := i
		if i >= 100 {
			shape = 1000 + i // (shapes 100–199 carry one very large field)
		}
		b, _, _, err := sealFixture(kind, []string{"ed25519", "p256", "secp256k1"}[i%3], shape)
		if err == nil {
			out = append(out, b)
		}
	}
	return out
}

func writeWith(format string, useWriter bool, sealed [][]byte) ([]byte, error) {
	w := container.NewWriter()
	for _, s := range sealed {
		w.AddSealed(independentCid(s), s)
	}
	if !useWriter {
		switch format {
		case "car":
			return w.ToCar()
		case "carb64":
			return w.ToCarBase64()
		case "cbor":
			return w.ToCbor()
		case "cborb64":
			return w.ToCborBase64()
		}
	}
	var buf bytes.Buffer
	var err error
	switch format {
	case "car":
		err = w.ToCarWriter(&buf)
	case "carb64":
		err = w.ToCarBase64Writer(&buf)
	case "cbor":
		err = w.ToCborWriter(&buf)
	case "cborb64":
		err = w.ToCborBase64Writer(&buf)
	}
	return buf.Bytes(), err
}

// containerWriteCheck: bytes and io.Writer variants produce equivalent containers, and a write fault at ANY
// write call — including the last flush — makes the writer return an error.
func containerWriteCheck(format, ns string) string {
	var n int
	fmt.Sscan(ns, &n)
	var sealed [][]byte
	for i := 0; i < n; i++ {
		shape := i
		if i >= 100 {
			shape = 1000 + i
		}
		b, _, _, err := sealFixture([]string{"dlg", "inv"}[i%2], "ed25519", shape)
		if err != nil {
			return "fixture: " + err.Error()
		}
		sealed = append(sealed, b)
	}
	want := "ok -"
	{
		var cids []string
		for _, s := range sealed {
			cids = append(cids, hx(independentCid(s).Bytes()))
		}
		sort.Strings(cids)
		if len(cids) > 0 {
			want = "ok " + strings.Join(cids, ",")
		}
	}
	for _, uw := range []bool{false, true} {
		b, err := writeWith(format, uw, sealed)
		if err != nil {
			return fmt.Sprintf("writer (io.Writer=%v) failed: %v", uw, err)
		}
		for _, variant := range []string{"bytes", "stream1", "streamdata"} {
			if got := readContainer(format, variant, "eof", b); got != want {
				return fmt.Sprintf("written with io.Writer=%v, read with %s: %s, want %s", uw, variant, got, want)
			}
		}
	}
	// fault at every write call
	w := container.NewWriter()
	for _, s := range sealed {
		w.AddSealed(independentCid(s), s)
	}
	write := func(fw *faultio.Writer) error {
		switch format {
		case "car":
			return w.ToCarWriter(fw)
		case "carb64":
			return w.ToCarBase64Writer(fw)
		case "cbor":
			return w.ToCborWriter(fw)
		default:
			return w.ToCborBase64Writer(fw)
		}
	}
	probe := &faultio.Writer{FailCall: -1}
	if err := write(probe); err != nil {
		return "clean sink: " + err.Error()
	}
	for k := 0; k < probe.Calls; k++ {
		fw := &faultio.Writer{FailCall: k}
		// a success status is only acceptable when the sink nevertheless received the complete output
		// (the failing call carried no data)
		if err := write(fw); err == nil && len(fw.Buf) != len(probe.Buf) { // block order varies (Go map iteration): compare sizes
			return fmt.Sprintf("write call %d of %d failed but the writer returned nil (%d of %d bytes delivered)", k, probe.Calls, len(fw.Buf), len(probe.Buf))
		}
	}
	return "ok"
}

// sealedOfSize builds and seals an invocation whose sealed form has exactly `size` bytes (a string argument is padded until
// it fits); nil when that size cannot be hit (the padding crosses a CBOR length-prefix boundary) or is too small.
func sealedOfSize(size int) []byte {
	k, aud := keyFor("ed25519", 0), keyFor("ed25519", 1)
	build := func(pad int) []byte {
		t, err := invocation.New(k.did, aud.did, command.MustParse("/sized"), []cid.Cid{independentCid([]byte("p1"))},
			invocation.WithNonce([]byte("nonce-nonce-size")), invocation.WithoutInvokedAt(), invocation.WithArgument("pad", strings.Repeat("x", pad)))
		if err != nil {
			return nil
		}
		b, _, err := t.ToSealed(k.priv)
		if err != nil {
			return nil
		}
		return b
	}
	pad := 0
	for try := 0; try < 6; try++ {
		b := build(pad)
		if b == nil {
			return nil
		}
		if len(b) == size {
			return b
		}
		pad += size - len(b)
		if pad < 0 {
			return nil
		}
	}
	return nil
}

// containerSizes: a container holding one token of each exact size in [lo, hi] (and one holding two of them), written with
// the bytes and the io.Writer variant and read back: every byte of every token arrives.
func containerSizes(format string, lo, hi int) string {
	var prev []byte
	hit := 0
	for size := lo; size <= hi; size++ {
		b := sealedOfSize(size)
		if b == nil {
			continue
		}
		hit++
		sets := [][][]byte{{b}}
		if prev != nil {
			sets = append(sets, [][]byte{prev, b})
		}
		prev = b
		for _, sealed := range sets {
			var cids []string
			for _, s := range sealed {
				cids = append(cids, hx(independentCid(s).Bytes()))
			}
			sort.Strings(cids)
			want := "ok " + strings.Join(cids, ",")
			for _, uw := range []bool{false, true} {
				out, err := writeWith(format, uw, sealed)
				if err != nil {
					return fmt.Sprintf("token of %d bytes: writer (io.Writer=%v) failed: %v", size, uw, err)
				}
				for _, variant := range []string{"bytes", "stream1"} {
					if got := readContainer(format, variant, "eof", out); got != want {
						return fmt.Sprintf("token of %d bytes written with io.Writer=%v, read with %s: %s, want %s", size, uw, variant, got, want)
					}
				}
			}
		}
	}
	if hit == 0 {
		return fmt.Sprintf("harness: no size in [%d, %d] could be built", lo, hi)
	}
	return "ok"
}

// tokenStreamCheck: FromSealedReader / ToSealedWriter agree with the buffered calls under every chunking, and
// return an error — never a token or a CID — when the stream is cut or fails at ANY offset / write call.
func tokenStreamCheck(kind, alg, ns string) (out string) {
	defer func() {
		if r := recover(); r != nil {
			out = fmt.Sprint("panic ", r)
		}
	}()
	var n int
	fmt.Sscan(ns, &n)
	b, c, k, err := sealFixture(kind, alg, n)
	if err != nil {
		return "fixture: " + err.Error()
	}
	read := func(rd *faultio.Reader) (cid.Cid, error) {
		switch {
		case n%2 == 0:
			_, got, err := token.FromSealedReader(rd)
			return got, err
		case kind == "dlg":
			_, got, err := delegation.FromSealedReader(rd)
			return got, err
		default:
			_, got, err := invocation.FromSealedReader(rd)
			return got, err
		}
	}
	for _, rd := range []*faultio.Reader{
		{Data: b, FailAt: -1}, {Data: b, FailAt: -1, Chunks: []int{1}}, {Data: b, FailAt: -1, DataEOF: true},
		{Data: b, FailAt: -1, Chunks: []int{3, 1, 7}}, {Data: b, FailAt: -1, Chunks: []int{2}, DataEOF: true},
	} {
		got, err := read(rd)
		if err != nil {
			return "FromSealedReader rejects honest bytes under a chunking: " + err.Error()
		}
		if got != c {
			return "FromSealedReader reports a different CID than ToSealed under a chunking"
		}
	}
	for off := 0; off <= len(b); off++ {
		if off < len(b) {
			if _, err := read(&faultio.Reader{Data: b[:off], FailAt: -1, Chunks: []int{1 + off%5}, DataEOF: off%2 == 0}); err == nil {
				return fmt.Sprintf("FromSealedReader accepted a stream cut at offset %d of %d", off, len(b))
			}
		}
		if _, err := read(&faultio.Reader{Data: b, FailAt: off, Chunks: []int{1 + off%4}}); err == nil {
			return fmt.Sprintf("FromSealedReader returned no error although the reader failed at offset %d of %d", off, len(b))
		}
		// the same failure reported with an error that WRAPS io.EOF: still a failure
		if _, err := read(&faultio.Reader{Data: b, FailAt: off, Err: faultio.ErrWrappedEOF, Chunks: []int{1 + off%4}}); err == nil {
			return fmt.Sprintf("FromSealedReader returned no error although the reader failed (an error wrapping io.EOF) at offset %d of %d", off, len(b))
		}
		// a fault reported once TOGETHER WITH data, after which the stream continues: the reader failed, so no token
		if off < len(b) {
			for _, ch := range [][]int{{1}, {3}, {7, 2}, nil} {
				if _, err := read(&faultio.Reader{Data: b, FailAt: off, Transient: true, Chunks: ch}); err == nil {
					return fmt.Sprintf("FromSealedReader returned no error although a read at offset %d of %d reported a failure along with its data", off, len(b))
				}
				if _, _, err := token.FromSealedReader(&faultio.Reader{Data: b, FailAt: off, Transient: true, Chunks: ch}); err == nil {
					return fmt.Sprintf("token.FromSealedReader returned no error although a read at offset %d of %d reported a failure along with its data", off, len(b))
				}
			}
		}
		// right after a failed read, an honest stream is read as if nothing had happened before (all three entry points)
		for _, honest := range []func() (cid.Cid, error){
			func() (cid.Cid, error) {
				_, g, e := token.FromSealedReader(&faultio.Reader{Data: b, FailAt: -1})
				return g, e
			},
			func() (cid.Cid, error) { return read(&faultio.Reader{Data: b, FailAt: -1, Chunks: []int{5}}) },
		} {
			got, err := honest()
			if err != nil {
				return fmt.Sprintf("after a failed read (offset %d), FromSealedReader rejects honest bytes: %s", off, err.Error())
			}
			if got != c {
				return fmt.Sprintf("after a failed read (offset %d), FromSealedReader reports a CID that is not the CID of the bytes it read", off)
			}
		}
	}
	// writer side
	write := func(w *faultio.Writer) (cid.Cid, error) {
		if kind == "dlg" {
			t, _, err := delegation.FromSealed(b)
			if err != nil {
				return cid.Undef, err
			}
			return t.ToSealedWriter(w, k.priv)
		}
		t, _, err := invocation.FromSealed(b)
		if err != nil {
			return cid.Undef, err
		}
		return t.ToSealedWriter(w, k.priv)
	}
	probe := &faultio.Writer{FailCall: -1}
	wc, err := write(probe)
	if err != nil {
		return "ToSealedWriter: " + err.Error()
	}
	if wc != independentCid(probe.Buf) {
		return "ToSealedWriter reports a CID that is not the hash of what the sink received"
	}
	if sigDeterministic(alg) && (!bytes.Equal(probe.Buf, b) || wc != c) {
		return "ToSealedWriter output differs from ToSealed"
	}
	for call := 0; call < probe.Calls; call++ {
		fw := &faultio.Writer{FailCall: call}
		if got, err := write(fw); err == nil && (!sigDeterministic(alg) || !bytes.Equal(fw.Buf, probe.Buf)) {
			return fmt.Sprintf("write call %d of %d failed but ToSealedWriter returned %s and no error", call, probe.Calls, got)
		}
	}
	return "ok"
}

// tokenStreamBig: a token with one field of `size` bytes (beyond any internal buffer or limit a stream reader might have): the
// three FromSealedReader entry points give the token and the CID that FromSealed gives for the same bytes, under several chunkings;
// a stream cut or failing at a few offsets around the powers of two gives an error; ToSealedWriter writes the same bytes.
func tokenStreamBig(kind, sizeStr string) (out string) {
	defer func() {
		if r := recover(); r != nil {
			out = fmt.Sprint("panic ", r)
		}
	}()
	var size int
	fmt.Sscan(sizeStr, &size)
	k := keyFor("ed25519", 0)
	aud := keyFor("ed25519", 1)
	var b []byte
	var c cid.Cid
	var err error
	if kind == "dlg" {
		t, e := delegation.Root(k.did, aud.did, command.MustParse("/big"), nil, delegation.WithMeta("big", bytes.Repeat([]byte{0x5a}, size)))
		if e != nil {
			return "fixture: " + e.Error()
		}
		b, c, err = t.ToSealed(k.priv)
	} else {
		t, e := invocation.New(k.did, aud.did, command.MustParse("/big"), nil, invocation.WithArgument("big", strings.Repeat("y", size)))
		if e != nil {
			return "fixture: " + e.Error()
		}
		b, c, err = t.ToSealed(k.priv)
	}
	if err != nil {
		return "ToSealed: " + err.Error()
	}
	if _, c2, err := token.FromSealed(b); err != nil || c2 != c {
		return fmt.Sprintf("FromSealed on a %d-byte token: cid equal=%v err=%v", len(b), c2 == c, err)
	}
	readers := map[string]func(io.Reader) (cid.Cid, error){
		"token": func(r io.Reader) (cid.Cid, error) { _, g, e := token.FromSealedReader(r); return g, e },
	}
	if kind == "dlg" {
		readers["delegation"] = func(r io.Reader) (cid.Cid, error) { _, g, e := delegation.FromSealedReader(r); return g, e }
	} else {
		readers["invocation"] = func(r io.Reader) (cid.Cid, error) { _, g, e := invocation.FromSealedReader(r); return g, e }
	}
	for name, rd := range readers {
		for _, fr := range []*faultio.Reader{
			{Data: b, FailAt: -1}, {Data: b, FailAt: -1, Chunks: []int{4096}}, {Data: b, FailAt: -1, Chunks: []int{65536}, DataEOF: true},
			{Data: b, FailAt: -1, Chunks: []int{1000, 7}}, {Data: b, FailAt: -1, DataEOF: true},
		} {
			got, err := rd(fr)
			if err != nil {
				return fmt.Sprintf("%s.FromSealedReader rejects an honest %d-byte token that FromSealed accepts: %v", name, len(b), err)
			}
			if got != c {
				return fmt.Sprintf("%s.FromSealedReader reports another CID than FromSealed for a %d-byte token", name, len(b))
			}
		}
		for _, off := range []int{len(b) - 1, len(b) / 2, 1 << 20, 1<<20 + 1, 1 << 16, 4096, 1} {
			if off <= 0 || off >= len(b) {
				continue
			}
			if _, err := rd(&faultio.Reader{Data: b[:off], FailAt: -1, Chunks: []int{8192}}); err == nil {
				return fmt.Sprintf("%s.FromSealedReader accepted a %d-byte token cut at %d", name, len(b), off)
			}
			if _, err := rd(&faultio.Reader{Data: b, FailAt: off, Chunks: []int{8192}}); err == nil {
				return fmt.Sprintf("%s.FromSealedReader returned no error although the reader failed at %d of %d", name, off, len(b))
			}
		}
	}
	var sink bytes.Buffer
	var wc cid.Cid
	if kind == "dlg" {
		t, _, e := delegation.FromSealed(b)
		if e != nil {
			return "FromSealed: " + e.Error()
		}
		wc, err = t.ToSealedWriter(&sink, k.priv)
	} else {
		t, _, e := invocation.FromSealed(b)
		if e != nil {
			return "FromSealed: " + e.Error()
		}
		wc, err = t.ToSealedWriter(&sink, k.priv)
	}
	if err != nil {
		return "ToSealedWriter: " + err.Error()
	}
	if !bytes.Equal(sink.Bytes(), b) || wc != c {
		return fmt.Sprintf("ToSealedWriter output or CID differs from ToSealed for a %d-byte token", len(b))
	}
	return "ok"
}

// containerAsLoader: a container used as the proof loader of the invocations it holds. A proof link that names
// another INVOCATION of the container (or nothing in it) is a missing delegation: an error, never a panic, never allowed.
func containerAsLoader() (out string) {
	defer func() {
		if r := recover(); r != nil {
			out = fmt.Sprint("panic ", r)
		}
	}()
	k := keyFor("ed25519", 0)
	aud := keyFor("ed25519", 1)
	root, err := delegation.Root(k.did, aud.did, command.MustParse("/x"), nil)
	if err != nil {
		return "fixture: " + err.Error()
	}
	rb, rc, err := root.ToSealed(k.priv)
	if err != nil {
		return "fixture: " + err.Error()
	}
	good, err := invocation.New(aud.did, k.did, command.MustParse("/x/y"), []cid.Cid{rc})
	if err != nil {
		return "fixture: " + err.Error()
	}
	gb, gc, err := good.ToSealed(aud.priv)
	if err != nil {
		return "fixture: " + err.Error()
	}
	odd, err := invocation.New(aud.did, k.did, command.MustParse("/x/y"), []cid.Cid{gc}) // its "proof" is an invocation
	if err != nil {
		return "fixture: " + err.Error()
	}
	ob, oc, err := odd.ToSealed(aud.priv)
	if err != nil {
		return "fixture: " + err.Error()
	}
	w := container.NewWriter()
	w.AddSealed(rc, rb)
	w.AddSealed(gc, gb)
	w.AddSealed(oc, ob)
	for _, f := range []string{"cbor", "car"} {
		var data []byte
		var rd container.Reader
		if f == "cbor" {
			if data, err = w.ToCbor(); err == nil {
				rd, err = container.FromCbor(data)
			}
		} else {
			if data, err = w.ToCar(); err == nil {
				rd, err = container.FromCar(data)
			}
		}
		if err != nil {
			return "fixture (" + f + "): " + err.Error()
		}
		for c, inv := range rd.GetAllInvocations() {
			err := inv.ExecutionAllowed(rd)
			switch {
			case c == gc && err != nil:
				return f + ": the invocation whose proof is in the container is refused: " + err.Error()
			case c == oc && err == nil:
				return f + ": an invocation whose only proof is another invocation is allowed"
			}
		}
		if d, err := rd.GetDelegation(gc); err == nil {
			return fmt.Sprintf("%s: GetDelegation on the CID of an invocation returned no error (token nil: %v)", f, d == nil)
		}
	}
	return "ok"
}

// containerConcurrent: unrelated Writers and Readers used from several goroutines at once behave as when used
// alone (a sampled schedule test: every written container must read back to exactly its own tokens).
func containerConcurrent() string {
	var sets [][][]byte
	for g := 0; g < 8; g++ {
		var sealed [][]byte
		for i := 0; i <= g%4; i++ {
			b, _, _, err := sealFixture([]string{"dlg", "inv"}[(g+i)%2], "ed25519", g+i)
			if err != nil {
				return "fixture: " + err.Error()
			}
			sealed = append(sealed, b)
		}
		sets = append(sets, sealed)
	}
	var wg sync.WaitGroup
	bad := make(chan string, 16)
	for g := range sets {
		wg.Add(1)
		go func(g int) {
			defer wg.Done()
			defer func() {
				if r := recover(); r != nil {
					bad <- fmt.Sprint("panic ", r)
				}
			}()
			var cids []string
			for _, s := range sets[g] {
				cids = append(cids, hx(independentCid(s).Bytes()))
			}
			sort.Strings(cids)
			want := "ok " + strings.Join(cids, ",")
			for r := 0; r < 400; r++ {
				f := []string{"car", "cbor", "carb64", "cborb64"}[(g+r)%4]
				b, err := writeWith(f, r%2 == 0, sets[g])
				if err != nil {
					bad <- "concurrent write failed: " + err.Error()
					return
				}
				if got := readContainer(f, []string{"bytes", "stream1"}[r%2], "eof", b); got != want {
					bad <- "a container written while other goroutines were writing theirs does not read back to its own tokens (" + f + "): " + got
					return
				}
			}
		}(g)
	}
	wg.Wait()
	close(bad)
	for m := range bad {
		return m
	}
	return "ok"
}

// b64Corruptions: one character of the base64 TEXT replaced by one outside the alphabet — at the start, in the middle, at the
// end, and (CAR) at the first character of every section whose offset is a multiple of three: the decoder then hands out
// every byte before that section and reports the corruption exactly between two sections, where a clean end of the
// container would also be met. Always a failure: a corrupt entry, never a shorter set.
func b64Corruptions(f string, text, raw []byte, emitRead func(format, ending string, b []byte, variant, class string)) {
	ks := []int{0, len(text) / 2, len(text) - 1}
	if strings.HasPrefix(f, "car") {
		pos, b, aligned := 0, raw, 0
		for len(b) > 0 && aligned < 12 {
			l, n := binary.Uvarint(b)
			if n <= 0 || uint64(len(b)-n) < l {
				break
			}
			pos += n + int(l)
			b = b[n+int(l):]
			if pos%3 == 0 && pos/3*4 < len(text) {
				ks = append(ks, pos/3*4, pos/3*4+3)
				aligned++
			}
		}
	}
	for i, k := range ks {
		if k < 0 || k >= len(text) {
			continue
		}
		m := append([]byte(nil), text...)
		m[k] = "!*"[i%2]
		emitRead(f, "eof", m, []string{"bytes", "stream1", "chunks64", "streamdata"}[i%4], "b64-corrupt")
	}
}

// structuralOffsets: the cut points that matter for a CAR — around every section boundary and right after
// every length prefix
func structuralOffsets(raw []byte) []int {
	var offs []int
	pos := 0
	b := raw
	for len(b) > 0 {
		l, n := binary.Uvarint(b)
		if n <= 0 || uint64(len(b)-n) < l {
			break
		}
		for _, d := range []int{-1, 0, 1} {
			offs = append(offs, pos+d, pos+n+d, pos+n+int(l)+d)
		}
		pos += n + int(l)
		b = b[n+int(l):]
	}
	var out []int
	seen := map[int]bool{}
	for _, o := range offs {
		if o >= 0 && o < len(raw) && !seen[o] {
			seen[o] = true
			out = append(out, o)
		}
	}
	return out
}

// uvarints for 2^31−1, 2^31, 2^32−1, 2^32, 32 MiB + 1, 2^62, 2^63−1, 2^63, 2^64−1, and two that overflow 64 bits
var hostileVarints = [][]byte{
	{0xff, 0xff, 0xff, 0xff, 0x07}, {0x80, 0x80, 0x80, 0x80, 0x08}, {0xff, 0xff, 0xff, 0xff, 0x0f}, {0x80, 0x80, 0x80, 0x80, 0x10},
	{0x81, 0x80, 0x80, 0x10},
	{0x80, 0x80, 0x80, 0x80, 0x80, 0x80, 0x80, 0x80, 0x40}, {0xff, 0xff, 0xff, 0xff, 0xff, 0xff, 0xff, 0xff, 0x7f},
	{0x80, 0x80, 0x80, 0x80, 0x80, 0x80, 0x80, 0x80, 0x80, 0x01}, {0xff, 0xff, 0xff, 0xff, 0xff, 0xff, 0xff, 0xff, 0xff, 0x01},
	{0xff, 0xff, 0xff, 0xff, 0xff, 0xff, 0xff, 0xff, 0xff, 0x02}, {0x80, 0x80, 0x80, 0x80, 0x80, 0x80, 0x80, 0x80, 0x80, 0x80, 0x01},
}

func runContainerStream(c *ctx) error {
	formats := []string{"car", "carb64", "cbor", "cborb64"}
	emitRead := func(format, ending string, b []byte, variant, class string) {
		line := fmt.Sprintf("ctn.read %s %s %s %s %s", format, ending, hx(b), containerOracle(format, b), variant)
		c.emitG(line, "container."+class, func(string) bool { return class != "roundtrip" },
			func(g string) []string { return []string{class + ":" + format + ":" + strings.Fields(g)[0]} })
	}
	for _, f := range formats {
		for n := 0; n <= 4; n++ {
			c.emit(fmt.Sprintf("go.ctn.write %s %d", f, n), "container.write:"+f, true, "write:"+f)
		}
		// set sizes around the points where the encoding of a length changes (23/24; 255/256 in the thorough tier)
		for _, n := range []int{23, 24, 25} {
			c.emit(fmt.Sprintf("go.ctn.write %s %d", f, n), "container.write:"+f, true, "write:"+f)
		}
		if c.thoro {
			for _, n := range []int{255, 256, 257} {
				c.emit(fmt.Sprintf("go.ctn.write %s %d", f, n), "container.write:"+f, true, "write:"+f)
			}
		}
	}
	// tokens of EXACTLY chosen sizes: the CAR block (36 CID bytes + token) a few bytes either side of every power of two from
	// 2^9 to 2^16 (where scratch buffers end and the length prefix grows), every size over a contiguous range in the thorough tier
	for _, f := range formats {
		for k := 9; k <= 16; k++ {
			c.emit(fmt.Sprintf("go.ctn.sizes %s %d %d", f, (1<<k)-36-5, (1<<k)-36+5), "container.write:"+f, true, "sizes:"+f)
		}
		if c.thoro {
			for lo := 420; lo < 4400; lo += 100 {
				c.emit(fmt.Sprintf("go.ctn.sizes %s %d %d", f, lo, lo+99), "container.write:"+f, true, "sizes:"+f)
			}
		}
	}
	// a CAR container laid out so that a SECTION ENDS EXACTLY at every multiple of 1 MiB up to 33 (thorough 65) MiB, with one more
	// section after the last: a reader that stops at a limit sees a clean end of data there (CARv1 has no end marker)
	// and would hand out a part of the set; stream and byte-slice variants return the whole set
	aligned := 33
	if c.thoro {
		aligned = 65
	}
	c.emit(fmt.Sprintf("go.ctn.aligned %d", aligned), "container.aligned", true, "aligned")
	c.emit("go.ctn.concurrent", "container.concurrent", true, "concurrent")
	c.emit("go.ctn.loader 0", "container.loader", true, "loader")
	for _, kind := range []string{"dlg", "inv"} {
		for i, alg := range []string{"ed25519", "p256", "secp256k1"} {
			c.emit(fmt.Sprintf("go.tok.stream %s %s %d", kind, alg, i), "token.stream:"+kind, true, "tokstream:"+kind)
			c.emit(fmt.Sprintf("go.tok.stream %s %s %d", kind, alg, i+3), "token.stream:"+kind, true, "tokstream:"+kind)
		}
	}
	// set sizes at which the length of a CBOR list changes its encoding (23/24, and 255/256 in the thorough tier): written by
	// the library, read back through every variant
	bigSets := []int{23, 24, 25}
	if c.thoro {
		bigSets = append(bigSets, 255, 256, 257)
	}
	for _, n := range bigSets {
		sealed := sealedSet(c, n)
		for _, f := range formats {
			for _, useWriter := range []bool{false, true} {
				b, err := writeWith(f, useWriter, sealed)
				if err != nil {
					continue
				}
				emitRead(f, "eof", b, "bytes", "roundtrip")
				emitRead(f, "eof", b, "chunks64", "roundtrip")
				if useWriter && strings.HasSuffix(f, "b64") {
					raw, _ := base64.StdEncoding.DecodeString(string(b))
					b64Corruptions(f, b, raw, emitRead)
				}
			}
		}
	}
	for _, kind := range []string{"dlg", "inv"} {
		for _, size := range []int{5000, 70000, 1 << 20, 1600000} {
			c.emit(fmt.Sprintf("go.tok.streambig %s %d", kind, size), "token.stream:"+kind, true, "tokstream-big:"+kind)
		}
	}
	for n := 0; n <= 3; n++ {
		sealed := sealedSet(c, n)
		for _, f := range formats {
			b, err := writeWith(f, n%2 == 0, sealed)
			if err != nil {
				continue
			}
			for _, v := range []string{"bytes", "stream1", "streamdata", "chunks3.1.7", "chunks64"} {
				emitRead(f, "eof", b, v, "roundtrip")
			}
			if n == 0 {
				continue
			}
			// corruptions (applied to the raw container; base64 variants re-encode the corrupted raw form)
			raw := b
			if strings.HasSuffix(f, "b64") {
				raw, _ = base64.StdEncoding.DecodeString(string(b))
			}
			enc := func(x []byte) []byte {
				if strings.HasSuffix(f, "b64") {
					return []byte(base64.StdEncoding.EncodeToString(x))
				}
				return x
			}
			nflip := 60
			if c.thoro {
				nflip = 400
			}
			for i := 0; i < nflip; i++ {
				m := append([]byte(nil), raw...)
				p := c.rng.Intn(len(m))
				if i < 30 && i < len(m) {
					p = i // the header, the first length prefix and the first stored CID
				}
				m[p] ^= byte(1 << c.rng.Intn(8))
				emitRead(f, "eof", enc(m), "bytes", "bitflip")
			}
			emitRead(f, "eof", enc(append(append([]byte(nil), raw...), 0)), "bytes", "trailing")
			if strings.HasSuffix(f, "b64") {
				b64Corruptions(f, b, raw, emitRead)
			}
			if strings.HasPrefix(f, "car") {
				secs := carSections(raw)
				if len(secs) >= 2 {
					frame := func(ss [][]byte) []byte {
						var out []byte
						for _, s := range ss {
							var vb [10]byte
							k := binary.PutUvarint(vb[:], uint64(len(s)))
							out = append(out, vb[:k]...)
							out = append(out, s...)
						}
						return out
					}
					dup := append(append([][]byte(nil), secs...), secs[1])
					emitRead(f, "eof", enc(frame(dup)), "bytes", "duplicate-block")
					if len(secs) >= 3 {
						sw := append([][]byte(nil), secs...)
						sw[1], sw[2] = sw[2], sw[1]
						emitRead(f, "eof", enc(frame(sw)), "bytes", "reordered-blocks")
					}
					// a block stored under a consistent CID of another codec (raw, 0x55): integrity holds
					_, oc, err := cid.CidFromBytes(secs[1])
					if err == nil {
						data := secs[1][len(oc.Bytes()):]
						alt, _ := cid.Prefix{Version: 1, Codec: 0x55, MhType: 0x12, MhLength: 32}.Sum(data)
						ac := append(append([][]byte(nil), secs[0]), append(append([]byte(nil), alt.Bytes()...), data...))
						emitRead(f, "eof", enc(frame(append(ac, secs[2:]...))), "bytes", "foreign-cid-codec")
						// a block stored under an IDENTITY-multihash CID that does not describe its data: the hash-function code of the
						// stored CID changed to 0x00 (its 32 digest bytes then claim to BE the content), and an identity CID of other content
						ob := oc.Bytes()
						if len(ob) > 4 && ob[2] == 0x12 {
							idc := append([]byte(nil), ob...)
							idc[2] = 0x00
							emitRead(f, "eof", enc(frame(append(append([][]byte(nil), secs[0], append(idc, data...)), secs[2:]...))), "bytes", "identity-cid-mismatch")
							short := []byte{0x01, 0x71, 0x00, 0x04, 'a', 'b', 'c', 'd'}
							emitRead(f, "eof", enc(frame(append(append([][]byte(nil), secs[0], append(short, data...)), secs[2:]...))), "stream1", "identity-cid-mismatch")
						}
						// a block stored under the CID of ANOTHER block's data
						if len(secs) >= 3 {
							_, oc2, _ := cid.CidFromBytes(secs[2])
							wrong := append(append([][]byte(nil), secs[0]), append(append([]byte(nil), oc2.Bytes()...), data...))
							emitRead(f, "eof", enc(frame(append(wrong, secs[2:]...))), "bytes", "mislabelled-block")
						}
					}
					// a LATER block stored under the CID of an EARLIER one (its own data, or garbage): the second use of a
					// CID is checked like the first
					for i := 1; i < len(secs); i++ {
						_, ci, err := cid.CidFromBytes(secs[i])
						if err != nil {
							continue
						}
						for j := i + 1; j < len(secs); j++ {
							_, cj, err := cid.CidFromBytes(secs[j])
							if err != nil {
								continue
							}
							dj := secs[j][len(cj.Bytes()):]
							re := append([][]byte(nil), secs...)
							re[j] = append(append([]byte(nil), ci.Bytes()...), dj...)
							emitRead(f, "eof", enc(frame(re)), []string{"bytes", "stream1"}[(i+j)%2], "mislabelled-as-earlier")
						}
						garbage := append(append([]byte(nil), ci.Bytes()...), []byte("not a token at all")...)
						emitRead(f, "eof", enc(frame(append(append([][]byte(nil), secs...), garbage))), "bytes", "garbage-under-repeated-cid")
						trunc := append(append([]byte(nil), ci.Bytes()...), secs[i][len(ci.Bytes()):len(secs[i])-1]...)
						emitRead(f, "eof", enc(frame(append(append([][]byte(nil), secs[:i+1]...), append([][]byte{trunc}, secs[i+1:]...)...))), "bytes", "garbage-under-repeated-cid")
					}
					// zero-length section, huge declared length
					emitRead(f, "eof", enc(append(append([]byte(nil), raw...), 0x00)), "bytes", "zero-section")
					emitRead(f, "eof", enc(append(append([]byte(nil), raw...), 0xff, 0xff, 0xff, 0xff, 0x7f)), "bytes", "huge-section")
					// declared lengths around every width a signed/unsigned conversion could get wrong, after a valid
					// container and in place of the header
					for _, hv := range hostileVarints {
						emitRead(f, "eof", enc(append(append(append([]byte(nil), raw...), hv...), 1, 2, 3)), []string{"bytes", "stream1"}[len(hv)%2], "hostile-length")
						emitRead(f, "eof", enc(append(append([]byte(nil), hv...), raw...)), "bytes", "hostile-length")
					}
				}
			}
			// truncation and read faults at every offset
			step := 3
			if c.thoro {
				step = 1
			}
			for off := 0; off < len(b); off += step {
				emitRead(f, "eof", b[:off], []string{"bytes", "stream1", "streamdata"}[off%3], "truncated")
				emitRead(f, "fault", b[:off], []string{"stream1", "chunks5.2", "streamdata"}[off%3], "read-fault")
			}
			emitRead(f, "fault", b, "stream1", "read-fault")
			emitRead(f, "fault", b, "wrapeof-stream1", "read-fault")
			emitRead(f, "fault", b, "wrapeof-chunks4096", "read-fault")
			for off := 0; off < len(b); off += 7 {
				emitRead(f, "fault", b[:off], []string{"wrapeof-stream1", "wrapeof-chunks5.2", "wrapeof-chunks4096"}[off%3], "read-fault")
			}
			if f == "car" {
				for _, off := range structuralOffsets(b) {
					for _, v := range []string{"bytes", "stream1", "streamdata"} {
						emitRead(f, "eof", b[:off], v, "truncated")
					}
					emitRead(f, "fault", b[:off], "chunks4", "read-fault")
					emitRead(f, "fault", b[:off], "wrapeof-chunks4", "read-fault")
					emitRead(f, "fault", b[:off], "wrapeof-chunks4096", "read-fault")
				}
			}
			if f == "carb64" {
				raw2, _ := base64.StdEncoding.DecodeString(string(b))
				for _, off := range structuralOffsets(raw2) {
					if off%3 == 0 { // a cut of the base64 text on a 4-character group is a clean cut of the CAR
						emitRead(f, "eof", b[:off/3*4], "stream1", "truncated")
					}
				}
			}
		}
	}
	return nil
}

// containerAligned: a CAR container (header as the library writes it, sections laid out by the harness) whose first section
// ends exactly at 1 MiB and every following section is exactly 1 MiB long, so that a section ends at EVERY multiple of 1 MiB up
// to `total` MiB, with one more section after the last of them. The stream readers and the byte-slice reader return the whole set.
func containerAligned(total int) (out string) {
	defer func() {
		if r := recover(); r != nil {
			out = fmt.Sprint("panic ", r)
		}
	}()
	const mib = 1 << 20
	k0, aud := keyFor("ed25519", 0), keyFor("ed25519", 1)
	build := func(pad, salt int) []byte {
		nonce := []byte("nonce-aligned-??")
		nonce[len(nonce)-1], nonce[len(nonce)-2] = byte('a'+salt%26), byte('a'+salt/26)
		t, err := invocation.New(k0.did, aud.did, command.MustParse("/sized"), []cid.Cid{independentCid([]byte("p1"))},
			invocation.WithNonce(nonce), invocation.WithoutInvokedAt(), invocation.WithArgument("pad", strings.Repeat("x", pad)))
		if err != nil {
			return nil
		}
		b, _, err := t.ToSealed(k0.priv)
		if err != nil {
			return nil
		}
		return b
	}
	padFor := func(size int) int {
		pad := size - len(build(0, 0))
		for try := 0; try < 6 && pad >= 0; try++ {
			b := build(pad, 0)
			if b == nil {
				return -1
			}
			if len(b) == size {
				return pad
			}
			pad += size - len(b)
		}
		return -1
	}
	probe, err := writeWith("car", false, [][]byte{build(10, 0)})
	if err != nil {
		return "harness: " + err.Error()
	}
	hl, n := binary.Uvarint(probe)
	if n <= 0 {
		return "harness: no header length"
	}
	header := n + int(hl)
	// a section is uvarint(36 + size) + 36 CID bytes + the token; the uvarint takes 3 bytes for these sizes
	firstPad, restPad := padFor(mib-header-36-3), padFor(mib-36-3)
	if firstPad < 0 || restPad < 0 {
		return "harness: tokens of the needed sizes cannot be built"
	}
	data := append([]byte(nil), probe[:header]...)
	var cids []string
	for i := 0; i <= total; i++ {
		pad := restPad
		if i == 0 {
			pad = firstPad
		}
		b := build(pad, i)
		c := independentCid(b)
		cids = append(cids, hx(c.Bytes()))
		var lp [10]byte
		data = append(data, lp[:binary.PutUvarint(lp[:], uint64(len(c.Bytes())+len(b)))]...)
		data = append(data, c.Bytes()...)
		data = append(data, b...)
		if i < total && len(data) != (i+1)*mib {
			return fmt.Sprintf("harness: section %d ends at byte %d, not at %d", i, len(data), (i+1)*mib)
		}
	}
	sort.Strings(cids)
	want := "ok " + strings.Join(cids, ",")
	for _, variant := range []string{"bytes", "chunks65536", "streamdata"} {
		if got := readContainer("car", variant, "eof", data); got != want {
			n := strings.Count(got, ",") + 1
			if !strings.HasPrefix(got, "ok") {
				n = 0
			}
			if len(got) > 60 {
				got = got[:60] + "…"
			}
			return fmt.Sprintf("%d tokens, a section ending at every MiB up to %d MiB: read with %s gives %d of them (%s)", total+1, total, variant, n, got)
		}
	}
	return "ok"
}
