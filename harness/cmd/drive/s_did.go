package main

import (
	"bytes"
	"crypto/ecdsa"
	"crypto/elliptic"
	"crypto/rand"
	"crypto/rsa"
	"crypto/x509"
	"encoding/base64"
	"fmt"
	"math/big"
	"strconv"
	"strings"
	"sync"

	"github.com/decred/dcrd/dcrec/secp256k1/v4"
	"github.com/libp2p/go-libp2p/core/crypto"
	"github.com/mr-tron/base58"
	"github.com/multiformats/go-varint"
	"github.com/ucan-wg/go-ucan/did"
)

func init() {
	register(stream{
		name: "did",
		rule: "keys of Ed25519, secp256k1 (native and ECDSA-typed), P-256, P-384, P-521 and RSA: FromPubKey → String → Parse → PubKey must give back an equal DID and an equal key, and DIDs of distinct keys differ; the same calls from 8 goroutines at once on distinct keys of one algorithm must agree with the sequential results (a sampled schedule test); did:key strings carrying alternative encodings of the same key material (uncompressed and hybrid points, the other parity byte, off-curve x coordinates, wrong lengths, non-minimal or trailing DER, non-minimal varints, unsupported and unknown multicodec codes, other multibase prefixes, invalid base58 characters, missing prefix); the per-codec unmarshalling verdict is computed by the harness with the crypto libraries directly and given to the model as an oracle. Added later: every key extraction is repeated (same value, re-parsed value, ToPubKey) and must answer alike; RSA-3072 and RSA-4096 identifiers (fixed public keys); ECDSA-typed secp256k1 keys must come back as the same POINT; the bytes of an extracted key are overwritten (DID, text and later extractions unchanged); key extraction from the undefined DID, then from a valid one. Multicodec codes that agree with a supported one in their low 8, 16 or 32 bits only; an identifier of a key type outside the specification's six that Go accepts is reported whatever the model says; round trips of RSA public keys with moduli of 2049 … 8192 bits. Non-trivial = strings that pass the prefix test. Distinct = distinct protocol lines.",
		run:  runDidStream,
		eval: evalDid,
		cmp: func(line, g, m string) string {
			if strings.HasPrefix(line, "go.") {
				if g != "ok" {
					return "key↔DID round trip fails"
				}
				return ""
			}
			f := strings.Fields(line)
			if f[0] == "did.parse" && strings.HasPrefix(g, "ok") {
				// the supported key types are the specification's, written out here: the model reads the parser's whitelist from the
				// source (a regenerated table follows a change of that table), so an identifier of any other type that Go accepts is
				// reported whatever the model says
				if code, _, ok := codeAndMaterial(unhx(f[1])); ok {
					switch code {
					case 0xed, 0xe7, 0x1200, 0x1201, 0x1202, 0x1205:
					default:
						return fmt.Sprintf("go accepts an identifier of the unsupported key type 0x%x", code)
					}
				}
			}
			if f[0] == "did.parse" && g == "err" && strings.HasPrefix(m, "ok") {
				// C16 says which strings the parser must REFUSE, and that the identifier FromPubKey prints for a key parses back. A
				// string the model's parser lets through but from which no key can be extracted (bare codec, key material of the wrong
				// length, a point not on the curve), or which is not the canonical identifier of its key, may be refused as well.
				if code, mat, ok := codeAndMaterial(unhx(f[1])); ok {
					if o := canonicalOracle(code, mat); o == "-" || o != hx(mat) {
						return ""
					}
				}
			}
			if f[0] == "did.pubkey" {
				// "no key" is "no key", whether the parser or the extraction said so
				norm := func(s string) string {
					if s == "perr" {
						return "err"
					}
					return s
				}
				g, m = norm(g), norm(m)
			}
			if g != m {
				return "go=" + strings.Fields(g + " -")[0] + " model=" + strings.Fields(m + " -")[0]
			}
			return ""
		},

		classByDirection: true,
	})
}

func didText(code uint64, key []byte) string {
	return "did:key:z" + base58.Encode(append(varint.ToUvarint(code), key...))
}

// canonicalOracle computes, WITHOUT go-ucan, whether the key material unmarshals for the codec and what
// the canonical marshalling of the resulting key is ("-" = refused).
func canonicalOracle(code uint64, m []byte) (out string) {
	defer func() {
		if r := recover(); r != nil {
			out = "-"
		}
	}()
	switch code {
	case 0xed, 0xec:
		if _, err := crypto.UnmarshalEd25519PublicKey(m); err != nil {
			return "-"
		}
		return hx(m)
	case 0xe7:
		k, err := crypto.UnmarshalSecp256k1PublicKey(m)
		if err != nil {
			return "-"
		}
		raw, _ := k.Raw()
		return hx(raw)
	case 0x1200, 0x1201, 0x1202:
		curve := map[uint64]elliptic.Curve{0x1200: elliptic.P256(), 0x1201: elliptic.P384(), 0x1202: elliptic.P521()}[code]
		x, y := elliptic.UnmarshalCompressed(curve, m)
		if x == nil {
			return "-"
		}
		return hx(elliptic.MarshalCompressed(curve, x, y))
	case 0x1205:
		k, err := x509.ParsePKCS1PublicKey(m)
		if err != nil {
			return "-"
		}
		// libp2p refuses small RSA keys
		pkix, err := x509.MarshalPKIXPublicKey(k)
		if err != nil {
			return "-"
		}
		if _, err := crypto.UnmarshalRsaPublicKey(pkix); err != nil {
			return "-"
		}
		return hx(x509.MarshalPKCS1PublicKey(k))
	}
	return "-"
}

func codeAndMaterial(text string) (uint64, []byte, bool) {
	if !strings.HasPrefix(text, "did:key:z") {
		return 0, nil, false
	}
	b, err := base58.Decode(text[len("did:key:z"):])
	if err != nil {
		return 0, nil, false
	}
	code, n, err := varint.FromUvarint(b)
	if err != nil {
		return 0, nil, false
	}
	return code, b[n:], true
}

func evalDid(line string) (out string, rd string) {
	defer func() {
		if r := recover(); r != nil {
			out = "panic"
		}
	}()
	f := strings.Fields(line)
	switch f[0] {
	case "did.parse":
		t := unhx(f[1])
		rd = "did.Parse(" + q(t) + ")"
		d, err := did.Parse(t)
		if err != nil {
			return "err", rd
		}
		return "ok " + hxs(d.String()), rd
	case "did.pubkey":
		t := unhx(f[1])
		rd = "did.Parse(" + q(t) + ").PubKey()"
		d, err := did.Parse(t)
		if err != nil {
			return "perr", rd
		}
		k, err := d.PubKey()
		// the answer for an identifier does not depend on how often it is asked: the same value again, an equal
		// value parsed afresh, and the did.ToPubKey convenience path all agree with the first answer
		for i, again := range []func() error{
			func() error { _, e := d.PubKey(); return e },
			func() error { d2, _ := did.Parse(t); _, e := d2.PubKey(); return e },
			func() error { _, e := did.ToPubKey(t); return e },
			func() error { _, e := d.PubKey(); return e },
		} {
			if e := again(); (e == nil) != (err == nil) {
				return fmt.Sprintf("history: first-extraction-error=%v extraction#%d-error=%v", err != nil, i+2, e != nil), rd
			}
		}
		if err != nil {
			return "err", rd
		}
		// canonical marshalling of what came out, via FromPubKey-independent means
		code, _, _ := codeAndMaterial(d.String())
		raw, err := k.Raw()
		if err != nil {
			return "raw-err", rd
		}
		switch code {
		case 0x1200, 0x1201, 0x1202:
			pk, err := x509.ParsePKIXPublicKey(raw)
			if err != nil {
				return "raw-err", rd
			}
			e := pk.(*ecdsa.PublicKey)
			raw = elliptic.MarshalCompressed(e.Curve, e.X, e.Y)
		case 0x1205:
			pk, err := x509.ParsePKIXPublicKey(raw)
			if err != nil {
				return "raw-err", rd
			}
			raw = x509.MarshalPKCS1PublicKey(pk.(*rsa.PublicKey))
		}
		return "ok " + hx(raw), rd
	case "go.did.roundtrip":
		return didRoundTrip(f[1], f[2]), line
	case "go.did.undef":
		// the zero DID (what Subject() of a powerline delegation or Audience() of an invocation without audience
		// return) has no key: an error, and key extraction from other DIDs goes on working afterwards
		if _, err := did.Undef.PubKey(); err == nil {
			return "did.Undef.PubKey() returned a key", line
		}
		pub, err := didKey("ed25519", "u")
		if err != nil {
			return "keygen: " + err.Error(), line
		}
		d, err := did.FromPubKey(pub)
		if err != nil {
			return "FromPubKey: " + err.Error(), line
		}
		for i := 0; i < 3; i++ {
			if k, err := d.PubKey(); err != nil || !k.Equals(pub) {
				return "after PubKey() on the undefined DID, key extraction from a valid DID fails", line
			}
			_, _ = did.Undef.PubKey()
		}
		return "ok", line
	case "go.did.concurrent":
		return didConcurrent(f[1]), line
	}
	return "bad-line", line
}

var didKeys = map[string]crypto.PubKey{}

var fixedRSAPublic = map[string]string{
	"rsa3072": "MIIBigKCAYEAnsoqW6iQAMUAW2WmKuWZ9IgvHbaMeDtcT9ADh5xJkvnuryB91JhBrC5QIK9ZeCwfmcKW/+VjJPHp4KiN2PoY32Gyvk2B9frsyMmQ5pE/MQePN5bjVUQjPweivAhEC2sCOUoMtqqnKLivBzCXZwxKBtIblDDGSVTd85G7DC1Ax3OAHE+xOMP0DeDky9WaJUeOm/uy/Hf+L3YG7XIihiCWRxp5WUsxctgtpJagqebyZp1zP22MFoCmz7ipB8Zj5j390Cxl1J4RZdVSrmdYTKpb6+IaxsNUZbjYjc43ZclvTD3dR96evXmJQsSKj5Nnf6/inpwVnFZlfLBIYMxMeiG0/pb9tyknz+1sMAP/H5tYcyLbRK/nbJCenW0o9RGcX4/CdK1AeU6X0xL0/vVVIcHaTyM2ntsLu3u5CxDmdlvyqkWss7j3Wkg1LRkBtU0EvuQ0xaw9s99fzRU+NMbBs2P2s8fNXu4Vy+vEPkjHIxX3P8DfJGq8S/Fb8CktkTl8L+lLAgMBAAE=",
	"rsa4096": "MIICCgKCAgEApeFudbEo9i8FxmNPB6SfkJGZO0/IBjMLfz1UXOv1A2/sAnrYOZm0C5RwIwZOeSXsOUEZvbDJnOLBCYdgCJh1UwkwUjC+aNdTwj1sK9bC4DxbZR8Pk84hjhc4tV2e8HXGmOzWOgaAO2ENdvvAjxtS5R/QGe78DcbImrRifTyP6jlZE+jWXqKXTx9RCxM2XoVK4P8JPFGhnvwlAcs5DCRrNuZ+ftC1Gk6NxWo+lEQMFtizQDg3fzkzEjVORdOQ32sXIdOXJ7H0Qji69gnvERezp1TRzUQm54vk1Zh+MQ6ceK7HKGGYnZ7CZldSjZMS90lbnt74L38oPVwX75seTgWPnrUABmh3CsVTkLw3jQ0JZLNE8EovodwfnolFWsEXYimpFa/LSfRJf8wBm4MnNMjBz9HplElbzU5v2AkJc6lPWT630HILMgo96qC46RcoY2vVQpMu+K2yOKXfi4GldjDTlwgDo671ILITKmU4bofxsPWtF6xtnfX+kWtW0/ZQzeQ5muCsy2SKRfSuORFXaHb8QFRHcvEuVM365wULv2kyIdJ35cfy4yBmTfJN15qduXGfDnjejzwPMuI9so3G/EMSNOYNikLD9nebwhofI3qcu40Fg5opsl+L5L93eXUW3R2F4ipz/Xx7L971IFHWiMKWlH06wL+mrDoKoCQ97hiDIbkCAwEAAQ==",
}

// didPoints: the compressed SEC1 form of the ECDSA-typed secp256k1 keys, computed from the coordinates directly
var didPoints = map[string][]byte{}

func didKey(alg, i string) (crypto.PubKey, error) {
	id := alg + "#" + i
	if k, ok := didKeys[id]; ok {
		return k, nil
	}
	var pub crypto.PubKey
	var err error
	switch alg {
	case "ed25519":
		_, pub, err = crypto.GenerateEd25519Key(rand.Reader)
	case "secp256k1":
		_, pub, err = crypto.GenerateSecp256k1Key(rand.Reader)
	case "secp256k1-ecdsa":
		// an ECDSA-typed libp2p key on the secp256k1 curve; force a short X coordinate now and then
		for {
			priv, e := ecdsa.GenerateKey(secp256k1.S256(), rand.Reader)
			if e != nil {
				return nil, e
			}
			if i == "short" && len(priv.X.Bytes()) == 32 && len(priv.Y.Bytes()) == 32 {
				continue
			}
			_, pub, err = crypto.ECDSAKeyPairFromKey(priv)
			didPoints[id] = append([]byte{byte(2 + priv.Y.Bit(0))}, priv.X.FillBytes(make([]byte, 32))...)
			break
		}
	case "p256":
		_, pub, err = crypto.GenerateECDSAKeyPairWithCurve(elliptic.P256(), rand.Reader)
	case "p384":
		_, pub, err = crypto.GenerateECDSAKeyPairWithCurve(elliptic.P384(), rand.Reader)
	case "p521":
		_, pub, err = crypto.GenerateECDSAKeyPairWithCurve(elliptic.P521(), rand.Reader)
	case "rsa":
		_, pub, err = crypto.GenerateRSAKeyPair(2048, rand.Reader)
	case "rsa2049", "rsa5120", "rsa6144", "rsa8192":
		// a PUBLIC key with a modulus of that many bits (an odd number with the top bit set — nobody needs to factor it here:
		// the identifier round trip only marshals and unmarshals the public key)
		bits, _ := strconv.Atoi(strings.TrimPrefix(alg, "rsa"))
		n := new(big.Int).Lsh(big.NewInt(1), uint(bits-1))
		n.Add(n, new(big.Int).Lsh(big.NewInt(0x5a5a5a5a5a5a5a5b), uint(bits/2)))
		n.Add(n, big.NewInt(0x1234567))
		n.SetBit(n, 0, 1)
		var pkix []byte
		if pkix, err = x509.MarshalPKIXPublicKey(&rsa.PublicKey{N: n, E: 65537}); err == nil {
			pub, err = crypto.UnmarshalRsaPublicKey(pkix)
		}
	case "rsa3072", "rsa4096":
		// fixed public keys (generated once with crypto/rsa): key generation at these sizes can take many seconds on a
		// loaded machine, and only the PUBLIC key is needed for the identifier round trip
		var der []byte
		der, err = base64.StdEncoding.DecodeString(fixedRSAPublic[alg])
		if err == nil {
			var pk *rsa.PublicKey
			if pk, err = x509.ParsePKCS1PublicKey(der); err == nil {
				var pkix []byte
				if pkix, err = x509.MarshalPKIXPublicKey(pk); err == nil {
					pub, err = crypto.UnmarshalRsaPublicKey(pkix)
				}
			}
		}
	}
	if err == nil {
		didKeys[id] = pub
	}
	return pub, err
}

func didRoundTrip(alg, i string) string {
	pub, err := didKey(alg, i)
	if err != nil {
		return "keygen: " + err.Error()
	}
	d, err := did.FromPubKey(pub)
	if err != nil {
		return "FromPubKey refuses a valid key: " + err.Error()
	}
	s := d.String()
	d2, err := did.Parse(s)
	if err != nil {
		return "Parse refuses the string of a DID built by FromPubKey: " + err.Error()
	}
	if d2 != d {
		return "parsed DID differs from the original"
	}
	k2, err := d2.PubKey()
	if err != nil {
		return "PubKey fails on a DID built by FromPubKey: " + err.Error()
	}
	// compare key material (the ECDSA-typed secp256k1 key legitimately comes back as a native secp256k1 key)
	d3, err := did.FromPubKey(k2)
	if err != nil || d3 != d {
		return "key extracted from the DID is not the original key"
	}
	if alg != "secp256k1-ecdsa" && !k2.Equals(pub) {
		return "key extracted from the DID is not equal to the original key"
	}
	if alg == "secp256k1-ecdsa" {
		// same POINT: the extracted native key, compressed, is the original point compressed
		if want, ok := didPoints[alg+"#"+i]; ok {
			if got, err := k2.Raw(); err == nil && !bytes.Equal(got, want) {
				return "the key extracted from the DID of an ECDSA-typed secp256k1 key is another point than the original"
			}
		}
	}
	// what a caller does with the bytes of an extracted key does not reach the DID (nor later extractions)
	if raw, err := k2.Raw(); err == nil {
		for i := range raw {
			raw[i] ^= 0xff
		}
		if d2.String() != s || d2 != d {
			return "overwriting the bytes returned by an extracted key's Raw() changed the DID"
		}
		if k3, err := d2.PubKey(); err != nil {
			return "after a caller overwrote the bytes of an extracted key, PubKey fails: " + err.Error()
		} else if d4, err := did.FromPubKey(k3); err != nil || d4 != d {
			return "after a caller overwrote the bytes of an extracted key, PubKey yields another key"
		}
	}
	// a second key of the same algorithm gives a different DID
	other, err := didKey(alg, i+"'")
	if err == nil {
		do, err := did.FromPubKey(other)
		if err == nil && (do == d) != other.Equals(pub) {
			return "DID equality disagrees with key equality"
		}
	}
	return "ok"
}

// didConcurrent: FromPubKey / String / Parse / PubKey are functions of their argument — called from many
// goroutines at once on distinct keys of one algorithm they must return what they return when called alone.
func didConcurrent(alg string) string {
	const nKeys, nGo, rounds = 6, 8, 3000
	var pubs []crypto.PubKey
	var want []did.DID
	for i := 0; i < nKeys; i++ {
		p, err := didKey(alg, fmt.Sprint("c", i))
		if err != nil {
			return "keygen: " + err.Error()
		}
		d, err := did.FromPubKey(p)
		if err != nil {
			return "FromPubKey: " + err.Error()
		}
		pubs = append(pubs, p)
		want = append(want, d)
	}
	errs := make(chan string, nGo)
	var wg sync.WaitGroup
	for g := 0; g < nGo; g++ {
		wg.Add(1)
		go func(g int) {
			defer wg.Done()
			defer func() {
				if r := recover(); r != nil {
					errs <- fmt.Sprint("panic: ", r)
				}
			}()
			for r := 0; r < rounds; r++ {
				i := (g + r) % nKeys
				d, err := did.FromPubKey(pubs[i])
				if err != nil || d != want[i] {
					errs <- "concurrent FromPubKey returned another key's DID"
					return
				}
				if r%16 == 0 {
					d2, err := did.Parse(d.String())
					if err != nil || d2 != want[i] {
						errs <- "concurrent String/Parse altered a DID"
						return
					}
					if k, err := d2.PubKey(); err != nil || !sameKeyMaterial(k, pubs[i]) {
						errs <- "concurrent PubKey returned another key"
						return
					}
				}
			}
		}(g)
	}
	wg.Wait()
	close(errs)
	for e := range errs {
		return e
	}
	return "ok"
}

func sameKeyMaterial(a, b crypto.PubKey) bool {
	da, e1 := did.FromPubKey(a)
	db, e2 := did.FromPubKey(b)
	return e1 == nil && e2 == nil && da == db
}

func runDidStream(c *ctx) error {
	algs := []string{"ed25519", "secp256k1", "secp256k1-ecdsa", "p256", "p384", "p521"}
	nk := 6
	if c.thoro {
		nk = 40
	}
	for _, a := range algs {
		for i := 0; i < nk; i++ {
			c.emit(fmt.Sprintf("go.did.roundtrip %s %d", a, i), "did.roundtrip:"+a, true, "roundtrip:"+a)
		}
	}
	c.emit("go.did.roundtrip secp256k1-ecdsa short", "did.roundtrip:secp256k1-ecdsa", true, "roundtrip:secp256k1-ecdsa-short")
	c.emit("go.did.roundtrip rsa 0", "did.roundtrip:rsa", true, "roundtrip:rsa")
	c.emit("go.did.roundtrip rsa3072 0", "did.roundtrip:rsa", true, "roundtrip:rsa3072")
	c.emit("go.did.roundtrip rsa4096 0", "did.roundtrip:rsa", true, "roundtrip:rsa4096")
	for _, a := range []string{"rsa2049", "rsa5120", "rsa6144", "rsa8192"} {
		c.emit("go.did.roundtrip "+a+" 0", "did.roundtrip:rsa", true, "roundtrip:"+a)
	}
	for i := 0; i < 8; i++ {
		c.emit(fmt.Sprintf("go.did.roundtrip secp256k1-ecdsa p%d", i), "did.roundtrip:secp256k1-ecdsa", true, "roundtrip:secp256k1-ecdsa")
	}
	c.emit("go.did.undef 0", "did.undef", true, "undef")
	for _, a := range algs {
		c.emit("go.did.concurrent "+a, "did.concurrent:"+a, true, "concurrent:"+a)
	}
	// strings: canonical and alternative encodings
	var texts []string
	add := func(code uint64, key []byte) { texts = append(texts, didText(code, key)) }
	for _, a := range algs {
		for i := 0; i < 3; i++ {
			pub, err := didKey(a, fmt.Sprint(i))
			if err != nil {
				continue
			}
			d, err := did.FromPubKey(pub)
			if err != nil {
				continue
			}
			s := d.String()
			texts = append(texts, s)
			code, m, ok := codeAndMaterial(s)
			if !ok {
				continue
			}
			// generic damage
			add(code, m[:len(m)-1])
			add(code, append(append([]byte(nil), m...), 0))
			add(code, nil)
			fl := append([]byte(nil), m...)
			fl[len(fl)/2] ^= 1
			add(code, fl)
			add(0xec, m)   // x25519 code
			add(0x1203, m) // unknown code
			// codes that agree with the supported one in their low 8, 16 or 32 bits only
			add(code+0x100, m)
			add(code+0x10000, m)
			add(code+0x20000, m)
			add(code+0x100000000, m)
			add(code|1<<62, m)
			add(0x55, m) // raw
			// non-minimal varint of the code
			texts = append(texts, "did:key:z"+base58.Encode(append(append(varint.ToUvarint(code)[:len(varint.ToUvarint(code))-1], varint.ToUvarint(code)[len(varint.ToUvarint(code))-1]|0x80, 0x00), m...)))
			switch code {
			case 0xe7:
				if k, err := secp256k1.ParsePubKey(m); err == nil {
					add(code, k.SerializeUncompressed())
					h := k.SerializeUncompressed()
					h[0] = 0x06 | (m[0] & 1)
					add(code, h) // hybrid
				}
				op := append([]byte(nil), m...)
				op[0] ^= 1
				add(code, op) // the other parity: a different valid key
			case 0x1200, 0x1201, 0x1202:
				curve := map[uint64]elliptic.Curve{0x1200: elliptic.P256(), 0x1201: elliptic.P384(), 0x1202: elliptic.P521()}[code]
				x, y := elliptic.UnmarshalCompressed(curve, m)
				if x != nil {
					add(code, elliptic.Marshal(curve, x, y)) // uncompressed
				}
				op := append([]byte(nil), m...)
				op[0] ^= 1
				add(code, op)
				// off-curve x coordinates
				for d := int64(1); d < 6; d++ {
					xx := new(big.Int).Add(x, big.NewInt(d))
					off := append([]byte{m[0]}, xx.FillBytes(make([]byte, len(m)-1))...)
					add(code, off)
				}
			}
		}
	}
	if pub, err := didKey("rsa", "0"); err == nil {
		if d, err := did.FromPubKey(pub); err == nil {
			s := d.String()
			texts = append(texts, s)
			_, m, _ := codeAndMaterial(s)
			add(0x1205, append(append([]byte(nil), m...), 0))
			add(0x1205, m[:len(m)-3])
			// extra elements at the END of the PKCS#1 SEQUENCE {n, e, …} (encoding/asn1 tolerates them): valid DER, minimal lengths, the
			// same key — and not the identifier FromPubKey builds for it
			if len(m) > 4 && m[0] == 0x30 && m[1] == 0x82 {
				l := int(m[2])<<8 | int(m[3])
				for _, extra := range [][]byte{{0x02, 0x01, 0x00}, {0x05, 0x00}, {0x02, 0x01, 0x01, 0x02, 0x01, 0x02}} {
					nl := l + len(extra)
					add(0x1205, append(append([]byte{0x30, 0x82, byte(nl >> 8), byte(nl)}, m[4:]...), extra...))
				}
			}
			// non-minimal DER length of the outer SEQUENCE: 30 82 LL LL -> 30 83 00 LL LL
			if len(m) > 4 && m[0] == 0x30 && m[1] == 0x82 {
				add(0x1205, append([]byte{0x30, 0x83, 0x00, m[2], m[3]}, m[4:]...))
			}
		}
	}
	texts = append(texts, "", "did:key:", "did:key:z", "did:web:example.com", "DID:KEY:z6Mk", "did:key:f"+fmt.Sprintf("%x", []byte{0xed, 1, 2, 3}),
		"did:key:mAQID", "did:key:z0OIl", "did:key:z6Mk héllo", " did:key:z6Mkfoo", "did:key:z111", "did:key:Z6Mk", "did:key:z6Mk\n")
	// a valid identifier with something between the prefix and the multibase text, around it, or with the prefix's own
	// characters repeated: one text, one DID — nothing is trimmed, skipped or folded
	for _, v := range append([]string(nil), texts[:min(len(texts), 6)]...) {
		if !strings.HasPrefix(v, "did:key:z") {
			continue
		}
		rest := v[len("did:key:"):]
		texts = append(texts, "did:key:did:key:"+rest, "did:key::"+rest, "did:key:key:"+rest, "did:key:d"+rest, "did:key:y"+rest, "did:key: "+rest, v+" ", v+"\n", "\t"+v,
			"did:key:"+rest+"=", "did:key:"+rest+"z", "did:key:z"+rest, "Did:key:"+rest, "did:KEY:"+rest, "did:key:"+strings.ToUpper(rest[:1])+rest[1:], "did:key"+rest, "did:key:\x00"+rest)
	}
	for i := 0; i < 300; i++ {
		texts = append(texts, "did:key:z"+base58.Encode(c.rng.Bytes(1+c.rng.Intn(40))))
	}
	for _, t := range texts {
		c.emitG("did.parse "+hxs(t), "did.Parse", func(string) bool { return strings.HasPrefix(t, "did:key:") },
			func(g string) []string { return []string{"parse:" + strings.Fields(g)[0]} })
		oracle := "-"
		if code, m, ok := codeAndMaterial(t); ok {
			oracle = canonicalOracle(code, m)
		}
		c.emitG("did.pubkey "+hxs(t)+" "+oracle, "DID.PubKey", func(string) bool { return strings.HasPrefix(t, "did:key:") },
			func(g string) []string { return []string{"pubkey:" + strings.Fields(g)[0]} })
	}
	return nil
}

// rebuildStdKey turns (multicodec code, key material) into a libp2p public key using the standard library
// only (P-curves: compressed point; RSA: PKCS#1).
func rebuildStdKey(code uint64, m []byte) crypto.PubKey {
	switch code {
	case 0x1200, 0x1201, 0x1202:
		curve := map[uint64]elliptic.Curve{0x1200: elliptic.P256(), 0x1201: elliptic.P384(), 0x1202: elliptic.P521()}[code]
		x, y := elliptic.UnmarshalCompressed(curve, m)
		if x == nil {
			return nil
		}
		pkix, err := x509.MarshalPKIXPublicKey(&ecdsa.PublicKey{Curve: curve, X: x, Y: y})
		if err != nil {
			return nil
		}
		k, _ := crypto.UnmarshalECDSAPublicKey(pkix)
		return k
	case 0x1205:
		rk, err := x509.ParsePKCS1PublicKey(m)
		if err != nil {
			return nil
		}
		pkix, err := x509.MarshalPKIXPublicKey(rk)
		if err != nil {
			return nil
		}
		k, _ := crypto.UnmarshalRsaPublicKey(pkix)
		return k
	}
	return nil
}
