package main

import (
	"encoding/binary"
	"encoding/hex"
	"fmt"
	"math"
	"math/big"
	"strconv"
	"strings"

	"github.com/ipfs/go-cid"
	"github.com/ipld/go-ipld-prime/datamodel"
	cidlink "github.com/ipld/go-ipld-prime/linking/cid"
	"github.com/ipld/go-ipld-prime/node/basicnode"
)

// dumpNode renders a go-ipld-prime node in the protocol's text form (see lean/Ucan/Driver/NodeCodec.lean).
func dumpNode(n datamodel.Node) string {
	var sb strings.Builder
	dumpNodeTo(&sb, n)
	return sb.String()
}

func dumpNodeTo(sb *strings.Builder, n datamodel.Node) {
	switch n.Kind() {
	case datamodel.Kind_Null:
		sb.WriteString("n")
	case datamodel.Kind_Bool:
		b, _ := n.AsBool()
		if b {
			sb.WriteString("T")
		} else {
			sb.WriteString("F")
		}
	case datamodel.Kind_Int:
		if u, ok := n.(datamodel.UintNode); ok {
			v, err := u.AsUint()
			if err == nil {
				sb.WriteString("i" + strconv.FormatUint(v, 10))
				return
			}
		}
		v, err := n.AsInt()
		if err != nil {
			sb.WriteString("i?")
			return
		}
		sb.WriteString("i" + strconv.FormatInt(v, 10))
	case datamodel.Kind_Float:
		f, _ := n.AsFloat()
		var b [8]byte
		binary.BigEndian.PutUint64(b[:], math.Float64bits(f))
		sb.WriteString("d" + hex.EncodeToString(b[:]))
	case datamodel.Kind_String:
		s, _ := n.AsString()
		sb.WriteString("s" + hex.EncodeToString([]byte(s)))
	case datamodel.Kind_Bytes:
		b, _ := n.AsBytes()
		sb.WriteString("b" + hex.EncodeToString(b))
	case datamodel.Kind_Link:
		l, _ := n.AsLink()
		sb.WriteString("k" + hex.EncodeToString([]byte(l.Binary())))
	case datamodel.Kind_List:
		sb.WriteString("l(")
		it := n.ListIterator()
		first := true
		for !it.Done() {
			_, v, err := it.Next()
			if err != nil {
				break
			}
			if !first {
				sb.WriteString(",")
			}
			first = false
			dumpNodeTo(sb, v)
		}
		sb.WriteString(")")
	case datamodel.Kind_Map:
		sb.WriteString("m(")
		it := n.MapIterator()
		first := true
		for !it.Done() {
			k, v, err := it.Next()
			if err != nil {
				break
			}
			if !first {
				sb.WriteString(",")
			}
			first = false
			ks, _ := k.AsString()
			sb.WriteString(hex.EncodeToString([]byte(ks)) + ":")
			dumpNodeTo(sb, v)
		}
		sb.WriteString(")")
	default:
		sb.WriteString("?")
	}
}

// parseNode builds a basicnode tree from the protocol text form.
func parseNode(s string) (datamodel.Node, error) {
	n, rest, err := parseNodeAt(s)
	if err != nil {
		return nil, err
	}
	if rest != "" {
		return nil, fmt.Errorf("trailing text %q", rest)
	}
	return n, nil
}

func takeHexStr(s string) ([]byte, string) {
	i := 0
	for i+1 < len(s) && isHex(s[i]) && isHex(s[i+1]) {
		i += 2
	}
	b, _ := hex.DecodeString(s[:i])
	return b, s[i:]
}

func isHex(c byte) bool {
	return (c >= '0' && c <= '9') || (c >= 'a' && c <= 'f') || (c >= 'A' && c <= 'F')
}

func parseNodeAt(s string) (datamodel.Node, string, error) {
	if s == "" {
		return nil, "", fmt.Errorf("empty node text")
	}
	switch s[0] {
	case 'n':
		return datamodel.Null, s[1:], nil
	case 'T':
		return basicnode.NewBool(true), s[1:], nil
	case 'F':
		return basicnode.NewBool(false), s[1:], nil
	case 'i':
		j := 1
		if j < len(s) && s[j] == '-' {
			j++
		}
		for j < len(s) && s[j] >= '0' && s[j] <= '9' {
			j++
		}
		v, ok := new(big.Int).SetString(s[1:j], 10)
		if !ok {
			return nil, "", fmt.Errorf("bad int %q", s[1:j])
		}
		if v.IsInt64() {
			return basicnode.NewInt(v.Int64()), s[j:], nil
		}
		if v.IsUint64() {
			return basicnode.NewUint(v.Uint64()), s[j:], nil
		}
		return nil, "", fmt.Errorf("int out of range %q", s[1:j])
	case 'd':
		if len(s) < 17 {
			return nil, "", fmt.Errorf("short float")
		}
		b, err := hex.DecodeString(s[1:17])
		if err != nil {
			return nil, "", err
		}
		return basicnode.NewFloat(math.Float64frombits(binary.BigEndian.Uint64(b))), s[17:], nil
	case 's':
		b, r := takeHexStr(s[1:])
		return basicnode.NewString(string(b)), r, nil
	case 'b':
		b, r := takeHexStr(s[1:])
		return basicnode.NewBytes(b), r, nil
	case 'k':
		b, r := takeHexStr(s[1:])
		_, c, err := cid.CidFromBytes(b)
		if err != nil {
			return nil, "", err
		}
		return basicnode.NewLink(cidlink.Link{Cid: c}), r, nil
	case 'l':
		if len(s) < 3 || s[1] != '(' {
			return nil, "", fmt.Errorf("bad list")
		}
		nb := basicnode.Prototype.List.NewBuilder()
		la, _ := nb.BeginList(-1)
		r := s[2:]
		if r[0] == ')' {
			la.Finish()
			return nb.Build(), r[1:], nil
		}
		for {
			x, r2, err := parseNodeAt(r)
			if err != nil {
				return nil, "", err
			}
			la.AssembleValue().AssignNode(x)
			if r2 == "" {
				return nil, "", fmt.Errorf("unterminated list")
			}
			if r2[0] == ')' {
				la.Finish()
				return nb.Build(), r2[1:], nil
			}
			if r2[0] != ',' {
				return nil, "", fmt.Errorf("bad list separator")
			}
			r = r2[1:]
		}
	case 'm':
		if len(s) < 3 || s[1] != '(' {
			return nil, "", fmt.Errorf("bad map")
		}
		nb := basicnode.Prototype.Map.NewBuilder()
		ma, _ := nb.BeginMap(-1)
		r := s[2:]
		if r[0] == ')' {
			ma.Finish()
			return nb.Build(), r[1:], nil
		}
		for {
			k, r2 := takeHexStr(r)
			if r2 == "" || r2[0] != ':' {
				return nil, "", fmt.Errorf("bad map key")
			}
			x, r3, err := parseNodeAt(r2[1:])
			if err != nil {
				return nil, "", err
			}
			va, err := ma.AssembleEntry(string(k))
			if err != nil {
				return nil, "", err
			}
			va.AssignNode(x)
			if r3 == "" {
				return nil, "", fmt.Errorf("unterminated map")
			}
			if r3[0] == ')' {
				ma.Finish()
				return nb.Build(), r3[1:], nil
			}
			if r3[0] != ',' {
				return nil, "", fmt.Errorf("bad map separator")
			}
			r = r3[1:]
		}
	}
	return nil, "", fmt.Errorf("bad node text %q", s)
}

func basicInt(i int64) datamodel.Node { return basicnode.NewInt(i) }

func basicLink(c cid.Cid) datamodel.Node { return basicnode.NewLink(cidlink.Link{Cid: c}) }
func basicBytes(b []byte) datamodel.Node { return basicnode.NewBytes(b) }
func basicString(s string) datamodel.Node { return basicnode.NewString(s) }
