package main

import (
	"hash/adler32"
	"hash/crc32"
	"hash/fnv"
	"strconv"
	"strings"
)

func init() {
	register(stream{
		name: "selparse",
		rule: "selector.Parse on \".\" followed by every string of length ≤ N (N=4 quick, 6 thorough) over the 11-character alphabet . [ ] \" ? : - 0 1 a \\ — i.e. every balanced and unbalanced combination of quotes, brackets, dots and question marks — plus strings that do not start with a dot, mutations of valid selectors and non-ASCII field names; compared: accept/reject, the field-by-field dump of every segment through its exported accessors, and Selector.String(). Added later: every accepted text is also RESOLVED on two probe values (a map with the keys \"\", a, 0, 1 and a list) and compared with the model's parse-then-resolve, so that a segment that keeps its text but changes its kind is seen. Every content of one bracket segment over {\", \\, a} of up to 6 (thorough 7) characters, alone, optional, and between two other segments. Non-trivial = the text contains a quote, a bracket or a question mark. Distinct = distinct protocol lines.",
		run:  runSelParseStream,
		eval: evalSelector,
		cmp:  cmpSelParse, // the probe lines (sel.select) carry the model's and the specification's answer
	})
}

func runSelParseStream(c *ctx) error {
	n := 4
	if c.thoro {
		n = 6
	}
	emit := func(t, tag string) {
		c.emitG("sel.parse "+hxs(t)+" "+lettersOracle(t), "selector.Parse",
			func(string) bool { return strings.ContainsAny(t, "\"[]?") },
			func(g string) []string { return []string{tag + ":" + strings.Fields(g)[0]} })
	}
	// what an accepted text MEANS is compared as well: it is resolved on two probe values (a map with the keys "", a, 0, 1 and
	// a list), so that a segment that keeps its text but changes its kind (field ↔ index) is seen
	probes := []string{"m(:i1,61:i2,30:i3,31:l(i7,i8))", "l(i10,i11,m(:i5,61:i6))"}
	probe := func(t, tag string) {
		// (the real parser runs here, while the cases are being generated: under a time limit, so that a parser that
		// does not return is reported by the case itself and not as a generator that hangs)
		if r, returned := boundedGen(func() string { return goParseSel(t) }); returned && !strings.HasPrefix(r, "ok") {
			return
		}
		for _, v := range probes {
			c.emitG("sel.select "+hxs(t)+" "+lettersOracle(t)+" "+v, "selector.Parse", func(string) bool { return true },
				func(g string) []string { return []string{tag + "-probe:" + strings.Fields(g)[0]} })
		}
	}
	allStrings(".[]\"?:-01a\\", n, func(s string) { emit("."+s, "parse"); probe("."+s, "parse") })
	for _, s := range []string{"", "a", "[0]", "?", "\"", "a.b", "[]", ".é", ".ß?", ".日本", ".a\xff", ".\xc3", "._x$-1", ".a b", ".9a",
		`.["é"]`, `.["a.b"]`, `.["a[0]"]`, `.["a\"b"]`, `.["a\\"]`, `.["a:b"]`, `.[" "]`, ".[00]", ".[-0]", ".[007]?", ".[+1]",
		// bounds are DECIMAL: leading zeros, and the prefixes and separators other number syntaxes allow
		".[010]", ".[08]", ".[09:]", ".[010:]", ".[:010]", ".[-010]", ".[08:09]", ".[0x10]", ".[0X1]", ".[0b11]", ".[0o17]", ".[1_0]", ".[0_1]", ".[1e1]", ".[ 1]", ".[1 ]", ".[0x1:]", ".[:0b1]",
		".[9007199254740991]", ".[9007199254740992]", ".[-9007199254740991]", ".[-9007199254740992]", ".[99999999999999999999]",
		".[1:9007199254740992]", ".[-9007199254740992:]", ".[:99999999999999999999]", ".[1:2:3]", ".[::]", ".[-:1]", ".[1:-]", ".[-:-]",
		".a???", ".??", ".?.?", ".a.?.b", ".a..b", "...", ".a...b", ".[0].", ".[0]..", ".a.[0]", `.foo["bar`, `.foo"`, `.foo["]`, `.["]"]`, `."a"`, `.a"b"c`,
		`.[""]`, `.[""]?`, `.["0"]`, `.["1"][0]`, `.[2][""]`, `.[2]["a"]`, `.["a"]`, `.a`, `.[0]`, `.[1]`, `.["1"][-1]`,
	} {
		emit(s, "parse-special")
		probe(s, "parse-special")
	}
	// EVERY content of one bracket segment over {", \, a} of up to 6 (thorough 7) characters, alone, followed by `?`, and between
	// two other segments: quoted names with escaped quotes and backslashes at every position, closed names followed by more text
	// (`.["a"\"]`), lone and doubled backslashes before the closing bracket
	{
		bl := 6
		if c.thoro {
			bl = 7
		}
		allStrings("\"\\a", bl, func(w string) {
			if !strings.Contains(w, "\"") {
				return
			}
			for _, t := range []string{".[" + w + "]", ".[" + w + "]?", ".x[" + w + "].y"} {
				emit(t, "parse-bracket")
			}
			probe(".["+w+"]", "parse-bracket")
		})
	}
	// mutations of valid selectors
	valid := []string{`.foo.bar[0]?["k"][1:2][]?`, `.a[-1:][]["x y"]?.b`, `.["a"]["b"]?[0][-1]?`, `.x?.y?.z?[:3]`}
	for i := 0; i < 4000; i++ {
		b := []byte(valid[c.rng.Intn(len(valid))])
		for k := 1 + c.rng.Intn(2); k > 0; k-- {
			p := c.rng.Intn(len(b))
			switch c.rng.Intn(3) {
			case 0:
				b = append(b[:p], b[p+1:]...)
			case 1:
				ch := ".[]\"?:-01a\\"[c.rng.Intn(11)]
				b = append(b[:p], append([]byte{ch}, b[p:]...)...)
			default:
				b[p] = ".[]\"?:-01a\\"[c.rng.Intn(11)]
			}
			if len(b) == 0 {
				b = []byte(".")
			}
		}
		emit(string(b), "parse-mutated")
	}
	// pairs of different valid selectors that share a 32-bit checksum (FNV-1, FNV-1a, CRC-32, Adler-32), found by a birthday
	// search over some 400 000 texts of the form .name.name[k] and parsed one after the other: what a text parses to is a
	// function of the text, not of what was parsed before it
	for _, pr := range checksumTwins(8) {
		for _, t := range []string{pr[0], pr[1], pr[0]} {
			emit(t, "parse-checksum-twin")
			probe(t, "parse-checksum-twin")
		}
	}
	c.r.Exhaustive = true
	c.r.ExhaustiveNote = "all strings up to the stated length over the 11-character alphabet are enumerated; mutations are sampled"
	return nil
}

// checksumTwins returns up to perHash pairs of distinct selector texts per checksum function with equal checksums.
func checksumTwins(perHash int) [][2]string {
	names := []string{"a", "b", "cc", "id", "nb", "to", "sub", "tags", "name", "size", "from", "meta", "args", "items", "value", "status", "headers", "x", "y", "z",
		"k1", "k2", "foo", "bar", "baz", "qux", "n", "m", "list", "map", "key", "val", "p", "q", "r", "s", "t", "u", "v", "w"}
	sums := []func([]byte) uint32{
		func(b []byte) uint32 { h := fnv.New32a(); h.Write(b); return h.Sum32() },
		func(b []byte) uint32 { h := fnv.New32(); h.Write(b); return h.Sum32() },
		crc32.ChecksumIEEE,
		adler32.Checksum,
	}
	var out [][2]string
	for _, sum := range sums {
		seen := make(map[uint32]string, 1<<19)
		found := 0
	search:
		for _, n1 := range names {
			for _, n2 := range names {
				for k := 0; k < 256; k++ {
					t := "." + n1 + "." + n2 + "[" + strconv.Itoa(k) + "]"
					h := sum([]byte(t))
					if o, ok := seen[h]; ok && o != t {
						out = append(out, [2]string{o, t})
						if found++; found >= perHash {
							break search
						}
						continue
					}
					seen[h] = t
				}
			}
		}
	}
	return out
}

// selMeaning: the dump of a parsed selector without the text each segment keeps for printing (flags, slice bounds, field
// name and index of every segment, in order)
func selMeaning(dump string) string {
	parts := strings.Split(dump, "/")
	for i, p := range parts {
		if j := strings.LastIndexByte(p, ':'); j >= 0 {
			parts[i] = p[:j]
		}
	}
	return strings.Join(parts, "/")
}

// cmpSelParse: C14 wants a selector text to be rejected or interpreted in full, and the printed selector to be A text that
// parses to a selector with the same meaning — not necessarily the text that was read (`.a??` may print as `.a?`). Compared are
// therefore accept/reject, the meaning of every segment, and — when Go prints another text than the model (which keeps the
// source text) — that Go's own parser reads the printed text back with the same meaning.
func cmpSelParse(line, g, m string) string {
	if !strings.HasPrefix(line, "sel.parse ") {
		return cmpImplSpec(line, g, m)
	}
	if g == m {
		return ""
	}
	gf, mf := strings.Fields(g), strings.Fields(m)
	if len(gf) != 3 || len(mf) != 3 || gf[0] != "ok" || mf[0] != "ok" {
		return "go≠model"
	}
	if selMeaning(gf[1]) != selMeaning(mf[1]) {
		return "go≠model"
	}
	if gf[2] == mf[2] {
		return "" // only the text kept per segment differs
	}
	back := strings.Fields(goParseSel(unhx(gf[2])))
	if len(back) != 3 || back[0] != "ok" || selMeaning(back[1]) != selMeaning(gf[1]) {
		return "the printed selector does not parse back to a selector with the same meaning"
	}
	return ""
}
