package main

import (
	"strings"
)

func init() {
	register(stream{
		name: "selparse",
		rule: "selector.Parse on \".\" followed by every string of length ≤ N (N=4 quick, 6 thorough) over the 11-character alphabet . [ ] \" ? : - 0 1 a \\ — i.e. every balanced and unbalanced combination of quotes, brackets, dots and question marks — plus strings that do not start with a dot, mutations of valid selectors and non-ASCII field names; compared: accept/reject, the field-by-field dump of every segment through its exported accessors, and Selector.String(). Added later: every accepted text is also RESOLVED on two probe values (a map with the keys \"\", a, 0, 1 and a list) and compared with the model's parse-then-resolve, so that a segment that keeps its text but changes its kind is seen. Non-trivial = the text contains a quote, a bracket or a question mark. Distinct = distinct protocol lines.",
		run:  runSelParseStream,
		eval: evalSelector,
		cmp:  cmpImplSpec, // the probe lines (sel.select) carry the model's and the specification's answer
	})
}

func runSelParseStream(c *ctx) error {
	n := 4
	if c.thoro {
		n = 6
	}
	emit := func(t, tag string) {
		c.emitG("sel.parse "+hxs(t)+" "+lettersOracle(t), "selector.Parse",
			func(string) bool { return strings.ContainsAny(t, "\"[]?") },
			func(g string) []string { return []string{tag + ":" + strings.Fields(g)[0]} })
	}
	// what an accepted text MEANS is compared as well: it is resolved on two probe values (a map with the keys "", a, 0, 1 and
	// a list), so that a segment that keeps its text but changes its kind (field ↔ index) is seen
	probes := []string{"m(:i1,61:i2,30:i3,31:l(i7,i8))", "l(i10,i11,m(:i5,61:i6))"}
	probe := func(t, tag string) {
		if !strings.HasPrefix(goParseSel(t), "ok") {
			return
		}
		for _, v := range probes {
			c.emitG("sel.select "+hxs(t)+" "+lettersOracle(t)+" "+v, "selector.Parse", func(string) bool { return true },
				func(g string) []string { return []string{tag + "-probe:" + strings.Fields(g)[0]} })
		}
	}
	allStrings(".[]\"?:-01a\\", n, func(s string) { emit("."+s, "parse"); probe("."+s, "parse") })
	for _, s := range []string{"", "a", "[0]", "?", "\"", "a.b", "[]", ".é", ".ß?", ".日本", ".a\xff", ".\xc3", "._x$-1", ".a b", ".9a",
		`.["é"]`, `.["a.b"]`, `.["a[0]"]`, `.["a\"b"]`, `.["a\\"]`, `.["a:b"]`, `.[" "]`, ".[00]", ".[-0]", ".[007]?", ".[+1]",
		".[9007199254740991]", ".[9007199254740992]", ".[-9007199254740991]", ".[-9007199254740992]", ".[99999999999999999999]",
		".[1:9007199254740992]", ".[-9007199254740992:]", ".[:99999999999999999999]", ".[1:2:3]", ".[::]", ".[-:1]", ".[1:-]", ".[-:-]",
		".a???", ".??", ".?.?", ".a.?.b", ".a..b", "...", ".a...b", ".[0].", ".[0]..", ".a.[0]", `.foo["bar`, `.foo"`, `.foo["]`, `.["]"]`, `."a"`, `.a"b"c`,
		`.[""]`, `.[""]?`, `.["0"]`, `.["1"][0]`, `.[2][""]`, `.[2]["a"]`, `.["a"]`, `.a`, `.[0]`, `.[1]`, `.["1"][-1]`,
	} {
		emit(s, "parse-special")
		probe(s, "parse-special")
	}
	// mutations of valid selectors
	valid := []string{`.foo.bar[0]?["k"][1:2][]?`, `.a[-1:][]["x y"]?.b`, `.["a"]["b"]?[0][-1]?`, `.x?.y?.z?[:3]`}
	for i := 0; i < 4000; i++ {
		b := []byte(valid[c.rng.Intn(len(valid))])
		for k := 1 + c.rng.Intn(2); k > 0; k-- {
			p := c.rng.Intn(len(b))
			switch c.rng.Intn(3) {
			case 0:
				b = append(b[:p], b[p+1:]...)
			case 1:
				ch := ".[]\"?:-01a\\"[c.rng.Intn(11)]
				b = append(b[:p], append([]byte{ch}, b[p:]...)...)
			default:
				b[p] = ".[]\"?:-01a\\"[c.rng.Intn(11)]
			}
			if len(b) == 0 {
				b = []byte(".")
			}
		}
		emit(string(b), "parse-mutated")
	}
	c.r.Exhaustive = true
	c.r.ExhaustiveNote = "all strings up to the stated length over the 11-character alphabet are enumerated; mutations are sampled"
	return nil
}
