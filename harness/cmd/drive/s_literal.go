package main

import (
	"encoding/json"
	"fmt"
	"math"
	"math/big"
	"sort"
	"strconv"
	"strings"

	"github.com/ipld/go-ipld-prime/datamodel"
	"github.com/ipld/go-ipld-prime/node/basicnode"
	"github.com/ucan-wg/go-ucan/did"
	"github.com/ucan-wg/go-ucan/pkg/args"
	"github.com/ucan-wg/go-ucan/pkg/command"
	"github.com/ucan-wg/go-ucan/pkg/meta"
	"github.com/ucan-wg/go-ucan/pkg/policy/literal"
	"github.com/ucan-wg/go-ucan/token/delegation"
	"github.com/ucan-wg/go-ucan/token/invocation"
)

// numeric boundary values of every Go integer type, as (Go value, exact mathematical value)
type numCase struct {
	name string
	v    any
	want *big.Int
}

func bigU(u uint64) *big.Int { return new(big.Int).SetUint64(u) }
func bigI(i int64) *big.Int  { return big.NewInt(i) }

func numCases() []numCase {
	var cs []numCase
	add := func(name string, v any, w *big.Int) { cs = append(cs, numCase{name, v, w}) }
	for _, i := range []int64{0, 1, -1, math.MaxInt8, math.MinInt8, math.MaxInt16, math.MinInt16, math.MaxInt32, math.MinInt32,
		1<<53 - 1, 1 << 53, -(1<<53 - 1), -(1 << 53), math.MaxInt64, math.MinInt64} {
		add(fmt.Sprintf("int64(%d)", i), i, bigI(i))
		add(fmt.Sprintf("int(%d)", i), int(i), bigI(i))
		if i >= math.MinInt32 && i <= math.MaxInt32 {
			add(fmt.Sprintf("int32(%d)", i), int32(i), bigI(i))
		}
		if i >= math.MinInt16 && i <= math.MaxInt16 {
			add(fmt.Sprintf("int16(%d)", i), int16(i), bigI(i))
		}
		if i >= math.MinInt8 && i <= math.MaxInt8 {
			add(fmt.Sprintf("int8(%d)", i), int8(i), bigI(i))
		}
	}
	for _, u := range []uint64{0, 1, math.MaxUint8, math.MaxUint16, math.MaxUint32, 1<<53 - 1, 1 << 53, 1<<63 - 1, 1 << 63, 1<<63 + 1, math.MaxUint64 - 1, math.MaxUint64} {
		add(fmt.Sprintf("uint64(%d)", u), u, bigU(u))
		add(fmt.Sprintf("uint(%d)", u), uint(u), bigU(u))
		if u <= math.MaxUint32 {
			add(fmt.Sprintf("uint32(%d)", u), uint32(u), bigU(u))
		}
		if u <= math.MaxUint16 {
			add(fmt.Sprintf("uint16(%d)", u), uint16(u), bigU(u))
		}
		if u <= math.MaxUint8 {
			add(fmt.Sprintf("uint8(%d)", u), uint8(u), bigU(u))
		}
	}
	return cs
}

// exactOrRejected: a supplied integer is stored exactly or refused, never silently altered.
func exactOrRejected(n datamodel.Node, err error, want *big.Int) string {
	if err != nil {
		return ""
	}
	if n.Kind() != datamodel.Kind_Int {
		return "stored as kind " + n.Kind().String()
	}
	got := new(big.Int)
	if u, ok := n.(datamodel.UintNode); ok {
		if v, err := u.AsUint(); err == nil {
			got.SetUint64(v)
		}
	} else {
		v, err := n.AsInt()
		if err != nil {
			return "unreadable integer"
		}
		got.SetInt64(v)
	}
	if got.Cmp(want) != 0 {
		return fmt.Sprintf("stored %s for the supplied value %s", got, want)
	}
	return ""
}

func literalCheck(idx int) (out string) {
	defer func() {
		if r := recover(); r != nil {
			out = fmt.Sprint("panic: ", r)
		}
	}()
	cs := numCases()
	if idx >= len(cs) {
		return "bad-index"
	}
	c := cs[idx]
	var problems []string
	chk := func(where string, n datamodel.Node, err error) {
		if p := exactOrRejected(n, err, c.want); p != "" {
			problems = append(problems, where+"("+c.name+"): "+p)
		}
	}
	n, err := literal.Any(c.v)
	chk("literal.Any", n, err)
	// nested: slice and map element (reflection path)
	n, err = literal.Any([]any{c.v})
	if err == nil {
		e, _ := n.LookupByIndex(0)
		chk("literal.Any([]any{…})", e, nil)
	}
	n, err = literal.Any(map[string]any{"k": c.v})
	if err == nil {
		e, _ := n.LookupByString("k")
		chk("literal.Any(map…)", e, nil)
	}
	// a rejected value must not have been stored on the way (a later use of the same Args / Meta would carry it)
	for _, nv := range []datamodel.Node{basicnode.NewInt(1 << 53), basicnode.NewInt(-(1 << 53))} {
		ar := args.New()
		_ = ar.Add("first", int64(1))
		if err := ar.Add("k", nv); err != nil {
			if _, gerr := ar.GetNode("k"); gerr == nil {
				problems = append(problems, "args.Add returned an error for an out-of-range node but kept it")
			}
			n := 0
			for range ar.Iter() {
				n++
			}
			if n != 1 {
				problems = append(problems, "args.Add returned an error but changed the arguments")
			}
		} else {
			problems = append(problems, "args.Add accepted an out-of-range node")
		}
	}
	a := args.New()
	if err := a.Add("k", c.v); err == nil {
		v, _ := a.GetNode("k")
		chk("args.Add", v, nil)
		// accepted arguments are within the safe bounds
		if c.want.CmpAbs(big.NewInt(1<<53-1)) > 0 {
			problems = append(problems, "args.Add("+c.name+") accepted a value beyond ±(2^53-1)")
		}
	}
	m := meta.NewMeta()
	if err := m.Add("k", c.v); err == nil {
		v, _ := m.GetNode("k")
		chk("meta.Add", v, nil)
	}
	if len(problems) > 0 {
		return strings.Join(problems, "; ")
	}
	return "ok"
}

func literalFloat(f float64) datamodel.Node { return basicnode.NewFloat(f) }

// intsWithin reports whether every integer in the node lies within ±(2^53−1).
func intsWithin(n datamodel.Node) bool {
	switch n.Kind() {
	case datamodel.Kind_Int:
		if _, ok := n.(datamodel.UintNode); ok {
			if u, err := n.(datamodel.UintNode).AsUint(); err != nil || u > 1<<53-1 {
				return false
			}
			return true
		}
		v, err := n.AsInt()
		return err == nil && v <= 1<<53-1 && v >= -(1<<53-1)
	case datamodel.Kind_List:
		it := n.ListIterator()
		for !it.Done() {
			_, v, err := it.Next()
			if err != nil || !intsWithin(v) {
				return false
			}
		}
	case datamodel.Kind_Map:
		it := n.MapIterator()
		for !it.Done() {
			_, v, err := it.Next()
			if err != nil || !intsWithin(v) {
				return false
			}
		}
	}
	return true
}

// literalNodes: ready-made IPLD nodes holding an out-of-range integer, supplied directly, nested in IPLD
// containers and nested in Go containers, through every way a caller has of putting a value into a token's
// arguments. Accepted ⇒ every integer kept is within ±(2^53−1); a token built from them never carries one.
func literalNodes(rtOnly bool) (out string) {
	defer func() {
		if r := recover(); r != nil {
			out = fmt.Sprint("panic: ", r)
		}
	}()
	var problems []string
	bad := []datamodel.Node{basicnode.NewInt(1 << 53), basicnode.NewInt(-(1 << 53)), basicnode.NewInt(math.MaxInt64), basicnode.NewInt(math.MinInt64),
		basicnode.NewInt(math.MinInt64 + 1), basicnode.NewUint(1 << 63), basicnode.NewUint(math.MaxUint64)}
	k := keyFor("ed25519", 0)
	for bi, b := range bad {
		wrapList := func() datamodel.Node {
			nb := basicnode.Prototype.List.NewBuilder()
			la, _ := nb.BeginList(2)
			la.AssembleValue().AssignInt(1)
			la.AssembleValue().AssignNode(b)
			la.Finish()
			return nb.Build()
		}()
		wrapMap := func() datamodel.Node {
			nb := basicnode.Prototype.Map.NewBuilder()
			ma, _ := nb.BeginMap(1)
			ma.AssembleKey().AssignString("m")
			ma.AssembleValue().AssignNode(wrapList)
			ma.Finish()
			return nb.Build()
		}()
		values := map[string]any{
			"node":             b,
			"ipld-list":        wrapList,
			"ipld-map":         wrapMap,
			"go-slice":         []any{int64(1), b},
			"go-slice-of-node": []datamodel.Node{b},
			"go-map":           map[string]any{"m": wrapMap},
			"go-map-of-slice":  map[string]any{"k": []any{"x", wrapList}},
		}
		for name, v := range values {
			where := fmt.Sprintf("%s#%d", name, bi)
			a := args.New()
			if err := a.Add("k", v); err == nil {
				if n, err := a.GetNode("k"); err == nil && !intsWithin(n) {
					problems = append(problems, "args.Add("+where+") kept an integer beyond ±(2^53-1)")
				}
			}
			if n, err := literal.Any(v); err == nil {
				a2 := args.New()
				if err := a2.Add("k", n); err == nil {
					if got, err := a2.GetNode("k"); err == nil && !intsWithin(got) {
						problems = append(problems, "args.Add(literal.Any("+where+")) kept an integer beyond ±(2^53-1)")
					}
				}
			}
			// metadata: what a constructor accepts must unseal again (whatever the bounds policy for metadata is)
			if n, ok := v.(datamodel.Node); ok {
				if mt, err := invocation.New(k.did, k.did, command.MustParse("/x"), nil, invocation.WithMeta("k", n)); err == nil {
					if sealed, _, err := mt.ToSealed(k.priv); err == nil {
						if _, _, err := invocation.FromSealed(sealed); err != nil {
							problems = append(problems, "invocation with metadata "+where+" seals but does not unseal: "+err.Error())
						}
					}
				}
				if dt, err := delegation.Root(k.did, k.did, command.MustParse("/x"), nil, delegation.WithMeta("k", n)); err == nil {
					if sealed, _, err := dt.ToSealed(k.priv); err == nil {
						if _, _, err := delegation.FromSealed(sealed); err != nil {
							problems = append(problems, "delegation with metadata "+where+" seals but does not unseal: "+err.Error())
						}
					}
				}
			}
			tk, err := invocation.New(k.did, k.did, command.MustParse("/x"), nil, invocation.WithArgument("k", v))
			if err == nil {
				if n, err := tk.Arguments().GetNode("k"); err == nil && !intsWithin(n) {
					problems = append(problems, "invocation.New(WithArgument("+where+")) returned a token carrying an integer beyond ±(2^53-1)")
				}
				if sealed, _, err := tk.ToSealed(k.priv); err == nil {
					if _, _, err := invocation.FromSealed(sealed); err != nil {
						problems = append(problems, "invocation with argument "+where+" seals but does not unseal: "+err.Error())
					}
				}
			}
		}
	}
	sort.Strings(problems)
	if rtOnly {
		problems = keepRoundTrip(problems)
	}
	if len(problems) > 0 {
		if len(problems) > 4 {
			problems = append(problems[:4], fmt.Sprintf("… %d more", len(problems)-4))
		}
		return strings.Join(problems, "; ")
	}
	return "ok"
}

// ctorWellFormed: whatever options a caller combines, a token that a constructor returns has a defined issuer, the
// principals its type requires and a nonce of at least 12 bytes, and it unseals again.
func ctorWellFormed(rtOnly bool) (out string) {
	defer func() {
		if r := recover(); r != nil {
			out = fmt.Sprint("panic: ", r)
		}
	}()
	var problems []string
	k := keyFor("ed25519", 0)
	aud := keyFor("ed25519", 1)
	invOpts := map[string][]invocation.Option{
		"default":            nil,
		"WithEmptyNonce":     {invocation.WithEmptyNonce()},
		"WithNonce(empty)":   {invocation.WithNonce([]byte{})},
		"WithNonce(nil)":     {invocation.WithNonce(nil)},
		"WithNonce(1 byte)":  {invocation.WithNonce([]byte{1})},
		"WithNonce(11 byte)": {invocation.WithNonce(make([]byte, 11))},
		"WithNonce(12 byte)": {invocation.WithNonce(make([]byte, 12))},
		"empty then meta":    {invocation.WithEmptyNonce(), invocation.WithMeta("a", "b")},
	}
	for name, opts := range invOpts {
		t, err := invocation.New(k.did, aud.did, command.MustParse("/x"), nil, opts...)
		if err != nil {
			continue
		}
		if len(t.Nonce()) < 12 {
			problems = append(problems, fmt.Sprintf("invocation.New(%s) returned a token with a nonce of %d bytes", name, len(t.Nonce())))
		}
		if !t.Issuer().Defined() || !t.Subject().Defined() {
			problems = append(problems, "invocation.New("+name+") returned a token without issuer or subject")
		}
		if sealed, _, err := t.ToSealed(k.priv); err == nil {
			if _, _, err := invocation.FromSealed(sealed); err != nil {
				problems = append(problems, "invocation.New("+name+") seals but does not unseal: "+err.Error())
			}
		}
	}
	dlgOpts := map[string][]delegation.Option{
		"default":            nil,
		"WithNonce(empty)":   {delegation.WithNonce([]byte{})},
		"WithNonce(nil)":     {delegation.WithNonce(nil)},
		"WithNonce(11 byte)": {delegation.WithNonce(make([]byte, 11))},
		"WithNonce(12 byte)": {delegation.WithNonce(make([]byte, 12))},
	}
	for name, opts := range dlgOpts {
		for _, root := range []bool{true, false} {
			var t *delegation.Token
			var err error
			if root {
				t, err = delegation.Root(k.did, aud.did, command.MustParse("/x"), nil, opts...)
			} else {
				t, err = delegation.New(k.did, aud.did, command.MustParse("/x"), nil, opts...)
			}
			if err != nil {
				continue
			}
			if len(t.Nonce()) < 12 {
				problems = append(problems, fmt.Sprintf("delegation constructor (%s) returned a token with a nonce of %d bytes", name, len(t.Nonce())))
			}
			if !t.Issuer().Defined() || !t.Audience().Defined() {
				problems = append(problems, "delegation constructor ("+name+") returned a token without issuer or audience")
			}
			if sealed, _, err := t.ToSealed(k.priv); err == nil {
				if _, _, err := delegation.FromSealed(sealed); err != nil {
					problems = append(problems, "delegation constructor ("+name+") seals but does not unseal: "+err.Error())
				}
			}
		}
	}
	// Root: the subject is a REQUIRED principal of a root delegation (and is the issuer); a WithSubject among the caller's
	// options — an option list shared with New, say — is documented as silently overwritten, wherever it stands in the list
	third := keyFor("ed25519", 2)
	for name, sub := range map[string]did.DID{"undefined": did.Undef, "foreign": third.did, "the audience": aud.did} {
		lists := map[string][]delegation.Option{
			"only":  {delegation.WithSubject(sub)},
			"last":  {delegation.WithNonce(make([]byte, 12)), delegation.WithSubject(sub)},
			"first": {delegation.WithSubject(sub), delegation.WithNonce(make([]byte, 12))},
			"twice": {delegation.WithSubject(sub), delegation.WithMeta("a", "b"), delegation.WithSubject(sub)},
			"roomy": append(make([]delegation.Option, 0, 8), delegation.WithSubject(sub)),
		}
		for pos, opts := range lists {
			t, err := delegation.Root(k.did, aud.did, command.MustParse("/x"), nil, opts...)
			if err != nil {
				continue
			}
			if !t.Subject().Defined() {
				problems = append(problems, "delegation.Root with WithSubject("+name+") ("+pos+") returned a root token without subject")
			} else if t.Subject().String() != t.Issuer().String() {
				problems = append(problems, "delegation.Root with WithSubject("+name+") ("+pos+") returned a root token whose subject is not its issuer")
			}
		}
	}
	if rtOnly {
		problems = keepRoundTrip(problems)
	}
	sort.Strings(problems)
	if len(problems) > 0 {
		return strings.Join(problems, "; ")
	}
	return "ok"
}

// cmdHistory: strings the command grammar refuses stay refused after the same text has been ASSEMBLED with
// command.New / Join (which do not validate), by the parser, by both token constructors and by the decoders.
func cmdHistory(rtOnly bool) (out string) {
	defer func() {
		if r := recover(); r != nil {
			out = fmt.Sprint("panic: ", r)
		}
	}()
	var problems []string
	k := keyFor("ed25519", 0)
	type tc struct {
		text string
		make func() command.Command
	}
	cases := []tc{
		{"/Crud/Read", func() command.Command { return command.New("Crud", "Read") }},
		{"/crud/read/", func() command.Command { return command.MustParse("/crud").Join("read/") }},
		{"/ADMIN", func() command.Command { return command.Top().Join("ADMIN") }},
		{"/hist/Ärger", func() command.Command { return command.New("hist", "Ärger") }},
		{"/hist/x/", func() command.Command { return command.New("hist", "x/") }},
	}
	for _, c := range cases {
		if _, err := command.Parse(c.text); err == nil {
			problems = append(problems, "Parse accepts "+c.text+" before anything else happened")
			continue
		}
		made := c.make()
		if string(made) != c.text {
			continue // the assembling functions produced something else: nothing to compare
		}
		if _, err := command.Parse(c.text); err == nil {
			problems = append(problems, "Parse accepts "+c.text+" after New/Join assembled it")
		}
		if command.IsValid(c.text) {
			problems = append(problems, "IsValid accepts "+c.text+" after New/Join assembled it")
		}
		if _, err := delegation.Root(k.did, k.did, made, nil); err == nil {
			problems = append(problems, "delegation.Root accepts the command "+c.text)
		}
		if _, err := invocation.New(k.did, k.did, made, nil); err == nil {
			problems = append(problems, "invocation.New accepts the command "+c.text)
		}
	}
	// a VALID command is kept byte for byte by the constructors and by sealing (empty segments included)
	for _, text := range []string{"/a//b", "//a", "/crud//create", "/a/b", "/"} {
		cmd, err := command.Parse(text)
		if err != nil {
			problems = append(problems, "Parse refuses "+text)
			continue
		}
		if d, err := delegation.Root(k.did, k.did, cmd, nil); err != nil {
			problems = append(problems, "delegation.Root refuses the valid command "+text)
		} else {
			if d.Command().String() != text {
				problems = append(problems, "delegation.Root stores "+d.Command().String()+" for the command "+text)
			}
			if sealed, _, err := d.ToSealed(k.priv); err == nil {
				if back, _, err := delegation.FromSealed(sealed); err != nil || back.Command().String() != text {
					problems = append(problems, "a delegation for "+text+" does not come back with that command")
				}
			}
		}
		if iv, err := invocation.New(k.did, k.did, cmd, nil); err != nil {
			problems = append(problems, "invocation.New refuses the valid command "+text)
		} else if iv.Command().String() != text {
			problems = append(problems, "invocation.New stores "+iv.Command().String()+" for the command "+text)
		}
		// the same command as a caller may hold it without having gone through Parse (Command is a string type; New and Join
		// assemble text too): what was sealed is what is unsealed, by every decoder
		for how, raw := range map[string]command.Command{"converted": command.Command(text), "joined": command.Top().Join(strings.TrimPrefix(text, "/"))} {
			if string(raw) != text {
				continue
			}
			if d, err := delegation.Root(k.did, k.did, raw, nil); err == nil {
				if sealed, _, err := d.ToSealed(k.priv); err == nil {
					if back, _, err := delegation.FromSealed(sealed); err != nil || back.Command().String() != d.Command().String() {
						problems = append(problems, "a delegation for "+text+" ("+how+") does not come back with that command")
					}
				}
				if js, err := d.ToDagJson(k.priv); err == nil {
					if back, err := delegation.FromDagJson(js); err != nil || back.Command().String() != d.Command().String() {
						problems = append(problems, "a delegation for "+text+" ("+how+") does not come back from DAG-JSON with that command")
					}
				}
			}
			if iv, err := invocation.New(k.did, k.did, raw, nil); err == nil {
				if sealed, _, err := iv.ToSealed(k.priv); err == nil {
					if back, _, err := invocation.FromSealed(sealed); err != nil || back.Command().String() != iv.Command().String() {
						problems = append(problems, "an invocation of "+text+" ("+how+") does not come back with that command")
					}
				}
			}
		}
	}
	if rtOnly {
		problems = keepRoundTrip(problems)
	}
	if len(problems) > 0 {
		return strings.Join(problems, "; ")
	}
	return "ok"
}

// keepRoundTrip: of the problems a constructor / literal / command-history check found, those that are about sealing and
// unsealing (C07's matter); the others (a value stored inexactly, a token lacking a principal, a refused text accepted) belong
// to the property the check runs under in its other class and must not be reported against the round trip
func keepRoundTrip(problems []string) []string {
	var out []string
	for _, p := range problems {
		if strings.Contains(p, "does not unseal") || strings.Contains(p, "does not come back") {
			out = append(out, p)
		}
	}
	return out
}

// literalTextNumbers: numbers a caller holds as TEXT (encoding/json's json.Number, what Decoder.UseNumber yields — a string
// type) handed to literal.Any, args.Add and meta.Add, alone and inside Go maps and lists. Whatever the library makes of such a
// value — a string, a number, a refusal — it does not alter it silently: a string equals the text; an integer node equals the
// integer the text spells and lies within ±(2^53−1); a float node for an INTEGER text is exactly that integer (no rounding),
// for any other text it is the float the text spells.
func literalTextNumbers() (out string) {
	defer func() {
		if r := recover(); r != nil {
			out = fmt.Sprint("panic: ", r)
		}
	}()
	texts := []string{"0", "1", "-1", "9007199254740991", "9007199254740992", "-9007199254740992", "9223372036854775807", "9223372036854775808",
		"-9223372036854775808", "-9223372036854775809", "18446744073709551615", "18446744073709551616", "123456789012345678901234567890",
		"0.5", "1.5", "1e3", "1E2", "-0", "1e400", "not-a-number", ""}
	check := func(where, text string, n datamodel.Node) string {
		if n == nil {
			return ""
		}
		isInt := len(text) > 0 && strings.Trim(strings.TrimPrefix(text, "-"), "0123456789") == "" && text != "-"
		switch n.Kind() {
		case datamodel.Kind_String:
			if s, _ := n.AsString(); s != text {
				return where + ": the text " + text + " is stored as the string " + s
			}
		case datamodel.Kind_Int:
			want, ok := new(big.Int).SetString(text, 10)
			if !ok {
				return where + ": the text " + text + " is stored as an integer"
			}
			if p := exactOrRejected(n, nil, want); p != "" {
				return where + ": " + text + " " + p
			}
			if want.CmpAbs(big.NewInt(1<<53-1)) > 0 {
				return where + ": the integer " + text + " beyond ±(2^53-1) is kept"
			}
		case datamodel.Kind_Float:
			f, _ := n.AsFloat()
			if isInt {
				want, _ := new(big.Int).SetString(text, 10)
				if bf, acc := new(big.Float).SetInt(want).Float64(); acc != big.Exact || bf != f {
					return fmt.Sprintf("%s: the integer %s is stored as the float %v (not that number)", where, text, f)
				}
			} else if pf, err := strconv.ParseFloat(text, 64); err != nil || (pf != f && !(pf != pf && f != f)) {
				return fmt.Sprintf("%s: the text %s is stored as the float %v", where, text, f)
			}
		default:
			return where + ": the text " + text + " is stored as kind " + n.Kind().String()
		}
		return ""
	}
	var problems []string
	note := func(p string) {
		if p != "" {
			problems = append(problems, p)
		}
	}
	for _, text := range texts {
		v := json.Number(text)
		if n, err := literal.Any(v); err == nil {
			note(check("literal.Any", text, n))
		}
		if n, err := literal.Any(map[string]any{"k": v}); err == nil && n != nil && n.Kind() == datamodel.Kind_Map {
			if e, err := n.LookupByString("k"); err == nil {
				note(check("literal.Any(map)", text, e))
			}
		}
		if n, err := literal.Any([]any{v}); err == nil && n != nil && n.Kind() == datamodel.Kind_List {
			if e, err := n.LookupByIndex(0); err == nil {
				note(check("literal.Any(list)", text, e))
			}
		}
		a := args.New()
		if err := a.Add("k", v); err == nil {
			if e, err := a.GetNode("k"); err == nil {
				note(check("args.Add", text, e))
			}
		}
		m := meta.NewMeta()
		if err := m.Add("k", v); err == nil {
			if e, err := m.GetNode("k"); err == nil {
				note(check("meta.Add", text, e))
			}
		}
	}
	sort.Strings(problems)
	if len(problems) > 4 {
		problems = append(problems[:4], fmt.Sprintf("… %d more", len(problems)-4))
	}
	if len(problems) > 0 {
		return strings.Join(problems, "; ")
	}
	return "ok"
}
