// drive runs one correspondence stream: it generates cases, runs the real go-ucan code on them
// in-process, asks the Lean model driver for its answers and reports where they differ.
package main

import (
	"flag"
	"fmt"
	"os"
	"sort"
	"strings"
	"sync/atomic"
	"time"

	"verifharness/internal/model"
	"verifharness/internal/prng"
	"verifharness/internal/rep"
)

type ctx struct {
	tier  string
	seed  uint64
	rng   *prng.R
	m     *model.Model
	r     *rep.Report
	thoro bool
	args  []string
	s     *stream
	b     *batcher
}

// emit evaluates one protocol line on the real code and queues it for the model.
func (c *ctx) emit(line, class string, nontriv bool, tags ...string) {
	g, rd := safeEval(c.s, line)
	if strings.HasPrefix(g, "SKIPPED") {
		return // the stream stopped evaluating after repeated hangs, which are reported themselves
	}
	c.b.add(pending{line: line, readable: rd, goOut: g, class: abnormalClass(class, g), nontriv: nontriv, tags: tags})
}

// abnormalClass gives panics and hangs of the code under test a class of their own, so that they are
// kept among the reported disagreements whatever else the class holds.
func abnormalClass(class, g string) string {
	switch {
	case strings.HasPrefix(g, "PANIC"):
		return class + "|PANIC"
	case strings.HasPrefix(g, "TIMEOUT"):
		return class + "|TIMEOUT"
	}
	return class
}

// emitPre queues a case whose Go observable was computed by the caller (batched evaluation, e.g. when
// wall-clock time must pass between two steps); replay still goes through the stream's eval.
func (c *ctx) emitPre(line, goOut, readable, class string, nontriv bool, tags ...string) {
	c.b.add(pending{line: line, readable: readable, goOut: goOut, class: class, nontriv: nontriv, tags: tags})
}

// emitG is emit for callers that need the Go observable (e.g. to tag by outcome).
func (c *ctx) emitG(line, class string, nontriv func(goOut string) bool, tags func(goOut string) []string) string {
	g, rd := safeEval(c.s, line)
	if strings.HasPrefix(g, "SKIPPED") {
		return g
	}
	c.b.add(pending{line: line, readable: rd, goOut: g, class: abnormalClass(class, g), nontriv: nontriv(g), tags: tags(g)})
	return g
}

// safeEval is the stream's eval with a panic of the code under test turned into the observable
// "PANIC <message>" and a call that does not return within the limit into "TIMEOUT" (C09: no entry point
// may panic or hang), so that the run goes on and the case is reported. A timed-out call cannot be
// stopped: its goroutine is abandoned, and after a few of them the stream stops evaluating new cases.
var evalTimeouts, slowEvals atomic.Int32

const evalLimit = 15 * time.Second

func safeEval(s *stream, line string) (g, rd string) {
	if evalTimeouts.Load() >= 3 {
		return "SKIPPED after 3 timeouts", line
	}
	lim := evalLimit
	if s.limit > 0 {
		lim = s.limit
	}
	type res struct{ g, rd string }
	ch := make(chan res, 1)
	go func() {
		defer func() {
			if r := recover(); r != nil {
				ch <- res{"PANIC " + strings.ReplaceAll(fmt.Sprint(r), "\n", " "), line}
			}
		}()
		g, rd := s.eval(line)
		ch <- res{g, rd}
	}()
	select {
	case r := <-ch:
		return r.g, r.rd
	case <-time.After(lim):
	}
	// Slow is not hung: on a loaded machine a call with key generation or many signature checks can exceed the
	// limit. The same call gets three more limits to come back before it is reported as not returning.
	select {
	case r := <-ch:
		slowEvals.Add(1)
		return r.g, r.rd
	case <-time.After(3 * lim):
		evalTimeouts.Add(1)
		return "TIMEOUT the call did not return within " + (4 * lim).String(), line
	}
}

// replay re-runs a single protocol line of a stream against the current tree and the model.
func replay(modelPath, name, line string) int {
	s, ok := streams[name]
	if !ok {
		fmt.Fprintln(os.Stderr, "unknown stream", name)
		return 2
	}
	m, err := model.Start(modelPath)
	if err != nil {
		fmt.Fprintln(os.Stderr, err)
		return 2
	}
	defer m.Close()
	g, rd := safeEval(&s, line)
	mo, err := m.One(line)
	if err != nil {
		fmt.Fprintln(os.Stderr, err)
		return 2
	}
	dir := ""
	if s.cmp != nil {
		dir = s.cmp(line, g, mo)
	} else if g != mo {
		dir = "go≠model"
	}
	fmt.Printf("case:     %s\nreadable: %s\ngo:       %s\nmodel:    %s\n", line, rd, g, mo)
	if dir != "" {
		fmt.Printf("DISAGREE direction=%s\n", dir)
		return 1
	}
	fmt.Println("AGREE")
	return 0
}

type stream struct {
	name string
	rule string
	// run generates cases and calls c.emit for each protocol line
	run func(c *ctx) error
	// eval runs the real Go code on one protocol line: canonical observable + readable form
	eval func(line string) (goOut string, readable string)
	// cmp decides agreement; nil means string equality. It returns the failed direction ("" if fine).
	cmp func(line, goOut, modelOut string) string
	// classByDirection appends the failed direction to the disagreement class (streams that serve
	// several properties attribute a disagreement to a property by its direction)
	classByDirection bool
	// limit is the time one case may take before it counts as a hang (0 = evalLimit)
	limit time.Duration
}

var streams = map[string]stream{}

func register(s stream) { streams[s.name] = s }

func main() {
	tier := flag.String("tier", "quick", "quick|thorough")
	seed := flag.Uint64("seed", 1, "PRNG seed")
	out := flag.String("out", "", "report file (JSON)")
	modelPath := flag.String("model", "", "path to the ucan-model executable")
	flag.Parse()
	if flag.NArg() < 1 {
		var names []string
		for n := range streams {
			names = append(names, n)
		}
		sort.Strings(names)
		fmt.Println("streams:", names)
		os.Exit(2)
	}
	if flag.Arg(0) == "child" {
		childMain(flag.Arg(1), flag.Arg(2))
		return
	}
	if flag.Arg(0) == "replay" {
		os.Exit(replay(*modelPath, flag.Arg(1), flag.Arg(2)))
	}
	s, ok := streams[flag.Arg(0)]
	if !ok {
		fmt.Fprintln(os.Stderr, "unknown stream", flag.Arg(0))
		os.Exit(2)
	}
	m, err := model.Start(*modelPath)
	if err != nil {
		fmt.Fprintln(os.Stderr, "cannot start model:", err)
		os.Exit(2)
	}
	defer m.Close()
	c := &ctx{tier: *tier, seed: *seed, rng: prng.New(*seed), m: m, thoro: *tier == "thorough", args: flag.Args()[1:], s: &s}
	c.b = &batcher{c: c}
	c.r = rep.New(s.name, *tier, *seed, s.rule)
	if err := s.run(c); err != nil {
		c.r.Error = err.Error()
	} else if err := c.b.done(); err != nil {
		c.r.Error = err.Error()
	}
	if *out != "" {
		if n := slowEvals.Load(); n > 0 {
			c.r.Notes = append(c.r.Notes, fmt.Sprintf("%d call(s) exceeded the per-case limit but returned within the grace period (slow, not hung)", n))
		}
		if err := c.r.Write(*out); err != nil {
			fmt.Fprintln(os.Stderr, err)
			os.Exit(2)
		}
	}
	if c.r.Error != "" {
		fmt.Fprintln(os.Stderr, "stream error:", c.r.Error)
		os.Exit(3)
	}
	fmt.Printf("stream=%s evaluations=%d distinct_nontrivial=%d disagreements=%d\n", s.name, c.r.Evaluations, c.r.DistinctNontrivial, c.r.NDisagreements)
}

// a pending case: protocol line for the model plus what Go answered
type pending struct {
	line     string
	readable string
	goOut    string
	class    string
	nontriv  bool
	tags     []string
}

// flush sends the pending cases to the model and records results.
func (c *ctx) flush(ps []pending) error {
	if len(ps) == 0 {
		return nil
	}
	lines := make([]string, len(ps))
	for i, p := range ps {
		lines[i] = p.line
	}
	outs, err := c.m.Batch(lines)
	if err != nil {
		return err
	}
	for i, p := range ps {
		c.r.Case(p.line, p.nontriv, p.tags...)
		dir := ""
		if c.s.cmp != nil {
			dir = c.s.cmp(p.line, p.goOut, outs[i])
		} else if p.goOut != outs[i] {
			dir = "go≠model"
		}
		if dir != "" {
			cl := p.class
			if c.s.classByDirection {
				cl += "|" + dir
			}
			c.r.Disagree(rep.Disagreement{Case: p.line, Readable: p.readable, Go: p.goOut, Model: outs[i], Direction: dir, Class: cl})
		}
	}
	return nil
}

// batcher collects cases and flushes every n.
type batcher struct {
	c  *ctx
	ps []pending
}

func (b *batcher) add(p pending) error {
	b.ps = append(b.ps, p)
	if len(b.ps) >= 20000 {
		return b.done()
	}
	return nil
}

func (b *batcher) done() error {
	err := b.c.flush(b.ps)
	b.ps = b.ps[:0]
	return err
}
