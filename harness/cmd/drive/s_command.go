package main

import (
	"encoding/hex"
	"errors"
	"strings"
	"unicode"

	"github.com/ucan-wg/go-ucan/pkg/command"
)

func init() {
	register(stream{
		name: "command",
		rule: "parser: every string of length ≤ N over {/,a,b,A} (N=5 quick, 7 thorough) plus random UTF-8/binary strings; covers/segments: every ordered pair of the valid ones of length ≤ M (M=5 quick, 6 thorough); join: every valid base × every list of ≤ 3 segments over {\"\",a,b,ab}. Added later: the slice Segments() returns is overwritten and appended to, then asked again; Join on a slice with spare capacity leaves it unchanged and answers the same twice; text assembled by New/Join stays refused by Parse/IsValid/constructors; constructors and sealing keep /a//b and //a byte for byte. Covers and Segments on commands whose segments are *, **, ., .., ~, ?, empty: ordinary segments. Non-trivial = parser cases that pass the leading-slash test, covers pairs where one string is a textual prefix of the other, all segments/join cases. Distinct = distinct protocol lines.",
		run:  runCommandStream,
		eval: evalCommand,
		// C15 fixes WHICH strings the parser accepts and what it returns for them, not which of several applicable errors a refused
		// string gets: refusals are compared as refusals (the class both sides name stays in the output for the reader)
		cmp: func(line, g, m string) string {
			if strings.HasPrefix(line, "cmd.parse") && strings.HasPrefix(g, "err") && strings.HasPrefix(m, "err") {
				return ""
			}
			if g != m {
				return "go≠model"
			}
			return ""
		},
	})
}

func unhx(s string) string {
	if s == "-" {
		return ""
	}
	b, err := hex.DecodeString(s)
	if err != nil {
		panic("bad hex in protocol line: " + s)
	}
	return string(b)
}

func unhxList(s string) []string {
	if s == "." {
		return nil
	}
	var r []string
	for _, p := range strings.Split(s, ",") {
		r = append(r, unhx(p))
	}
	return r
}

func goParse(s string) string {
	c, err := command.Parse(s)
	switch {
	case err == nil:
		return "ok " + hxs(string(c))
	case errors.Is(err, command.ErrRequiresLeadingSlash):
		return "err leadingSlash"
	case errors.Is(err, command.ErrDisallowsTrailingSlash):
		return "err trailingSlash"
	case errors.Is(err, command.ErrRequiresLowercase):
		return "err lowercase"
	}
	return "err other:" + err.Error()
}

func evalCommand(line string) (string, string) {
	f := strings.Fields(line)
	switch f[0] {
	case "cmd.parse":
		s := unhx(f[1])
		return goParse(s), "command.Parse(" + q(s) + ")"
	case "cmd.covers":
		x, y := command.Command(unhx(f[1])), command.Command(unhx(f[2]))
		g := x.Covers(y)
		// Go-side spec: segment prefix computed from Go's own Segments()
		gs := segPrefix(x.Segments(), y.Segments())
		return bstr(g) + " " + bstr(gs), q(string(x)) + ".Covers(" + q(string(y)) + ")"
	case "cmd.segments":
		x := command.Command(unhx(f[1]))
		first := hxList(x.Segments())
		// a caller may do what it likes with the slice it was given: the next answer is the same
		got := x.Segments()
		for i := range got {
			got[i] = "overwritten"
		}
		if len(got) > 0 {
			_ = append(got[:len(got)-1], "appended")
		}
		if again := hxList(command.Command(unhx(f[1])).Segments()); again != first {
			return "history: first=" + first + " after-caller-wrote-to-the-result=" + again, q(string(x)) + ".Segments()"
		}
		return first, q(string(x)) + ".Segments()"
	case "cmd.join":
		x := command.Command(unhx(f[1]))
		l := unhxList(f[2])
		// the caller's slice (with spare capacity, as after an append) is the caller's: Join leaves it alone
		mine := append(make([]string, 0, len(l)+4), l...)
		kept := x.Join(mine...)
		res := hxs(string(kept))
		// the command that was returned stays what it is while other commands are joined
		_ = x.Join("zzzz", "yyyyyyyy")
		_ = command.New("wwwwwwwwwwwwwwww", "v")
		if later := hxs(string(kept)); later != res {
			return "history: a joined command reads " + res + " and, after other joins, " + later, q(string(x)) + ".Join(" + strings.Join(l, ",") + ")"
		}
		for i := range l {
			if mine[i] != l[i] {
				return "history: Join rewrote the segment slice it was given (" + strings.Join(mine, ",") + ")", q(string(x)) + ".Join(" + strings.Join(l, ",") + ")"
			}
		}
		if again := hxs(string(x.Join(mine...))); again != res {
			return "history: the same Join gives " + res + " then " + again, q(string(x)) + ".Join(" + strings.Join(l, ",") + ")"
		}
		return res, q(string(x)) + ".Join(" + strings.Join(l, ",") + ")"
	case "go.cmd.history":
		return cmdHistory(false), line
	}
	return "bad-line", line
}

func runCommandStream(c *ctx) error {
	c.emit("go.cmd.history 0", "command.history", true, "history")
	n, m := 5, 5
	if c.thoro {
		n, m = 7, 6
	}
	var valid []string
	parseCase := func(s, tag string) {
		g := c.emitG("cmd.parse "+hxs(s)+" "+hxs(strings.ToLower(s)), "command.Parse",
			func(string) bool { return strings.HasPrefix(s, "/") },
			func(g string) []string {
				return []string{tag + ":" + strings.Join(strings.Fields(g)[:1], "") + ":" + lastField(g)}
			})
		if tag == "parse" && len(s) <= m && strings.HasPrefix(g, "ok") {
			valid = append(valid, s)
		}
	}
	allStrings("/abA", n, func(s string) { parseCase(s, "parse") })
	// random strings: UTF-8 letters with case, invalid UTF-8, long strings
	extra := []string{"/É", "/é", "/ǅ", "/ß", "/İ", "/\xff", "/a\xc3", "/ほげ/ふが", "/Σ", "/ς",
		"/crud/ǅ", "/crud/ǆ", "/ǈ", "/ǋ", "/ǲ", "/Ⅰ/create", "/ⅰ/create", "/Ⅿ", "/store/Ⓐdd", "/store/ⓐdd", "/Ⓩ", "/ᾈ", "/ᾀ", "/ᾼ", "/ῼ", "/K", "/Å", "/ſ", "/ı", "/µ", "/μ", "/σ"}
	// every rune that has a lowercase form, whatever its category (the rule is s == ToLower(s), not "no capital letter")
	for r := rune(0x80); r < 0x1F000; r++ {
		if unicode.ToLower(r) != r && (c.thoro || !unicode.IsUpper(r) || r%7 == 0) {
			extra = append(extra, "/x"+string(r))
		}
	}
	for i := 0; i < 2000; i++ {
		l := c.rng.Intn(12)
		bs := []byte{'/'}
		for j := 0; j < l; j++ {
			switch c.rng.Intn(6) {
			case 0:
				bs = append(bs, '/')
			case 1:
				bs = append(bs, byte('A'+c.rng.Intn(26)))
			case 2:
				bs = append(bs, []byte(string(rune(0xC0+c.rng.Intn(0x250))))...)
			case 3:
				bs = append(bs, byte(c.rng.Intn(256)))
			default:
				bs = append(bs, byte('a'+c.rng.Intn(26)))
			}
		}
		if c.rng.Chance(1, 10) {
			bs = bs[1:]
		}
		extra = append(extra, string(bs))
	}
	for _, s := range extra {
		parseCase(s, "parse-random")
	}
	// covers on commands with multi-byte characters (byte length ≠ character count): prefixes that end inside, right after, and
	// before a character
	mbCmds := []string{"/", "/é", "/éé", "/éé/x", "/éé/xyz", "/éé/x/y", "/é/é", "/ééé", "/ほげ", "/ほげ/ふが", "/ほげふ", "/e/x", "/éé/é", "/σ", "/ς", "/σ/a"}
	for _, x := range mbCmds {
		for _, y := range mbCmds {
			c.emitG("cmd.covers "+hxs(x)+" "+hxs(y), "command.Covers",
				func(string) bool { return strings.HasPrefix(y, x) },
				func(g string) []string { return []string{"covers-multibyte:" + g[:1]} })
		}
	}
	// covers on commands whose segments are spelled with characters that mean something in OTHER notations (a glob star, dots,
	// a tilde, an empty segment): here they are ordinary segments — a command covers exactly the commands it is a segment-wise
	// prefix of, and two commands that cover each other are the same command
	{
		segs := []string{"crud", "*", "**", ".", "..", "~", "", "c*", "?"}
		odd := []string{"/"}
		for _, a := range segs {
			odd = append(odd, "/"+a)
			for _, b := range segs[:6] {
				odd = append(odd, "/"+a+"/"+b)
			}
		}
		odd = append(odd, "/crud/create", "/crud/*/x", "/*/crud", "/crud/create/*")
		for _, x := range odd {
			if strings.HasSuffix(x, "/") && x != "/" {
				continue
			}
			c.emit("cmd.segments "+hxs(x), "command.Segments", true, "segments-odd")
			for _, y := range odd {
				if strings.HasSuffix(y, "/") && y != "/" {
					continue
				}
				c.emitG("cmd.covers "+hxs(x)+" "+hxs(y), "command.Covers",
					func(string) bool { return strings.HasPrefix(y, x) },
					func(g string) []string { return []string{"covers-odd:" + g[:1]} })
			}
		}
	}
	// covers + segments on all pairs of valid commands
	for _, x := range valid {
		c.emit("cmd.segments "+hxs(x), "command.Segments", true, "segments")
		for _, y := range valid {
			c.emitG("cmd.covers "+hxs(x)+" "+hxs(y), "command.Covers",
				func(string) bool { return strings.HasPrefix(y, x) },
				func(g string) []string { return []string{"covers:" + g[:1]} })
		}
	}
	segAlphabet := []string{"", "a", "b", "ab"}
	var lists [][]string
	var rec func(cur []string, left int)
	rec = func(cur []string, left int) {
		lists = append(lists, append([]string(nil), cur...))
		if left == 0 {
			return
		}
		for _, s := range segAlphabet {
			rec(append(cur, s), left-1)
		}
	}
	rec(nil, 3)
	for _, x := range valid {
		if len(x) > 4 {
			continue
		}
		for _, l := range lists {
			c.emit("cmd.join "+hxs(x)+" "+hxList(l), "command.Join", len(l) > 0, "join")
		}
	}
	c.r.Exhaustive = true
	c.r.ExhaustiveNote = "exhaustive over the stated finite alphabets and lengths; the random non-ASCII strings are a sample"
	return nil
}

func lastField(s string) string {
	f := strings.Fields(s)
	if f[0] == "ok" {
		return ""
	}
	return f[len(f)-1]
}

func segPrefix(a, b []string) bool {
	if len(a) > len(b) {
		return false
	}
	for i := range a {
		if a[i] != b[i] {
			return false
		}
	}
	return true
}
