package main

import (
	"fmt"
	"strings"

	"verifharness/internal/immutwork"
)

func init() {
	register(stream{
		name: "immut",
		rule: "invocations (constructed, and decoded from sealed bytes) whose argument keys were inserted in EVERY order of ≤ 4 (5 thorough) keys and whose metadata keys in 3 orders, plus the root delegation they rely on: before and after each read-only operation (Arguments().ToIPLD, Arguments().String, Meta().String, Iter on both, ExecutionAllowed, ExecutionAllowedWithArgsHook observed from inside the loader, ExecutionAllowed with a loader lacking the proofs, ToSealed/ToDagJson/String of the invocation and of both delegations of its chain; every ordered pair of these on one fresh token; cells written into the spare capacity of the shared leaf delegation's policy slice) the key order observable through Iter() is compared with the model's post-state, and the operation's own output order with the model's; every operation is then run from 8 goroutines on the SAME tokens and must return what it returns alone. Added later: key pools of different lengths (sorted as strings ≠ sorted as DAG-CBOR keys); hooks whose result violates the policy and hooks that hand back the clone untouched, in every ordered pair with the other operations; 48-byte metadata values, every VALUE (not only the key order) compared after each operation and after the concurrent phase. One shared root delegation (constructed and decoded) whose policy has slice selectors with relative/open bounds, negative indexes, iterators and like patterns decides nine invocations with list arguments of different lengths in a row: each verdict must be the one a fresh delegation gives, and the delegation must print and seal as before. Arguments assembled by hand that LIST a key without a value (front, middle, end, twice): every read-only operation — whatever it makes of them — leaves the listed keys, their order and which of them have values as they were. Sealing with a key that is not the issuer's is refused before, between and after sealings with the right key, by every sealing entry point. Non-trivial = the insertion order is not already sorted. Distinct = distinct protocol lines.",
		run:  runImmutStream,
		eval: evalImmut,
		cmp: func(line, g, m string) string {
			if strings.HasPrefix(line, "go.") {
				if g != "ok" {
					return "read-only use is not repeatable under concurrency"
				}
				return ""
			}
			// the third field is the key order of the operation's OWN output. For the two String() methods that order (and the whole
			// text format) is fixed by no property — C20 is about the token staying what it was, which the first two fields show —
			// so it is not compared for them.
			f := strings.Fields(line)
			op := ""
			switch {
			case len(f) > 1 && f[0] == "imm.op":
				op = f[1]
			case len(f) > 2 && f[0] == "imm.pair":
				op = f[2]
			}
			if op == "argsString" || op == "metaString" {
				gf, mf := strings.Fields(g), strings.Fields(m)
				if len(gf) == 4 && len(mf) == 4 {
					gf[2], mf[2] = "-", "-"
					g, m = strings.Join(gf, " "), strings.Join(mf, " ")
				}
			}
			if g != m {
				return "token state or output differs from the frame model"
			}
			return ""
		},
		classByDirection: true,
	})
}

func hxListS(l []string) string { return hxList(l) }

func evalImmut(line string) (out string, rd string) {
	defer func() {
		if r := recover(); r != nil {
			out = fmt.Sprint("panic ", r)
		}
	}()
	f := strings.Fields(line)
	rd = line
	switch f[0] {
	case "imm.op":
		decoded := len(f) > 4 && f[4] == "decoded"
		fx, err := immutwork.New(unhxList(f[2]), unhxList(f[3]), decoded)
		if err != nil {
			return "fixture: " + err.Error(), rd
		}
		// a decoded token lists its keys in the order of the wire format: the model is told that order
		ks, e := fx.Run(f[1])
		if e != "" {
			return "op-error: " + e, rd
		}
		if fx.ValuesChanged() {
			return "op-error: a stored argument or metadata value is no longer what it was", rd
		}
		a, m, _ := fx.Snapshot()
		return hxListS(a) + " " + hxListS(m) + " " + hxListS(ks) + " " + fmt.Sprint(fx.SpareWritten()), rd
	case "imm.pair":
		// imm.pair <op X> <op Y> <arg keys> <meta keys> [decoded]: Y after X on the same, fresh token
		decoded := len(f) > 5 && f[5] == "decoded"
		fx, err := immutwork.New(unhxList(f[3]), unhxList(f[4]), decoded)
		if err != nil {
			return "fixture: " + err.Error(), rd
		}
		if _, e := fx.Run(f[1]); e != "" {
			return "op-error (first): " + e, rd
		}
		ks, e := fx.Run(f[2])
		if e != "" {
			return "op-error: " + e, rd
		}
		if fx.ValuesChanged() {
			return "op-error: a stored argument or metadata value is no longer what it was", rd
		}
		a, m, _ := fx.Snapshot()
		return hxListS(a) + " " + hxListS(m) + " " + hxListS(ks) + " " + fmt.Sprint(fx.SpareWritten()), rd
	case "go.imm.shared":
		return immutwork.SharedDelegationHistory(), rd
	case "go.imm.ghost":
		return immutwork.GhostKeys(), rd
	case "go.imm.wrongkey":
		return immutwork.WrongKeyHistory(), rd
	case "go.imm.concurrent":
		decoded := f[3] == "decoded"
		fx, err := immutwork.New(unhxList(f[1]), unhxList(f[2]), decoded)
		if err != nil {
			return "fixture: " + err.Error(), rd
		}
		twin, err := immutwork.New(unhxList(f[1]), unhxList(f[2]), decoded)
		if err != nil {
			return "fixture: " + err.Error(), rd
		}
		return immutwork.Concurrent(twin, fx, 8, 40), rd
	}
	return "bad-line", rd
}

func perms(xs []string) [][]string {
	if len(xs) <= 1 {
		return [][]string{append([]string(nil), xs...)}
	}
	var out [][]string
	for i := range xs {
		rest := append(append([]string(nil), xs[:i]...), xs[i+1:]...)
		for _, p := range perms(rest) {
			out = append(out, append([]string{xs[i]}, p...))
		}
	}
	return out
}

func sortedStrings(xs []string) bool {
	for i := 1; i < len(xs); i++ {
		if xs[i-1] > xs[i] {
			return false
		}
	}
	return true
}

func runImmutStream(c *ctx) error {
	maxK := 4
	if c.thoro {
		maxK = 5
	}
	// keys of different lengths, so that "sorted as strings" and "sorted as DAG-CBOR map keys" are different orders
	all := []string{"b", "aa", "a", "uri", "d"}
	metaOrders := [][]string{{"z", "y", "x"}, {"x", "y", "z"}, {}}
	n := 0
	for k := 0; k <= maxK; k++ {
		for _, p := range perms(all[:k]) {
			for mi, mo := range metaOrders {
				if k > 2 && mi > 0 && !c.thoro {
					continue
				}
				for _, op := range immutwork.Ops {
					n++
					// constructed tokens keep the insertion order; decoded ones list keys in wire (sorted) order,
					// which is what the model is given for them
					c.emit("imm.op "+op+" "+hxList(p)+" "+hxList(mo), "immut.op:"+op, !sortedStrings(p), "op:"+op)
					if n%3 == 0 {
						ds := append([]string(nil), p...)
						sortCborKeys(ds)
						dm := append([]string(nil), mo...)
						sortCborKeys(dm)
						c.emit("imm.op "+op+" "+hxList(ds)+" "+hxList(dm)+" decoded", "immut.op:"+op, true, "op-decoded:"+op)
					}
				}
				// history independence: every ordered pair of operations on one fresh token
				if (k == 2 && mi == 0) || (c.thoro && k <= 3) {
					for _, x := range immutwork.Ops {
						for _, y := range immutwork.Ops {
							c.emit("imm.pair "+x+" "+y+" "+hxList(p)+" "+hxList(mo), "immut.pair:"+x+">"+y, true, "pair:"+x+">"+y)
						}
					}
					ds := append([]string(nil), p...)
					sortCborKeys(ds)
					dm := append([]string(nil), mo...)
					sortCborKeys(dm)
					for _, x := range []string{"executionAllowed", "executionAllowedHook", "seal"} {
						for _, y := range immutwork.Ops {
							c.emit("imm.pair "+x+" "+y+" "+hxList(ds)+" "+hxList(dm)+" decoded", "immut.pair:"+x+">"+y, true, "pair-decoded:"+x+">"+y)
						}
					}
				}
				if k >= 2 && (c.thoro || n%5 == 0) {
					c.emit("go.imm.concurrent "+hxList(p)+" "+hxList(mo)+" constructed", "immut.concurrent", true, "concurrent")
				}
			}
		}
	}
	c.emit("go.imm.concurrent "+hxList([]string{"a", "b", "c"})+" "+hxList([]string{"x", "y"})+" decoded", "immut.concurrent", true, "concurrent")
	c.emit("go.imm.shared 0", "immut.shared-delegation", true, "shared-delegation")
	c.emit("go.imm.ghost 0", "immut.valueless-key", true, "valueless-key")
	c.emit("go.imm.wrongkey 0", "immut.wrong-key-history", true, "wrong-key-history")
	// insertion orders that are sorted as strings but not by length, and the reverse (a shortcut for "already sorted"
	// keys must not hand the token's own slice to a second sort)
	for _, p := range [][]string{{"headers", "uri"}, {"a", "aa", "b"}, {"aa", "b"}, {"b", "aa"}, {"uri", "headers"}, {"a", "b", "aa"}, {"body", "headers", "method", "uri"}} {
		for _, op := range immutwork.Ops {
			c.emit("imm.op "+op+" "+hxList(p)+" "+hxList([]string{"y", "xx"}), "immut.op:"+op, true, "op-lengths:"+op)
		}
		c.emit("go.imm.concurrent "+hxList(p)+" "+hxList([]string{"y", "xx"})+" constructed", "immut.concurrent", true, "concurrent")
	}
	return nil
}

// sortCborKeys sorts like DAG-CBOR map keys (length first, then bytewise)
func sortCborKeys(xs []string) {
	for i := 1; i < len(xs); i++ {
		for j := i; j > 0 && (len(xs[j]) < len(xs[j-1]) || (len(xs[j]) == len(xs[j-1]) && xs[j] < xs[j-1])); j-- {
			xs[j], xs[j-1] = xs[j-1], xs[j]
		}
	}
}
