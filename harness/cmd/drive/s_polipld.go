package main

import (
	"bytes"
	"fmt"
	"github.com/ucan-wg/go-ucan/pkg/policy/literal"
	"strings"
	"unicode/utf8"

	"github.com/ipld/go-ipld-prime"
	"github.com/ipld/go-ipld-prime/codec/dagjson"
	"github.com/ipld/go-ipld-prime/datamodel"
	"github.com/ucan-wg/go-ucan/pkg/policy"
)

func init() {
	register(stream{
		name: "polipld",
		rule: "policy.FromIPLD followed by Policy.ToIPLD on IPLD nodes: well-formed policies of depth ≤ 3 from the statement grammar (all eleven operators, selectors that print differently from their source such as \".a.?\" and \".a???\"), and malformed shapes obtained from them by replacing a subtree with a random value, changing an operator string, dropping or adding a tuple element, using out-of-range integers, invalid selectors and invalid patterns; the same nodes are also sent through DAG-JSON (FromDagJson). Compared: accept/reject and the written-back node. Added later: patterns with runs of stars next to escapes (**, \\**, a**b, *\\**), quoted field names with ?? inside, and the DAG-JSON leg for every node without floats (bytes and links included). Every literal kind (link, bytes, nested) at every literal position through both entry points; tuples too long or too short for their operator at the top and nested. Constructor-built policies nested 1 … 200 deep through each of not / and / or / all / any and a mix of them: written and read back with the same printed form. Non-trivial = every case (each exercises the decoder). Distinct = distinct protocol lines.",
		run:  runPolIpldStream,
		eval: evalPolIpld,
		cmp: func(line, g, m string) string {
			if strings.HasPrefix(line, "go.") {
				if g != "ok" {
					return "a constructed policy does not survive the IPLD round trip"
				}
				return ""
			}
			if r := cmpImplSpec(line, g, m); r != "" {
				// C14: a policy read and written back is deep-equal UP TO the selector normalisation (the printed selector is a text
				// that parses to a selector with the same meaning, not necessarily the text that was read)
				parts := strings.Split(m, " | ")
				if strings.HasPrefix(g, "ok ") && strings.HasPrefix(parts[0], "ok ") && (len(parts) == 1 || parts[0] == parts[1]) {
					a, errA := parseNode(strings.TrimPrefix(g, "ok "))
					b, errB := parseNode(strings.TrimPrefix(parts[0], "ok "))
					if errA == nil && errB == nil && policyNodesEqualUpToSelectors(a, b) {
						return ""
					}
				}
				return r
			}
			return ""
		},
	})
}

func evalPolIpld(line string) (out string, rd string) {
	defer func() {
		if r := recover(); r != nil {
			out = "panic"
		}
	}()
	f := strings.Fields(line)
	if f[0] == "go.pol.depth" {
		var d int
		fmt.Sscan(f[1], &d)
		return policyDepth(d), line
	}
	rd = "FromIPLD(" + f[1] + ").ToIPLD()"
	n, err := parseNode(f[1])
	if err != nil {
		return "bad-node", rd
	}
	var pol policy.Policy
	if f[0] == "pol.ipldjson" {
		// the DAG-JSON entry point: the node is written as DAG-JSON text and read with FromDagJson
		var buf bytes.Buffer
		if err := ipld.EncodeStreaming(&buf, n, dagjson.Encode); err != nil {
			return "bad-json", rd
		}
		rd = "FromDagJson(" + buf.String() + ").ToIPLD()"
		pol, err = policy.FromDagJson(buf.String())
	} else {
		pol, err = policy.FromIPLD(n)
	}
	if err != nil {
		return "err", rd
	}
	back, err := pol.ToIPLD()
	if err != nil {
		return "toipld-err", rd
	}
	return "ok " + dumpNode(back), rd
}

// jsonNormal returns the node as it reads back from its own DAG-JSON text (sorted map keys), or "" when
// the node has no faithful DAG-JSON form (floats, bytes, links, invalid UTF-8).
func jsonNormal(text string) string {
	n, err := parseNode(text)
	if err != nil || !stringsValidUTF8(n) || hasFloat(n) {
		return "" // floats: go-ipld-prime prints one without fraction as an integer (see the C07 finding)
	}
	var buf bytes.Buffer
	if err := ipld.EncodeStreaming(&buf, n, dagjson.Encode); err != nil {
		return ""
	}
	back, err := ipld.Decode(buf.Bytes(), dagjson.Decode)
	if err != nil {
		return ""
	}
	return dumpNode(back)
}

func str(s string) string { return "s" + hxsRaw(s) }

func genStmtNode(c *ctx, depth int) string {
	sels := []string{".", ".a", ".a?", ".a.?", ".a???", ".a..b", `.["k"]`, ".[0]", ".[1:]", ".[]", ".b[-1]?", ".?", `.["a??"]`, `.["a?"]?`, `.["x??y"]??`}
	k := c.rng.Intn(9)
	if depth == 0 {
		k = c.rng.Intn(3)
	}
	sel := str(sels[c.rng.Intn(len(sels))])
	switch k {
	case 0, 1:
		op := []string{"==", ">", ">=", "<", "<="}[c.rng.Intn(5)]
		return "l(" + str(op) + "," + sel + "," + randTree(c, 1) + ")"
	case 2:
		return "l(" + str("like") + "," + sel + "," + str([]string{"a*", "*", "\\*", "a\\", "a\\\\", "", "**", "\\**", "a**b", "\\*\\*", "*\\**", "a\\*c"}[c.rng.Intn(12)]) + ")"
	case 3:
		return "l(" + str("not") + "," + genStmtNode(c, depth-1) + ")"
	case 4, 5, 6:
		n := c.rng.Intn(3)
		var xs []string
		for i := 0; i < n; i++ {
			xs = append(xs, genStmtNode(c, depth-1))
		}
		op := "and"
		if k == 6 {
			op = "or"
		}
		return "l(" + str(op) + ",l(" + strings.Join(xs, ",") + "))"
	default:
		op := "all"
		if k == 8 {
			op = "any"
		}
		return "l(" + str(op) + "," + sel + "," + genStmtNode(c, depth-1) + ")"
	}
}

// mutate replaces one balanced sub-term of the node text by something else.
func mutateNodeText(c *ctx, s string) string {
	// positions where a node starts: after '(' ',' ':' or at 0
	var starts []int
	for i := 0; i < len(s); i++ {
		if i == 0 || s[i-1] == '(' || s[i-1] == ',' {
			if s[i] != ')' {
				starts = append(starts, i)
			}
		}
	}
	p := starts[c.rng.Intn(len(starts))]
	// find the end of the node starting at p
	depth, e := 0, p
	for e < len(s) {
		if s[e] == '(' {
			depth++
		} else if s[e] == ')' {
			if depth == 0 {
				break
			}
			depth--
			if depth == 0 {
				e++
				break
			}
		} else if s[e] == ',' && depth == 0 {
			break
		}
		e++
	}
	repl := []string{"n", "T", "i1", "i9007199254740992", "i-9007199254740992", "i9007199254740991", "s", str("=="), str("nope"), str("..a"), str(".a["), str("a"), "l()", "l(i1)", "m()",
		"l(" + str("==") + "," + str(".a") + ")", "l(" + str("not") + ")", "l(" + str("and") + "," + str(".a") + ")", "b01", "d3ff0000000000000",
		"i9223372036854775808", "i18446744073709551615", "l(i1,m(61:i18446744073709551615))"}[c.rng.Intn(23)]
	switch c.rng.Intn(4) {
	case 0: // drop the element (and a neighbouring comma)
		if e < len(s) && s[e] == ',' {
			return s[:p] + s[e+1:]
		}
		if p > 0 && s[p-1] == ',' {
			return s[:p-1] + s[e:]
		}
		return s[:p] + repl + s[e:]
	case 1: // add an element
		return s[:e] + "," + repl + s[e:]
	default:
		return s[:p] + repl + s[e:]
	}
}

func runPolIpldStream(c *ctx) error {
	n := 6000
	if c.thoro {
		n = 80000
	}
	emit := func(node, tag string) {
		if _, err := parseNode(node); err != nil {
			return // the mutation produced unbalanced text, not a node
		}
		c.emitG("pol.ipld "+node+" L", "policy.FromIPLD", func(string) bool { return true },
			func(g string) []string { return []string{tag + ":" + strings.Fields(g)[0]} })
		if j := jsonNormal(node); j != "" {
			c.emitG("pol.ipldjson "+j+" L", "policy.FromDagJson", func(string) bool { return true },
				func(g string) []string { return []string{tag + "-json:" + strings.Fields(g)[0]} })
		}
	}
	for _, s := range []string{"l()", "n", "m()", "i1", "l(l())", "l(i1)", "l(l(" + str("==") + "))", "l(l(i1,i2,i3))"} {
		emit(s, "ipld-special")
	}
	// statements nested 1 … 200 deep through not, and / or, all / any and a mix of them, BUILT WITH THE CONSTRUCTORS: what the
	// constructors hand out, ToIPLD writes and FromIPLD / FromDagJson read back, with the same printed form (a depth limit is
	// no violation as long as the constructors observe it too: C14 speaks of policies that can be built)
	for _, d := range []int{1, 2, 7, 8, 9, 15, 16, 17, 31, 32, 33, 34, 63, 64, 65, 100, 127, 128, 129, 200} {
		c.emit(fmt.Sprintf("go.pol.depth %d", d), "policy.depth", true, "depth")
	}
	// every literal kind at every position a literal can take (links and bytes have a form of their own in DAG-JSON)
	{
		lk := "k01711220" + strings.Repeat("ab", 32)
		lits := []string{lk, "b0102", "b", "l(" + lk + ")", "l(b01," + lk + ",i1)", "m(61:" + lk + ")", "m(61:b01,62:l(" + lk + "))", "n", "T", "i-3", "s78", "l()", "m()"}
		for _, lit := range lits {
			for _, op := range []string{"==", ">", "<="} {
				emit("l(l("+str(op)+","+str(".a")+","+lit+"))", "ipld-literal")
			}
			emit("l(l("+str("not")+",l("+str("==")+","+str(".")+","+lit+")))", "ipld-literal")
			emit("l(l("+str("any")+","+str(".l")+",l("+str("==")+","+str(".")+","+lit+")))", "ipld-literal")
			emit("l(l("+str("and")+",l(l("+str("==")+","+str(".x")+","+lit+"),l("+str("==")+","+str(".y")+","+lit+"))))", "ipld-literal")
		}
		// tuples that are too long or too short for their operator, at the top and nested
		eq := "l(" + str("==") + "," + str(".a") + ",i1)"
		for _, bad := range []string{
			"l(" + str("not") + "," + eq + "," + eq + ")", "l(" + str("not") + ")", "l(" + str("not") + "," + eq + ",i1)",
			"l(" + str("and") + ",l(" + eq + "),l(" + eq + "))", "l(" + str("or") + ",l(" + eq + "),i1)", "l(" + str("and") + ")",
			"l(" + str("==") + "," + str(".a") + ")", "l(" + str("==") + "," + str(".a") + ",i1,i2)", "l(" + str("like") + "," + str(".a") + ")",
			"l(" + str("like") + "," + str(".a") + "," + str("x") + "," + str("y") + ")", "l(" + str("all") + "," + str(".a") + ")",
			"l(" + str("all") + "," + str(".a") + "," + eq + "," + eq + ")", "l(" + str("any") + "," + str(".a") + "," + eq + ",i1)",
		} {
			emit("l("+bad+")", "ipld-arity")
			emit("l(l("+str("not")+","+bad+"))", "ipld-arity")
			emit("l(l("+str("and")+",l("+eq+","+bad+")))", "ipld-arity")
			emit("l(l("+str("all")+","+str(".l")+","+bad+"))", "ipld-arity")
		}
	}
	for i := 0; i < n; i++ {
		k := 1 + c.rng.Intn(3)
		var xs []string
		for j := 0; j < k; j++ {
			xs = append(xs, genStmtNode(c, 3))
		}
		node := "l(" + strings.Join(xs, ",") + ")"
		emit(node, "ipld-wellformed")
		for m := 0; m < 2; m++ {
			emit(mutateNodeText(c, node), "ipld-mutated")
		}
	}
	return nil
}

func hasFloat(n datamodel.Node) bool {
	switch n.Kind() {
	case datamodel.Kind_Float:
		return true
	case datamodel.Kind_List:
		it := n.ListIterator()
		for !it.Done() {
			_, v, _ := it.Next()
			if hasFloat(v) {
				return true
			}
		}
	case datamodel.Kind_Map:
		it := n.MapIterator()
		for !it.Done() {
			_, v, _ := it.Next()
			if hasFloat(v) {
				return true
			}
		}
	}
	return false
}

// stringsValidUTF8 reports whether every string in the tree is valid UTF-8 (others cannot be written as JSON text).
func stringsValidUTF8(n datamodel.Node) bool {
	switch n.Kind() {
	case datamodel.Kind_String:
		s, _ := n.AsString()
		return utf8.ValidString(s)
	case datamodel.Kind_List:
		it := n.ListIterator()
		for !it.Done() {
			_, v, _ := it.Next()
			if !stringsValidUTF8(v) {
				return false
			}
		}
	case datamodel.Kind_Map:
		it := n.MapIterator()
		for !it.Done() {
			k, v, _ := it.Next()
			if !stringsValidUTF8(k) || !stringsValidUTF8(v) {
				return false
			}
		}
	}
	return true
}

// policyDepth: a constructor-built policy nested d deep (through each wrapper alone and through a mix) survives ToIPLD →
// FromIPLD and ToIPLD → DAG-JSON → FromDagJson with the same printed form. A constructor that refuses the nesting hands
// out nothing that could fail to come back.
func policyDepth(d int) (out string) {
	defer func() {
		if r := recover(); r != nil {
			out = fmt.Sprint("panic ", r)
		}
	}()
	one, _ := literal.Any(int64(1))
	leaf := func() policy.Constructor { return policy.Equal(".a", one) }
	wraps := []func(policy.Constructor) policy.Constructor{
		func(x policy.Constructor) policy.Constructor { return policy.Not(x) },
		func(x policy.Constructor) policy.Constructor { return policy.And(x) },
		func(x policy.Constructor) policy.Constructor { return policy.Or(x, leaf()) },
		func(x policy.Constructor) policy.Constructor { return policy.All(".l", x) },
		func(x policy.Constructor) policy.Constructor { return policy.Any(".", x) },
	}
	for w := 0; w <= len(wraps); w++ {
		x := leaf()
		for i := 0; i < d; i++ {
			if w < len(wraps) {
				x = wraps[w](x)
			} else {
				x = wraps[i%len(wraps)](x)
			}
		}
		pol, err := policy.Construct(x)
		if err != nil {
			continue
		}
		n, err := pol.ToIPLD()
		if err != nil {
			return fmt.Sprintf("a policy nested %d deep (wrapper %d) was built but ToIPLD fails: %v", d, w, err)
		}
		back, err := policy.FromIPLD(n)
		if err != nil {
			return fmt.Sprintf("a policy nested %d deep (wrapper %d) was built and written but FromIPLD refuses it: %v", d, w, err)
		}
		if back.String() != pol.String() {
			return fmt.Sprintf("a policy nested %d deep (wrapper %d) comes back different from FromIPLD", d, w)
		}
		var buf bytes.Buffer
		if err := ipld.EncodeStreaming(&buf, n, dagjson.Encode); err == nil {
			back, err := policy.FromDagJson(buf.String())
			if err != nil {
				return fmt.Sprintf("a policy nested %d deep (wrapper %d) was built and written but FromDagJson refuses it: %v", d, w, err)
			}
			if back.String() != pol.String() {
				return fmt.Sprintf("a policy nested %d deep (wrapper %d) comes back different from FromDagJson", d, w)
			}
		}
	}
	return "ok"
}

// policyNodesEqualUpToSelectors: two policy nodes (lists of statement tuples) are equal, except that the selector operand of a
// statement may be another text with the same meaning (as Go's parser reads the two texts).
func policyNodesEqualUpToSelectors(a, b datamodel.Node) bool {
	if a.Kind() != datamodel.Kind_List || b.Kind() != datamodel.Kind_List || a.Length() != b.Length() {
		return false
	}
	for i := int64(0); i < a.Length(); i++ {
		x, _ := a.LookupByIndex(i)
		y, _ := b.LookupByIndex(i)
		if !stmtNodesEqualUpToSelectors(x, y) {
			return false
		}
	}
	return true
}

func stmtNodesEqualUpToSelectors(a, b datamodel.Node) bool {
	if a.Kind() != datamodel.Kind_List || b.Kind() != datamodel.Kind_List || a.Length() != b.Length() || a.Length() < 2 {
		return sameDump(a, b)
	}
	opA, _ := a.LookupByIndex(0)
	opB, _ := b.LookupByIndex(0)
	if !sameDump(opA, opB) || opA.Kind() != datamodel.Kind_String {
		return false
	}
	op, _ := opA.AsString()
	at := func(n datamodel.Node, i int64) datamodel.Node { x, _ := n.LookupByIndex(i); return x }
	sameSelector := func(x, y datamodel.Node) bool {
		if sameDump(x, y) {
			return true
		}
		if x.Kind() != datamodel.Kind_String || y.Kind() != datamodel.Kind_String {
			return false
		}
		xs, _ := x.AsString()
		ys, _ := y.AsString()
		px, py := strings.Fields(goParseSel(xs)), strings.Fields(goParseSel(ys))
		return len(px) == 3 && len(py) == 3 && px[0] == "ok" && py[0] == "ok" && selMeaning(px[1]) == selMeaning(py[1])
	}
	switch op {
	case "not":
		return a.Length() == 2 && stmtNodesEqualUpToSelectors(at(a, 1), at(b, 1))
	case "and", "or":
		return a.Length() == 2 && policyNodesEqualUpToSelectors(at(a, 1), at(b, 1))
	case "all", "any":
		return a.Length() == 3 && sameSelector(at(a, 1), at(b, 1)) && stmtNodesEqualUpToSelectors(at(a, 2), at(b, 2))
	case "==", ">", ">=", "<", "<=", "like":
		return a.Length() == 3 && sameSelector(at(a, 1), at(b, 1)) && sameDump(at(a, 2), at(b, 2))
	}
	return sameDump(a, b)
}

// sameDump: equal as the harness writes nodes (bit patterns of floats included: NaN equals NaN here)
func sameDump(a, b datamodel.Node) bool { return dumpNode(a) == dumpNode(b) }
