package main

import (
	"encoding/hex"
	"strconv"
	"strings"
	"sync/atomic"
	"time"
)

func hx(b []byte) string {
	if len(b) == 0 {
		return "-"
	}
	return hex.EncodeToString(b)
}

func hxs(s string) string { return hx([]byte(s)) }

func hxList(l []string) string {
	if len(l) == 0 {
		return "."
	}
	p := make([]string, len(l))
	for i, s := range l {
		p[i] = hxs(s)
	}
	return strings.Join(p, ",")
}

func bstr(b bool) string {
	if b {
		return "t"
	}
	return "f"
}

// allStrings enumerates every string over alphabet with length ≤ n.
func allStrings(alphabet string, n int, f func(string)) {
	var rec func(prefix []byte, left int)
	rec = func(prefix []byte, left int) {
		f(string(prefix))
		if left == 0 {
			return
		}
		for i := 0; i < len(alphabet); i++ {
			rec(append(prefix, alphabet[i]), left-1)
		}
	}
	rec(nil, n)
}

func q(s string) string { return strconv.QuoteToASCII(s) }

// hxsRaw is hex without the "-" convention (node text uses the empty string for empty hex).
func hxsRaw(s string) string { return hex.EncodeToString([]byte(s)) }

// boundedGen runs a call into the real code that a GENERATOR makes (to decide which cases to emit) under a time limit.
// After the first call that does not come back no further call is made: every later one reports "not returned" at once,
// the generator emits its cases unconditionally, and the hang is then found and reported by the cases themselves.
var genHung atomic.Bool

func boundedGen(f func() string) (string, bool) {
	if genHung.Load() {
		return "", false
	}
	ch := make(chan string, 1)
	go func() {
		defer func() {
			if r := recover(); r != nil {
				ch <- "panic"
			}
		}()
		ch <- f()
	}()
	select {
	case r := <-ch:
		return r, true
	case <-time.After(10 * time.Second):
		genHung.Store(true)
		return "", false
	}
}
