package main

import (
	"encoding/hex"
	"strconv"
	"strings"
)

func hx(b []byte) string {
	if len(b) == 0 {
		return "-"
	}
	return hex.EncodeToString(b)
}

func hxs(s string) string { return hx([]byte(s)) }

func hxList(l []string) string {
	if len(l) == 0 {
		return "."
	}
	p := make([]string, len(l))
	for i, s := range l {
		p[i] = hxs(s)
	}
	return strings.Join(p, ",")
}

func bstr(b bool) string {
	if b {
		return "t"
	}
	return "f"
}

// allStrings enumerates every string over alphabet with length ≤ n.
func allStrings(alphabet string, n int, f func(string)) {
	var rec func(prefix []byte, left int)
	rec = func(prefix []byte, left int) {
		f(string(prefix))
		if left == 0 {
			return
		}
		for i := 0; i < len(alphabet); i++ {
			rec(append(prefix, alphabet[i]), left-1)
		}
	}
	rec(nil, n)
}

func q(s string) string { return strconv.QuoteToASCII(s) }

// hxsRaw is hex without the "-" convention (node text uses the empty string for empty hex).
func hxsRaw(s string) string { return hex.EncodeToString([]byte(s)) }
