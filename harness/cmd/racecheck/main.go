// racecheck runs the read-only workload of the `immut` stream on shared tokens from many goroutines.
// It is built with -race by ./check C20: the race detector's report (exit status 66) is SUPPORTING evidence
// for C20 (a test of sampled schedules), never a substitute for the frame and schedule theorems.
package main

import (
	"fmt"
	"os"

	"verifharness/internal/immutwork"
)

func main() {
	orders := [][]string{{"b", "a", "c"}, {"c", "b", "a", "d"}, {"a"}, {}}
	for _, decoded := range []bool{false, true} {
		for _, ks := range orders {
			f, err := immutwork.New(ks, []string{"z", "y", "x"}, decoded)
			if err != nil {
				fmt.Println("fixture:", err)
				os.Exit(2)
			}
			twin, err := immutwork.New(ks, []string{"z", "y", "x"}, decoded)
			if err != nil {
				fmt.Println("fixture:", err)
				os.Exit(2)
			}
			if r := immutwork.Concurrent(twin, f, 8, 60); r != "ok" {
				fmt.Println("DIFFERENCE:", r)
				os.Exit(1)
			}
		}
	}
	fmt.Println("ok")
}
