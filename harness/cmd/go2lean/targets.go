package main

import (
	"fmt"
	"go/ast"
	"strings"
)

// target is one Go function that is regenerated as a Lean definition.
type target struct {
	Dir             string            // package directory relative to the repo root
	Recv            string            // receiver type name, "" for a plain function
	Name            string            // function name
	Lean            string            // name of the Lean definition (namespace Ucan.Gen)
	Fuel            []string          // fuel (a Lean Nat expression over the parameters) for each non-range loop, in source order
	Uses            []string          // section variables the definition mentions, passed explicitly by callers
	Nilable         []string          // slice parameters that the function compares with nil: modelled as Option
	File            string            // generated file (Ucan/Gen/<File>.lean)
	StructAs        map[string]string // Go struct type -> the structTable entry it stands for in this target
	MapIterators    bool              // `it := X.MapIterator(); for !it.Done() {… it.Next() …}` becomes a range loop (iterators.go)
	StructLocalZero bool              // the struct local's fields get zero-valued locals up front (fields first assigned in a loop)
	InlineClosures  bool              // local closures without results are inlined at their call statements (closures.go)
	StructLocal     string            // a local of a modelled struct type that is replaced by one local per field (structlocal.go)
	Concrete        []string          // Go types this target sees as their modelled struct (not as the opaque parameter of typeTable)
	SelfAs          string            // a call of the function to itself is a call of this section variable (open recursion: the file's
	// postlude closes it with fuel)
	Shell bool // every method the function calls on its receiver is a parameter (shellMethods): the definition
	// depends on the body of this one function only. A shell target is never a callee; list it after the full one.
}

// genFile is one generated Lean file; the split keeps a change to one Go function from breaking the
// obligations of unrelated properties.
type genFile struct {
	Name         string
	Imports      []string
	ModelImports []string // Ucan.Model.* modules the generated file needs
	Structs      []string // keys of structTable whose Lean structures this file declares
	Prelude      string   // extra section variables of this file
	Postlude     string   // definitions after the generated ones (the fuel-bounded fixpoint of an open-recursive target)
}

var genFiles = []genFile{
	{Name: "Command"},
	{Name: "Glob"},
	{Name: "Selector"},
	{Name: "SelectorParse"},
	{Name: "Secretbox", Prelude: secretboxPrelude},
	{Name: "ParseTime", Imports: []string{"Facts"}},
	{Name: "ParseDid", Prelude: "variable (ext_didParse : Bytes → GoM D) (ext_undef : D)\n"},
	{Name: "ChainTypes", Structs: []string{"delegation.Token", "invocation.Token"}},
	{Name: "Did", Structs: []string{"did.DID"}, Prelude: didPrelude},
	{Name: "Envelope", ModelImports: []string{"NodeApi"}, Structs: []string{"envelope.Info"}},
	{Name: "DecodeTypes", Structs: []string{"delegation.Token#dec", "delegation.tokenPayloadModel", "invocation.Token#dec", "invocation.tokenPayloadModel"}},
	{Name: "Decode", Imports: []string{"DecodeTypes", "Command", "ParseTime"}, Prelude: decodePrelude},
	{Name: "ChainTime", Imports: []string{"ChainTypes"}, Prelude: "variable (now : Int)\n"},
	{Name: "ChainProofs", Imports: []string{"ChainTypes", "Command"}},
	{Name: "PolicyAcc"},
	{Name: "PolicyMatch", Prelude: policyMatchPrelude},
	{Name: "PolicyOrder", ModelImports: []string{"NodeApi"}},
	{Name: "Limits", ModelImports: []string{"NodeApi"}, Prelude: "variable (ext_self : Node → GoM Unit)\n", Postlude: limitsPostlude},
	{Name: "PolicyDecode", Imports: []string{"Limits"}, ModelImports: []string{"NodeApi"}, Prelude: "variable (ext_statementsFromIPLD : Node → GoM (List (Option S)))\n"},
	{Name: "Sealed", Imports: []string{"ChainTypes"}, Prelude: "variable {T : Type} (ext_FromDagCbor : Bytes → GoM T) (ext_dlgFromDagCbor : Bytes → GoM (DlgTok D S)) (ext_invFromDagCbor : Bytes → GoM (InvTok D C A))\n  (ext_CheckCanonical : Bytes → GoM Unit) (ext_CIDFromBytes : Bytes → GoM C)\n  {K : Type} (ext_dlgToDagCbor : DlgTok D S → K → GoM Bytes) (ext_invToDagCbor : InvTok D C A → K → GoM Bytes)\n"},
	{Name: "ContainerEntry", Prelude: "variable {Rdr Ctn : Type} (ext_FromCborReader : Rdr → GoM Ctn) (ext_FromCarReader : Rdr → GoM Ctn) (ext_bytesReader : Bytes → Rdr) (ext_b64Decoder : B64Enc → Rdr → Rdr)\n"},
	{Name: "Args", Imports: []string{"Limits"}, ModelImports: []string{"NodeApi"}, Structs: []string{"args.Args"}},
	{Name: "ChainEntry", Imports: []string{"ChainTypes"}, Prelude: chainEntryPrelude},
	{Name: "ChainProofsShell", Imports: []string{"ChainTypes"}, Prelude: "variable (ext_Covers : Bytes → Bytes → GoM Bool)\n"},
	{Name: "ChainShell", Imports: []string{"ChainTypes"}, Prelude: chainShellPrelude},
	{Name: "ChainLoad", Imports: []string{"ChainTypes"}, Prelude: "variable {L : Type} (ext_GetDelegation : L → C → GoM (DlgTok D S))\n"},
	{Name: "ChainArgs", Imports: []string{"ChainTypes", "PolicyMatch"}, Prelude: chainArgsPrelude},
	{Name: "ChainAllowed", Imports: []string{"ChainTypes", "ChainLoad", "ChainTime", "ChainProofs", "ChainArgs"}, Prelude: chainAllowedPrelude},
}

// The list is ordered: a callee comes before its callers.
var targets = []target{
	{Dir: "pkg/command", Name: "Parse", Lean: "Command_Parse", File: "Command", Uses: []string{"lower"}},
	{Dir: "pkg/command", Recv: "Command", Name: "Covers", Lean: "Command_Covers", File: "Command"},
	{Dir: "pkg/command", Recv: "Command", Name: "Join", Lean: "Command_Join", File: "Command"},
	{Dir: "pkg/command", Name: "Top", Lean: "Command_Top", File: "Command"},
	{Dir: "pkg/command", Name: "IsValid", Lean: "Command_IsValid", File: "Command", Uses: []string{"lower"}},
	{Dir: "pkg/command", Name: "New", Lean: "Command_New", File: "Command"},
	{Dir: "pkg/command", Recv: "Command", Name: "Segments", Lean: "Command_Segments", File: "Command"},
	{Dir: "pkg/policy", Name: "accumulate", Lean: "accumulate", File: "PolicyAcc"},
	{Dir: "pkg/policy", Recv: "Policy", Name: "Match", Lean: "Policy_Match", File: "PolicyMatch", Uses: []string{"ext_matchStatement"}},
	{Dir: "pkg/policy", Recv: "Policy", Name: "PartialMatch", Lean: "Policy_PartialMatch", File: "PolicyMatch", Uses: []string{"ext_matchStatement"}},
	{Dir: "pkg/policy", Name: "isOrdered", Lean: "isOrdered", File: "PolicyOrder", Concrete: []string{"datamodel.Node"}},
	{Dir: "pkg/policy/limits", Name: "ValidateIntegerBoundsIPLD", Lean: "ValidateIntegerBoundsIPLD_step", File: "Limits", MapIterators: true,
		Concrete: []string{"datamodel.Node"}, SelfAs: "ext_self", Uses: []string{"ext_self"}},
	{Dir: "pkg/args", Recv: "Args", Name: "Validate", Lean: "Args_Validate", File: "Args", Concrete: []string{"args.Args", "*args.Args", "datamodel.Node"}},
	{Dir: "pkg/policy", Name: "FromIPLD", Lean: "Policy_FromIPLD", File: "PolicyDecode", Concrete: []string{"datamodel.Node"}, Uses: []string{"ext_statementsFromIPLD"}},
	{Dir: "token", Name: "FromSealed", Lean: "token_FromSealed", File: "Sealed", Uses: []string{"ext_FromDagCbor", "ext_CheckCanonical", "ext_CIDFromBytes"}},
	{Dir: "token/delegation", Name: "FromSealed", Lean: "Dlg_FromSealed", File: "Sealed", Uses: []string{"ext_dlgFromDagCbor", "ext_CheckCanonical", "ext_CIDFromBytes"}},
	{Dir: "token/invocation", Name: "FromSealed", Lean: "Inv_FromSealed", File: "Sealed", Uses: []string{"ext_invFromDagCbor", "ext_CheckCanonical", "ext_CIDFromBytes"}},
	{Dir: "token/delegation", Recv: "Token", Name: "ToSealed", Lean: "Dlg_ToSealed", File: "Sealed", Uses: []string{"ext_CIDFromBytes", "ext_dlgToDagCbor"}},
	{Dir: "token/invocation", Recv: "Token", Name: "ToSealed", Lean: "Inv_ToSealed", File: "Sealed", Uses: []string{"ext_CIDFromBytes", "ext_invToDagCbor"}},
	{Dir: "pkg/container", Name: "FromCbor", Lean: "FromCbor", File: "ContainerEntry", Uses: []string{"ext_FromCborReader", "ext_bytesReader"}},
	{Dir: "pkg/container", Name: "FromCborBase64Reader", Lean: "FromCborBase64Reader", File: "ContainerEntry", Uses: []string{"ext_FromCborReader", "ext_b64Decoder"}},
	{Dir: "pkg/container", Name: "FromCborBase64", Lean: "FromCborBase64", File: "ContainerEntry", Uses: []string{"ext_FromCborReader", "ext_bytesReader", "ext_b64Decoder"}},
	{Dir: "pkg/container", Name: "FromCar", Lean: "FromCar", File: "ContainerEntry", Uses: []string{"ext_FromCarReader", "ext_bytesReader"}},
	{Dir: "pkg/container", Name: "FromCarBase64Reader", Lean: "FromCarBase64Reader", File: "ContainerEntry", Uses: []string{"ext_FromCarReader", "ext_b64Decoder"}},
	{Dir: "pkg/container", Name: "FromCarBase64", Lean: "FromCarBase64", File: "ContainerEntry", Uses: []string{"ext_FromCarReader", "ext_bytesReader", "ext_b64Decoder"}},
	{Dir: "pkg/policy", Name: "parseGlob", Lean: "parseGlob", File: "Glob", Fuel: []string{"pattern.length + 1"}},
	{Dir: "pkg/policy", Recv: "glob", Name: "Match", Lean: "glob_Match", File: "Glob",
		Fuel: []string{"(str.length + 1) * (pattern.length + 2) + 1", "pattern.length + 1"}},
	{Dir: "pkg/policy/selector", Name: "resolveSliceIndices", Lean: "resolveSliceIndices", File: "Selector"},
	{Dir: "pkg/policy/selector", Name: "tokenize", Lean: "tokenize", File: "SelectorParse", Fuel: []string{"str.length + 1"}},
	{Dir: "pkg/meta/internal/crypto", Name: "validateKey", Lean: "validateKey", File: "Secretbox", Nilable: []string{"key"}},
	{Dir: "pkg/meta/internal/crypto", Name: "EncryptWithKey", Lean: "EncryptWithKey", File: "Secretbox", Nilable: []string{"key"},
		Uses: []string{"ext_randRead", "ext_seal"}},
	{Dir: "pkg/meta/internal/crypto", Name: "DecryptStringWithKey", Lean: "DecryptStringWithKey", File: "Secretbox", Nilable: []string{"key"},
		Uses: []string{"ext_open"}},
	{Dir: "did", Name: "Parse", Lean: "did_Parse", File: "Did", Uses: []string{"ext_mbDecode", "ext_fromUvarint"}, Concrete: []string{"did.DID"}},
	{Dir: "token/internal/parse", Name: "OptionalTimestamp", Lean: "OptionalTimestamp", File: "ParseTime"},
	{Dir: "token/internal/parse", Name: "OptionalDID", Lean: "OptionalDID", File: "ParseDid", Uses: []string{"ext_didParse", "ext_undef"}},
	{Dir: "token/internal/envelope", Name: "FindTag", Lean: "FindTag", File: "Envelope", MapIterators: true, Concrete: []string{"datamodel.Node"}},
	{Dir: "token/internal/envelope", Name: "Inspect", Lean: "Inspect", File: "Envelope", StructLocal: "res", StructLocalZero: true, MapIterators: true,
		Concrete: []string{"datamodel.Node"}},
	{Dir: "token/delegation", Recv: "Token", Name: "validate", Lean: "Dlg_validate", File: "Decode", InlineClosures: true,
		StructAs: map[string]string{"delegation.Token": "delegation.Token#dec"}, Uses: []string{"lower", "ext_defined"}},
	{Dir: "token/invocation", Recv: "Token", Name: "validate", Lean: "Inv_validate", File: "Decode", InlineClosures: true,
		StructAs: map[string]string{"invocation.Token": "invocation.Token#dec"}, Uses: []string{"lower", "ext_defined"}},
	{Dir: "token/delegation", Name: "tokenFromModel", Lean: "Dlg_tokenFromModel", File: "Decode", Shell: true, StructLocal: "tkn",
		StructAs: map[string]string{"delegation.Token": "delegation.Token#dec"},
		Uses:     []string{"lower", "ext_didParse", "ext_optionalDID", "ext_policyFromIPLD", "ext_newMeta", "ext_dlgValidate"}},
	{Dir: "token/invocation", Name: "tokenFromModel", Lean: "Inv_tokenFromModel", File: "Decode", Shell: true, StructLocal: "tkn",
		StructAs: map[string]string{"invocation.Token": "invocation.Token#dec"},
		Uses:     []string{"lower", "ext_didParse", "ext_optionalDID", "ext_newMeta", "ext_invValidate", "ext_argsValidate"}},
	{Dir: "token/delegation", Recv: "Token", Name: "IsValidAt", Lean: "Dlg_IsValidAt", File: "ChainTime"},
	{Dir: "token/invocation", Recv: "Token", Name: "IsValidAt", Lean: "Inv_IsValidAt", File: "ChainTime"},
	{Dir: "token/delegation", Recv: "Token", Name: "IsValidNow", Lean: "Dlg_IsValidNow", File: "ChainTime", Uses: []string{"now"}},
	{Dir: "token/invocation", Recv: "Token", Name: "IsValidNow", Lean: "Inv_IsValidNow", File: "ChainTime", Uses: []string{"now"}},
	{Dir: "token/invocation", Recv: "Token", Name: "verifyProofs", Lean: "Inv_verifyProofs", File: "ChainProofs"},
	{Dir: "token/invocation", Recv: "Token", Name: "verifyTimeBoundAt", Lean: "Inv_verifyTimeBoundAt", File: "ChainTime"},
	{Dir: "token/invocation", Recv: "Token", Name: "loadProofs", Lean: "Inv_loadProofs", File: "ChainLoad", Uses: []string{"ext_GetDelegation"}},
	{Dir: "token/invocation", Recv: "Token", Name: "verifyArgs", Lean: "Inv_verifyArgs", File: "ChainArgs",
		Uses: []string{"ext_matchStatement", "ext_toIPLD"}},
	{Dir: "token/invocation", Recv: "Token", Name: "verifyTimeBound", Lean: "Inv_verifyTimeBound", File: "ChainTime", Uses: []string{"now"}},
	{Dir: "token/invocation", Recv: "Token", Name: "executionAllowed", Lean: "Inv_executionAllowed", File: "ChainAllowed",
		Uses: []string{"now", "ext_GetDelegation", "ext_matchStatement", "ext_toIPLD"}},
	{Dir: "token/invocation", Recv: "Token", Name: "ExecutionAllowed", Lean: "Inv_ExecutionAllowed", File: "ChainEntry", Shell: true,
		Uses: []string{"ext_executionAllowed"}},
	{Dir: "token/invocation", Recv: "Token", Name: "ExecutionAllowedWithArgsHook", Lean: "Inv_ExecutionAllowedWithArgsHook", File: "ChainEntry", Shell: true,
		Uses: []string{"ext_executionAllowed", "ext_ReadOnly"}},
	{Dir: "token/invocation", Recv: "Token", Name: "verifyProofs", Lean: "Inv_verifyProofs_shell", File: "ChainProofsShell", Shell: true,
		Uses: []string{"ext_Covers"}},
	{Dir: "token/invocation", Recv: "Token", Name: "executionAllowed", Lean: "Inv_executionAllowed_shell", File: "ChainShell", Shell: true,
		Uses: []string{"ext_loadProofs", "ext_verifyProofs", "ext_verifyTimeBound", "ext_verifyArgs"}},
}

func findTarget(dir, recv, name string) *target {
	for i := range targets {
		t := &targets[i]
		if t.Dir == dir && t.Recv == recv && t.Name == name {
			return t
		}
	}
	return nil
}

// findTargetByType resolves a method call on a value of Go type "pkg.Type".
func findTargetByType(gon, method string) *target {
	i := strings.IndexByte(gon, '.')
	if i < 0 {
		return nil
	}
	pkgName, tname := gon[:i], gon[i+1:]
	for j := range targets {
		t := &targets[j]
		if t.Recv == tname && t.Name == method && strings.HasSuffix(t.Dir, "/"+pkgName) {
			return t
		}
		if t.Recv == tname && t.Name == method {
			if p, err := loadPkg(t.Dir); err == nil && p.name == pkgName {
				return t
			}
		}
	}
	return nil
}

// typeTable maps Go types that are not declared in the package being translated.
var typeTable = map[string]string{
	"time.Time":       "Int", // an instant, in any fixed unit; only compared
	"did.DID":         "D",   // comparable struct, `==` is value equality
	"cid.Cid":         "C",
	"command.Command": "Bytes",
	// opaque to the translated functions: only handed on to externs
	"delegation.Loader": "L",
	"datamodel.Node":    "N",
	"policy.Statement":  "(Option S)", // an interface value; nil = "no statement to report"
	"policy.Policy":     "(List (Option S))",
	"*args.Args":        "A",
	"meta.Meta":         "M",   // opaque: only handed on (a nil *meta.Meta is replaced by a fresh one)
	"multicodec.Code":   "Int", // a multicodec code is an unsigned varint; only compared with constants
	"args.ReadOnly":     "R",   // the read-only view handed to an argument hook
	"token.Token":       "T",   // the interface both token types satisfy: only handed on
	"crypto.PrivKey":    "K",   // a signing key: only handed on
	"io.Reader":         "Rdr", // a byte source: only handed on
	"container.Reader":  "Ctn", // the token set a container read yields: only handed on
}

// structDef is a Go struct whose listed fields are modelled; the Lean structure is generated from the
// Go declaration (a listed field that no longer exists, or whose type is no longer translatable, makes
// the structure MISSING).
type structDef struct {
	dir      string
	name     string
	lean     string // structure name
	leanType string // applied to its type parameters
	params   string // binder text
	want     []string
	concrete []string      // Go types the struct's fields see concretely (see target.Concrete)
	fields   map[string]ty // filled by emitStructs
}

var structTable = map[string]*structDef{
	"delegation.Token": {dir: "token/delegation", name: "Token", lean: "DlgTok", leanType: "(DlgTok D S)", params: "(D S : Type)",
		want: []string{"issuer", "audience", "subject", "command", "policy", "notBefore", "expiration"}},
	"invocation.Token": {dir: "token/invocation", name: "Token", lean: "InvTok", leanType: "(InvTok D C A)", params: "(D C A : Type)",
		want: []string{"issuer", "subject", "audience", "command", "arguments", "proof", "expiration"}},
	// the tokens as their decoders see them (with nonce, metadata and, for the invocation, cause and issue time), and the typed
	// payload that bindnode hands to tokenFromModel
	"delegation.Token#dec": {dir: "token/delegation", name: "Token", lean: "DlgDec", leanType: "(DlgDec D S M)", params: "(D S M : Type)",
		want: []string{"issuer", "audience", "subject", "command", "policy", "nonce", "meta", "notBefore", "expiration"}},
	"delegation.tokenPayloadModel": {dir: "token/delegation", name: "tokenPayloadModel", lean: "DlgModel", leanType: "(DlgModel N M)", params: "(N M : Type)",
		want: []string{"Iss", "Aud", "Sub", "Cmd", "Pol", "Nonce", "Meta", "Nbf", "Exp"}},
	"invocation.Token#dec": {dir: "token/invocation", name: "Token", lean: "InvDec", leanType: "(InvDec D C A M)", params: "(D C A M : Type)",
		want: []string{"issuer", "subject", "audience", "command", "arguments", "proof", "meta", "nonce", "expiration", "invokedAt", "cause"}},
	"invocation.tokenPayloadModel": {dir: "token/invocation", name: "tokenPayloadModel", lean: "InvModel", leanType: "(InvModel C A M)", params: "(C A M : Type)",
		want: []string{"Iss", "Sub", "Aud", "Cmd", "Args", "Prf", "Meta", "Nonce", "Exp", "Iat", "Cause"}},
	"envelope.Info": {dir: "token/internal/envelope", name: "Info", lean: "EnvInfo", leanType: "EnvInfo", params: "",
		want: []string{"Tag", "Signature", "VarsigHeader", "sigPayloadNode", "tokenPayloadNode"}, concrete: []string{"datamodel.Node"}},
	// the DID value as package did itself sees it (every other package sees the opaque, comparable D)
	// an argument set as package args itself sees it: the ordered keys and the value map (its entries as a list, in any order)
	"args.Args": {dir: "pkg/args", name: "Args", lean: "ArgsVal", leanType: "ArgsVal", params: "", want: []string{"Keys", "Values"}, concrete: []string{"datamodel.Node"}},
	"did.DID":   {dir: "did", name: "DID", lean: "DidVal", leanType: "DidVal", params: "", want: []string{"code", "bytes"}},
}

func emitStructs(b *strings.Builder, keys []string) error {
	concreteTypes = map[string]bool{}
	for _, key := range keys {
		concreteTypes[key] = true
		for _, c := range structTable[key].concrete {
			concreteTypes[c] = true
		}
	}
	defer func() { concreteTypes = map[string]bool{} }()
	for _, key := range keys {
		st := structTable[key]
		p, err := loadPkg(st.dir)
		if err != nil {
			return err
		}
		ts := p.typeSpec(st.name)
		if ts == nil {
			return fmt.Errorf("struct %s not found", key)
		}
		s, ok := ts.Type.(*ast.StructType)
		if !ok {
			return fmt.Errorf("%s is not a struct", key)
		}
		st.fields = map[string]ty{}
		fmt.Fprintf(b, "/-- the modelled fields of `%s` (%s) -/\nstructure %s %s where\n", key, st.dir, st.lean, st.params)
		for _, want := range st.want {
			found := false
			for _, fl := range s.Fields.List {
				for _, n := range fl.Names {
					if n.Name != want {
						continue
					}
					t, ok := typeOfExpr(p, fl.Type)
					if !ok {
						return fmt.Errorf("field %s.%s: type %s not translatable", key, want, goTypeName(p, fl.Type))
					}
					st.fields[want] = t
					fmt.Fprintf(b, "  %s : %s\n", leanIdent(want), t.lean)
					found = true
				}
			}
			if !found {
				return fmt.Errorf("field %s.%s not found", key, want)
			}
		}
		b.WriteString("\n")
	}
	return nil
}

type libCall struct {
	tmpl string
	t    ty
	uses []string
}

// concreteTable: what a Go type is for a target that lists it under Concrete (instead of the opaque parameter of typeTable)
var concreteTable = map[string]string{
	"datamodel.Node": "Node", // the model's IPLD node (Model/Node.lean) with the node API of Model/NodeApi.lean
}

// impureLibCalls: library functions that can fail — their translation is a GoM computation
var impureLibCalls = map[string]bool{"lookupByIndex__": true, "mbase.Decode": true, "varint.FromUvarint": true, "did.Parse": true, "parse.OptionalDID": true,
	"command.Parse": true, "command.IsValid": true, "envelope.CheckCanonicalDagCbor": true, "envelope.CIDFromBytes": true, "limits.ValidateIntegerBoundsIPLD": true, "policy.FromIPLD": true, "parse.OptionalTimestamp": true}

// libCalls: standard-library functions with their model. `lower` (strings.ToLower) stays a parameter.
var libCalls = map[string]libCall{
	// secretbox.Seal(out, message, &nonce, &key) appends the box to out; Open(nil, box, &nonce, &key) returns (message, ok)
	"secretbox.Seal":    {"($1 ++ (ext_seal $4 $3 $2))", ty{"Bytes", "[]byte"}, []string{"ext_seal"}},
	"secretbox.Open":    {"(ext_open $4 $3 $2)", ty{"(Bytes × Bool)", "pair"}, []string{"ext_open"}},
	"time.Unix":         {"$1", ty{"Int", "time.Time"}, nil},              // time.Unix(sec, 0): the instant, in seconds (the unit of every bound)
	"time.Now":          {"now", ty{"Int", "time.Time"}, []string{"now"}}, // the instant of the check is a parameter
	"strings.HasPrefix": {"(List.isPrefixOf $2 $1)", boolTy, nil},
	"strings.HasSuffix": {"(List.isSuffixOf $2 $1)", boolTy, nil},
	"strings.ToLower":   {"(lower $1)", ty{"Bytes", "string"}, []string{"lower"}},
	// go-multibase Decode: the base found (its prefix character) and the decoded bytes; go-varint FromUvarint: value and bytes read
	"mbase.Decode":       {"(ext_mbDecode $1)", ty{"(Int × Bytes)", "pair"}, []string{"ext_mbDecode"}},
	"varint.FromUvarint": {"(ext_fromUvarint $1)", ty{"(Int × Int)", "pair"}, []string{"ext_fromUvarint"}},
	// functions of other packages of the library that a decoder calls: translated ones are called, the others are parameters
	"did.Parse":                        {"(ext_didParse $1)", ty{"D", "did.DID"}, []string{"ext_didParse"}},
	"parse.OptionalDID":                {"(ext_optionalDID $1)", ty{"D", "did.DID"}, []string{"ext_optionalDID"}},
	"command.IsValid":                  {"(Command_IsValid lower $1)", boolTy, []string{"lower"}},
	"command.Parse":                    {"(Command_Parse lower $1)", ty{"Bytes", "command.Command"}, []string{"lower"}},
	"policy.FromIPLD":                  {"(ext_policyFromIPLD $1)", ty{"(List (Option S))", "policy.Policy"}, []string{"ext_policyFromIPLD"}},
	"parse.OptionalTimestamp":          {"(OptionalTimestamp $1)", ty{"(Option Int)", "*time.Time"}, nil},
	"limits.ValidateIntegerBoundsIPLD": {"(ValidateIntegerBoundsIPLD_run $1)", ty{"Unit", "unit"}, nil},
	"envelope.CheckCanonicalDagCbor":   {"(ext_CheckCanonical $1)", ty{"Unit", "unit"}, []string{"ext_CheckCanonical"}},
	"envelope.CIDFromBytes":            {"(ext_CIDFromBytes $1)", ty{"C", "cid.Cid"}, []string{"ext_CIDFromBytes"}},
	"bytes.NewReader":                  {"(ext_bytesReader $1)", ty{"Rdr", "io.Reader"}, []string{"ext_bytesReader"}},
	"base64.NewDecoder":                {"(ext_b64Decoder $1 $2)", ty{"Rdr", "io.Reader"}, []string{"ext_b64Decoder"}},
	"meta.NewMeta":                     {"(some ext_newMeta)", ty{"(Option M)", "*meta.Meta"}, []string{"ext_newMeta"}},
	// pseudo-functions the map-iterator rewrite produces
	"listEntries__": {"(listEntries $1)", ty{"(List Node)", "[]datamodel.Node"}, nil},
	"mapEntries__":  {"(mapEntries $1)", ty{"(List (Node × Node))", "[]nodepair"}, nil},
	"pairFst__":     {"($1).1", ty{"Node", "datamodel.Node"}, nil},
	"pairSnd__":     {"($1).2", ty{"Node", "datamodel.Node"}, nil},
	"math.IsNaN":    {"(Float64.isNaN $1)", boolTy, nil},
	"math.IsInf":    {"(floatIsInf $1 $2)", boolTy, nil},
	"strings.Split": {"(splitOn $1 $2)", ty{"(List Bytes)", "[]string"}, nil}, // a non-empty separator (the callers pass a constant)
}

// methodCalls: library methods, keyed by "GoType.Method".
var methodCalls = map[string]libCall{
	"datamodel.Node.Kind":    {"(Node.kind $r)", ty{"Kind", "datamodel.Kind"}, nil},
	"datamodel.Node.Length":  {"(nodeLength $r)", intTy, nil},
	"did.DID.Defined":        {"(ext_defined $r)", boolTy, []string{"ext_defined"}},
	"time.Time.After":        {"(decide ($r > $1))", boolTy, nil},
	"time.Time.Before":       {"(decide ($r < $1))", boolTy, nil},
	"command.Command.String": {"$r", ty{"Bytes", "string"}, nil},
}

// externMethods: methods of the library that are NOT translated; the generated code takes them as parameters
// (section variables declared in the file's prelude), so that the theorems about it hold for every behaviour of
// these functions. loadProofs talks to the caller's Loader; verifyArgs hands the chain's policies to Policy.Match.
var externMethods = map[string]libCall{
	"invocation.Token.loadProofs":     {"(ext_loadProofs $r $1)", ty{"(List (DlgTok D S))", "[]delegation.Token"}, []string{"ext_loadProofs"}},
	"delegation.Loader.GetDelegation": {"(ext_GetDelegation $r $1)", ty{"(DlgTok D S)", "*delegation.Token"}, []string{"ext_GetDelegation"}},
	"datamodel.Node.LookupByIndex":    {"(lookupByIndex $r $1)", ty{"Node", "datamodel.Node"}, nil},
	"datamodel.Node.AsBytes":          {"(asBytes $r)", ty{"Bytes", "[]byte"}, nil},
	"datamodel.Node.AsString":         {"(asString $r)", ty{"Bytes", "string"}, nil},
	"datamodel.Node.AsInt":            {"(asInt $r)", intTy, nil},
	"datamodel.Node.AsFloat":          {"(asFloat $r)", ty{"UInt64", "float64"}, nil},
	"*time.Time.Unix":                 {"(deref $r)", ty{"Int", "int64"}, nil},
	"*args.Args.ReadOnly":             {"(ext_ReadOnly $r)", ty{"R", "args.ReadOnly"}, []string{"ext_ReadOnly"}},
	"*args.Args.Validate":             {"(ext_argsValidate $r)", ty{"Unit", "unit"}, []string{"ext_argsValidate"}},
	"*args.Args.ToIPLD":               {"(ext_toIPLD $r)", ty{"N", "datamodel.Node"}, []string{"ext_toIPLD"}},
	"delegation.Token.ToDagCbor":      {"(ext_dlgToDagCbor $r $1)", ty{"Bytes", "[]byte"}, []string{"ext_dlgToDagCbor"}},
	"invocation.Token.ToDagCbor":      {"(ext_invToDagCbor $r $1)", ty{"Bytes", "[]byte"}, []string{"ext_invToDagCbor"}},
}

// shellMethods: the parameters a shell target takes for the methods it calls.
var shellMethods = map[string]libCall{
	"delegation.Token.validate":         {"(ext_dlgValidate $r)", ty{"Unit", "unit"}, []string{"ext_dlgValidate"}},
	"invocation.Token.validate":         {"(ext_invValidate $r)", ty{"Unit", "unit"}, []string{"ext_invValidate"}},
	"invocation.Token.executionAllowed": {"(ext_executionAllowed $r $1 $2)", ty{"Unit", "unit"}, []string{"ext_executionAllowed"}},
	"command.Command.Covers":            {"(ext_Covers $r $1)", boolTy, []string{"ext_Covers"}},
	"invocation.Token.loadProofs":       {"(ext_loadProofs $r $1)", ty{"(List (DlgTok D S))", "[]delegation.Token"}, []string{"ext_loadProofs"}},
	"invocation.Token.verifyProofs":     {"(ext_verifyProofs $r $1)", ty{"Unit", "unit"}, []string{"ext_verifyProofs"}},
	"invocation.Token.verifyTimeBound":  {"(ext_verifyTimeBound $r $1)", ty{"Unit", "unit"}, []string{"ext_verifyTimeBound"}},
	"invocation.Token.verifyArgs":       {"(ext_verifyArgs $r $1 $2)", ty{"Unit", "unit"}, []string{"ext_verifyArgs"}},
}

// externFuncs: functions (not methods) of the library that are parameters of the generated code, keyed by "<dir>.<name>".
// matchStatement is the statement evaluator (tied by the `policy` stream); it returns the result code and the statement to report.
var externFuncs = map[string]libCall{
	"pkg/policy.matchStatement": {"(ext_matchStatement $1 $2)", ty{"(Int × (Option S))", "pair"}, []string{"ext_matchStatement"}},
	// the recursive statement decoder (type switches over an interface, closures that return values): a parameter of FromIPLD's
	// translation; the path argument only feeds error texts
	// the three FromSealed functions: decoding, the canonical-form check and the CID are parameters
	"token.FromDagCbor":             {"(← (ext_FromDagCbor $1))", ty{"T", "token.Token"}, []string{"ext_FromDagCbor"}},
	"token/delegation.FromDagCbor":  {"(← (ext_dlgFromDagCbor $1))", ty{"(DlgTok D S)", "delegation.Token"}, []string{"ext_dlgFromDagCbor"}},
	"token/invocation.FromDagCbor":  {"(← (ext_invFromDagCbor $1))", ty{"(InvTok D C A)", "invocation.Token"}, []string{"ext_invFromDagCbor"}},
	"pkg/container.FromCborReader":  {"(← (ext_FromCborReader $1))", ty{"Ctn", "container.Reader"}, []string{"ext_FromCborReader"}},
	"pkg/container.FromCarReader":   {"(← (ext_FromCarReader $1))", ty{"Ctn", "container.Reader"}, []string{"ext_FromCarReader"}},
	"pkg/policy.statementsFromIPLD": {"(← (ext_statementsFromIPLD $2))", ty{"(List (Option S))", "policy.Policy"}, []string{"ext_statementsFromIPLD"}},
}

// useTypes: Lean types of the parameters (section variables) that targets may mention
var useTypes = map[string]string{
	"lower":                  "Bytes → Bytes",
	"now":                    "Int",
	"ext_loadProofs":         "InvTok D C A → L → GoM (List (DlgTok D S))",
	"ext_toIPLD":             "A → GoM N",
	"ext_executionAllowed":   "InvTok D C A → L → A → GoM Unit",
	"ext_randRead":           "Nat → GoM Bytes",
	"ext_seal":               "Bytes → Bytes → Bytes → Bytes",
	"ext_open":               "Bytes → Bytes → Bytes → (Bytes × Bool)",
	"ext_ReadOnly":           "A → GoM R",
	"ext_GetDelegation":      "L → C → GoM (DlgTok D S)",
	"ext_Covers":             "Bytes → Bytes → GoM Bool",
	"ext_verifyProofs":       "InvTok D C A → List (DlgTok D S) → GoM Unit",
	"ext_verifyTimeBound":    "InvTok D C A → List (DlgTok D S) → GoM Unit",
	"ext_verifyArgs":         "InvTok D C A → List (DlgTok D S) → A → GoM Unit",
	"ext_matchStatement":     "Option S → N → (Int × (Option S))",
	"ext_mbDecode":           "Bytes → GoM (Int × Bytes)",
	"ext_didParse":           "Bytes → GoM D",
	"ext_defined":            "D → Bool",
	"ext_optionalDID":        "Option Bytes → GoM D",
	"ext_policyFromIPLD":     "N → GoM (List (Option S))",
	"ext_newMeta":            "M",
	"ext_dlgValidate":        "DlgDec D S M → GoM Unit",
	"ext_invValidate":        "InvDec D C A M → GoM Unit",
	"ext_argsValidate":       "A → GoM Unit",
	"ext_fromUvarint":        "Bytes → GoM (Int × Int)",
	"ext_undef":              "D",
	"ext_FromDagCbor":        "Bytes → GoM T",
	"ext_dlgFromDagCbor":     "Bytes → GoM (DlgTok D S)",
	"ext_invFromDagCbor":     "Bytes → GoM (InvTok D C A)",
	"ext_CheckCanonical":     "Bytes → GoM Unit",
	"ext_CIDFromBytes":       "Bytes → GoM C",
	"ext_FromCborReader":     "Rdr → GoM Ctn",
	"ext_FromCarReader":      "Rdr → GoM Ctn",
	"ext_bytesReader":        "Bytes → Rdr",
	"ext_b64Decoder":         "B64Enc → Rdr → Rdr",
	"ext_dlgToDagCbor":       "DlgTok D S → K → GoM Bytes",
	"ext_invToDagCbor":       "InvTok D C A → K → GoM Bytes",
	"ext_statementsFromIPLD": "Node → GoM (List (Option S))",
	"ext_self":               "Node → GoM Unit", // limits.ValidateIntegerBoundsIPLD calling itself (open recursion)
}

// pairTypes: component types of the pair types externs return
var pairTypes = map[string][2]ty{
	"(Int × (Option S))":  {intTy, ty{"(Option S)", "policy.Statement"}},
	"(Bytes × Bool)":      {ty{"Bytes", "[]byte"}, boolTy},
	"(Bool × (Option S))": {boolTy, ty{"(Option S)", "policy.Statement"}},
	"(Int × Bytes)":       {intTy, ty{"Bytes", "[]byte"}},
	"(Int × Int)":         {intTy, intTy},
}

const policyMatchPrelude = `variable {N : Type} (ext_matchStatement : Option S → N → (Int × (Option S)))
`

const chainArgsPrelude = `variable {N : Type} (ext_matchStatement : Option S → N → (Int × (Option S))) (ext_toIPLD : A → GoM N)
`

const chainShellPrelude = `variable {L : Type} (ext_loadProofs : InvTok D C A → L → GoM (List (DlgTok D S)))
  (ext_verifyProofs : InvTok D C A → List (DlgTok D S) → GoM Unit) (ext_verifyTimeBound : InvTok D C A → List (DlgTok D S) → GoM Unit)
  (ext_verifyArgs : InvTok D C A → List (DlgTok D S) → A → GoM Unit)
`

const secretboxPrelude = `variable (ext_randRead : Nat → GoM Bytes) (ext_seal : Bytes → Bytes → Bytes → Bytes)
  (ext_open : Bytes → Bytes → Bytes → (Bytes × Bool))
`

const decodePrelude = `variable {N M : Type} (ext_didParse : Bytes → GoM D) (ext_optionalDID : Option Bytes → GoM D)
  (ext_policyFromIPLD : N → GoM (List (Option S))) (ext_newMeta : M) (ext_dlgValidate : DlgDec D S M → GoM Unit)
  (ext_invValidate : InvDec D C A M → GoM Unit) (ext_argsValidate : A → GoM Unit) (ext_defined : D → Bool)
`

const didPrelude = `variable (ext_mbDecode : Bytes → GoM (Int × Bytes)) (ext_fromUvarint : Bytes → GoM (Int × Int))
`

const chainEntryPrelude = `variable {L R : Type} (ext_executionAllowed : InvTok D C A → L → A → GoM Unit) (ext_ReadOnly : A → GoM R)
`

const chainAllowedPrelude = `variable {L N : Type} (now : Int) (ext_GetDelegation : L → C → GoM (DlgTok D S))
  (ext_matchStatement : Option S → N → (Int × (Option S))) (ext_toIPLD : A → GoM N)
`

type constDef struct {
	code string
	t    ty
}

// constTable: constants of other packages. math.MinInt / math.MaxInt are the 64-bit values (the
// sentinel the selector parser stores for an open slice bound).
var constTable = map[string]constDef{
	// go-multibase / go-multicodec constants (dependencies): the prefix character of base58btc, the public-key codecs
	"mbase.Base58BTC":         {"(122 : Int)", intTy},
	"multicodec.X25519Pub":    {"(236 : Int)", intTy},
	"multicodec.Ed25519Pub":   {"(237 : Int)", intTy},
	"multicodec.Secp256k1Pub": {"(231 : Int)", intTy},
	"multicodec.P256Pub":      {"(4608 : Int)", intTy},
	"multicodec.P384Pub":      {"(4609 : Int)", intTy},
	"multicodec.P521Pub":      {"(4610 : Int)", intTy},
	"multicodec.RsaPub":       {"(4613 : Int)", intTy},
	"base64.StdEncoding":      {"B64Enc.std", ty{"B64Enc", "*base64.Encoding"}}, // which alphabet / padding the decoder is given
	"base64.URLEncoding":      {"B64Enc.url", ty{"B64Enc", "*base64.Encoding"}},
	"base64.RawStdEncoding":   {"B64Enc.rawStd", ty{"B64Enc", "*base64.Encoding"}},
	"base64.RawURLEncoding":   {"B64Enc.rawUrl", ty{"B64Enc", "*base64.Encoding"}},
	"did.Undef":               {"ext_undef", ty{"D", "did.DID"}}, // the zero DID: a parameter wherever DID is the opaque D
	"datamodel.Kind_Int":      {"Kind.int", ty{"Kind", "datamodel.Kind"}},
	"datamodel.Kind_Float":    {"Kind.float", ty{"Kind", "datamodel.Kind"}},
	"datamodel.Kind_String":   {"Kind.str", ty{"Kind", "datamodel.Kind"}},
	"datamodel.Kind_Bytes":    {"Kind.bytes", ty{"Kind", "datamodel.Kind"}},
	"datamodel.Kind_Bool":     {"Kind.bool", ty{"Kind", "datamodel.Kind"}},
	"datamodel.Kind_Null":     {"Kind.null", ty{"Kind", "datamodel.Kind"}},
	"datamodel.Kind_Link":     {"Kind.link", ty{"Kind", "datamodel.Kind"}},
	"datamodel.Kind_List":     {"Kind.list", ty{"Kind", "datamodel.Kind"}},
	"datamodel.Kind_Map":      {"Kind.map", ty{"Kind", "datamodel.Kind"}},
	"math.MinInt":             {"(-9223372036854775808 : Int)", intTy},
	"limits.MaxInt53":         {"Ucan.Facts.maxInt53", intTy}, // the regenerated constants (Gen/Facts.lean)
	"limits.MinInt53":         {"Ucan.Facts.minInt53", intTy},
	"math.MaxInt":             {"(9223372036854775807 : Int)", intTy},
}

// limitsPostlude: the recursion of ValidateIntegerBoundsIPLD closed with fuel (each level of nesting of the node costs one)
const limitsPostlude = `/-- ` + "`limits.ValidateIntegerBoundsIPLD`" + `: the regenerated body with its recursive calls bound to the same function with less fuel -/
def ValidateIntegerBoundsIPLD : Nat → Node → GoM Unit
  | 0, _ => throw .fuel
  | fuel + 1, node => ValidateIntegerBoundsIPLD_step (ValidateIntegerBoundsIPLD fuel) node

/-- … as its callers see it: with the fuel the node's nesting depth asks for (Tie/Limits: any larger fuel gives the same answer) -/
def ValidateIntegerBoundsIPLD_run (node : Node) : GoM Unit := ValidateIntegerBoundsIPLD (nodeDepth node + 1) node
`

const prelude = `variable (lower : Bytes → Bytes) {D C S A : Type} [DecidableEq D]
`
