package main

import (
	"go/ast"
	"go/token"
)

// Scalar replacement of a struct-typed local. A decoder such as tokenFromModel declares `var tkn Token`, fills it field by
// field (`tkn.f = e`, `tkn.f, err = g()`, `if tkn.f, err = g(); err != nil {…}`), calls a method on it and returns `&tkn`.
// Before translation the body is rewritten into an equivalent one without the struct variable:
//   - every `tkn.f` becomes the local `tkn_f` (declared by its first assignment);
//   - `if tkn.f, err = g(); err != nil {…}` becomes the assignment followed by the `if` (err is the function-level variable);
//   - `tkn`, `&tkn` (a use of the whole value) becomes the composite literal `Token{f: tkn_f, …}` over the MODELLED fields;
//   - the declaration of `tkn` (and of `err`, which only the error idioms mention) is dropped.
//
// A modelled field that was never assigned when the whole value is used makes the literal mention an undeclared local, and the
// translation fails (MISSING) — the zero value of a field is not modelled.
type structLocal struct {
	zero       bool // every field gets a local with its zero value up front (fields first assigned inside a loop or a branch)
	name       string
	typeExpr   ast.Expr
	fields     []string            // modelled fields, in declaration order of the model
	declared   map[string]bool     // fields whose local exists already
	fieldTypes map[string]ast.Expr // Go type expressions of the fields (zero mode)
}

func (r *structLocal) local(field string) *ast.Ident { return ast.NewIdent(r.name + "_" + field) }

func (r *structLocal) whole() ast.Expr {
	lit := &ast.CompositeLit{Type: r.typeExpr}
	for _, f := range r.fields {
		lit.Elts = append(lit.Elts, &ast.KeyValueExpr{Key: ast.NewIdent(f), Value: r.local(f)})
	}
	return lit
}

func (r *structLocal) expr(e ast.Expr) ast.Expr {
	switch x := e.(type) {
	case nil:
		return nil
	case *ast.Ident:
		if x.Name == r.name {
			return r.whole()
		}
		return x
	case *ast.SelectorExpr:
		if id, ok := x.X.(*ast.Ident); ok && id.Name == r.name {
			return r.local(x.Sel.Name)
		}
		return &ast.SelectorExpr{X: r.expr(x.X), Sel: x.Sel}
	case *ast.UnaryExpr:
		if x.Op == token.AND {
			if id, ok := x.X.(*ast.Ident); ok && id.Name == r.name {
				return r.whole()
			}
		}
		return &ast.UnaryExpr{OpPos: x.OpPos, Op: x.Op, X: r.expr(x.X)}
	case *ast.CallExpr:
		out := &ast.CallExpr{Fun: x.Fun, Lparen: x.Lparen, Ellipsis: x.Ellipsis, Rparen: x.Rparen}
		if sel, ok := x.Fun.(*ast.SelectorExpr); ok {
			if id, ok := sel.X.(*ast.Ident); ok && id.Name == r.name {
				out.Fun = &ast.SelectorExpr{X: r.whole(), Sel: sel.Sel} // a method of the whole value
			} else {
				out.Fun = &ast.SelectorExpr{X: r.expr(sel.X), Sel: sel.Sel}
			}
		}
		for _, a := range x.Args {
			out.Args = append(out.Args, r.expr(a))
		}
		return out
	case *ast.BinaryExpr:
		return &ast.BinaryExpr{X: r.expr(x.X), OpPos: x.OpPos, Op: x.Op, Y: r.expr(x.Y)}
	case *ast.ParenExpr:
		return &ast.ParenExpr{Lparen: x.Lparen, X: r.expr(x.X), Rparen: x.Rparen}
	case *ast.StarExpr:
		return &ast.StarExpr{Star: x.Star, X: r.expr(x.X)}
	case *ast.IndexExpr:
		return &ast.IndexExpr{X: r.expr(x.X), Lbrack: x.Lbrack, Index: r.expr(x.Index), Rbrack: x.Rbrack}
	case *ast.SliceExpr:
		return &ast.SliceExpr{X: r.expr(x.X), Lbrack: x.Lbrack, Low: r.expr(x.Low), High: r.expr(x.High), Max: r.expr(x.Max), Slice3: x.Slice3, Rbrack: x.Rbrack}
	case *ast.KeyValueExpr:
		return &ast.KeyValueExpr{Key: x.Key, Colon: x.Colon, Value: r.expr(x.Value)}
	case *ast.CompositeLit:
		out := &ast.CompositeLit{Type: x.Type, Lbrace: x.Lbrace, Rbrace: x.Rbrace}
		for _, el := range x.Elts {
			out.Elts = append(out.Elts, r.expr(el))
		}
		return out
	}
	return e
}

func (r *structLocal) assign(s *ast.AssignStmt) *ast.AssignStmt {
	out := &ast.AssignStmt{TokPos: s.TokPos, Tok: s.Tok}
	fresh := false
	for _, l := range s.Lhs {
		if sel, ok := l.(*ast.SelectorExpr); ok {
			if id, ok := sel.X.(*ast.Ident); ok && id.Name == r.name {
				if !r.declared[sel.Sel.Name] {
					r.declared[sel.Sel.Name] = true
					fresh = true
				}
				out.Lhs = append(out.Lhs, r.local(sel.Sel.Name))
				continue
			}
		}
		out.Lhs = append(out.Lhs, r.expr(l))
	}
	for _, e := range s.Rhs {
		out.Rhs = append(out.Rhs, r.expr(e))
	}
	if fresh {
		out.Tok = token.DEFINE // the first assignment of a field declares its local
	}
	return out
}

func (r *structLocal) stmts(list []ast.Stmt) []ast.Stmt {
	var out []ast.Stmt
	for _, s := range list {
		out = append(out, r.stmt(s)...)
	}
	return out
}

func (r *structLocal) block(b *ast.BlockStmt) *ast.BlockStmt {
	if b == nil {
		return nil
	}
	return &ast.BlockStmt{Lbrace: b.Lbrace, List: r.stmts(b.List), Rbrace: b.Rbrace}
}

func (r *structLocal) mentions(n ast.Node) bool {
	found := false
	ast.Inspect(n, func(m ast.Node) bool {
		if id, ok := m.(*ast.Ident); ok && id.Name == r.name {
			found = true
		}
		return !found
	})
	return found
}

func (r *structLocal) stmt(s ast.Stmt) []ast.Stmt {
	switch x := s.(type) {
	case *ast.DeclStmt:
		gd, ok := x.Decl.(*ast.GenDecl)
		if !ok || gd.Tok != token.VAR {
			return []ast.Stmt{s}
		}
		keep := &ast.GenDecl{Tok: gd.Tok, TokPos: gd.TokPos, Lparen: gd.Lparen, Rparen: gd.Rparen}
		for _, sp := range gd.Specs {
			vs := sp.(*ast.ValueSpec)
			if len(vs.Names) == 1 && vs.Names[0].Name == r.name && r.zero {
				// one zero-valued local per modelled field, declared where the struct was
				for _, f := range r.fields {
					ft := r.fieldTypes[f]
					if ft == nil {
						fail(vs.Pos(), "no declared type for field %s", f)
					}
					keep.Specs = append(keep.Specs, &ast.ValueSpec{Names: []*ast.Ident{r.local(f)}, Type: ft})
					r.declared[f] = true
				}
				continue
			}
			if len(vs.Names) == 1 && (vs.Names[0].Name == r.name || (vs.Names[0].Name == "err" && len(vs.Values) == 0)) {
				continue
			}
			keep.Specs = append(keep.Specs, sp)
		}
		if len(keep.Specs) == 0 {
			return nil
		}
		return []ast.Stmt{&ast.DeclStmt{Decl: keep}}
	case *ast.AssignStmt:
		return []ast.Stmt{r.assign(x)}
	case *ast.IfStmt:
		out := &ast.IfStmt{If: x.If, Cond: r.expr(x.Cond), Body: r.block(x.Body)}
		switch e := x.Else.(type) {
		case *ast.BlockStmt:
			out.Else = r.block(e)
		case *ast.IfStmt:
			es := r.stmt(e)
			if len(es) == 1 {
				out.Else = es[0]
			} else {
				out.Else = &ast.BlockStmt{List: es}
			}
		}
		if as, ok := x.Init.(*ast.AssignStmt); ok && as.Tok == token.ASSIGN && r.mentions(as) {
			// if tkn.f, err = g(); err != nil {…}   ==>   tkn_f, err = g(); if err != nil {…}
			return []ast.Stmt{r.assign(as), out}
		}
		if x.Init != nil {
			is := r.stmt(x.Init)
			if len(is) == 1 {
				out.Init = is[0]
			}
		}
		return []ast.Stmt{out}
	case *ast.ReturnStmt:
		out := &ast.ReturnStmt{Return: x.Return}
		for _, e := range x.Results {
			out.Results = append(out.Results, r.expr(e))
		}
		return []ast.Stmt{out}
	case *ast.ExprStmt:
		return []ast.Stmt{&ast.ExprStmt{X: r.expr(x.X)}}
	case *ast.BlockStmt:
		return []ast.Stmt{r.block(x)}
	case *ast.RangeStmt:
		return []ast.Stmt{&ast.RangeStmt{For: x.For, Key: x.Key, Value: x.Value, TokPos: x.TokPos, Tok: x.Tok, X: r.expr(x.X), Body: r.block(x.Body)}}
	case *ast.ForStmt:
		if x.Init != nil && r.mentions(x.Init) || x.Post != nil && r.mentions(x.Post) {
			fail(x.Pos(), "for statement whose init/post mentions the struct local %s", r.name)
		}
		return []ast.Stmt{&ast.ForStmt{For: x.For, Init: x.Init, Cond: r.expr(x.Cond), Post: x.Post, Body: r.block(x.Body)}}
	case *ast.SwitchStmt:
		if x.Init != nil {
			fail(x.Pos(), "switch with an init statement")
		}
		out := &ast.SwitchStmt{Switch: x.Switch, Tag: r.expr(x.Tag), Body: &ast.BlockStmt{}}
		for _, cc := range x.Body.List {
			c := cc.(*ast.CaseClause)
			nc := &ast.CaseClause{Case: c.Case, Colon: c.Colon, Body: r.stmts(c.Body)}
			for _, e := range c.List {
				nc.List = append(nc.List, r.expr(e))
			}
			out.Body.List = append(out.Body.List, nc)
		}
		return []ast.Stmt{out}
	}
	if r.mentions(s) {
		fail(s.Pos(), "statement %T mentions the struct local %s", s, r.name)
	}
	return []ast.Stmt{s}
}

// rewriteStructLocal returns the body of fd without the struct-typed local `name` (see above), or nil when fd does not
// declare such a local of a modelled struct type.
func rewriteStructLocal(p *pkg, fd *ast.FuncDecl, name string, zero bool) *ast.BlockStmt {
	var typeExpr ast.Expr
	ast.Inspect(fd.Body, func(n ast.Node) bool {
		if vs, ok := n.(*ast.ValueSpec); ok && len(vs.Names) == 1 && vs.Names[0].Name == name && len(vs.Values) == 0 {
			typeExpr = vs.Type
		}
		return typeExpr == nil
	})
	if typeExpr == nil {
		fail(fd.Pos(), "no declaration `var %s T` found", name)
	}
	t, ok := typeOfExpr(p, typeExpr)
	st := structFor(t.gon)
	if !ok || st == nil || st.fields == nil {
		fail(fd.Pos(), "the struct local %s is not of a modelled struct type (%s)", name, goTypeName(p, typeExpr))
	}
	r := &structLocal{name: name, typeExpr: typeExpr, fields: st.want, declared: map[string]bool{}, zero: zero, fieldTypes: map[string]ast.Expr{}}
	if zero {
		sp, err := loadPkg(st.dir)
		if err != nil {
			fail(fd.Pos(), "%v", err)
		}
		if ts := sp.typeSpec(st.name); ts != nil {
			if stt, ok := ts.Type.(*ast.StructType); ok {
				for _, fl := range stt.Fields.List {
					for _, n := range fl.Names {
						r.fieldTypes[n.Name] = fl.Type
					}
				}
			}
		}
	}
	return r.block(fd.Body)
}
