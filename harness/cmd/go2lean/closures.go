package main

import (
	"go/ast"
	"go/token"
)

// Inlining of local closures. A function such as validate() declares helpers
//
//	check := func(x T, name string) { if … { errs = errors.Join(errs, …) } }
//
// that have no results, contain no `return`, and only read their parameters; each call `check(a, "n")` used as a statement is
// replaced by the closure's body with the parameters substituted by the argument expressions (the arguments are field
// reads and literals: evaluating them where the parameter is mentioned is evaluating them at the call). The closure
// declaration is dropped. Anything else — a closure with results, one that is passed on, a parameter that is assigned, an
// argument with a call in it — makes the translation fail (MISSING).

type closureDef struct {
	params []string
	body   *ast.BlockStmt
}

func hasCall(e ast.Expr) bool {
	found := false
	ast.Inspect(e, func(n ast.Node) bool {
		if _, ok := n.(*ast.CallExpr); ok {
			found = true
		}
		return !found
	})
	return found
}

func substExpr(e ast.Expr, m map[string]ast.Expr) ast.Expr {
	switch x := e.(type) {
	case nil:
		return nil
	case *ast.Ident:
		if r, ok := m[x.Name]; ok {
			return r
		}
		return x
	case *ast.SelectorExpr:
		return &ast.SelectorExpr{X: substExpr(x.X, m), Sel: x.Sel}
	case *ast.UnaryExpr:
		return &ast.UnaryExpr{OpPos: x.OpPos, Op: x.Op, X: substExpr(x.X, m)}
	case *ast.CallExpr:
		out := &ast.CallExpr{Fun: substExpr(x.Fun, m), Lparen: x.Lparen, Ellipsis: x.Ellipsis, Rparen: x.Rparen}
		for _, a := range x.Args {
			out.Args = append(out.Args, substExpr(a, m))
		}
		return out
	case *ast.BinaryExpr:
		return &ast.BinaryExpr{X: substExpr(x.X, m), OpPos: x.OpPos, Op: x.Op, Y: substExpr(x.Y, m)}
	case *ast.ParenExpr:
		return &ast.ParenExpr{Lparen: x.Lparen, X: substExpr(x.X, m), Rparen: x.Rparen}
	case *ast.StarExpr:
		return &ast.StarExpr{Star: x.Star, X: substExpr(x.X, m)}
	case *ast.IndexExpr:
		return &ast.IndexExpr{X: substExpr(x.X, m), Lbrack: x.Lbrack, Index: substExpr(x.Index, m), Rbrack: x.Rbrack}
	case *ast.BasicLit:
		return x
	}
	fail(e.Pos(), "closure body: expression %T", e)
	return nil
}

func substStmts(list []ast.Stmt, m map[string]ast.Expr) []ast.Stmt {
	var out []ast.Stmt
	for _, s := range list {
		switch x := s.(type) {
		case *ast.IfStmt:
			if x.Init != nil || x.Else != nil {
				fail(x.Pos(), "closure body: if with init or else")
			}
			out = append(out, &ast.IfStmt{If: x.If, Cond: substExpr(x.Cond, m), Body: &ast.BlockStmt{List: substStmts(x.Body.List, m)}})
		case *ast.AssignStmt:
			a := &ast.AssignStmt{Tok: x.Tok, TokPos: x.TokPos}
			for _, l := range x.Lhs {
				if id, ok := l.(*ast.Ident); ok {
					if _, isParam := m[id.Name]; isParam {
						fail(x.Pos(), "closure body assigns its parameter %s", id.Name)
					}
				}
				a.Lhs = append(a.Lhs, substExpr(l, m))
			}
			for _, r := range x.Rhs {
				a.Rhs = append(a.Rhs, substExpr(r, m))
			}
			out = append(out, a)
		case *ast.ExprStmt:
			out = append(out, &ast.ExprStmt{X: substExpr(x.X, m)})
		default:
			fail(s.Pos(), "closure body: statement %T", s)
		}
	}
	return out
}

// inlineClosures returns the body with every local closure of the supported shape inlined at its call statements.
func inlineClosures(body *ast.BlockStmt) *ast.BlockStmt {
	defs := map[string]closureDef{}
	var walk func(list []ast.Stmt) []ast.Stmt
	walk = func(list []ast.Stmt) []ast.Stmt {
		var out []ast.Stmt
		for _, s := range list {
			if as, ok := s.(*ast.AssignStmt); ok && as.Tok == token.DEFINE && len(as.Lhs) == 1 && len(as.Rhs) == 1 {
				if fl, ok := as.Rhs[0].(*ast.FuncLit); ok {
					id := as.Lhs[0].(*ast.Ident)
					if fl.Type.Results != nil && len(fl.Type.Results.List) > 0 {
						fail(fl.Pos(), "closure %s has results", id.Name)
					}
					ast.Inspect(fl.Body, func(n ast.Node) bool {
						if _, isRet := n.(*ast.ReturnStmt); isRet {
							fail(n.Pos(), "closure %s returns", id.Name)
						}
						return true
					})
					var ps []string
					for _, fld := range fl.Type.Params.List {
						for _, n := range fld.Names {
							ps = append(ps, n.Name)
						}
					}
					defs[id.Name] = closureDef{ps, fl.Body}
					continue
				}
			}
			if es, ok := s.(*ast.ExprStmt); ok {
				if ce, ok := es.X.(*ast.CallExpr); ok {
					if id, ok := ce.Fun.(*ast.Ident); ok {
						if d, isClosure := defs[id.Name]; isClosure {
							if len(ce.Args) != len(d.params) {
								fail(ce.Pos(), "closure call arity")
							}
							m := map[string]ast.Expr{}
							for i, a := range ce.Args {
								if hasCall(a) {
									fail(a.Pos(), "closure argument with a call")
								}
								m[d.params[i]] = a
							}
							out = append(out, substStmts(d.body.List, m)...)
							continue
						}
					}
				}
			}
			if is, ok := s.(*ast.IfStmt); ok {
				cp := *is
				cp.Body = &ast.BlockStmt{List: walk(is.Body.List)}
				out = append(out, &cp)
				continue
			}
			out = append(out, s)
		}
		return out
	}
	res := &ast.BlockStmt{Lbrace: body.Lbrace, Rbrace: body.Rbrace, List: walk(body.List)}
	// a closure that is mentioned anywhere else (passed on, called inside an expression) is not supported
	ast.Inspect(res, func(n ast.Node) bool {
		if id, ok := n.(*ast.Ident); ok {
			if _, isClosure := defs[id.Name]; isClosure {
				fail(id.Pos(), "closure %s is used other than as a call statement", id.Name)
			}
		}
		return true
	})
	return res
}
