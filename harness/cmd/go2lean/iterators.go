package main

import (
	"go/ast"
	"go/token"
)

// Map (and list) iterators. go-ipld-prime's iteration idiom
//
//	it := E.MapIterator()
//	for !it.Done() {
//		PRE…                     // statements that do not mention `it`
//		k, v, err := it.Next()   // (either of k, v may be _)
//		if err != nil { return … }
//		REST…
//	}
//
// is rewritten, before translation, into
//
//	for _, kv__N := range mapEntries__(E) {
//		PRE…
//		k := pairFst__(kv__N)
//		v := pairSnd__(kv__N)
//		REST…
//	}
//
// (a `ListIterator` likewise, over `listEntries__(E)`, the range variable being the value; its index must be `_`).
// (`Done` is false exactly while an entry is left, `Next` hands out that entry and does not fail on a well-formed node: the
// error branch is dropped). `it` must not be mentioned anywhere else; any other use of an iterator leaves the function MISSING.
func rewriteMapIterators(body *ast.BlockStmt) *ast.BlockStmt {
	n := 0
	mentions := func(node ast.Node, name string) bool {
		found := false
		ast.Inspect(node, func(m ast.Node) bool {
			if id, ok := m.(*ast.Ident); ok && id.Name == name {
				found = true
			}
			return !found
		})
		return found
	}
	var walk func(list []ast.Stmt) []ast.Stmt
	walk = func(list []ast.Stmt) []ast.Stmt {
		var out []ast.Stmt
		for i := 0; i < len(list); i++ {
			s := list[i]
			as, ok := s.(*ast.AssignStmt)
			if ok && as.Tok == token.DEFINE && len(as.Lhs) == 1 && len(as.Rhs) == 1 {
				if ce, ok := as.Rhs[0].(*ast.CallExpr); ok && len(ce.Args) == 0 {
					if sel, ok := ce.Fun.(*ast.SelectorExpr); ok && (sel.Sel.Name == "MapIterator" || sel.Sel.Name == "ListIterator") {
						isList := sel.Sel.Name == "ListIterator"
						it := as.Lhs[0].(*ast.Ident).Name
						// the loop that consumes it: the next `for !it.Done()` at this level; statements in between must not mention it
						j := i + 1
						for j < len(list) {
							if fs, ok := list[j].(*ast.ForStmt); ok && isNotDone(fs.Cond, it) && fs.Init == nil && fs.Post == nil {
								break
							}
							if mentions(list[j], it) {
								fail(list[j].Pos(), "iterator %s is used outside its loop", it)
							}
							j++
						}
						if j == len(list) {
							fail(as.Pos(), "no `for !%s.Done()` loop found for the iterator", it)
						}
						fs := list[j].(*ast.ForStmt)
						n++
						kv := ast.NewIdent("kv__" + string(rune('0'+n)))
						var nb []ast.Stmt
						replaced := false
						bl := fs.Body.List
						for k := 0; k < len(bl); k++ {
							if na, ok := bl[k].(*ast.AssignStmt); ok && len(na.Lhs) == 3 && len(na.Rhs) == 1 && !replaced {
								if c2, ok := na.Rhs[0].(*ast.CallExpr); ok {
									if s2, ok := c2.Fun.(*ast.SelectorExpr); ok && s2.Sel.Name == "Next" {
										if x, ok := s2.X.(*ast.Ident); ok && x.Name == it {
											// the error check that follows is dropped
											if k+1 >= len(bl) {
												fail(na.Pos(), "it.Next() without an error check")
											}
											is, ok := bl[k+1].(*ast.IfStmt)
											if !ok || mentions(is.Cond, it) {
												fail(na.Pos(), "it.Next() without an error check")
											}
											if isList {
												// a list iterator hands out (index, value): the range variable IS the value; the index is not modelled
												if id, ok := na.Lhs[0].(*ast.Ident); !ok || id.Name != "_" {
													fail(na.Pos(), "the index of a list iterator is used")
												}
												if id, ok := na.Lhs[1].(*ast.Ident); ok && id.Name != "_" {
													nb = append(nb, &ast.AssignStmt{Lhs: []ast.Expr{id}, Tok: token.DEFINE, Rhs: []ast.Expr{kv}})
												}
											} else {
												for idx, fn := range []string{"pairFst__", "pairSnd__"} {
													if id, ok := na.Lhs[idx].(*ast.Ident); ok && id.Name != "_" {
														nb = append(nb, &ast.AssignStmt{Lhs: []ast.Expr{id}, Tok: token.DEFINE,
															Rhs: []ast.Expr{&ast.CallExpr{Fun: ast.NewIdent(fn), Args: []ast.Expr{kv}}}})
													}
												}
											}
											replaced = true
											k++ // skip the error check
											continue
										}
									}
								}
							}
							if mentions(bl[k], it) {
								fail(bl[k].Pos(), "iterator %s is used other than by Done/Next", it)
							}
							nb = append(nb, bl[k])
						}
						if !replaced {
							fail(fs.Pos(), "the loop over %s never calls Next", it)
						}
						for _, between := range list[i+1 : j] {
							out = append(out, between)
						}
						entries := "mapEntries__"
						if isList {
							entries = "listEntries__"
						}
						out = append(out, &ast.RangeStmt{Key: ast.NewIdent("_"), Value: kv, Tok: token.DEFINE,
							X:    &ast.CallExpr{Fun: ast.NewIdent(entries), Args: []ast.Expr{sel.X}},
							Body: &ast.BlockStmt{List: walk(nb)}, For: fs.For})
						i = j
						continue
					}
				}
			}
			// iterators inside the arms of a switch or an if
			switch x := s.(type) {
			case *ast.SwitchStmt:
				cp := *x
				nb := &ast.BlockStmt{Lbrace: x.Body.Lbrace, Rbrace: x.Body.Rbrace}
				for _, c := range x.Body.List {
					cc := *(c.(*ast.CaseClause))
					cc.Body = walk(cc.Body)
					nb.List = append(nb.List, &cc)
				}
				cp.Body = nb
				s = &cp
			case *ast.IfStmt:
				if x.Else == nil {
					cp := *x
					cp.Body = &ast.BlockStmt{Lbrace: x.Body.Lbrace, Rbrace: x.Body.Rbrace, List: walk(x.Body.List)}
					s = &cp
				}
			}
			out = append(out, s)
		}
		return out
	}
	return &ast.BlockStmt{Lbrace: body.Lbrace, Rbrace: body.Rbrace, List: walk(body.List)}
}

func isNotDone(cond ast.Expr, it string) bool {
	u, ok := cond.(*ast.UnaryExpr)
	if !ok || u.Op != token.NOT {
		return false
	}
	ce, ok := u.X.(*ast.CallExpr)
	if !ok || len(ce.Args) != 0 {
		return false
	}
	sel, ok := ce.Fun.(*ast.SelectorExpr)
	if !ok || sel.Sel.Name != "Done" {
		return false
	}
	id, ok := sel.X.(*ast.Ident)
	return ok && id.Name == it
}
