// go2lean regenerates, from the CURRENT source of go-ucan, Lean 4 definitions of a fixed list of
// pure Go functions (targets.go) and writes them as Ucan/Gen/Code.lean. It is the second regenerated
// half of the tie between model and code (the first is factgen's tables): `Ucan/Props/Tie.lean` proves
// each generated function equal to the hand-written model the property theorems are about, so a
// change to one of these functions re-opens a proof obligation at `lake build` time.
//
// The translation is syntactic (go/parser + go/ast, no type checker, no execution of /repo code) and
// covers a small subset of Go: integer / byte / string / slice expressions, if / switch / for / range,
// assignments, early returns, errors as sentinel names, calls between translated functions and a table
// of library calls (targets.go). Anything outside the subset makes the function MISSING: its Lean
// definition is omitted, so every theorem that mentions it stops compiling.
package main

import (
	"fmt"
	"go/ast"
	"go/parser"
	"go/printer"
	"go/token"
	"os"
	"path/filepath"
	"runtime/debug"
	"sort"
	"strconv"
	"strings"
)

// ------------------------------------------------------------------ packages

type pkg struct {
	dir   string // relative to the repo root
	name  string // package name
	files []*ast.File
}

var (
	fset     = token.NewFileSet()
	repoRoot string
	pkgCache = map[string]*pkg{}
)

func loadPkg(dir string) (*pkg, error) {
	if p, ok := pkgCache[dir]; ok {
		return p, nil
	}
	abs := filepath.Join(repoRoot, dir)
	ents, err := os.ReadDir(abs)
	if err != nil {
		return nil, err
	}
	p := &pkg{dir: dir}
	for _, e := range ents {
		n := e.Name()
		if !strings.HasSuffix(n, ".go") || strings.HasSuffix(n, "_test.go") {
			continue
		}
		f, err := parser.ParseFile(fset, filepath.Join(abs, n), nil, 0)
		if err != nil {
			return nil, err
		}
		p.files = append(p.files, f)
		p.name = f.Name.Name
	}
	pkgCache[dir] = p
	return p, nil
}

func (p *pkg) funcDecl(recv, name string) *ast.FuncDecl {
	for _, f := range p.files {
		for _, d := range f.Decls {
			fd, ok := d.(*ast.FuncDecl)
			if !ok || fd.Name.Name != name {
				continue
			}
			if recv == "" && fd.Recv == nil {
				return fd
			}
			if recv != "" && fd.Recv != nil && len(fd.Recv.List) == 1 {
				t := fd.Recv.List[0].Type
				if s, ok := t.(*ast.StarExpr); ok {
					t = s.X
				}
				if id, ok := t.(*ast.Ident); ok && id.Name == recv {
					return fd
				}
			}
		}
	}
	return nil
}

func (p *pkg) typeSpec(name string) *ast.TypeSpec {
	for _, f := range p.files {
		for _, d := range f.Decls {
			gd, ok := d.(*ast.GenDecl)
			if !ok || gd.Tok != token.TYPE {
				continue
			}
			for _, s := range gd.Specs {
				ts := s.(*ast.TypeSpec)
				if ts.Name.Name == name {
					return ts
				}
			}
		}
	}
	return nil
}

// iotaValue returns the value of a constant declared in a `const ( A T = iota; B; C … )` block.
func (p *pkg) iotaValue(name string) (int, bool) {
	for _, f := range p.files {
		for _, d := range f.Decls {
			gd, ok := d.(*ast.GenDecl)
			if !ok || gd.Tok != token.CONST {
				continue
			}
			isIota := false
			for i, s := range gd.Specs {
				vs := s.(*ast.ValueSpec)
				if len(vs.Values) == 1 {
					id, ok := vs.Values[0].(*ast.Ident)
					isIota = ok && id.Name == "iota"
				} else if len(vs.Values) > 1 {
					isIota = false
				}
				if len(vs.Names) == 1 && vs.Names[0].Name == name && isIota {
					return i, true
				}
			}
		}
	}
	return 0, false
}

// constExpr returns the initialiser of a package-level constant (single-name specs only).
func (p *pkg) constExpr(name string) ast.Expr {
	for _, f := range p.files {
		for _, d := range f.Decls {
			gd, ok := d.(*ast.GenDecl)
			if !ok || gd.Tok != token.CONST {
				continue
			}
			for _, s := range gd.Specs {
				vs := s.(*ast.ValueSpec)
				for i, n := range vs.Names {
					if n.Name == name && i < len(vs.Values) {
						return vs.Values[i]
					}
				}
			}
		}
	}
	return nil
}

// ------------------------------------------------------------------ errors

type unsupported struct{ msg string }

func (u unsupported) Error() string { return u.msg }

func fail(pos token.Pos, f string, a ...any) {
	where := ""
	if pos.IsValid() {
		p := fset.Position(pos)
		where = fmt.Sprintf("%s:%d: ", filepath.Base(p.Filename), p.Line)
	}
	if os.Getenv("GO2LEAN_DEBUG") != "" {
		fmt.Fprintln(os.Stderr, where+fmt.Sprintf(f, a...))
		debug.PrintStack()
	}
	panic(unsupported{where + fmt.Sprintf(f, a...)})
}

// ------------------------------------------------------------------ types

// ty is the translation of a Go type: the Lean type text and a normalised Go name ("pkg.Name") used to
// resolve methods.
type ty struct {
	lean string
	gon  string
}

func (t ty) elem() ty {
	switch {
	case t.lean == "Bytes":
		return ty{"UInt8", "byte"}
	case strings.HasPrefix(t.lean, "(List ") && strings.HasSuffix(t.lean, ")"):
		inner := t.lean[6 : len(t.lean)-1]
		g := strings.TrimPrefix(t.gon, "[]")
		return ty{inner, g}
	}
	return ty{}
}

func (t ty) deref() ty {
	if strings.HasPrefix(t.lean, "(Option ") && strings.HasSuffix(t.lean, ")") {
		return ty{t.lean[len("(Option ") : len(t.lean)-1], strings.TrimPrefix(t.gon, "*")}
	}
	return ty{}
}

// pkgAlias: go-ipld-prime re-exports the data model's names (ipld.Node = datamodel.Node, ipld.Kind_Int = datamodel.Kind_Int)
func pkgAlias(name string) string {
	if name == "ipld" {
		return "datamodel"
	}
	return name
}

func goTypeName(p *pkg, e ast.Expr) string {
	switch x := e.(type) {
	case *ast.Ident:
		switch x.Name {
		case "string", "bool", "int", "int64", "int8", "int16", "int32", "byte", "error", "uint8", "float64":
			return x.Name
		}
		return p.name + "." + x.Name
	case *ast.SelectorExpr:
		if id, ok := x.X.(*ast.Ident); ok {
			return pkgAlias(id.Name) + "." + x.Sel.Name
		}
	case *ast.StarExpr:
		return "*" + goTypeName(p, x.X)
	case *ast.ArrayType:
		if x.Len == nil {
			return "[]" + goTypeName(p, x.Elt)
		}
		if n, ok := arrayLen(p, x.Len); ok && goTypeName(p, x.Elt) == "byte" {
			return fmt.Sprintf("[%d]byte", n)
		}
	case *ast.Ellipsis:
		return "[]" + goTypeName(p, x.Elt)
	case *ast.MapType:
		return "map[" + goTypeName(p, x.Key) + "]" + goTypeName(p, x.Value)
	}
	return "?"
}

// arrayLen evaluates the length of an array type: an integer literal or an integer constant of the package
func arrayLen(p *pkg, e ast.Expr) (int, bool) {
	switch x := e.(type) {
	case *ast.BasicLit:
		if n, err := strconv.Atoi(x.Value); err == nil {
			return n, true
		}
	case *ast.Ident:
		if ce := p.constExpr(x.Name); ce != nil {
			return arrayLen(p, ce)
		}
	}
	return 0, false
}

// arrayLenOf: N of a "[N]byte" Go type name, -1 otherwise
func arrayLenOf(g string) int {
	var n int
	if _, err := fmt.Sscanf(g, "[%d]byte", &n); err == nil && strings.HasSuffix(g, "]byte") && !strings.HasPrefix(g, "[]") {
		return n
	}
	return -1
}

// structAlias: for the target being translated, a Go struct type stands for another entry of structTable (the decoders see
// delegation.Token with its nonce and metadata, which the chain functions do not model)
var structAlias = map[string]string{}

func structFor(g string) *structDef {
	if a, ok := structAlias[g]; ok {
		return structTable[a]
	}
	if st, ok := structTable[g]; ok {
		return st
	}
	return nil
}

// concreteTypes: Go types that the target being translated sees as their modelled struct rather than as the opaque
// parameter typeTable gives to every other target (did.DID inside package did)
var concreteTypes = map[string]bool{}

func leanOfGoName(p *pkg, g string) (string, bool) {
	if l, ok := typeTable[g]; ok && !concreteTypes[g] {
		return l, true
	}
	if l, ok := concreteTable[g]; ok && concreteTypes[g] {
		return l, true
	}
	if arrayLenOf(g) >= 0 {
		return "Bytes", true // a fixed-size byte array: a byte list whose length the translation keeps (copyInto, replicate)
	}
	switch g {
	case "string":
		return "Bytes", true
	case "bool":
		return "Bool", true
	case "int", "int64", "int8", "int16", "int32":
		return "Int", true
	case "byte", "uint8":
		return "UInt8", true
	case "float64":
		return "UInt64", true // the IEEE-754 bits (Model/Node.lean: no Lean Float anywhere)
	case "error":
		return "(Option GoErr)", true // an error VALUE held in a variable (nil = none); results of type error stay GoM outcomes
	}
	if strings.HasPrefix(g, "[]") {
		in, ok := leanOfGoName(p, g[2:])
		if !ok {
			return "", false
		}
		if in == "UInt8" {
			return "Bytes", true
		}
		return "(List " + in + ")", true
	}
	if strings.HasPrefix(g, "map[string]") {
		// a Go map with string keys: its entries as a list of pairs. Only `range` reads it, and the iteration order of a Go map is
		// unspecified: a theorem about a function that ranges over one must hold for EVERY order of this list.
		in, ok := leanOfGoName(p, strings.TrimPrefix(g, "map[string]"))
		if !ok {
			return "", false
		}
		return "(List (Bytes × " + in + "))", true
	}
	if strings.HasPrefix(g, "*") {
		if st := structFor(g[1:]); st != nil { // pointer to a modelled struct: the struct value
			return st.leanType, true
		}
		in, ok := leanOfGoName(p, g[1:])
		if !ok {
			return "", false
		}
		return "(Option " + in + ")", true
	}
	if st := structFor(g); st != nil {
		return st.leanType, true
	}
	// a named type of the same package declared over a basic type (type Command string)
	if i := strings.IndexByte(g, '.'); i > 0 && g[:i] == p.name {
		if ts := p.typeSpec(g[i+1:]); ts != nil {
			if id, ok := ts.Type.(*ast.Ident); ok {
				return leanOfGoName(p, id.Name)
			}
		}
	}
	return "", false
}

func typeOfExpr(p *pkg, e ast.Expr) (ty, bool) {
	if ft, ok := e.(*ast.FuncType); ok {
		// func(P…) (T, error) / func(P…) error: a parameter the translated function may call. Lean: P → … → GoM T.
		var ps []string
		for _, fl := range ft.Params.List {
			t, ok := typeOfExpr(p, fl.Type)
			if !ok {
				return ty{}, false
			}
			n := len(fl.Names)
			if n == 0 {
				n = 1
			}
			for i := 0; i < n; i++ {
				ps = append(ps, t.lean)
			}
		}
		if ft.Results == nil || len(ft.Results.List) == 0 || len(ft.Results.List) > 2 {
			return ty{}, false
		}
		last := ft.Results.List[len(ft.Results.List)-1]
		if goTypeName(p, last.Type) != "error" {
			// func(P…) T with one result that is not an error: a function that cannot fail (a predicate handed in by the caller)
			if len(ft.Results.List) != 1 {
				return ty{}, false
			}
			t, ok := typeOfExpr(p, last.Type)
			if !ok {
				return ty{}, false
			}
			return ty{"(" + strings.Join(append(ps, t.lean), " → ") + ")", "purefunc\x00" + t.lean + "\x00" + t.gon}, true
		}
		res := ty{"Unit", "unit"}
		if len(ft.Results.List) == 2 {
			t, ok := typeOfExpr(p, ft.Results.List[0].Type)
			if !ok {
				return ty{}, false
			}
			res = t
		}
		return ty{"(" + strings.Join(append(ps, "GoM "+res.lean), " → ") + ")", "func\x00" + res.lean + "\x00" + res.gon}, true
	}
	g := goTypeName(p, e)
	l, ok := leanOfGoName(p, g)
	for name := range structTable { // a pointer to a modelled struct is the struct value (nil is not modelled)
		if _, opaque := typeTable["*"+name]; opaque && !concreteTypes[name] {
			continue // … unless this target sees the pointer as an opaque parameter (*args.Args outside package args)
		}
		g = strings.ReplaceAll(g, "*"+name, name)
	}
	return ty{l, g}, ok
}

// ------------------------------------------------------------------ function translation

type variable struct {
	lean string
	t    ty
}

type loopCtx struct {
	carried []variable // loop-carried variables, in order
	post    string     // statements to run before the next iteration ("" if none), already indented by the caller
	recurse string     // the recursive call on the current values of the carried variables
}

type fn struct {
	tg      *target
	p       *pkg
	decl    *ast.FuncDecl
	recv    *variable
	resKind string // "error" | "value" | "valueErr" | "tuple" | "unit"
	resLean string // Lean type of ρ
	named   []variable
	scopes  []map[string]variable
	loop    *loopCtx
	loops   []string // generated loop definitions (emitted before the function)
	nloop   int
	ntmp    int
	fuelIx  int
	params  []variable // receiver first
	uses    map[string]bool
	resTys  []ty // result types, for `nil` in a result tuple
	// builders: slices made with make([]T, len(X)) that are only filled at the key of a `range X` loop and returned:
	// filling position by position in order is appending in order (Go name -> text of X)
	builders      map[string]string
	makeIsBuilder map[*ast.CallExpr]bool
	rangeOf       map[string]string // range key variable (Go name) -> text of the expression ranged over, for enclosing loops
}

var leanKeywords = map[string]bool{"end": true, "at": true, "from": true, "in": true, "do": true, "then": true, "open": true,
	"match": true, "fun": true, "have": true, "show": true, "with": true, "if": true, "else": true, "let": true, "where": true,
	"instance": true, "def": true, "theorem": true, "by": true, "using": true, "meta": true, "prefix": true, "section": true}

func leanIdent(s string) string {
	if leanKeywords[s] {
		return s + "_"
	}
	return s
}

func (f *fn) push() { f.scopes = append(f.scopes, map[string]variable{}) }
func (f *fn) pop()  { f.scopes = f.scopes[:len(f.scopes)-1] }
func (f *fn) declare(name string, t ty) variable {
	v := variable{leanIdent(name), t}
	f.scopes[len(f.scopes)-1][name] = v
	return v
}
func (f *fn) lookup(name string) (variable, bool) {
	for i := len(f.scopes) - 1; i >= 0; i-- {
		if v, ok := f.scopes[i][name]; ok {
			return v, true
		}
	}
	return variable{}, false
}

// visible returns all variables in scope, outermost first, in a stable order.
func (f *fn) visible() []variable {
	seen := map[string]bool{}
	var out []variable
	for i := len(f.scopes) - 1; i >= 0; i-- {
		var names []string
		for n := range f.scopes[i] {
			names = append(names, n)
		}
		sort.Strings(names)
		for _, n := range names {
			if !seen[n] {
				seen[n] = true
				out = append(out, f.scopes[i][n])
			}
		}
	}
	return out
}

// ex is a translated expression. `code` is its value form: a Lean term of the value's type which, when the
// expression is not pure, contains nested actions `(← m)` that Lean lifts to the enclosing `do` element in
// evaluation order. Conditional evaluation (&&, ||) never relies on that lifting: the right operand is handed
// to `gand`/`gor` in monadic form, a `do` block of its own.
type ex struct {
	code string
	pure bool
	t    ty
}

func (e ex) val() string { return e.code }

// mon is the expression as a term of type GoM τ.
func (e ex) mon() string {
	if e.pure {
		return "(pure " + e.code + ")"
	}
	if strings.HasPrefix(e.code, "(← ") && strings.HasSuffix(e.code, ")") && balanced(e.code[len("(← "):len(e.code)-1]) {
		return e.code[len("(← ") : len(e.code)-1]
	}
	return "(do pure " + e.code + ")"
}

func balanced(s string) bool {
	d := 0
	for _, c := range s {
		switch c {
		case '(':
			d++
		case ')':
			d--
			if d < 0 {
				return false
			}
		}
	}
	return d == 0
}

// scoped is mon() for a computation that must keep its nested actions to itself (the second operand of && / ||: they
// must not run before the first operand has decided): a `do` of its own
func (e ex) scoped() string {
	m := e.mon()
	if !e.pure && strings.Contains(m, "(← ") && !strings.HasPrefix(m, "(do ") {
		return "(do " + m + ")"
	}
	return m
}

func impure(code string, t ty) ex { return ex{"(← " + code + ")", false, t} }

func bytesLit(s string) string {
	parts := make([]string, len(s))
	for i := 0; i < len(s); i++ {
		parts[i] = strconv.Itoa(int(s[i]))
	}
	return "([" + strings.Join(parts, ", ") + "] : Bytes)"
}

var boolTy = ty{"Bool", "bool"}
var intTy = ty{"Int", "int"}

func (f *fn) expr(e ast.Expr) ex {
	switch x := e.(type) {
	case *ast.ParenExpr:
		return f.expr(x.X)
	case *ast.BasicLit:
		switch x.Kind {
		case token.INT:
			return ex{"(" + x.Value + " : Int)", true, intTy}
		case token.CHAR:
			r, _, _, err := strconv.UnquoteChar(x.Value[1:len(x.Value)-1], '\'')
			if err != nil || r > 255 {
				fail(x.Pos(), "character literal %s", x.Value)
			}
			return ex{fmt.Sprintf("(%d : UInt8)", r), true, ty{"UInt8", "byte"}}
		case token.STRING:
			s, err := strconv.Unquote(x.Value)
			if err != nil {
				fail(x.Pos(), "string literal")
			}
			return ex{bytesLit(s), true, ty{"Bytes", "string"}}
		}
	case *ast.CompositeLit:
		// T{field: value, …} of a modelled struct with EVERY modelled field given by name
		t, ok := typeOfExpr(f.p, x.Type)
		st := structFor(t.gon)
		if !ok || st == nil || st.fields == nil {
			fail(x.Pos(), "composite literal of %s", goTypeName(f.p, x.Type))
		}
		given := map[string]string{}
		pure := true
		for _, el := range x.Elts {
			kv, ok := el.(*ast.KeyValueExpr)
			if !ok {
				fail(el.Pos(), "positional composite literal")
			}
			k, ok := kv.Key.(*ast.Ident)
			if !ok {
				fail(el.Pos(), "composite literal key")
			}
			ft, modelled := st.fields[k.Name]
			if !modelled {
				continue // a field outside the model
			}
			v := f.expr(kv.Value)
			if v.t.lean != ft.lean {
				fail(kv.Pos(), "field %s: %s given, %s declared", k.Name, v.t.lean, ft.lean)
			}
			pure = pure && v.pure
			given[k.Name] = v.code
		}
		var parts []string
		for _, w := range st.want {
			c, ok := given[w]
			if !ok {
				fail(x.Pos(), "composite literal leaves the modelled field %s to its zero value", w)
			}
			parts = append(parts, leanIdent(w)+" := "+c)
		}
		return ex{"({ " + strings.Join(parts, ", ") + " } : " + st.leanType + ")", pure, t}
	case *ast.Ident:
		switch x.Name {
		case "true", "false":
			return ex{x.Name, true, boolTy}
		case "nil":
			return ex{"none", true, ty{"?", "nil"}}
		}
		if v, ok := f.lookup(x.Name); ok {
			if strings.HasPrefix(v.t.gon, "nilable:") { // a nil slice behaves as the empty slice everywhere but in `== nil`
				in := v.t.deref()
				return ex{"(" + v.lean + ".getD [])", true, ty{in.lean, strings.TrimPrefix(v.t.gon, "nilable:")}}
			}
			return ex{v.lean, true, v.t}
		}
		if v, ok := f.p.iotaValue(x.Name); ok {
			return ex{fmt.Sprintf("(%d : Int)", v), true, intTy}
		}
		if ce := f.p.constExpr(x.Name); ce != nil {
			return f.expr(ce)
		}
		fail(x.Pos(), "unknown identifier %s", x.Name)
	case *ast.SelectorExpr:
		if id, ok := x.X.(*ast.Ident); ok {
			if c, ok := constTable[pkgAlias(id.Name)+"."+x.Sel.Name]; ok {
				return ex{c.code, true, c.t}
			}
		}
		// field of a modelled struct
		r := f.expr(x.X)
		if st := structFor(r.t.gon); st != nil {
			ft, ok := st.fields[x.Sel.Name]
			if !ok {
				fail(x.Pos(), "field %s of %s is not modelled", x.Sel.Name, r.t.gon)
			}
			return ex{"(" + r.val() + ")." + leanIdent(x.Sel.Name), r.pure, ft}
		}
		fail(x.Pos(), "selector %s on %s", x.Sel.Name, r.t.gon)
	case *ast.StarExpr:
		r := f.expr(x.X)
		d := r.t.deref()
		if d.lean == "" {
			fail(x.Pos(), "dereference of non-pointer %s", r.t.lean)
		}
		return impure("(deref "+r.val()+")", d)
	case *ast.UnaryExpr:
		r := f.expr(x.X)
		switch x.Op {
		case token.NOT:
			return f.lift1(r, "(!%s)", boolTy)
		case token.SUB:
			return f.lift1(r, "(-%s)", r.t)
		case token.AND:
			if arrayLenOf(r.t.gon) >= 0 {
				return r // &arr handed to a library function that reads the array
			}
			// &x: a non-nil pointer to (a copy of) the value — pointers to values are options here, nothing is mutated through them
			return f.lift1(r, "(some %s)", ty{"(Option " + r.t.lean + ")", "*" + r.t.gon})
		}
	case *ast.BinaryExpr:
		return f.binary(x)
	case *ast.IndexExpr:
		a, i := f.expr(x.X), f.expr(x.Index)
		el := a.t.elem()
		if el.lean == "" {
			fail(x.Pos(), "index into %s", a.t.lean)
		}
		return impure("(idx "+a.val()+" "+i.val()+")", el)
	case *ast.SliceExpr:
		a := f.expr(x.X)
		if arrayLenOf(a.t.gon) >= 0 && x.Low == nil && x.High == nil && !x.Slice3 {
			return ex{a.code, a.pure, ty{"Bytes", "[]byte"}} // arr[:] — the whole array as a slice
		}
		if a.t.elem().lean == "" || x.Slice3 {
			fail(x.Pos(), "slice of %s", a.t.lean)
		}
		lo := ex{"(0 : Int)", true, intTy}
		if x.Low != nil {
			lo = f.expr(x.Low)
		}
		hi := ex{"(len " + a.val() + ")", a.pure, intTy}
		if x.High != nil {
			hi = f.expr(x.High)
		}
		return impure("(slice "+a.val()+" "+lo.val()+" "+hi.val()+")", a.t)
	case *ast.CallExpr:
		return f.call(x)
	}
	fail(e.Pos(), "expression %T", e)
	return ex{}
}

// lift1 applies a pure unary Lean template to a possibly impure operand.
func (f *fn) lift1(r ex, tmpl string, t ty) ex {
	return ex{fmt.Sprintf(tmpl, r.code), r.pure, t}
}

var binOps = map[token.Token]string{token.ADD: "+", token.SUB: "-", token.MUL: "*", token.EQL: "==", token.NEQ: "!=",
	token.LSS: "<", token.LEQ: "<=", token.GTR: ">", token.GEQ: ">="}

func (f *fn) binary(x *ast.BinaryExpr) ex {
	a, b := f.expr(x.X), f.expr(x.Y)
	// an untyped integer constant takes the type of the other operand
	if l, ok := x.Y.(*ast.BasicLit); ok && l.Kind == token.INT && a.t.lean == "UInt8" {
		b = ex{"(" + l.Value + " : UInt8)", true, a.t}
	}
	if l, ok := x.X.(*ast.BasicLit); ok && l.Kind == token.INT && b.t.lean == "UInt8" {
		a = ex{"(" + l.Value + " : UInt8)", true, b.t}
	}
	switch x.Op {
	case token.LAND, token.LOR:
		op, g := "&&", "gand"
		if x.Op == token.LOR {
			op, g = "||", "gor"
		}
		if a.pure && b.pure {
			return ex{"(" + a.code + " " + op + " " + b.code + ")", true, boolTy}
		}
		return impure("("+g+" "+a.val()+" "+b.scoped()+")", boolTy)
	}
	// nil comparisons of pointers
	if x.Op == token.EQL || x.Op == token.NEQ {
		if id, ok := x.X.(*ast.Ident); ok && isNilIdent(x.Y) {
			if v, ok := f.lookup(id.Name); ok && strings.HasPrefix(v.t.gon, "nilable:") {
				if x.Op == token.EQL {
					return ex{"(!(notNil " + v.lean + "))", true, boolTy}
				}
				return ex{"(notNil " + v.lean + ")", true, boolTy}
			}
		}
		if b.t.gon == "nil" || a.t.gon == "nil" {
			o := a
			if a.t.gon == "nil" {
				o = b
			}
			tmpl := "(notNil %s)"
			if x.Op == token.EQL {
				tmpl = "(!(notNil %s))"
			}
			if o.t.lean == "Bytes" || strings.HasPrefix(o.t.lean, "(List ") {
				// a nil slice: the model does not distinguish nil from empty, the comparison is not translatable
				fail(x.Pos(), "comparison of a slice with nil")
			}
			return f.lift1(o, tmpl, boolTy)
		}
	}
	op, ok := binOps[x.Op]
	if !ok {
		fail(x.Pos(), "operator %s", x.Op)
	}
	rt := boolTy
	switch x.Op {
	case token.ADD, token.SUB, token.MUL:
		rt = a.t
		if a.t.lean != "Int" || b.t.lean != "Int" {
			fail(x.Pos(), "arithmetic on %s, %s", a.t.lean, b.t.lean)
		}
	case token.LSS, token.LEQ, token.GTR, token.GEQ:
		// Int and UInt8 comparisons are decidable propositions: `decide` makes them Bool
		return ex{"(decide (" + a.code + " " + op + " " + b.code + "))", a.pure && b.pure, boolTy}
	}
	return ex{"(" + a.code + " " + op + " " + b.code + ")", a.pure && b.pure, rt}
}

func calleeName(e ast.Expr) string {
	switch x := e.(type) {
	case *ast.Ident:
		return x.Name
	case *ast.SelectorExpr:
		if id, ok := x.X.(*ast.Ident); ok {
			return id.Name + "." + x.Sel.Name
		}
	case *ast.ArrayType:
		if x.Len == nil {
			return "[]" + calleeName(x.Elt)
		}
	}
	return ""
}

func (f *fn) args(list []ast.Expr) (codes []string, pure bool, exs []ex) {
	pure = true
	for _, a := range list {
		r := f.expr(a)
		codes = append(codes, r.val())
		exs = append(exs, r)
		pure = pure && r.pure
	}
	return
}

func calleeDecl(tg *target) *ast.FuncDecl {
	p, err := loadPkg(tg.Dir)
	if err != nil {
		return nil
	}
	return p.funcDecl(tg.Recv, tg.Name)
}

func (f *fn) callTarget(tg *target, recv *ex, argList []ast.Expr, pos token.Pos) ex {
	codes, pure, _ := f.args(argList)
	// a nil-able slice handed on to a callee that tests it for nil itself: the option, not its value
	if fd := calleeDecl(tg); fd != nil {
		i := 0
		for _, fl := range fd.Type.Params.List {
			for _, n := range fl.Names {
				if i < len(argList) {
					for _, nn := range tg.Nilable {
						if nn == n.Name {
							if id, ok := argList[i].(*ast.Ident); ok {
								if v, isVar := f.lookup(id.Name); isVar && strings.HasPrefix(v.t.gon, "nilable:") {
									codes[i] = v.lean
								}
							}
						}
					}
				}
				i++
			}
		}
	}
	all := append([]string{}, tg.Uses...)
	for _, u := range tg.Uses {
		f.uses[u] = true
	}
	if recv != nil {
		all = append(all, recv.val())
		pure = pure && recv.pure
	}
	all = append(all, codes...)
	_ = pure
	rt, ok := targetResult[tg.Lean]
	if !ok {
		fail(pos, "call to %s before its translation", tg.Lean)
	}
	return impure("("+tg.Lean+" "+strings.Join(all, " ")+")", rt)
}

func (f *fn) call(x *ast.CallExpr) ex {
	name := calleeName(x.Fun)
	// built-ins and conversions
	switch name {
	case "len":
		a := f.expr(x.Args[0])
		return f.lift1(a, "(len %s)", intTy)
	case "panic":
		fail(x.Pos(), "panic in expression position")
	case "cmp.Compare":
		// generic: the integer order, or Go's total order on float64 (NaN below everything, equal to itself)
		a, b := f.expr(x.Args[0]), f.expr(x.Args[1])
		if a.t.gon == "float64" {
			return ex{"(floatCompare " + a.code + " " + b.code + ")", a.pure && b.pure, intTy}
		}
		return ex{"(cmpInt " + a.code + " " + b.code + ")", a.pure && b.pure, intTy}
	case "append":
		if len(x.Args) == 2 {
			a, b := f.expr(x.Args[0]), f.expr(x.Args[1])
			// operands are evaluated left to right, which is the order in which Lean lifts nested actions
			if x.Ellipsis.IsValid() {
				return ex{"(" + a.code + " ++ " + b.code + ")", a.pure && b.pure, a.t}
			}
			return ex{"(" + a.code + " ++ [" + b.code + "])", a.pure && b.pure, a.t}
		}
		fail(x.Pos(), "append with %d arguments", len(x.Args))
	case "make":
		if t, ok := typeOfExpr(f.p, x.Args[0]); ok && len(x.Args) == 3 {
			if l, isLit := x.Args[1].(*ast.BasicLit); isLit && l.Value == "0" {
				return ex{"([] : " + t.lean + ")", true, t} // make(T, 0, cap): the capacity is not modelled
			}
		}
		if t, ok := typeOfExpr(f.p, x.Args[0]); ok && len(x.Args) == 2 && f.makeIsBuilder[x] {
			return ex{"([] : " + t.lean + ")", true, t} // an ordered builder (see findBuilders): filled by appending
		}
		fail(x.Pos(), "make other than make(T, 0, cap) or an ordered builder")
	}
	if name == "errors.Join" && len(x.Args) == 2 {
		// errs = errors.Join(errs, <a new error>): the accumulated error is non-nil afterwards (which one is reported first is
		// the joined error's business; the model keeps the first)
		a := f.expr(x.Args[0])
		if a.t.lean != "(Option GoErr)" {
			fail(x.Pos(), "errors.Join on %s", a.t.lean)
		}
		n, prop := f.errName(x.Args[1])
		if prop {
			fail(x.Pos(), "errors.Join with the variable err")
		}
		return ex{fmt.Sprintf("(joinErr %s (.err %q))", a.code, n), a.pure, a.t}
	}
	if id, ok := x.Fun.(*ast.Ident); ok {
		if v, isVar := f.lookup(id.Name); isVar && strings.HasPrefix(v.t.gon, "func\x00") {
			parts := strings.SplitN(v.t.gon, "\x00", 3)
			codes, _, _ := f.args(x.Args)
			return impure("("+v.lean+" "+strings.Join(codes, " ")+")", ty{parts[1], parts[2]})
		}
		if v, isVar := f.lookup(id.Name); isVar && strings.HasPrefix(v.t.gon, "purefunc\x00") {
			parts := strings.SplitN(v.t.gon, "\x00", 3)
			codes, pure, _ := f.args(x.Args)
			return ex{"(" + v.lean + " " + strings.Join(codes, " ") + ")", pure, ty{parts[1], parts[2]}}
		}
	}
	if name != "" {
		if _, isVar := f.lookup(strings.SplitN(name, ".", 2)[0]); !isVar {
			// conversion T(x) to a type that has the same model
			if t, ok := typeOfExpr(f.p, x.Fun); ok && len(x.Args) == 1 {
				a := f.expr(x.Args[0])
				if a.t.lean == t.lean {
					return ex{a.code, a.pure, t}
				}
				if name == "string" && a.t.lean == "UInt8" {
					// string(b) of a byte is the UTF-8 encoding of the code point b (two bytes from 0x80 on)
					return f.lift1(a, "(byteToString %s)", ty{"Bytes", "string"})
				}
				fail(x.Pos(), "conversion %s(%s)", name, a.t.lean)
			}
			if lc, ok := libCalls[name]; ok {
				codes, pure, _ := f.args(x.Args)
				for _, u := range lc.uses {
					f.uses[u] = true
				}
				if impureLibCalls[name] {
					return impure(subst(lc.tmpl, "", codes), lc.t)
				}
				return ex{subst(lc.tmpl, "", codes), pure, lc.t}
			}
			// function of the same package that is a target
			if tg := findTarget(f.p.dir, "", name); tg != nil {
				if tg == f.tg && tg.SelfAs != "" {
					// open recursion: the function's call of itself is a call of a parameter
					codes, _, _ := f.args(x.Args)
					f.uses[tg.SelfAs] = true
					rt := ty{"Unit", "unit"}
					if f.resKind != "error" {
						rt = ty{f.resLean, "self"}
					}
					return impure("("+tg.SelfAs+" "+strings.Join(codes, " ")+")", rt)
				}
				return f.callTarget(tg, nil, x.Args, x.Pos())
			}
			// a function that is not translated but stands for a parameter of the generated code
			if ec, ok := externFuncs[f.p.dir+"."+name]; ok {
				// only the arguments the parameter takes are translated (an argument that merely feeds error texts — a path —
				// need not be in the subset)
				codes := make([]string, len(x.Args))
				pure := true
				for i, a := range x.Args {
					if !strings.Contains(ec.tmpl, fmt.Sprintf("$%d", i+1)) {
						continue
					}
					r := f.expr(a)
					codes[i] = r.val()
					pure = pure && r.pure
				}
				for _, u := range ec.uses {
					f.uses[u] = true
				}
				if strings.HasPrefix(ec.tmpl, "(← ") {
					pure = false
				}
				return ex{subst(ec.tmpl, "", codes), pure, ec.t}
			}
		}
	}
	// method call
	if sel, ok := x.Fun.(*ast.SelectorExpr); ok {
		r := f.expr(sel.X)
		g := r.t.gon
		if i := strings.IndexByte(g, '.'); i > 0 {
			tname := g[i+1:]
			// a shell target takes every method it calls as a parameter, translated or not
			if f.tg.Shell {
				if ec, ok := shellMethods[g+"."+sel.Sel.Name]; ok {
					codes, _, _ := f.args(x.Args)
					for _, u := range ec.uses {
						f.uses[u] = true
					}
					return impure(subst(ec.tmpl, r.code, codes), ec.t)
				}
			}
			// a translated method
			if tg := findTargetByType(g, sel.Sel.Name); tg != nil {
				return f.callTarget(tg, &r, x.Args, x.Pos())
			}
			// a trivial getter of a modelled struct
			if st := structFor(g); st != nil && len(x.Args) == 0 && (concreteTypes[g] || typeTable[g] == "") {
				sp, err := loadPkg(st.dir)
				if err == nil {
					if fd := sp.funcDecl(tname, sel.Sel.Name); fd != nil {
						if field := getterField(fd); field != "" {
							if ft, ok := st.fields[field]; ok {
								return ex{"(" + r.val() + ")." + leanIdent(field), r.pure, ft}
							}
							fail(x.Pos(), "getter %s.%s returns unmodelled field %s", g, sel.Sel.Name, field)
						}
						fail(x.Pos(), "method %s.%s is not a plain getter", g, sel.Sel.Name)
					}
				}
			}
		}
		if mc, ok := methodCalls[g+"."+sel.Sel.Name]; ok {
			codes, pure, _ := f.args(x.Args)
			return ex{subst(mc.tmpl, r.code, codes), pure && r.pure, mc.t}
		}
		// a method that is not translated but stands for a parameter of the generated code (an extern)
		if ec, ok := externMethods[g+"."+sel.Sel.Name]; ok {
			codes, _, _ := f.args(x.Args)
			for _, u := range ec.uses {
				f.uses[u] = true
			}
			return impure(subst(ec.tmpl, r.code, codes), ec.t)
		}
		fail(x.Pos(), "method call %s on %s", sel.Sel.Name, g)
	}
	fail(x.Pos(), "call of %s", name)
	return ex{}
}

func subst(tmpl, recv string, args []string) string {
	s := strings.ReplaceAll(tmpl, "$r", recv)
	for i, a := range args {
		s = strings.ReplaceAll(s, fmt.Sprintf("$%d", i+1), a)
	}
	return s
}

// getterField returns the field name when the method body is exactly `return recv.field`.
func getterField(fd *ast.FuncDecl) string {
	if fd.Body == nil || len(fd.Body.List) != 1 || fd.Recv == nil || len(fd.Recv.List[0].Names) != 1 {
		return ""
	}
	rs, ok := fd.Body.List[0].(*ast.ReturnStmt)
	if !ok || len(rs.Results) != 1 {
		return ""
	}
	sel, ok := rs.Results[0].(*ast.SelectorExpr)
	if !ok {
		return ""
	}
	id, ok := sel.X.(*ast.Ident)
	if !ok || id.Name != fd.Recv.List[0].Names[0].Name {
		return ""
	}
	return sel.Sel.Name
}

func exprText(e ast.Expr) string {
	var b strings.Builder
	printer.Fprint(&b, token.NewFileSet(), e)
	return b.String()
}

// findBuilders recognises `V = make([]T, len(X))` where every other use of V in the function is either the left-hand side
// `V[k]` of an assignment inside `for k, … := range X` (same X) or a bare result of a `return`. Such a slice is filled position
// by position in increasing order — once per iteration — and never read: building it is appending in order. Anything else
// (a read of V[i], len(V), V handed to a call, an assignment at another index) leaves V unrecognised and the function MISSING.
func (f *fn) findBuilders(body *ast.BlockStmt) {
	type cand struct {
		src  string
		call *ast.CallExpr
	}
	cands := map[string]cand{}
	ast.Inspect(body, func(n ast.Node) bool {
		as, ok := n.(*ast.AssignStmt)
		if !ok || len(as.Lhs) != 1 || len(as.Rhs) != 1 {
			return true
		}
		v, ok := as.Lhs[0].(*ast.Ident)
		ce, ok2 := as.Rhs[0].(*ast.CallExpr)
		if !ok || !ok2 || calleeName(ce.Fun) != "make" || len(ce.Args) != 2 {
			return true
		}
		ln, ok := ce.Args[1].(*ast.CallExpr)
		if !ok || calleeName(ln.Fun) != "len" || len(ln.Args) != 1 {
			return true
		}
		cands[v.Name] = cand{exprText(ln.Args[0]), ce}
		return true
	})
	for name, c := range cands {
		okAll := true
		allowed := map[*ast.Ident]bool{}
		var walk func(n ast.Node, ranges map[string]string)
		walk = func(n ast.Node, ranges map[string]string) {
			ast.Inspect(n, func(m ast.Node) bool {
				switch x := m.(type) {
				case *ast.RangeStmt:
					if m == n {
						return true
					}
					r2 := map[string]string{}
					for k, v := range ranges {
						r2[k] = v
					}
					if k, ok := x.Key.(*ast.Ident); ok {
						r2[k.Name] = exprText(x.X)
					}
					walk(x.Body, r2)
					ast.Inspect(x.X, func(q ast.Node) bool { return true })
					return false
				case *ast.AssignStmt:
					for _, l := range x.Lhs {
						if ix, ok := l.(*ast.IndexExpr); ok {
							if v, ok := ix.X.(*ast.Ident); ok && v.Name == name {
								if k, ok := ix.Index.(*ast.Ident); ok && ranges[k.Name] == c.src {
									allowed[v] = true
								}
							}
						}
						if v, ok := l.(*ast.Ident); ok && v.Name == name && len(x.Rhs) == 1 && x.Rhs[0] == ast.Expr(c.call) {
							allowed[v] = true
						}
					}
				case *ast.ReturnStmt:
					for _, r := range x.Results {
						if v, ok := r.(*ast.Ident); ok && v.Name == name {
							allowed[v] = true
						}
					}
				}
				return true
			})
		}
		walk(body, map[string]string{})
		ast.Inspect(body, func(m ast.Node) bool {
			if v, ok := m.(*ast.Ident); ok && v.Name == name && !allowed[v] {
				okAll = false
			}
			return true
		})
		if okAll {
			f.builders[name] = c.src
			f.makeIsBuilder[c.call] = true
		}
	}
}

// ------------------------------------------------------------------ errors as values

// errName extracts the class of an error expression: the sentinel it is or wraps, or its text.
// ok=false means "the variable err itself" (propagate).
func (f *fn) errName(e ast.Expr) (name string, propagate bool) {
	switch x := e.(type) {
	case *ast.Ident:
		if x.Name == "err" {
			return "", true
		}
		if strings.HasPrefix(x.Name, "Err") {
			return x.Name, false
		}
	case *ast.SelectorExpr:
		if strings.HasPrefix(x.Sel.Name, "Err") {
			return x.Sel.Name, false
		}
	case *ast.CallExpr:
		switch calleeName(x.Fun) {
		case "fmt.Errorf":
			for _, a := range x.Args[1:] {
				if n, p := f.errNameOpt(a); n != "" || p {
					return n, p
				}
			}
			if l, ok := x.Args[0].(*ast.BasicLit); ok {
				s, _ := strconv.Unquote(l.Value)
				return s, false
			}
		case "errors.New":
			if l, ok := x.Args[0].(*ast.BasicLit); ok {
				s, _ := strconv.Unquote(l.Value)
				return s, false
			}
		}
	}
	fail(e.Pos(), "error expression")
	return "", false
}

func (f *fn) errNameOpt(e ast.Expr) (string, bool) {
	switch x := e.(type) {
	case *ast.Ident:
		if x.Name == "err" {
			return "", true
		}
		if strings.HasPrefix(x.Name, "Err") {
			return x.Name, false
		}
	case *ast.SelectorExpr:
		if strings.HasPrefix(x.Sel.Name, "Err") {
			return x.Sel.Name, false
		}
	}
	return "", false
}

// ------------------------------------------------------------------ statements

type w struct {
	b   strings.Builder
	ind int
}

func (o *w) line(f string, a ...any) {
	o.b.WriteString(strings.Repeat("  ", o.ind))
	fmt.Fprintf(&o.b, f, a...)
	o.b.WriteString("\n")
}

func isNilIdent(e ast.Expr) bool {
	id, ok := e.(*ast.Ident)
	return ok && id.Name == "nil"
}

// retValue renders the value handed to `return` for the function's result kind; thrown=true means
// the statement is a `throw`.
func (f *fn) retStmt(o *w, rs *ast.ReturnStmt) {
	wrap := func(v string) string {
		if f.loop != nil {
			return "return (.ret " + v + ")"
		}
		return "return " + v
	}
	throw := func(e ast.Expr) {
		n, prop := f.errName(e)
		if prop {
			fail(e.Pos(), "returning the variable err outside the propagation idiom")
		}
		o.line("throw (.err %q)", n)
	}
	switch f.resKind {
	case "error":
		if len(rs.Results) != 1 {
			fail(rs.Pos(), "return arity")
		}
		if id, isId := rs.Results[0].(*ast.Ident); isId && !isNilIdent(rs.Results[0]) {
			if v, isVar := f.lookup(id.Name); isVar && v.t.lean == "(Option GoErr)" {
				// return errs: nil is success, anything else is that error
				o.line("match %s with", v.lean)
				o.line("| none => %s", wrap("()"))
				o.line("| some e => throw e")
				return
			}
		}
		if isNilIdent(rs.Results[0]) {
			o.line("%s", wrap("()"))
		} else if ce, ok := rs.Results[0].(*ast.CallExpr); ok && calleeName(ce.Fun) != "fmt.Errorf" && calleeName(ce.Fun) != "errors.New" {
			// return g(...) where g returns an error: g's outcome is this function's outcome
			r := f.expr(ce)
			if r.pure {
				fail(rs.Pos(), "returned call translated as pure")
			}
			o.line("%s", wrap(r.val()))
		} else {
			throw(rs.Results[0])
		}
	case "value":
		if len(rs.Results) != 1 {
			fail(rs.Pos(), "return arity")
		}
		if isNilIdent(rs.Results[0]) && strings.HasPrefix(f.resLean, "(List ") {
			o.line("%s", wrap("([] : "+f.resLean+")")) // a nil slice result: empty
			break
		}
		r := f.expr(rs.Results[0])
		o.line("%s", wrap(r.val()))
	case "valueErr":
		if len(rs.Results) == 1 {
			// return g(...) where g returns (T, error) as well: g's outcome is this function's outcome
			if ce, ok := rs.Results[0].(*ast.CallExpr); ok {
				r := f.expr(ce)
				if r.pure {
					fail(rs.Pos(), "returned call translated as pure")
				}
				o.line("%s", wrap(r.val()))
				return
			}
		}
		if len(rs.Results) != 2 {
			fail(rs.Pos(), "return arity")
		}
		if isNilIdent(rs.Results[1]) {
			r := f.expr(rs.Results[0])
			o.line("%s", wrap(r.val()))
		} else {
			throw(rs.Results[1])
		}
	case "pairErr":
		if len(rs.Results) != 3 {
			fail(rs.Pos(), "return arity")
		}
		if isNilIdent(rs.Results[2]) {
			a, b := f.expr(rs.Results[0]), f.expr(rs.Results[1])
			o.line("%s", wrap("("+a.val()+", "+b.val()+")"))
		} else {
			throw(rs.Results[2]) // the values returned next to an error (nil, cid.Undef) are not looked at by callers
		}
	case "tuple":
		var vs []string
		if len(rs.Results) == 0 {
			for _, n := range f.named {
				vs = append(vs, n.lean)
			}
		} else {
			for i, e := range rs.Results {
				if isNilIdent(e) && i < len(f.resTys) && strings.HasPrefix(f.resTys[i].lean, "(List ") {
					vs = append(vs, "([] : "+f.resTys[i].lean+")") // a nil slice result: empty
					continue
				}
				vs = append(vs, f.expr(e).val())
			}
		}
		o.line("%s", wrap("("+strings.Join(vs, ", ")+")"))
	default:
		fail(rs.Pos(), "return in a function without results")
	}
}

// propagates reports whether `st` is `if err != nil { return [zero,] <err or wrapping of err> }`.
func (f *fn) propagates(st ast.Stmt) bool {
	is, ok := st.(*ast.IfStmt)
	if !ok || is.Init != nil || is.Else != nil || len(is.Body.List) != 1 {
		return false
	}
	return f.isErrNotNil(is.Cond) && f.returnsErr(is.Body.List[0])
}

func (f *fn) isErrNotNil(c ast.Expr) bool {
	be, ok := c.(*ast.BinaryExpr)
	if !ok || be.Op != token.NEQ || !isNilIdent(be.Y) {
		return false
	}
	id, ok := be.X.(*ast.Ident)
	return ok && id.Name == "err"
}

func (f *fn) returnsErr(st ast.Stmt) bool {
	rs, ok := st.(*ast.ReturnStmt)
	if !ok || len(rs.Results) == 0 {
		return false
	}
	last := rs.Results[len(rs.Results)-1]
	if id, ok := last.(*ast.Ident); ok && id.Name == "err" {
		return true
	}
	if ce, ok := last.(*ast.CallExpr); ok && calleeName(ce.Fun) == "fmt.Errorf" {
		for _, a := range ce.Args[1:] {
			if id, ok := a.(*ast.Ident); ok && id.Name == "err" {
				return true
			}
		}
	}
	return false
}

func (f *fn) block(o *w, list []ast.Stmt) {
	f.push()
	defer f.pop()
	f.stmtList(o, list)
	if len(list) == 0 {
		o.line("pure ()")
	}
}

// stmtList translates a statement sequence in the current scope, recognising the error-propagation idiom.
func (f *fn) stmtList(o *w, list []ast.Stmt) {
	for i := 0; i < len(list); i++ {
		st := list[i]
		// x, err := call(); if err != nil { return ..., err }      ==>   let x ← call
		if as, ok := st.(*ast.AssignStmt); ok && len(as.Rhs) == 1 && i+1 < len(list) && f.propagates(list[i+1]) {
			if id, ok := as.Lhs[len(as.Lhs)-1].(*ast.Ident); ok && id.Name == "err" {
				if _, isCall := as.Rhs[0].(*ast.CallExpr); isCall {
					r := f.expr(as.Rhs[0])
					if r.pure {
						fail(as.Pos(), "error-returning call translated as pure")
					}
					switch len(as.Lhs) {
					case 1:
						o.line("%s", r.mon())
					case 2:
						f.assignTo(o, as.Lhs[0], as.Tok, r)
					case 3:
						// a, b, err := g(...) where g is modelled as returning a pair
						parts, ok := pairTypes[r.t.lean]
						if !ok {
							fail(as.Pos(), "three-value call whose result is not a modelled pair: %s", r.t.lean)
						}
						f.ntmp++
						tmp := fmt.Sprintf("pair%d", f.ntmp)
						o.line("let %s ← %s", tmp, r.mon())
						for k := 0; k < 2; k++ {
							if id, ok := as.Lhs[k].(*ast.Ident); ok && id.Name == "_" {
								continue
							}
							f.assignTo(o, as.Lhs[k], as.Tok, ex{fmt.Sprintf("%s.%d", tmp, k+1), true, parts[k]})
						}
					default:
						fail(as.Pos(), "multi-value call")
					}
					i++
					continue
				}
			}
		}
		// x, err := call(); if err != nil { …statements that end the function and do not mention err… }   in a function that has no
		// error result (the callee's error VALUE is answered by a value of this function; a panic of the callee stays a panic)
		//    ==>   let some x ← attempt call | do …
		if as, ok := st.(*ast.AssignStmt); ok && as.Tok == token.DEFINE && len(as.Rhs) == 1 && len(as.Lhs) == 2 && i+1 < len(list) && f.resKind == "value" {
			if id, ok := as.Lhs[1].(*ast.Ident); ok && id.Name == "err" {
				if body, ok := f.catches(list[i+1]); ok {
					if _, isCall := as.Rhs[0].(*ast.CallExpr); isCall {
						r := f.expr(as.Rhs[0])
						if r.pure {
							fail(as.Pos(), "error-returning call translated as pure")
						}
						xid, ok := as.Lhs[0].(*ast.Ident)
						if !ok || xid.Name == "_" {
							fail(as.Pos(), "caught call without a result variable")
						}
						v := f.declare(xid.Name, r.t)
						o.line("let some %s ← attempt %s", v.lean, r.mon())
						o.ind++
						o.line("| do")
						o.ind++
						f.push()
						f.block(o, body)
						f.pop()
						o.ind -= 2
						i++
						continue
					}
				}
			}
		}
		// x, err := call(); if err != nil { panic(…) }    ==>   let x ← errToPanic call    (the callee's error value becomes a panic)
		if as, ok := st.(*ast.AssignStmt); ok && len(as.Rhs) == 1 && len(as.Lhs) == 2 && i+1 < len(list) {
			if id, ok := as.Lhs[1].(*ast.Ident); ok && id.Name == "err" {
				if is, ok := list[i+1].(*ast.IfStmt); ok && is.Init == nil && is.Else == nil && len(is.Body.List) == 1 && f.isErrNotNil(is.Cond) {
					if es, ok := is.Body.List[0].(*ast.ExprStmt); ok {
						if ce, ok := es.X.(*ast.CallExpr); ok && calleeName(ce.Fun) == "panic" {
							if _, isCall := as.Rhs[0].(*ast.CallExpr); isCall {
								r := f.expr(as.Rhs[0])
								if r.pure {
									fail(as.Pos(), "error-returning call translated as pure")
								}
								f.assignTo(o, as.Lhs[0], as.Tok, impure("(errToPanic "+r.mon()+")", r.t))
								i++
								continue
							}
						}
					}
				}
			}
		}
		// x, err = call(); if err != nil { return ..., <an error that does not mention err> }
		//    ==>   let x ← replaceErr call <that error>     (an error value is replaced; a panic is not an error value)
		if as, ok := st.(*ast.AssignStmt); ok && len(as.Rhs) == 1 && len(as.Lhs) == 2 && i+1 < len(list) {
			if id, ok := as.Lhs[1].(*ast.Ident); ok && id.Name == "err" {
				if repl, ok := f.replaces(list[i+1]); ok {
					if _, isCall := as.Rhs[0].(*ast.CallExpr); isCall {
						r := f.expr(as.Rhs[0])
						if r.pure {
							fail(as.Pos(), "error-returning call translated as pure")
						}
						n, _ := f.errName(repl)
						f.assignTo(o, as.Lhs[0], as.Tok, impure(fmt.Sprintf("(replaceErr %s (.err %q))", r.mon(), n), r.t))
						i++
						continue
					}
				}
			}
		}
		// _, err := call(); return err == nil   (or != nil)    ==>   return (isOk call)
		//    the call is only probed for failure; a panic of the callee stays a panic
		if as, ok := st.(*ast.AssignStmt); ok && len(as.Rhs) == 1 && len(as.Lhs) >= 1 && i+1 < len(list) && f.resKind == "value" {
			if e, neg, ok := probeOf(as, list[i+1]); ok {
				r := f.expr(e)
				if r.pure {
					fail(as.Pos(), "error-returning call translated as pure")
				}
				code := "(← isOk " + r.mon() + ")"
				if neg {
					code = "(!" + code + ")"
				}
				if f.loop != nil {
					o.line("return (.ret %s)", code)
				} else {
					o.line("return %s", code)
				}
				i++
				continue
			}
		}
		f.stmt(o, st)
	}
}

// probeOf recognises `_, …, err := CALL` followed by `return err == nil` (neg = false) or `return err != nil` (neg = true).
func probeOf(as *ast.AssignStmt, next ast.Stmt) (call ast.Expr, neg bool, ok bool) {
	if as.Tok != token.DEFINE {
		return nil, false, false
	}
	for i, l := range as.Lhs {
		id, isId := l.(*ast.Ident)
		if !isId {
			return nil, false, false
		}
		if i < len(as.Lhs)-1 && id.Name != "_" {
			return nil, false, false
		}
		if i == len(as.Lhs)-1 && id.Name != "err" {
			return nil, false, false
		}
	}
	if _, isCall := as.Rhs[0].(*ast.CallExpr); !isCall {
		return nil, false, false
	}
	rs, isRet := next.(*ast.ReturnStmt)
	if !isRet || len(rs.Results) != 1 {
		return nil, false, false
	}
	be, isBin := rs.Results[0].(*ast.BinaryExpr)
	if !isBin || (be.Op != token.EQL && be.Op != token.NEQ) {
		return nil, false, false
	}
	x, okx := be.X.(*ast.Ident)
	if !okx || x.Name != "err" || !isNilIdent(be.Y) {
		return nil, false, false
	}
	return as.Rhs[0], be.Op == token.NEQ, true
}

// catches reports whether `st` is `if err != nil { … }` whose body ends in a return or a panic and never mentions err, and
// returns the body.
func (f *fn) catches(st ast.Stmt) ([]ast.Stmt, bool) {
	is, ok := st.(*ast.IfStmt)
	if !ok || is.Init != nil || is.Else != nil || len(is.Body.List) == 0 || !f.isErrNotNil(is.Cond) {
		return nil, false
	}
	switch l := is.Body.List[len(is.Body.List)-1].(type) {
	case *ast.ReturnStmt:
	case *ast.ExprStmt:
		if ce, ok := l.X.(*ast.CallExpr); !ok || calleeName(ce.Fun) != "panic" {
			return nil, false
		}
		return nil, false // a panic that wraps err is the propagation of a failure the model does not have: not this idiom
	default:
		return nil, false
	}
	mentions := false
	ast.Inspect(is.Body, func(n ast.Node) bool {
		if id, ok := n.(*ast.Ident); ok && id.Name == "err" {
			mentions = true
		}
		return true
	})
	return is.Body.List, !mentions
}

// replaces reports whether `st` is `if err != nil { return [zero,] E }` with E an error expression that does not mention err,
// and returns E.
func (f *fn) replaces(st ast.Stmt) (ast.Expr, bool) {
	is, ok := st.(*ast.IfStmt)
	if !ok || is.Init != nil || is.Else != nil || len(is.Body.List) != 1 || !f.isErrNotNil(is.Cond) {
		return nil, false
	}
	rs, ok := is.Body.List[0].(*ast.ReturnStmt)
	if !ok || len(rs.Results) == 0 || f.returnsErr(rs) {
		return nil, false
	}
	for _, r := range rs.Results[:len(rs.Results)-1] {
		if !isNilIdent(r) {
			return nil, false
		}
	}
	return rs.Results[len(rs.Results)-1], true
}

// assignTo emits `lhs := r` or `let mut lhs := r`.
func (f *fn) assignTo(o *w, lhs ast.Expr, tok token.Token, r ex) {
	if ix, ok := lhs.(*ast.IndexExpr); ok {
		// V[k] = r where V is a builder and k the key of the enclosing `range X` loop over the X it was sized by
		if v, ok := ix.X.(*ast.Ident); ok {
			if src, isB := f.builders[v.Name]; isB {
				if k, ok := ix.Index.(*ast.Ident); ok && f.rangeOf[k.Name] == src {
					vv, _ := f.lookup(v.Name)
					o.line("%s := %s ++ [%s]", vv.lean, vv.lean, r.code)
					return
				}
			}
		}
		fail(lhs.Pos(), "assignment to an index expression")
	}
	id, ok := lhs.(*ast.Ident)
	if !ok {
		fail(lhs.Pos(), "assignment to %T", lhs)
	}
	if id.Name == "_" {
		if !r.pure {
			o.line("let _ ← %s", r.mon())
		}
		return
	}
	arrow := ":="
	code := r.code
	if tok == token.DEFINE {
		if _, exists := f.scopes[len(f.scopes)-1][id.Name]; !exists {
			if r.t.lean == "" || r.t.lean == "?" {
				fail(lhs.Pos(), "type of %s unknown", id.Name)
			}
			v := f.declare(id.Name, r.t)
			o.line("let mut %s : %s %s %s", v.lean, r.t.lean, arrow, code)
			return
		}
	}
	v, ok := f.lookup(id.Name)
	if !ok {
		fail(lhs.Pos(), "assignment to undeclared %s", id.Name)
	}
	o.line("%s %s %s", v.lean, arrow, code)
}

func (f *fn) stmt(o *w, st ast.Stmt) {
	switch s := st.(type) {
	case *ast.ReturnStmt:
		f.retStmt(o, s)
	case *ast.ExprStmt:
		if ce, ok := s.X.(*ast.CallExpr); ok && calleeName(ce.Fun) == "panic" {
			msg := "panic"
			if l, ok := ce.Args[0].(*ast.BasicLit); ok {
				msg, _ = strconv.Unquote(l.Value)
			}
			o.line("throw (.panic %q)", msg)
			return
		}
		if ce, ok := s.X.(*ast.CallExpr); ok && calleeName(ce.Fun) == "copy" && len(ce.Args) == 2 {
			// copy(arr[:], src): the first min(len) bytes of arr are replaced (the returned count is dropped by the statement)
			if se, ok := ce.Args[0].(*ast.SliceExpr); ok && se.Low == nil && se.High == nil {
				if id, ok := se.X.(*ast.Ident); ok {
					if v, isVar := f.lookup(id.Name); isVar && arrayLenOf(v.t.gon) >= 0 {
						src := f.expr(ce.Args[1])
						o.line("%s := copyInto %s %s", v.lean, v.lean, src.val())
						return
					}
				}
			}
		}
		fail(s.Pos(), "expression statement")
	case *ast.IncDecStmt:
		r := f.expr(s.X)
		op := "+"
		if s.Tok == token.DEC {
			op = "-"
		}
		f.assignTo(o, s.X, token.ASSIGN, ex{"(" + r.code + " " + op + " (1 : Int))", true, r.t})
	case *ast.DeclStmt:
		gd := s.Decl.(*ast.GenDecl)
		if gd.Tok == token.CONST {
			// a local constant with a value: an immutable local
			for _, sp := range gd.Specs {
				vs := sp.(*ast.ValueSpec)
				if len(vs.Values) != len(vs.Names) {
					fail(vs.Pos(), "local const without a value")
				}
				for i, n := range vs.Names {
					r := f.expr(vs.Values[i])
					v := f.declare(n.Name, r.t)
					o.line("let %s : %s := %s", v.lean, r.t.lean, r.val())
				}
			}
			return
		}
		if gd.Tok != token.VAR {
			fail(s.Pos(), "local declaration %s", gd.Tok)
		}
		for _, sp := range gd.Specs {
			vs := sp.(*ast.ValueSpec)
			for i, n := range vs.Names {
				var r ex
				switch {
				case i < len(vs.Values):
					r = f.expr(vs.Values[i])
					if vs.Type != nil {
						if t, ok := typeOfExpr(f.p, vs.Type); ok {
							r.t = t
						}
					}
				case vs.Type != nil:
					t, ok := typeOfExpr(f.p, vs.Type)
					if !ok {
						fail(vs.Pos(), "type of var %s", n.Name)
					}
					zero := map[string]string{"Int": "(0 : Int)", "Bool": "false", "Bytes": "([] : Bytes)", "UInt8": "(0 : UInt8)", "(Option GoErr)": "none", "Node": "Node.null"}[t.lean]
					if n := arrayLenOf(t.gon); n >= 0 {
						zero = fmt.Sprintf("(List.replicate %d (0 : UInt8))", n)
					}
					if zero == "" && strings.HasPrefix(t.lean, "(List ") {
						zero = "([] : " + t.lean + ")" // a nil slice: empty (nil-ness is not modelled for locals)
					}
					if zero == "" {
						fail(vs.Pos(), "zero value of %s", t.lean)
					}
					r = ex{zero, true, t}
				default:
					fail(vs.Pos(), "var without type or value")
				}
				f.assignTo(o, n, token.DEFINE, r)
			}
		}
	case *ast.AssignStmt:
		f.assign(o, s)
	case *ast.IfStmt:
		f.ifStmt(o, s)
	case *ast.SwitchStmt:
		f.switchStmt(o, s)
	case *ast.ForStmt:
		f.forStmt(o, s.Init, s.Cond, s.Post, s.Body, nil, s.Pos())
	case *ast.RangeStmt:
		f.forStmt(o, nil, nil, nil, s.Body, s, s.Pos())
	case *ast.BranchStmt:
		if f.loop == nil || s.Label != nil {
			fail(s.Pos(), "%s outside a loop or with a label", s.Tok)
		}
		switch s.Tok {
		case token.CONTINUE:
			if f.loop.post != "" {
				for _, l := range strings.Split(strings.TrimRight(f.loop.post, "\n"), "\n") {
					o.line("%s", l)
				}
			}
			o.line("return (← %s)", f.loop.recurse)
		case token.BREAK:
			o.line("return (.next %s)", tupleOf(f.loop.carried))
		default:
			fail(s.Pos(), "%s", s.Tok)
		}
	case *ast.BlockStmt:
		o.line("do")
		o.ind++
		f.block(o, s.List)
		o.ind--
	default:
		fail(st.Pos(), "statement %T", st)
	}
}

func tupleOf(vs []variable) string {
	if len(vs) == 0 {
		return "()"
	}
	names := make([]string, len(vs))
	for i, v := range vs {
		names[i] = v.lean
	}
	return "(" + strings.Join(names, ", ") + ")"
}

func tupleType(vs []variable) string {
	if len(vs) == 0 {
		return "Unit"
	}
	ts := make([]string, len(vs))
	for i, v := range vs {
		ts[i] = v.t.lean
	}
	return "(" + strings.Join(ts, " × ") + ")"
}

func (f *fn) assign(o *w, s *ast.AssignStmt) {
	switch s.Tok {
	case token.ADD_ASSIGN, token.SUB_ASSIGN:
		l, r := f.expr(s.Lhs[0]), f.expr(s.Rhs[0])
		op := "+"
		if s.Tok == token.SUB_ASSIGN {
			op = "-"
		}
		f.assignTo(o, s.Lhs[0], token.ASSIGN, ex{"(" + l.code + " " + op + " " + r.code + ")", r.pure, l.t})
		return
	case token.ASSIGN, token.DEFINE:
	default:
		fail(s.Pos(), "assignment operator %s", s.Tok)
	}
	if len(s.Lhs) == 2 && len(s.Rhs) == 1 {
		// a, b := f(...) where f returns a pair
		r := f.expr(s.Rhs[0])
		parts, ok := pairTypes[r.t.lean]
		if !ok {
			fail(s.Pos(), "two-value assignment from %s", r.t.lean)
		}
		f.ntmp++
		tmp := fmt.Sprintf("pair%d", f.ntmp)
		o.line("let %s := %s", tmp, r.code)
		f.assignTo(o, s.Lhs[0], s.Tok, ex{tmp + ".1", true, parts[0]})
		f.assignTo(o, s.Lhs[1], s.Tok, ex{tmp + ".2", true, parts[1]})
		return
	}
	if len(s.Lhs) != len(s.Rhs) {
		fail(s.Pos(), "assignment arity")
	}
	if len(s.Lhs) == 1 {
		f.assignTo(o, s.Lhs[0], s.Tok, f.expr(s.Rhs[0]))
		return
	}
	// parallel assignment: evaluate every right-hand side first
	var tmps []ex
	for i, r := range s.Rhs {
		e := f.expr(r)
		tmp := fmt.Sprintf("tmp%d", i)
		o.line("let %s := %s", tmp, e.code)
		tmps = append(tmps, ex{tmp, true, e.t})
	}
	for i, l := range s.Lhs {
		f.assignTo(o, l, s.Tok, tmps[i])
	}
}

func (f *fn) cond(e ast.Expr) string { return f.expr(e).val() }

func (f *fn) ifStmt(o *w, s *ast.IfStmt) {
	f.push()
	defer f.pop()
	if s.Init != nil {
		// if err := call(); err != nil { return err }    ==>   call
		if as, ok := s.Init.(*ast.AssignStmt); ok && len(as.Lhs) == 1 && len(as.Rhs) == 1 && s.Else == nil && len(s.Body.List) == 1 {
			if id, ok := as.Lhs[0].(*ast.Ident); ok && id.Name == "err" && f.isErrNotNil(s.Cond) && f.returnsErr(s.Body.List[0]) {
				r := f.expr(as.Rhs[0])
				if r.pure {
					fail(s.Pos(), "error-returning call translated as pure")
				}
				o.line("%s", r.mon())
				return
			}
		}
		if as, ok := s.Init.(*ast.AssignStmt); ok && len(as.Lhs) == 2 && len(as.Rhs) == 1 && s.Else == nil && len(s.Body.List) == 1 {
			l0, ok0 := as.Lhs[0].(*ast.Ident)
			l1, ok1 := as.Lhs[1].(*ast.Ident)
			ce, okc := as.Rhs[0].(*ast.CallExpr)
			if ok0 && ok1 && okc && l0.Name == "_" && l1.Name == "err" && f.isErrNotNil(s.Cond) && f.returnsErr(s.Body.List[0]) &&
				calleeName(ce.Fun) == "io.ReadFull" && len(ce.Args) == 2 && exprText(ce.Args[0]) == "rand.Reader" {
				// the random source fills the array completely or the call fails: arr ← ext_randRead len(arr)
				if se, ok := ce.Args[1].(*ast.SliceExpr); ok && se.Low == nil && se.High == nil {
					if id, ok := se.X.(*ast.Ident); ok {
						if v, isVar := f.lookup(id.Name); isVar && arrayLenOf(v.t.gon) >= 0 {
							f.uses["ext_randRead"] = true
							o.line("%s := (← (ext_randRead %d))", v.lean, arrayLenOf(v.t.gon))
							return
						}
					}
				}
			}
		}
		f.stmt(o, s.Init)
	}
	o.line("if %s then", f.cond(s.Cond))
	o.ind++
	f.block(o, s.Body.List)
	o.ind--
	switch e := s.Else.(type) {
	case nil:
	case *ast.BlockStmt:
		o.line("else")
		o.ind++
		f.block(o, e.List)
		o.ind--
	case *ast.IfStmt:
		o.line("else")
		o.ind++
		f.ifStmt(o, e)
		o.ind--
	default:
		fail(s.Pos(), "else %T", e)
	}
}

func (f *fn) switchStmt(o *w, s *ast.SwitchStmt) {
	if s.Init != nil {
		fail(s.Pos(), "switch with init")
	}
	var tag *ex
	if s.Tag != nil {
		t := f.expr(s.Tag)
		if !t.pure {
			fail(s.Pos(), "impure switch tag")
		}
		tag = &t
	}
	first := true
	var deflt *ast.CaseClause
	depth := 0
	for _, c := range s.Body.List {
		cc := c.(*ast.CaseClause)
		if cc.List == nil {
			deflt = cc
			continue
		}
		var conds []string
		for _, e := range cc.List {
			if tag != nil {
				v := f.expr(e)
				conds = append(conds, "("+tag.code+" == "+v.val()+")")
			} else {
				conds = append(conds, f.cond(e))
			}
		}
		for _, st := range cc.Body {
			if b, ok := st.(*ast.BranchStmt); ok && b.Tok == token.FALLTHROUGH {
				fail(b.Pos(), "fallthrough")
			}
		}
		if !first {
			o.line("else")
			o.ind++
			depth++
		}
		first = false
		o.line("if %s then", strings.Join(conds, " || "))
		o.ind++
		f.block(o, cc.Body)
		o.ind--
	}
	if deflt != nil {
		if first {
			f.block(o, deflt.Body)
		} else {
			o.line("else")
			o.ind++
			f.block(o, deflt.Body)
			o.ind--
		}
	}
	o.ind -= depth
}

// assignedIn collects the plain identifiers assigned anywhere inside the nodes.
func assignedIn(nodes ...ast.Node) map[string]bool {
	out := map[string]bool{}
	for _, n := range nodes {
		if n == nil {
			continue
		}
		ast.Inspect(n, func(x ast.Node) bool {
			switch s := x.(type) {
			case *ast.AssignStmt:
				if s.Tok != token.DEFINE {
					for _, l := range s.Lhs {
						if id, ok := l.(*ast.Ident); ok {
							out[id.Name] = true
						}
						if ix, ok := l.(*ast.IndexExpr); ok { // V[k] = …: V changes
							if id, ok := ix.X.(*ast.Ident); ok {
								out[id.Name] = true
							}
						}
					}
				} else {
					// `:=` may assign to an existing variable of an enclosing scope only when mixed with new names
					// in the same scope; loop bodies open a new scope, so these are declarations
				}
			case *ast.IncDecStmt:
				if id, ok := s.X.(*ast.Ident); ok {
					out[id.Name] = true
				}
			}
			return true
		})
	}
	return out
}

func (f *fn) forStmt(o *w, init ast.Stmt, cond ast.Expr, post ast.Stmt, body *ast.BlockStmt, rng *ast.RangeStmt, pos token.Pos) {
	f.push() // scope of the init statement / range variables
	defer f.pop()
	f.nloop++
	loopName := fmt.Sprintf("%s.loop%d", f.tg.Lean, f.nloop)

	var fuel string
	var rngSeq ex
	var rngIdx variable
	if rng != nil {
		if k, ok := rng.Key.(*ast.Ident); ok && k.Name != "_" {
			f.rangeOf[k.Name] = exprText(rng.X)
		}
		rngSeq = f.expr(rng.X)
		if !rngSeq.pure || rngSeq.t.elem().lean == "" {
			fail(pos, "range over %s", rngSeq.t.lean)
		}
		if rngSeq.t.gon == "string" || (rngSeq.t.lean == "Bytes" && !strings.HasPrefix(rngSeq.t.gon, "[]")) {
			fail(pos, "range over a string iterates runes")
		}
		// hidden index variable
		rngIdx = f.declare(fmt.Sprintf("k%d", f.nloop), intTy)
		o.line("let mut %s : Int := 0", rngIdx.lean)
		fuel = "((" + rngSeq.code + ").length + 1)"
	} else {
		if init != nil {
			f.stmt(o, init)
		}
		if f.fuelIx >= len(f.tg.Fuel) {
			fail(pos, "no fuel expression configured for this loop")
		}
		fuel = "(" + f.tg.Fuel[f.fuelIx] + ")"
		f.fuelIx++
	}

	// loop-carried variables: visible variables assigned in the loop (plus the hidden range index)
	asg := assignedIn(cond, post, body)
	if rng != nil {
		if a := assignedIn(rng.X); len(a) > 0 {
			fail(pos, "range expression assigned in the loop")
		}
	}
	var carried, readonly []variable
	carriedGo := map[string]bool{}
	for _, v := range f.visible() {
		goName := ""
		for i := len(f.scopes) - 1; i >= 0 && goName == ""; i-- {
			for n, vv := range f.scopes[i] {
				if vv.lean == v.lean {
					goName = n
					break
				}
			}
		}
		isParam := false
		for _, p := range f.params {
			if p.lean == v.lean {
				isParam = true
			}
		}
		switch {
		case asg[goName] || (rng != nil && v.lean == rngIdx.lean):
			carried = append(carried, v)
			carriedGo[goName] = true
		case !isParam:
			readonly = append(readonly, v)
		}
	}
	sort.SliceStable(carried, func(i, j int) bool { return false })

	// signature
	var sig []string
	for _, u := range f.tg.Uses {
		sig = append(sig, u)
	}
	var paramNames []string
	for _, p := range f.params {
		isCarried := false
		for _, c := range carried {
			if c.lean == p.lean {
				isCarried = true
			}
		}
		if !isCarried {
			paramNames = append(paramNames, p.lean)
		}
	}
	var hdr strings.Builder
	fmt.Fprintf(&hdr, "def %s", loopName)
	for _, u := range f.tg.Uses { // parameters of the generated code are explicit binders of the loop function
		ut, ok := useTypes[u]
		if !ok {
			fail(pos, "no type recorded for the parameter %s", u)
		}
		fmt.Fprintf(&hdr, " (%s : %s)", u, ut)
	}
	hdr.WriteString(" (fuel : Nat)")
	for _, p := range f.params {
		for _, n := range paramNames {
			if n == p.lean {
				fmt.Fprintf(&hdr, " (%s : %s)", p.lean, p.t.lean)
			}
		}
	}
	for _, v := range readonly {
		fmt.Fprintf(&hdr, " (%s : %s)", v.lean, v.t.lean)
	}
	for _, v := range carried {
		fmt.Fprintf(&hdr, " (%s : %s)", v.lean, v.t.lean)
	}
	outTy := fmt.Sprintf("GoM (LoopOut %s %s)", f.resLean, tupleType(carried))
	fmt.Fprintf(&hdr, " : %s :=", outTy)

	callArgs := func(fuelArg string) string {
		a := append([]string{}, f.tg.Uses...)
		a = append(a, fuelArg)
		a = append(a, paramNames...)
		for _, v := range readonly {
			a = append(a, v.lean)
		}
		for _, v := range carried {
			a = append(a, v.lean)
		}
		return "(" + loopName + " " + strings.Join(a, " ") + ")"
	}

	// body of one iteration
	lo := &w{ind: 2}
	for _, v := range carried {
		lo.line("let mut %s := %s", v.lean, v.lean)
	}
	saved := f.loop
	savedUses := f.uses
	// post statement text
	postText := ""
	if post != nil || rng != nil {
		po := &w{ind: 0}
		if rng != nil {
			po.line("%s := %s + 1", rngIdx.lean, rngIdx.lean)
		} else {
			f.stmt(po, post)
		}
		postText = po.b.String()
	}
	f.loop = &loopCtx{carried: carried, post: postText, recurse: callArgs("fuel")}
	if rng != nil {
		lo.line("if !(decide (%s < len %s)) then return (.next %s)", rngIdx.lean, rngSeq.code, tupleOf(carried))
		f.push()
		if strings.HasPrefix(rngSeq.t.gon, "map[string]") {
			// for key, value := range M: the entry at the hidden index
			vg := strings.TrimPrefix(rngSeq.t.gon, "map[string]")
			vl, ok := leanOfGoName(f.p, vg)
			if !ok {
				fail(pos, "range over a map of %s", vg)
			}
			kv := fmt.Sprintf("kv%d", f.nloop)
			lo.line("let %s ← idx %s %s", kv, rngSeq.code, rngIdx.lean)
			if id, ok := rng.Key.(*ast.Ident); ok && id.Name != "_" {
				v := f.declare(id.Name, ty{"Bytes", "string"})
				lo.line("let %s : Bytes := %s.1", v.lean, kv)
			}
			if rng.Value != nil {
				if id, ok := rng.Value.(*ast.Ident); ok && id.Name != "_" {
					v := f.declare(id.Name, ty{vl, vg})
					lo.line("let %s : %s := %s.2", v.lean, vl, kv)
				}
			}
		} else if rng.Key != nil {
			if id, ok := rng.Key.(*ast.Ident); ok && id.Name != "_" {
				v := f.declare(id.Name, intTy)
				lo.line("let %s : Int := %s", v.lean, rngIdx.lean)
			}
		}
		if rng.Value != nil && !strings.HasPrefix(rngSeq.t.gon, "map[string]") {
			if id, ok := rng.Value.(*ast.Ident); ok && id.Name != "_" {
				v := f.declare(id.Name, rngSeq.t.elem())
				lo.line("let %s ← idx %s %s", v.lean, rngSeq.code, rngIdx.lean)
			}
		}
	} else {
		f.push()
		if cond != nil {
			lo.line("if !(%s) then return (.next %s)", f.cond(cond), tupleOf(carried))
		}
	}
	// the body's statements share the iteration's scope
	f.stmtList(lo, body.List)
	f.pop()
	if postText != "" {
		for _, l := range strings.Split(strings.TrimRight(postText, "\n"), "\n") {
			lo.line("%s", l)
		}
	}
	lo.line("return (← %s)", callArgs("fuel"))
	f.loop = saved
	f.uses = savedUses

	var def strings.Builder
	def.WriteString(hdr.String() + "\n")
	def.WriteString("  match fuel with\n  | 0 => throw .fuel\n  | fuel+1 => do\n")
	def.WriteString(lo.b.String())
	f.loops = append(f.loops, def.String())

	// call site
	retWrap := "return r"
	if f.loop != nil {
		retWrap = "return (.ret r)"
	}
	o.line("match (← %s) with", callArgs(fuel))
	o.line("| .ret r => %s", retWrap)
	if len(carried) == 0 {
		o.line("| .next _ => pure ()")
	} else {
		names := make([]string, len(carried))
		for i, v := range carried {
			names[i] = v.lean + "'"
		}
		o.line("| .next (%s) =>", strings.Join(names, ", "))
		o.ind++
		for _, v := range carried {
			if rng != nil && v.lean == rngIdx.lean {
				continue
			}
			o.line("%s := %s'", v.lean, v.lean)
		}
		if rng != nil && len(carried) == 1 {
			o.line("pure ()")
		}
		o.ind--
	}
}

// ------------------------------------------------------------------ whole function

var targetResult = map[string]ty{} // Lean name -> result type (filled as targets are translated)

func translate(tg *target) (text string, err error) {
	defer func() {
		if r := recover(); r != nil {
			if u, ok := r.(unsupported); ok {
				err = u
				return
			}
			panic(r)
		}
	}()
	concreteTypes = map[string]bool{}
	for _, c := range tg.Concrete {
		concreteTypes[c] = true
	}
	structAlias = map[string]string{}
	for k, v := range tg.StructAs {
		structAlias[k] = v
	}
	defer func() { concreteTypes = map[string]bool{}; structAlias = map[string]string{} }()
	p, e := loadPkg(tg.Dir)
	if e != nil {
		return "", e
	}
	fd := p.funcDecl(tg.Recv, tg.Name)
	if fd == nil || fd.Body == nil {
		return "", fmt.Errorf("function not found")
	}
	if tg.MapIterators {
		cp := *fd
		cp.Body = rewriteMapIterators(fd.Body)
		fd = &cp
	}
	if tg.InlineClosures {
		cp := *fd
		cp.Body = inlineClosures(fd.Body)
		fd = &cp
	}
	if tg.StructLocal != "" {
		// scalar replacement of the struct-typed local (structlocal.go): the translation sees the rewritten body
		cp := *fd
		cp.Body = rewriteStructLocal(p, fd, tg.StructLocal, tg.StructLocalZero)
		fd = &cp
	}
	f := &fn{tg: tg, p: p, decl: fd, uses: map[string]bool{}, builders: map[string]string{}, rangeOf: map[string]string{}, makeIsBuilder: map[*ast.CallExpr]bool{}}
	f.findBuilders(fd.Body)
	f.push()
	// receiver and parameters
	addParam := func(name string, te ast.Expr) {
		t, ok := typeOfExpr(p, te)
		if !ok {
			fail(te.Pos(), "parameter type %s", goTypeName(p, te))
		}
		for _, n := range tg.Nilable { // a slice parameter whose nil-ness the function tests
			if n == name {
				t = ty{"(Option " + t.lean + ")", "nilable:" + t.gon}
			}
		}
		v := f.declare(name, t)
		f.params = append(f.params, v)
	}
	if fd.Recv != nil {
		if len(fd.Recv.List[0].Names) != 1 {
			fail(fd.Pos(), "receiver without a name")
		}
		addParam(fd.Recv.List[0].Names[0].Name, fd.Recv.List[0].Type)
	}
	for _, fl := range fd.Type.Params.List {
		for _, n := range fl.Names {
			addParam(n.Name, fl.Type)
		}
	}
	// results
	res := fd.Type.Results
	var resTys []ty
	var resNames []string
	if res != nil {
		for _, fl := range res.List {
			t, ok := typeOfExpr(p, fl.Type)
			g := goTypeName(p, fl.Type)
			if g == "error" {
				t, ok = ty{"error", "error"}, true
			}
			if !ok {
				fail(fl.Pos(), "result type %s", g)
			}
			if len(fl.Names) == 0 {
				resTys = append(resTys, t)
				resNames = append(resNames, "")
			}
			for _, n := range fl.Names {
				resTys = append(resTys, t)
				resNames = append(resNames, n.Name)
			}
		}
	}
	f.resTys = resTys
	switch {
	case len(resTys) == 1 && resTys[0].lean == "error":
		f.resKind, f.resLean = "error", "Unit"
		targetResult[tg.Lean] = ty{"Unit", "unit"}
	case len(resTys) == 1:
		f.resKind, f.resLean = "value", resTys[0].lean
		targetResult[tg.Lean] = resTys[0]
	case len(resTys) == 2 && resTys[1].lean == "error":
		f.resKind, f.resLean = "valueErr", resTys[0].lean
		targetResult[tg.Lean] = resTys[0]
	case len(resTys) == 3 && resTys[2].lean == "error":
		// (A, B, error): the two values as a pair, the error as the outcome
		f.resKind, f.resLean = "pairErr", "("+resTys[0].lean+" × "+resTys[1].lean+")"
		targetResult[tg.Lean] = ty{f.resLean, "pair"}
	case len(resTys) >= 2:
		f.resKind = "tuple"
		var ts []string
		for _, t := range resTys {
			if t.lean == "error" {
				fail(fd.Pos(), "error inside a result tuple")
			}
			ts = append(ts, t.lean)
		}
		f.resLean = "(" + strings.Join(ts, " × ") + ")"
		targetResult[tg.Lean] = ty{f.resLean, "tuple"}
	default:
		fail(fd.Pos(), "function without results")
	}
	o := &w{ind: 1}
	// parameters that are assigned become mutable locals
	asg := assignedIn(fd.Body)
	for _, pv := range f.params {
		if asg[pv.lean] {
			o.line("let mut %s := %s", pv.lean, pv.lean)
		}
	}
	if f.resKind == "tuple" {
		for i, n := range resNames {
			if n == "" {
				continue
			}
			zero := map[string]string{"Int": "(0 : Int)", "Bool": "false", "Bytes": "([] : Bytes)"}[resTys[i].lean]
			if zero == "" {
				fail(fd.Pos(), "zero value of named result %s", n)
			}
			v := f.declare(n, resTys[i])
			f.named = append(f.named, v)
			o.line("let mut %s : %s := %s", v.lean, resTys[i].lean, zero)
		}
	}
	if f.resKind == "valueErr" && len(resNames) == 2 && resNames[0] != "" {
		// (res T, err error): the value result is a local with its zero value; bare `return` is not supported for this kind
		zero := map[string]string{"Int": "(0 : Int)", "Bool": "false", "Bytes": "([] : Bytes)"}[resTys[0].lean]
		if zero == "" && strings.HasPrefix(resTys[0].lean, "(List ") {
			zero = "([] : " + resTys[0].lean + ")"
		}
		if zero == "" {
			fail(fd.Pos(), "zero value of named result %s", resNames[0])
		}
		v := f.declare(resNames[0], resTys[0])
		o.line("let mut %s : %s := %s", v.lean, resTys[0].lean, zero)
	}
	f.stmtList(o, fd.Body.List)
	pos := fset.Position(fd.Pos())
	var b strings.Builder
	for _, l := range f.loops {
		b.WriteString(l + "\n")
	}
	fmt.Fprintf(&b, "/-- `%s` — %s:%d -/\n", sigText(tg), filepath.ToSlash(strings.TrimPrefix(pos.Filename, repoRoot+"/")), pos.Line)
	fmt.Fprintf(&b, "def %s", tg.Lean)
	for _, u := range tg.Uses {
		_ = u
	}
	for _, pv := range f.params {
		fmt.Fprintf(&b, " (%s : %s)", pv.lean, pv.t.lean)
	}
	fmt.Fprintf(&b, " : GoM %s := do\n", f.resLean)
	b.WriteString(o.b.String())
	return b.String(), nil
}

func sigText(tg *target) string {
	if tg.Recv != "" {
		return tg.Dir + " (" + tg.Recv + ")." + tg.Name
	}
	return tg.Dir + " " + tg.Name
}

func main() {
	if len(os.Args) != 3 {
		fmt.Fprintln(os.Stderr, "usage: go2lean <repo> <Gen directory>")
		os.Exit(2)
	}
	repoRoot = filepath.Clean(os.Args[1])
	outDir := os.Args[2]
	var missing []string
	texts := map[string]*strings.Builder{}
	for _, gf := range genFiles {
		b := &strings.Builder{}
		texts[gf.Name] = b
		b.WriteString("import Ucan.Model.GoM\n")
		for _, im := range gf.Imports {
			b.WriteString("import Ucan.Gen." + im + "\n")
		}
		for _, im := range gf.ModelImports {
			b.WriteString("import Ucan.Model." + im + "\n")
		}
		b.WriteString("/-! GENERATED by /verif/harness/cmd/go2lean from the current go-ucan source. Do not edit. -/\n")
		b.WriteString("set_option linter.unusedVariables false\n")
		b.WriteString("namespace Ucan.Gen\nopen Ucan Ucan.GoM\n\n")
		b.WriteString(prelude + "\n")
		if gf.Prelude != "" {
			b.WriteString(gf.Prelude + "\n")
		}
		if len(gf.Structs) > 0 {
			if err := emitStructs(b, gf.Structs); err != nil {
				missing = append(missing, "structs: "+err.Error())
				fmt.Fprintf(b, "-- MISSING structs: %s\n\n", err)
			}
		}
	}
	for i := range targets {
		tg := &targets[i]
		b := texts[tg.File]
		if b == nil {
			fmt.Fprintln(os.Stderr, "target", tg.Lean, "names an unknown file", tg.File)
			os.Exit(2)
		}
		text, err := translate(tg)
		if err != nil {
			delete(targetResult, tg.Lean)
			missing = append(missing, tg.Lean+": "+err.Error())
			fmt.Fprintf(b, "-- MISSING %s: %s\n\n", tg.Lean, err)
			continue
		}
		b.WriteString(text + "\n")
	}
	if err := os.MkdirAll(outDir, 0o755); err != nil {
		fmt.Fprintln(os.Stderr, err)
		os.Exit(2)
	}
	for _, gf := range genFiles {
		b := texts[gf.Name]
		if gf.Postlude != "" && !strings.Contains(b.String(), "-- MISSING") {
			b.WriteString(gf.Postlude + "\n")
		}
		b.WriteString("end Ucan.Gen\n")
		path := filepath.Join(outDir, gf.Name+".lean")
		if old, err := os.ReadFile(path); err == nil && string(old) == b.String() {
			continue // unchanged: keep the file (and lake's build products) as they are
		}
		if err := os.WriteFile(path+".tmp", []byte(b.String()), 0o644); err != nil {
			fmt.Fprintln(os.Stderr, err)
			os.Exit(2)
		}
		if err := os.Rename(path+".tmp", path); err != nil {
			fmt.Fprintln(os.Stderr, err)
			os.Exit(2)
		}
	}
	for _, m := range missing {
		fmt.Println("go2lean: MISSING", m)
	}
}
