// Package faultio provides readers and writers that chunk, truncate and fail at chosen points.
package faultio

import (
	"errors"
	"fmt"
	"io"
)

var ErrInjected = errors.New("injected I/O fault")

// ErrWrappedEOF is a transport failure whose error WRAPS io.EOF (as net.OpError and many decompressors do): a failure, not the
// clean end of the stream — only io.EOF itself is that.
var ErrWrappedEOF = fmt.Errorf("transport closed: %w", io.EOF)

// Reader delivers data in chunks of the given sizes (cycled), optionally returns data together with
// io.EOF on the last chunk, and fails with ErrInjected once FailAt bytes have been delivered (FailAt < 0: never).
//
// Transient: the fault is reported ONCE, together with the data of that call (n > 0, err != nil — allowed by the
// io.Reader contract), and the stream then goes on delivering the rest of the data; a caller that ignores the error
// sees a complete, well-formed stream.
type Reader struct {
	Data      []byte
	Chunks    []int
	DataEOF   bool
	FailAt    int
	Transient bool
	Err       error // the error reported at the fault (nil: ErrInjected)
	pos, turn int
	reported  bool
}

func (r *Reader) Read(p []byte) (int, error) {
	if r.Transient {
		return r.readTransient(p)
	}
	if r.FailAt >= 0 && r.pos >= r.FailAt {
		if r.Err != nil {
			return 0, r.Err
		}
		return 0, ErrInjected
	}
	if r.pos >= len(r.Data) {
		return 0, io.EOF
	}
	n := len(p)
	if len(r.Chunks) > 0 {
		c := r.Chunks[r.turn%len(r.Chunks)]
		r.turn++
		if c < n {
			n = c
		}
	}
	if n < 1 {
		n = 1
	}
	end := r.pos + n
	if end > len(r.Data) {
		end = len(r.Data)
	}
	if r.FailAt >= 0 && end > r.FailAt {
		end = r.FailAt
	}
	n = copy(p, r.Data[r.pos:end])
	r.pos += n
	if r.DataEOF && r.pos >= len(r.Data) && (r.FailAt < 0 || r.FailAt > len(r.Data)) {
		return n, io.EOF
	}
	return n, nil
}

func (r *Reader) readTransient(p []byte) (int, error) {
	if r.pos >= len(r.Data) {
		return 0, io.EOF
	}
	n := len(p)
	if len(r.Chunks) > 0 {
		c := r.Chunks[r.turn%len(r.Chunks)]
		r.turn++
		if c < n {
			n = c
		}
	}
	if n < 1 {
		n = 1
	}
	end := r.pos + n
	if end > len(r.Data) {
		end = len(r.Data)
	}
	n = copy(p, r.Data[r.pos:end])
	start := r.pos
	r.pos += n
	if !r.reported && r.FailAt >= start && r.FailAt < r.pos {
		r.reported = true
		if r.Err != nil {
			return n, r.Err
		}
		return n, ErrInjected
	}
	return n, nil
}

// Writer accepts writes and fails the FailCall-th call (0-based; < 0: never). It records what it accepted.
type Writer struct {
	FailCall int
	Calls    int
	Buf      []byte
}

func (w *Writer) Write(p []byte) (int, error) {
	if w.FailCall >= 0 && w.Calls == w.FailCall {
		w.Calls++
		return 0, ErrInjected
	}
	w.Calls++
	w.Buf = append(w.Buf, p...)
	return len(p), nil
}
