// Package faultio provides readers and writers that chunk, truncate and fail at chosen points.
package faultio

import (
	"errors"
	"io"
)

var ErrInjected = errors.New("injected I/O fault")

// Reader delivers data in chunks of the given sizes (cycled), optionally returns data together with
// io.EOF on the last chunk, and fails with ErrInjected once FailAt bytes have been delivered (FailAt < 0: never).
type Reader struct {
	Data      []byte
	Chunks    []int
	DataEOF   bool
	FailAt    int
	pos, turn int
}

func (r *Reader) Read(p []byte) (int, error) {
	if r.FailAt >= 0 && r.pos >= r.FailAt {
		return 0, ErrInjected
	}
	if r.pos >= len(r.Data) {
		return 0, io.EOF
	}
	n := len(p)
	if len(r.Chunks) > 0 {
		c := r.Chunks[r.turn%len(r.Chunks)]
		r.turn++
		if c < n {
			n = c
		}
	}
	if n < 1 {
		n = 1
	}
	end := r.pos + n
	if end > len(r.Data) {
		end = len(r.Data)
	}
	if r.FailAt >= 0 && end > r.FailAt {
		end = r.FailAt
	}
	n = copy(p, r.Data[r.pos:end])
	r.pos += n
	if r.DataEOF && r.pos >= len(r.Data) && (r.FailAt < 0 || r.FailAt > len(r.Data)) {
		return n, io.EOF
	}
	return n, nil
}

// Writer accepts writes and fails the FailCall-th call (0-based; < 0: never). It records what it accepted.
type Writer struct {
	FailCall int
	Calls    int
	Buf      []byte
}

func (w *Writer) Write(p []byte) (int, error) {
	if w.FailCall >= 0 && w.Calls == w.FailCall {
		w.Calls++
		return 0, ErrInjected
	}
	w.Calls++
	w.Buf = append(w.Buf, p...)
	return len(p), nil
}
