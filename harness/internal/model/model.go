// Package model talks to the compiled Lean driver (ucan-model) over the line protocol.
package model

import (
	"bufio"
	"fmt"
	"io"
	"os"
	"os/exec"
	"strings"
)

type Model struct {
	cmd *exec.Cmd
	in  io.WriteCloser
	out *bufio.Reader
}

func Start(path string) (*Model, error) {
	cmd := exec.Command(path)
	in, err := cmd.StdinPipe()
	if err != nil {
		return nil, err
	}
	out, err := cmd.StdoutPipe()
	if err != nil {
		return nil, err
	}
	cmd.Stderr = os.Stderr
	if err := cmd.Start(); err != nil {
		return nil, err
	}
	return &Model{cmd: cmd, in: in, out: bufio.NewReaderSize(out, 1<<20)}, nil
}

// Batch sends all lines and returns one answer per line. Writing happens in a goroutine so
// that large batches cannot deadlock on pipe buffers. A trailing "flush" line forces the
// driver to flush its output.
func (m *Model) Batch(lines []string) ([]string, error) {
	errc := make(chan error, 1)
	go func() {
		w := bufio.NewWriterSize(m.in, 1<<20)
		for _, l := range lines {
			if strings.ContainsAny(l, "\n\r") {
				errc <- fmt.Errorf("newline in case line")
				return
			}
			w.WriteString(l)
			w.WriteByte('\n')
		}
		w.WriteString("flush\n")
		errc <- w.Flush()
	}()
	res := make([]string, 0, len(lines))
	for i := 0; i < len(lines)+1; i++ {
		s, err := m.out.ReadString('\n')
		if err != nil {
			return nil, fmt.Errorf("model driver died after %d answers: %w", i, err)
		}
		if i < len(lines) {
			res = append(res, strings.TrimRight(s, "\n"))
		}
	}
	if err := <-errc; err != nil {
		return nil, err
	}
	return res, nil
}

func (m *Model) One(line string) (string, error) {
	r, err := m.Batch([]string{line})
	if err != nil {
		return "", err
	}
	return r[0], nil
}

func (m *Model) Close() {
	m.in.Close()
	m.cmd.Wait()
}
