// Package immutwork holds the read-only workload on shared tokens used both by the `immut` correspondence
// stream and by the race-detector binary (cmd/racecheck).
package immutwork

import (
	"crypto/rand"
	"errors"
	"fmt"
	"sort"
	"strings"
	"sync"

	"github.com/ipfs/go-cid"
	"github.com/ipld/go-ipld-prime/datamodel"
	"github.com/libp2p/go-libp2p/core/crypto"
	"github.com/ucan-wg/go-ucan/did"
	"github.com/ucan-wg/go-ucan/pkg/args"
	"github.com/ucan-wg/go-ucan/pkg/command"
	"github.com/ucan-wg/go-ucan/pkg/policy"
	"github.com/ucan-wg/go-ucan/token/delegation"
	"github.com/ucan-wg/go-ucan/token/invocation"
)

type Fixture struct {
	Inv     *invocation.Token
	Dlg     *delegation.Token // the root delegation (subject → mid), carries the metadata
	Leaf    *delegation.Token // mid → invoker; when constructed, its policy slice has spare capacity
	Loader  Loader
	Deny    Loader // the same links, resolved to twins of the delegations whose policy the invocation's arguments violate
	InvKey  crypto.PrivKey
	DlgKey  crypto.PrivKey
	MidKey  crypto.PrivKey
	ArgKeys []string
	MetaKey []string
	values0 string
}

type Loader map[cid.Cid]*delegation.Token

func (l Loader) GetDelegation(c cid.Cid) (*delegation.Token, error) {
	t, ok := l[c]
	if !ok {
		return nil, delegation.ErrDelegationNotFound
	}
	return t, nil
}

// New builds a root delegation (subject → invoker, with metadata in the given key order and a policy) and an
// invocation carrying arguments and metadata inserted in the given orders. decoded = go through seal/unseal.
func New(argKeys, metaKeys []string, decoded bool) (*Fixture, error) {
	sk, _, err := crypto.GenerateEd25519Key(rand.Reader)
	if err != nil {
		return nil, err
	}
	ik, _, err := crypto.GenerateEd25519Key(rand.Reader)
	if err != nil {
		return nil, err
	}
	mk, _, err := crypto.GenerateEd25519Key(rand.Reader)
	if err != nil {
		return nil, err
	}
	sd, _ := did.FromPrivKey(sk)
	id, _ := did.FromPrivKey(ik)
	md, _ := did.FromPrivKey(mk)
	var dopts []delegation.Option
	for i, k := range metaKeys {
		dopts = append(dopts, delegation.WithMeta(k, longValue(i)))
	}
	pol := policy.Policy{}
	if len(argKeys) > 0 {
		pol = policy.MustConstruct(policy.GreaterThanOrEqual("."+argKeys[0]+"?", intNode(0)))
	}
	d, err := delegation.Root(sd, md, command.MustParse("/x"), pol, dopts...)
	if err != nil {
		return nil, err
	}
	sealed, c, err := d.ToSealed(sk)
	if err != nil {
		return nil, err
	}
	if decoded {
		if d, _, err = delegation.FromSealed(sealed); err != nil {
			return nil, err
		}
	}
	// the leaf's policy is built incrementally: the slice keeps spare capacity, which a read-only
	// operation must not write into (the delegation is shared between invocations and goroutines)
	leafPol := make(policy.Policy, 0, 8)
	leafPol = append(leafPol, policy.MustConstruct(policy.Not(policy.Equal(".never?", intNode(-1))))...)
	leaf, err := delegation.New(md, id, command.MustParse("/x"), leafPol, delegation.WithSubject(sd))
	if err != nil {
		return nil, err
	}
	lsealed, lc, err := leaf.ToSealed(mk)
	if err != nil {
		return nil, err
	}
	if decoded {
		if leaf, _, err = delegation.FromSealed(lsealed); err != nil {
			return nil, err
		}
	}
	var iopts []invocation.Option
	for i, k := range argKeys {
		iopts = append(iopts, invocation.WithArgument(k, int64(i+1)))
	}
	for i, k := range metaKeys {
		iopts = append(iopts, invocation.WithMeta(k, longValue(i+100)))
	}
	inv, err := invocation.New(id, sd, command.MustParse("/x/y"), []cid.Cid{lc, c}, iopts...)
	if err != nil {
		return nil, err
	}
	if decoded {
		b, _, err := inv.ToSealed(ik)
		if err != nil {
			return nil, err
		}
		if inv, _, err = invocation.FromSealed(b); err != nil {
			return nil, err
		}
	}
	denyPol := policy.MustConstruct(policy.Equal(".an-argument-the-invocation-does-not-have", intNode(1)))
	dd, err := delegation.Root(sd, md, command.MustParse("/x"), denyPol)
	if err != nil {
		return nil, err
	}
	f := &Fixture{Inv: inv, Dlg: d, Leaf: leaf, Loader: Loader{c: d, lc: leaf}, Deny: Loader{c: dd, lc: leaf}, InvKey: ik, DlgKey: sk, MidKey: mk, ArgKeys: argKeys, MetaKey: metaKeys}
	f.values0 = f.Values()
	return f, nil
}

// longValue is a byte value longer than any "short value" threshold a printer might have (metadata values are
// typically ciphertexts of 40 bytes and more)
func longValue(i int) []byte {
	b := make([]byte, 48)
	for j := range b {
		b[j] = byte(i*7 + j)
	}
	return b
}

// Values renders every argument and metadata VALUE of the three tokens (keys sorted), so that a read-only operation
// that rewrites a stored value — not only the key order — is seen.
func (f *Fixture) Values() string {
	var parts []string
	dump := func(prefix string, it func(func(string, datamodel.Node) bool)) {
		var kv []string
		it(func(k string, v datamodel.Node) bool {
			s := ""
			switch v.Kind() {
			case datamodel.Kind_Bytes:
				b, _ := v.AsBytes()
				s = fmt.Sprintf("%x", b)
			case datamodel.Kind_Int:
				n, _ := v.AsInt()
				s = fmt.Sprint(n)
			case datamodel.Kind_String:
				s, _ = v.AsString()
			default:
				s = v.Kind().String()
			}
			kv = append(kv, k+"="+s)
			return true
		})
		sort.Strings(kv)
		parts = append(parts, prefix+strings.Join(kv, ","))
	}
	dump("inv.args:", f.Inv.Arguments().Iter())
	dump("inv.meta:", f.Inv.Meta().Iter())
	dump("dlg.meta:", f.Dlg.Meta().Iter())
	dump("leaf.meta:", f.Leaf.Meta().Iter())
	return strings.Join(parts, ";")
}

// ValuesChanged reports whether any stored value differs from what it was when the fixture was built.
func (f *Fixture) ValuesChanged() bool { return f.Values() != f.values0 }

func keysOf(it func(func(string, datamodel.Node) bool)) []string {
	var ks []string
	it(func(k string, _ datamodel.Node) bool { ks = append(ks, k); return true })
	return ks
}

// Snapshot is what can be observed of the token's argument and metadata key order.
func (f *Fixture) Snapshot() (argOrder, metaOrder, dlgMetaOrder []string) {
	return keysOf(f.Inv.Arguments().Iter()), keysOf(f.Inv.Meta().Iter()), keysOf(f.Dlg.Meta().Iter())
}

// SpareWritten counts the cells of the shared delegations' policy slices beyond their length that hold
// something: read-only use must leave the spare capacity of a shared slice alone.
func (f *Fixture) SpareWritten() int {
	n := 0
	for _, d := range []*delegation.Token{f.Leaf, f.Dlg} {
		p := d.Policy()
		for _, st := range p[len(p):cap(p)] {
			if st != nil {
				n++
			}
		}
	}
	return n
}

func argKeysSorted(a interface {
	ToIPLD() (datamodel.Node, error)
}) []string {
	n, err := a.ToIPLD()
	if err != nil {
		return []string{"ToIPLD: " + err.Error()}
	}
	var ks []string
	it := n.MapIterator()
	for !it.Done() {
		k, _, _ := it.Next()
		s, _ := k.AsString()
		ks = append(ks, s)
	}
	return ks
}

// observingLoader answers like the fixture's loader and, while the authorization check is running,
// looks at the invocation the way any other reader could (re-entrancy stands for a concurrent reader)
type observingLoader struct {
	f    *Fixture
	seen [][]string
}

func (l *observingLoader) GetDelegation(c cid.Cid) (*delegation.Token, error) {
	l.seen = append(l.seen, argKeysSorted(l.f.Inv.Arguments()))
	return l.f.Loader.GetDelegation(c)
}

// keysInText lists the given keys by their first position in a printed form
func keysInText(text string, keys []string) []string {
	type kp struct {
		k string
		p int
	}
	var ps []kp
	for _, k := range keys {
		if i := strings.Index(text, "\n\t"+k+": "); i >= 0 {
			ps = append(ps, kp{k, i})
		}
	}
	sort.Slice(ps, func(i, j int) bool { return ps[i].p < ps[j].p })
	var out []string
	for _, x := range ps {
		out = append(out, x.k)
	}
	return out
}

// Run performs one read-only operation and returns the key order of its output ("" when it has none) and an error text.
func (f *Fixture) Run(op string) ([]string, string) {
	switch op {
	case "argsToIPLD":
		n, err := f.Inv.Arguments().ToIPLD()
		if err != nil {
			return nil, err.Error()
		}
		var ks []string
		it := n.MapIterator()
		for !it.Done() {
			k, _, _ := it.Next()
			s, _ := k.AsString()
			ks = append(ks, s)
		}
		return ks, ""
	case "argsString":
		return keysInText(f.Inv.Arguments().String(), f.ArgKeys), ""
	case "metaString":
		return keysInText(f.Inv.Meta().String(), f.MetaKey), ""
	case "argsIter":
		return keysOf(f.Inv.Arguments().Iter()), ""
	case "metaIter":
		return keysOf(f.Inv.Meta().Iter()), ""
	case "executionAllowed":
		if err := f.Inv.ExecutionAllowed(f.Loader); err != nil {
			return nil, "ExecutionAllowed: " + err.Error()
		}
		n, _ := f.Inv.Arguments().ToIPLD()
		var ks []string
		it := n.MapIterator()
		for !it.Done() {
			k, _, _ := it.Next()
			s, _ := k.AsString()
			ks = append(ks, s)
		}
		return ks, ""
	case "executionAllowedHook":
		// the hook variant checks against replaced arguments; the token's own arguments, as seen by anyone
		// during and after the call, stay what they were
		l := &observingLoader{f: f}
		err := f.Inv.ExecutionAllowedWithArgsHook(l, func(ro args.ReadOnly) (*args.Args, error) {
			na := ro.WriteableClone()
			if err := na.Add("hooked", true); err != nil {
				return nil, err
			}
			return na, nil
		})
		if err != nil {
			return nil, "ExecutionAllowedWithArgsHook: " + err.Error()
		}
		after := argKeysSorted(f.Inv.Arguments())
		for _, s := range l.seen {
			if strings.Join(s, ",") != strings.Join(after, ",") {
				return s, "" // what a reader saw during the call differs: report that view
			}
		}
		return after, ""
	case "executionAllowedHookDenied":
		// a hook whose result violates the chain's policy (the first argument becomes negative): the check must be
		// refused because of the policy, whatever this token was checked against before; without a policy
		// (no argument keys) there is nothing to violate and the check passes
		err := f.Inv.ExecutionAllowedWithArgsHook(f.Loader, func(ro args.ReadOnly) (*args.Args, error) {
			na := args.New()
			for k, v := range ro.Iter() {
				if len(f.ArgKeys) > 0 && k == f.ArgKeys[0] {
					if err := na.Add(k, int64(-5)); err != nil {
						return nil, err
					}
					continue
				}
				if err := na.Add(k, v); err != nil {
					return nil, err
				}
			}
			return na, nil
		})
		switch {
		case len(f.ArgKeys) == 0 && err != nil:
			return nil, "ExecutionAllowedWithArgsHook (nothing to violate): " + err.Error()
		case len(f.ArgKeys) > 0 && err == nil:
			return nil, "ExecutionAllowedWithArgsHook allowed arguments that violate the policy"
		case len(f.ArgKeys) > 0 && !errors.Is(err, invocation.ErrPolicyNotSatisfied):
			return nil, "ExecutionAllowedWithArgsHook with violating arguments: " + err.Error()
		}
		return argKeysSorted(f.Inv.Arguments()), ""
	case "executionAllowedHookClone":
		// a hook that only looks: it hands back the writeable clone unchanged
		err := f.Inv.ExecutionAllowedWithArgsHook(f.Loader, func(ro args.ReadOnly) (*args.Args, error) { return ro.WriteableClone(), nil })
		if err != nil {
			return nil, "ExecutionAllowedWithArgsHook(clone): " + err.Error()
		}
		return argKeysSorted(f.Inv.Arguments()), ""
	case "executionAllowedDenied":
		// the plain entry point, refused by the POLICY of the chain: the loader hands out, for the same links, twins of the
		// two delegations whose policy demands an argument the invocation does not have
		if f.Deny == nil {
			return nil, "fixture has no denying loader"
		}
		if err := f.Inv.ExecutionAllowed(f.Deny); err == nil {
			return nil, "ExecutionAllowed succeeded although a delegation's policy demands an absent argument"
		} else if !errors.Is(err, invocation.ErrPolicyNotSatisfied) {
			return nil, "ExecutionAllowed with a denying policy: " + err.Error()
		}
		return argKeysSorted(f.Inv.Arguments()), ""
	case "executionAllowedMissing":
		// the same token checked with a loader that has none of its proofs: must fail whatever happened before
		if err := f.Inv.ExecutionAllowed(Loader{}); err == nil {
			return nil, "ExecutionAllowed succeeded with a loader that has none of the proofs"
		} else if !errors.Is(err, invocation.ErrMissingDelegation) {
			return nil, "ExecutionAllowed with an empty loader: " + err.Error()
		}
		return argKeysSorted(f.Inv.Arguments()), ""
	case "seal":
		if _, _, err := f.Inv.ToSealed(f.InvKey); err != nil {
			return nil, "ToSealed: " + err.Error()
		}
		if _, err := f.Inv.ToDagJson(f.InvKey); err != nil {
			return nil, "ToDagJson: " + err.Error()
		}
		if _, _, err := f.Dlg.ToSealed(f.DlgKey); err != nil {
			return nil, "ToSealed(delegation): " + err.Error()
		}
		if _, _, err := f.Leaf.ToSealed(f.MidKey); err != nil {
			return nil, "ToSealed(leaf delegation): " + err.Error()
		}
		_ = f.Dlg.Meta().String()
		_ = f.Inv.Meta().String()
		_ = f.Leaf.Meta().String()
		_ = f.Dlg.Policy().String()
		_ = f.Leaf.Policy().String()
		n, _ := f.Inv.Arguments().ToIPLD()
		var ks []string
		it := n.MapIterator()
		for !it.Done() {
			k, _, _ := it.Next()
			s, _ := k.AsString()
			ks = append(ks, s)
		}
		return ks, ""
	}
	return nil, "unknown op " + op
}

var Ops = []string{"argsToIPLD", "argsString", "metaString", "argsIter", "metaIter", "executionAllowed", "seal", "executionAllowedHook", "executionAllowedMissing",
	"executionAllowedHookDenied", "executionAllowedHookClone", "executionAllowedDenied"}

// Concurrent runs every operation from `workers` goroutines on the SAME tokens and reports the first result
// that differs from the one obtained when the operation ran alone, or a change of the observable key order.
func Concurrent(twin, f *Fixture, workers, rounds int) string {
	// what each operation returns alone is taken from a twin built the same way, so that the tokens used
	// concurrently have never been touched before: the very first uses already run side by side
	alone := map[string]string{}
	for _, op := range Ops {
		ks, e := twin.Run(op)
		alone[op] = strings.Join(ks, ",") + "|" + e
	}
	a0, m0, d0 := f.Snapshot()
	var wg sync.WaitGroup
	bad := make(chan string, workers)
	for w := 0; w < workers; w++ {
		wg.Add(1)
		go func(w int) {
			defer wg.Done()
			defer func() {
				if r := recover(); r != nil {
					bad <- fmt.Sprint("panic: ", r)
				}
			}()
			for r := 0; r < rounds; r++ {
				op := Ops[(w+r)%len(Ops)]
				if r == 0 {
					op = []string{"executionAllowed", "executionAllowedHook"}[w%2]
				}
				ks, e := f.Run(op)
				if got := strings.Join(ks, ",") + "|" + e; got != alone[op] {
					bad <- fmt.Sprintf("%s returned %q concurrently but %q alone", op, got, alone[op])
					return
				}
			}
		}(w)
	}
	wg.Wait()
	close(bad)
	for m := range bad {
		return m
	}
	a1, m1, d1 := f.Snapshot()
	if strings.Join(a0, ",") != strings.Join(a1, ",") || strings.Join(m0, ",") != strings.Join(m1, ",") || strings.Join(d0, ",") != strings.Join(d1, ",") {
		return "the key order observable through Iter() changed during read-only use"
	}
	if n := f.SpareWritten(); n != 0 {
		return fmt.Sprintf("read-only use wrote %d cell(s) into the spare capacity of a shared delegation's policy slice", n)
	}
	if f.ValuesChanged() {
		return "read-only use changed a stored argument or metadata value"
	}
	return "ok"
}
