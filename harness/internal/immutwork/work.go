// Package immutwork holds the read-only workload on shared tokens used both by the `immut` correspondence
// stream and by the race-detector binary (cmd/racecheck).
package immutwork

import (
	"crypto/rand"
	"fmt"
	"sort"
	"strings"
	"sync"

	"github.com/ipfs/go-cid"
	"github.com/ipld/go-ipld-prime/datamodel"
	"github.com/libp2p/go-libp2p/core/crypto"
	"github.com/ucan-wg/go-ucan/did"
	"github.com/ucan-wg/go-ucan/pkg/command"
	"github.com/ucan-wg/go-ucan/pkg/policy"
	"github.com/ucan-wg/go-ucan/token/delegation"
	"github.com/ucan-wg/go-ucan/token/invocation"
)

type Fixture struct {
	Inv     *invocation.Token
	Dlg     *delegation.Token
	Loader  Loader
	InvKey  crypto.PrivKey
	DlgKey  crypto.PrivKey
	ArgKeys []string
	MetaKey []string
}

type Loader map[cid.Cid]*delegation.Token

func (l Loader) GetDelegation(c cid.Cid) (*delegation.Token, error) {
	t, ok := l[c]
	if !ok {
		return nil, delegation.ErrDelegationNotFound
	}
	return t, nil
}

// New builds a root delegation (subject → invoker, with metadata in the given key order and a policy) and an
// invocation carrying arguments and metadata inserted in the given orders. decoded = go through seal/unseal.
func New(argKeys, metaKeys []string, decoded bool) (*Fixture, error) {
	sk, _, err := crypto.GenerateEd25519Key(rand.Reader)
	if err != nil {
		return nil, err
	}
	ik, _, err := crypto.GenerateEd25519Key(rand.Reader)
	if err != nil {
		return nil, err
	}
	sd, _ := did.FromPrivKey(sk)
	id, _ := did.FromPrivKey(ik)
	var dopts []delegation.Option
	for i, k := range metaKeys {
		dopts = append(dopts, delegation.WithMeta(k, int64(i)))
	}
	pol := policy.Policy{}
	if len(argKeys) > 0 {
		pol = policy.MustConstruct(policy.GreaterThanOrEqual("."+argKeys[0]+"?", intNode(0)))
	}
	d, err := delegation.Root(sd, id, command.MustParse("/x"), pol, dopts...)
	if err != nil {
		return nil, err
	}
	sealed, c, err := d.ToSealed(sk)
	if err != nil {
		return nil, err
	}
	if decoded {
		if d, _, err = delegation.FromSealed(sealed); err != nil {
			return nil, err
		}
	}
	var iopts []invocation.Option
	for i, k := range argKeys {
		iopts = append(iopts, invocation.WithArgument(k, int64(i+1)))
	}
	for i, k := range metaKeys {
		iopts = append(iopts, invocation.WithMeta(k, int64(i)))
	}
	inv, err := invocation.New(id, sd, command.MustParse("/x/y"), []cid.Cid{c}, iopts...)
	if err != nil {
		return nil, err
	}
	if decoded {
		b, _, err := inv.ToSealed(ik)
		if err != nil {
			return nil, err
		}
		if inv, _, err = invocation.FromSealed(b); err != nil {
			return nil, err
		}
	}
	return &Fixture{Inv: inv, Dlg: d, Loader: Loader{c: d}, InvKey: ik, DlgKey: sk, ArgKeys: argKeys, MetaKey: metaKeys}, nil
}

func keysOf(it func(func(string, datamodel.Node) bool)) []string {
	var ks []string
	it(func(k string, _ datamodel.Node) bool { ks = append(ks, k); return true })
	return ks
}

// Snapshot is what can be observed of the token's argument and metadata key order.
func (f *Fixture) Snapshot() (argOrder, metaOrder, dlgMetaOrder []string) {
	return keysOf(f.Inv.Arguments().Iter()), keysOf(f.Inv.Meta().Iter()), keysOf(f.Dlg.Meta().Iter())
}

// keysInText lists the given keys by their first position in a printed form
func keysInText(text string, keys []string) []string {
	type kp struct {
		k string
		p int
	}
	var ps []kp
	for _, k := range keys {
		if i := strings.Index(text, "\n\t"+k+": "); i >= 0 {
			ps = append(ps, kp{k, i})
		}
	}
	sort.Slice(ps, func(i, j int) bool { return ps[i].p < ps[j].p })
	var out []string
	for _, x := range ps {
		out = append(out, x.k)
	}
	return out
}

// Run performs one read-only operation and returns the key order of its output ("" when it has none) and an error text.
func (f *Fixture) Run(op string) ([]string, string) {
	switch op {
	case "argsToIPLD":
		n, err := f.Inv.Arguments().ToIPLD()
		if err != nil {
			return nil, err.Error()
		}
		var ks []string
		it := n.MapIterator()
		for !it.Done() {
			k, _, _ := it.Next()
			s, _ := k.AsString()
			ks = append(ks, s)
		}
		return ks, ""
	case "argsString":
		return keysInText(f.Inv.Arguments().String(), f.ArgKeys), ""
	case "metaString":
		return keysInText(f.Inv.Meta().String(), f.MetaKey), ""
	case "argsIter":
		return keysOf(f.Inv.Arguments().Iter()), ""
	case "metaIter":
		return keysOf(f.Inv.Meta().Iter()), ""
	case "executionAllowed":
		if err := f.Inv.ExecutionAllowed(f.Loader); err != nil {
			return nil, "ExecutionAllowed: " + err.Error()
		}
		n, _ := f.Inv.Arguments().ToIPLD()
		var ks []string
		it := n.MapIterator()
		for !it.Done() {
			k, _, _ := it.Next()
			s, _ := k.AsString()
			ks = append(ks, s)
		}
		return ks, ""
	case "seal":
		if _, _, err := f.Inv.ToSealed(f.InvKey); err != nil {
			return nil, "ToSealed: " + err.Error()
		}
		if _, err := f.Inv.ToDagJson(f.InvKey); err != nil {
			return nil, "ToDagJson: " + err.Error()
		}
		if _, _, err := f.Dlg.ToSealed(f.DlgKey); err != nil {
			return nil, "ToSealed(delegation): " + err.Error()
		}
		_ = f.Dlg.Meta().String()
		_ = f.Dlg.Policy().String()
		n, _ := f.Inv.Arguments().ToIPLD()
		var ks []string
		it := n.MapIterator()
		for !it.Done() {
			k, _, _ := it.Next()
			s, _ := k.AsString()
			ks = append(ks, s)
		}
		return ks, ""
	}
	return nil, "unknown op " + op
}

var Ops = []string{"argsToIPLD", "argsString", "metaString", "argsIter", "metaIter", "executionAllowed", "seal"}

// Concurrent runs every operation from `workers` goroutines on the SAME tokens and reports the first result
// that differs from the one obtained when the operation ran alone, or a change of the observable key order.
func Concurrent(f *Fixture, workers, rounds int) string {
	alone := map[string]string{}
	for _, op := range Ops {
		ks, e := f.Run(op)
		alone[op] = strings.Join(ks, ",") + "|" + e
	}
	a0, m0, d0 := f.Snapshot()
	var wg sync.WaitGroup
	bad := make(chan string, workers)
	for w := 0; w < workers; w++ {
		wg.Add(1)
		go func(w int) {
			defer wg.Done()
			defer func() {
				if r := recover(); r != nil {
					bad <- fmt.Sprint("panic: ", r)
				}
			}()
			for r := 0; r < rounds; r++ {
				op := Ops[(w+r)%len(Ops)]
				ks, e := f.Run(op)
				if got := strings.Join(ks, ",") + "|" + e; got != alone[op] {
					bad <- fmt.Sprintf("%s returned %q concurrently but %q alone", op, got, alone[op])
					return
				}
			}
		}(w)
	}
	wg.Wait()
	close(bad)
	for m := range bad {
		return m
	}
	a1, m1, d1 := f.Snapshot()
	if strings.Join(a0, ",") != strings.Join(a1, ",") || strings.Join(m0, ",") != strings.Join(m1, ",") || strings.Join(d0, ",") != strings.Join(d1, ",") {
		return "the key order observable through Iter() changed during read-only use"
	}
	return "ok"
}
