package immutwork

import (
	"github.com/ipld/go-ipld-prime/datamodel"
	"github.com/ipld/go-ipld-prime/node/basicnode"
)

func intNode(i int64) datamodel.Node { return basicnode.NewInt(i) }
