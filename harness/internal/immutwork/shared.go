package immutwork

import (
	"crypto/rand"
	"fmt"

	"github.com/ipfs/go-cid"
	"github.com/ipld/go-ipld-prime/datamodel"
	"github.com/ipld/go-ipld-prime/node/basicnode"
	"github.com/libp2p/go-libp2p/core/crypto"
	"github.com/ucan-wg/go-ucan/did"
	"github.com/ucan-wg/go-ucan/pkg/command"
	"github.com/ucan-wg/go-ucan/pkg/policy"
	"github.com/ucan-wg/go-ucan/token/delegation"
	"github.com/ucan-wg/go-ucan/token/invocation"
)

type oneLoader map[cid.Cid]*delegation.Token

func (l oneLoader) GetDelegation(c cid.Cid) (*delegation.Token, error) {
	if d, ok := l[c]; ok {
		return d, nil
	}
	return nil, delegation.ErrDelegationNotFound
}

// sharedPolicies: policies whose selectors carry state that an evaluation could be tempted to normalise in place —
// slice bounds relative to the end or open, negative indexes, optional segments, iterators, like patterns
func sharedPolicies() []policy.Policy {
	i := func(v int64) datamodel.Node { return basicnode.NewInt(v) }
	return []policy.Policy{
		policy.MustConstruct(policy.All(".l[-2:]", policy.GreaterThan(".", i(0)))),
		policy.MustConstruct(policy.All(".l[1:]", policy.GreaterThan(".", i(0)))),
		policy.MustConstruct(policy.All(".l[:-1]", policy.GreaterThan(".", i(0)))),
		policy.MustConstruct(policy.Any(".l[-3:-1]", policy.LessThan(".", i(0)))),
		policy.MustConstruct(policy.GreaterThan(".l[-1]", i(0))),
		policy.MustConstruct(policy.All(".l[0:2]", policy.GreaterThan(".", i(0)))),
		policy.MustConstruct(policy.All(".l[]", policy.GreaterThan(".", i(-5))), policy.Like(".s?", "a*\\*")),
	}
}

func listArg(vs ...int64) []any {
	out := make([]any, len(vs))
	for i, v := range vs {
		out[i] = v
	}
	return out
}

// SharedDelegationHistory: ONE decoded root delegation is used to decide a sequence of invocations whose list argument has
// a different length and content each time (what a relative or open slice bound resolves to differs from one to the next).
// Every verdict must be the verdict the same invocation gets against a delegation that was never used before, and the
// delegation must afterwards print, and seal, as it did before.
func SharedDelegationHistory() string {
	sk, _, err := crypto.GenerateEd25519Key(rand.Reader)
	if err != nil {
		return err.Error()
	}
	ik, _, err := crypto.GenerateEd25519Key(rand.Reader)
	if err != nil {
		return err.Error()
	}
	sd, _ := did.FromPrivKey(sk)
	id, _ := did.FromPrivKey(ik)
	lists := [][]any{
		listArg(1, 2, 3, 4, 5), listArg(-1, 2, 3), listArg(1, -2), listArg(-1, -1, -1, 1, 1), listArg(1), listArg(), listArg(1, 1, -1),
		listArg(-1, 1, 1, 1, 1, 1, 1), listArg(1, 2, 3, 4, 5),
	}
	for pi, pol := range sharedPolicies() {
		for _, decoded := range []bool{false, true} {
			mkDlg := func() (*delegation.Token, cid.Cid, error) {
				d, err := delegation.Root(sd, id, command.MustParse("/x"), pol)
				if err != nil {
					return nil, cid.Undef, err
				}
				sealed, c, err := d.ToSealed(sk)
				if err != nil {
					return nil, cid.Undef, err
				}
				if decoded {
					d, _, err = delegation.FromSealed(sealed)
				}
				return d, c, err
			}
			shared, c, err := mkDlg()
			if err != nil {
				return "fixture: " + err.Error()
			}
			polBefore := fmt.Sprint(shared.Policy())
			sealedBefore, _, err := shared.ToSealed(sk)
			if err != nil {
				return "fixture: " + err.Error()
			}
			verdict := func(d *delegation.Token, l []any) (string, error) {
				inv, err := invocation.New(id, sd, command.MustParse("/x"), []cid.Cid{c}, invocation.WithArgument("l", l), invocation.WithArgument("s", "ab*"))
				if err != nil {
					return "", err
				}
				if err := inv.ExecutionAllowed(oneLoader{c: d}); err != nil {
					return "denied", nil
				}
				return "allowed", nil
			}
			for li, l := range lists {
				got, err := verdict(shared, l)
				if err != nil {
					return "fixture: " + err.Error()
				}
				fresh, _, err := mkDlg()
				if err != nil {
					return "fixture: " + err.Error()
				}
				want, err := verdict(fresh, l)
				if err != nil {
					return "fixture: " + err.Error()
				}
				if got != want {
					return fmt.Sprintf("policy %d (decoded=%v): invocation %d with l=%v is %s against a delegation that decided %d invocations before, %s against a fresh one",
						pi, decoded, li, l, got, li, want)
				}
				if now := fmt.Sprint(shared.Policy()); now != polBefore {
					return fmt.Sprintf("policy %d (decoded=%v): the delegation's policy reads %s after deciding invocation %d, %s before", pi, decoded, now, li, polBefore)
				}
			}
			sealedAfter, _, err := shared.ToSealed(sk)
			if err != nil {
				return "the shared delegation no longer seals: " + err.Error()
			}
			if string(sealedAfter) != string(sealedBefore) {
				return fmt.Sprintf("policy %d (decoded=%v): the shared delegation seals to other bytes after being used", pi, decoded)
			}
		}
	}
	return "ok"
}
