package immutwork

import (
	"crypto/rand"
	"fmt"

	"github.com/ipfs/go-cid"
	"github.com/ipld/go-ipld-prime/datamodel"
	"github.com/libp2p/go-libp2p/core/crypto"
	"github.com/ucan-wg/go-ucan/did"
	"github.com/ucan-wg/go-ucan/pkg/args"
	"github.com/ucan-wg/go-ucan/pkg/command"
	"github.com/ucan-wg/go-ucan/pkg/policy"
	"github.com/ucan-wg/go-ucan/token/delegation"
	"github.com/ucan-wg/go-ucan/token/invocation"
)

// GhostKeys: an invocation whose arguments were assembled by hand (the fields of args.Args are exported) and LIST a key
// that has no value — at the front, in the middle, at the end, twice. Whatever a read-only operation makes of such
// arguments (an error, a refusal, a panic the caller recovers from), it leaves the token as it was: the keys the token
// lists, in their order, and which of them have a value, are the same after every authorization check, conversion,
// printing and sealing as before.
func GhostKeys() string {
	sk, _, err := crypto.GenerateEd25519Key(rand.Reader)
	if err != nil {
		return err.Error()
	}
	ik, _, err := crypto.GenerateEd25519Key(rand.Reader)
	if err != nil {
		return err.Error()
	}
	sd, _ := did.FromPrivKey(sk)
	id, _ := did.FromPrivKey(ik)
	d, err := delegation.Root(sd, id, command.MustParse("/x"), policy.Policy{})
	if err != nil {
		return err.Error()
	}
	_, c, err := d.ToSealed(sk)
	if err != nil {
		return err.Error()
	}
	loader := Loader{c: d}
	orders := [][]string{
		{"b", "ghost", "a"}, {"ghost", "b", "a"}, {"b", "a", "ghost"}, {"ghost"}, {"z", "ghost", "y", "ghost2", "x"},
		{"b", "ghost", "a", "ghost"}, {"ghost", "ghost2"}, {"c", "b", "ghost", "a"},
	}
	for _, keys := range orders {
		hand := &args.Args{Keys: append([]string(nil), keys...), Values: map[string]datamodel.Node{}}
		for i, k := range keys {
			if len(k) == 1 {
				hand.Values[k] = intNode(int64(i + 1))
			}
		}
		tkn, err := invocation.New(id, sd, command.MustParse("/x"), []cid.Cid{c}, invocation.WithArguments(hand))
		if err != nil {
			continue // a constructor that refuses such arguments hands out nothing that could change
		}
		snapshot := func() string {
			var s []string
			for k, v := range tkn.Arguments().Iter() {
				s = append(s, fmt.Sprintf("%q:%v", k, v != nil))
			}
			return fmt.Sprint(s)
		}
		before := snapshot()
		ops := []struct {
			name string
			run  func()
		}{
			{"ExecutionAllowed", func() { _ = tkn.ExecutionAllowed(loader) }},
			{"Arguments().ToIPLD", func() { _, _ = tkn.Arguments().ToIPLD() }},
			{"Arguments().String", func() { _ = tkn.Arguments().String() }},
			{"ExecutionAllowedWithArgsHook", func() {
				_ = tkn.ExecutionAllowedWithArgsHook(loader, func(a args.ReadOnly) (*args.Args, error) { return a.WriteableClone(), nil })
			}},
			{"ToSealed", func() { _, _, _ = tkn.ToSealed(ik) }},
			{"ToDagJson", func() { _, _ = tkn.ToDagJson(ik) }},
			{"Arguments().Equals", func() { _ = tkn.Arguments().Equals(tkn.Arguments()) }},
		}
		for round := 0; round < 2; round++ {
			for _, op := range ops {
				func() {
					defer func() { _ = recover() }()
					op.run()
				}()
				if after := snapshot(); after != before {
					return fmt.Sprintf("%s changed the arguments of the token it was asked about: listed %v with values %s before, %s after", op.name, keys, before, after)
				}
			}
		}
	}
	return "ok"
}
