package immutwork

import (
	"crypto/rand"
	"fmt"

	"github.com/ipfs/go-cid"
	"github.com/ipld/go-ipld-prime/datamodel"
	"github.com/libp2p/go-libp2p/core/crypto"
	"github.com/ucan-wg/go-ucan/did"
	"github.com/ucan-wg/go-ucan/pkg/args"
	"github.com/ucan-wg/go-ucan/pkg/command"
	"github.com/ucan-wg/go-ucan/pkg/policy"
	"github.com/ucan-wg/go-ucan/token/delegation"
	"github.com/ucan-wg/go-ucan/token/invocation"
)

// GhostKeys: an invocation whose arguments were assembled by hand (the fields of args.Args are exported) and LIST a key
// that has no value — at the front, in the middle, at the end, twice. Whatever a read-only operation makes of such
// arguments (an error, a refusal, a panic the caller recovers from), it leaves the token as it was: the keys the token
// lists, in their order, and which of them have a value, are the same after every authorization check, conversion,
// printing and sealing as before.
func GhostKeys() string {
	sk, _, err := crypto.GenerateEd25519Key(rand.Reader)
	if err != nil {
		return err.Error()
	}
	ik, _, err := crypto.GenerateEd25519Key(rand.Reader)
	if err != nil {
		return err.Error()
	}
	sd, _ := did.FromPrivKey(sk)
	id, _ := did.FromPrivKey(ik)
	d, err := delegation.Root(sd, id, command.MustParse("/x"), policy.Policy{})
	if err != nil {
		return err.Error()
	}
	_, c, err := d.ToSealed(sk)
	if err != nil {
		return err.Error()
	}
	loader := Loader{c: d}
	orders := [][]string{
		{"b", "ghost", "a"}, {"ghost", "b", "a"}, {"b", "a", "ghost"}, {"ghost"}, {"z", "ghost", "y", "ghost2", "x"},
		{"b", "ghost", "a", "ghost"}, {"ghost", "ghost2"}, {"c", "b", "ghost", "a"},
	}
	for _, keys := range orders {
		hand := &args.Args{Keys: append([]string(nil), keys...), Values: map[string]datamodel.Node{}}
		for i, k := range keys {
			if len(k) == 1 {
				hand.Values[k] = intNode(int64(i + 1))
			}
		}
		tkn, err := invocation.New(id, sd, command.MustParse("/x"), []cid.Cid{c}, invocation.WithArguments(hand))
		if err != nil {
			continue // a constructor that refuses such arguments hands out nothing that could change
		}
		snapshot := func() string {
			var s []string
			for k, v := range tkn.Arguments().Iter() {
				s = append(s, fmt.Sprintf("%q:%v", k, v != nil))
			}
			return fmt.Sprint(s)
		}
		before := snapshot()
		ops := []struct {
			name string
			run  func()
		}{
			{"ExecutionAllowed", func() { _ = tkn.ExecutionAllowed(loader) }},
			{"Arguments().ToIPLD", func() { _, _ = tkn.Arguments().ToIPLD() }},
			{"Arguments().String", func() { _ = tkn.Arguments().String() }},
			{"ExecutionAllowedWithArgsHook", func() {
				_ = tkn.ExecutionAllowedWithArgsHook(loader, func(a args.ReadOnly) (*args.Args, error) { return a.WriteableClone(), nil })
			}},
			{"ToSealed", func() { _, _, _ = tkn.ToSealed(ik) }},
			{"ToDagJson", func() { _, _ = tkn.ToDagJson(ik) }},
			{"Arguments().Equals", func() { _ = tkn.Arguments().Equals(tkn.Arguments()) }},
		}
		for round := 0; round < 2; round++ {
			for _, op := range ops {
				func() {
					defer func() { _ = recover() }()
					op.run()
				}()
				if after := snapshot(); after != before {
					return fmt.Sprintf("%s changed the arguments of the token it was asked about: listed %v with values %s before, %s after", op.name, keys, before, after)
				}
			}
		}
	}
	return "ok"
}

// WrongKeyHistory: what sealing a token with a key that is not its issuer's answers (today: a refusal) is the same before the
// token was ever sealed, after it was sealed with the right key, and again after that, by every sealing entry point, for
// constructed and decoded delegations and invocations: what a read-only operation answers does not depend on what was done with
// the token before.
func WrongKeyHistory() string {
	f, err := New([]string{"a", "b"}, []string{"m"}, false)
	if err != nil {
		return err.Error()
	}
	g, err := New([]string{"a", "b"}, []string{"m"}, true)
	if err != nil {
		return err.Error()
	}
	type sealer struct {
		name string
		run  func(k crypto.PrivKey) error
	}
	for _, fx := range []*Fixture{f, g} {
		wrong := fx.MidKey // neither the root delegation's issuer key nor the invocation's
		cases := []struct {
			what    string
			right   crypto.PrivKey
			sealers []sealer
		}{
			{"delegation", fx.DlgKey, []sealer{
				{"ToSealed", func(k crypto.PrivKey) error { _, _, e := fx.Dlg.ToSealed(k); return e }},
				{"ToSealedWriter", func(k crypto.PrivKey) error { _, e := fx.Dlg.ToSealedWriter(discard{}, k); return e }},
				{"ToDagCbor", func(k crypto.PrivKey) error { _, e := fx.Dlg.ToDagCbor(k); return e }},
				{"ToDagJson", func(k crypto.PrivKey) error { _, e := fx.Dlg.ToDagJson(k); return e }},
			}},
			{"invocation", fx.InvKey, []sealer{
				{"ToSealed", func(k crypto.PrivKey) error { _, _, e := fx.Inv.ToSealed(k); return e }},
				{"ToSealedWriter", func(k crypto.PrivKey) error { _, e := fx.Inv.ToSealedWriter(discard{}, k); return e }},
				{"ToDagCbor", func(k crypto.PrivKey) error { _, e := fx.Inv.ToDagCbor(k); return e }},
				{"ToDagJson", func(k crypto.PrivKey) error { _, e := fx.Inv.ToDagJson(k); return e }},
			}},
		}
		for _, c := range cases {
			// what the call answers on a token that was never sealed is the reference (C20 is about the answer not depending on the
			// token's history, not about what the answer is)
			alone := map[string]bool{}
			for round := 0; round < 3; round++ {
				for _, s := range c.sealers {
					refused := s.run(wrong) != nil
					if round == 0 {
						alone[s.name] = refused
					} else if refused != alone[s.name] {
						return fmt.Sprintf("%s.%s with a key that is not the issuer's: refused=%v on a token never sealed before, refused=%v %s", c.what, s.name, alone[s.name], refused,
							map[int]string{1: "after it was sealed with the right key", 2: "after several sealings"}[round])
					}
				}
				for _, s := range c.sealers {
					if err := s.run(c.right); err != nil {
						return fmt.Sprintf("%s.%s with the issuer's key fails: %v", c.what, s.name, err)
					}
				}
			}
		}
	}
	return "ok"
}

type discard struct{}

func (discard) Write(p []byte) (int, error) { return len(p), nil }
