// Package cborx is a small CBOR item parser/re-encoder used only to manufacture data-preserving
// NON-canonical re-encodings of canonical DAG-CBOR (wider heads, indefinite lengths, permuted map keys).
// It is independent of go-ucan and of go-ipld-prime.
package cborx

import (
	"bytes"
	"encoding/binary"
	"errors"
)

type Item struct {
	Major byte
	AI    byte   // additional info of the head as read
	Arg   uint64 // argument (length / value / tag)
	Data  []byte // payload of byte/text strings
	Kids  []*Item
}

func readHead(b []byte) (major, ai byte, arg uint64, rest []byte, err error) {
	if len(b) == 0 {
		return 0, 0, 0, nil, errors.New("eof")
	}
	major, ai = b[0]>>5, b[0]&31
	b = b[1:]
	switch {
	case ai < 24:
		return major, ai, uint64(ai), b, nil
	case ai == 24 && len(b) >= 1:
		return major, ai, uint64(b[0]), b[1:], nil
	case ai == 25 && len(b) >= 2:
		return major, ai, uint64(binary.BigEndian.Uint16(b)), b[2:], nil
	case ai == 26 && len(b) >= 4:
		return major, ai, uint64(binary.BigEndian.Uint32(b)), b[4:], nil
	case ai == 27 && len(b) >= 8:
		return major, ai, binary.BigEndian.Uint64(b), b[8:], nil
	}
	return 0, 0, 0, nil, errors.New("bad head")
}

// Parse reads one definite-length item.
func Parse(b []byte) (*Item, []byte, error) {
	major, ai, arg, rest, err := readHead(b)
	if err != nil {
		return nil, nil, err
	}
	it := &Item{Major: major, AI: ai, Arg: arg}
	switch major {
	case 0, 1, 7:
		return it, rest, nil
	case 2, 3:
		if uint64(len(rest)) < arg {
			return nil, nil, errors.New("short string")
		}
		it.Data = rest[:arg]
		return it, rest[arg:], nil
	case 4, 5:
		n := arg
		if major == 5 {
			n *= 2
		}
		for i := uint64(0); i < n; i++ {
			k, r, err := Parse(rest)
			if err != nil {
				return nil, nil, err
			}
			it.Kids = append(it.Kids, k)
			rest = r
		}
		return it, rest, nil
	case 6:
		k, r, err := Parse(rest)
		if err != nil {
			return nil, nil, err
		}
		it.Kids = []*Item{k}
		return it, r, nil
	}
	return nil, nil, errors.New("bad major")
}

// Count returns the number of items in the tree (depth-first numbering used by Tweak.Target).
func (it *Item) Count() int {
	n := 1
	for _, k := range it.Kids {
		n += k.Count()
	}
	return n
}

// Tweak names one data-preserving deviation from the canonical form, applied to the Target-th item.
type Tweak struct {
	Target int
	Kind   string // "", "widen", "indef", "swap"
}

func head(w *bytes.Buffer, major byte, arg uint64, minWidth int) {
	width := 0
	switch {
	case arg < 24:
		width = 0
	case arg < 1<<8:
		width = 1
	case arg < 1<<16:
		width = 2
	case arg < 1<<32:
		width = 4
	default:
		width = 8
	}
	if minWidth > width {
		width = minWidth
	}
	switch width {
	case 0:
		w.WriteByte(major<<5 | byte(arg))
	case 1:
		w.WriteByte(major<<5 | 24)
		w.WriteByte(byte(arg))
	case 2:
		w.WriteByte(major<<5 | 25)
		var b [2]byte
		binary.BigEndian.PutUint16(b[:], uint16(arg))
		w.Write(b[:])
	case 4:
		w.WriteByte(major<<5 | 26)
		var b [4]byte
		binary.BigEndian.PutUint32(b[:], uint32(arg))
		w.Write(b[:])
	default:
		w.WriteByte(major<<5 | 27)
		var b [8]byte
		binary.BigEndian.PutUint64(b[:], arg)
		w.Write(b[:])
	}
}

// Encode writes the tree canonically except for the tweak. It reports whether the tweak was applicable.
func (it *Item) Encode(w *bytes.Buffer, tw Tweak) bool {
	ctr := 0
	return it.encode(w, &ctr, tw)
}

func nextWidth(arg uint64) int {
	switch {
	case arg < 24:
		return 1
	case arg < 1<<8:
		return 2
	case arg < 1<<16:
		return 4
	default:
		return 8
	}
}

func (it *Item) encode(w *bytes.Buffer, ctr *int, tw Tweak) bool {
	mine := *ctr == tw.Target
	*ctr++
	applied := false
	minW := 0
	if mine && tw.Kind == "widen" && it.Major != 7 {
		if it.Arg < 1<<32 { // something wider than minimal exists
			minW = nextWidth(it.Arg)
			applied = true
		}
	}
	indef := mine && tw.Kind == "indef" && it.Major >= 2 && it.Major <= 5
	switch it.Major {
	case 0, 1:
		head(w, it.Major, it.Arg, minW)
	case 7:
		// simple values and floats are re-emitted as read
		if it.AI < 24 {
			w.WriteByte(7<<5 | it.AI)
		} else {
			head(w, 7, it.Arg, map[byte]int{24: 1, 25: 2, 26: 4, 27: 8}[it.AI])
		}
	case 2, 3:
		if indef {
			w.WriteByte(it.Major<<5 | 31)
			head(w, it.Major, uint64(len(it.Data)), 0)
			w.Write(it.Data)
			w.WriteByte(0xff)
			applied = true
		} else {
			head(w, it.Major, uint64(len(it.Data)), minW)
			w.Write(it.Data)
		}
	case 4, 5:
		kids := it.Kids
		if mine && tw.Kind == "swap" && it.Major == 5 && len(kids) >= 4 {
			kids = append([]*Item{kids[2], kids[3], kids[0], kids[1]}, kids[4:]...)
			applied = true
		}
		if indef {
			w.WriteByte(it.Major<<5 | 31)
			applied = true
		} else {
			head(w, it.Major, it.Arg, minW)
		}
		for _, k := range kids {
			if k.encode(w, ctr, tw) {
				applied = true
			}
		}
		if indef {
			w.WriteByte(0xff)
		}
	case 6:
		head(w, 6, it.Arg, minW)
		if it.Kids[0].encode(w, ctr, tw) {
			applied = true
		}
	}
	return applied
}
