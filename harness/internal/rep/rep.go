// Package rep accumulates what a correspondence stream covered and where Go and the model
// disagreed, and writes it as JSON for ./check.
package rep

import (
	"encoding/json"
	"hash/fnv"
	"os"
	"sort"
	"strings"
)

type Disagreement struct {
	Stream    string `json:"stream"`
	Case      string `json:"case"`      // protocol line sent to the model
	Readable  string `json:"readable"`  // decoded, for humans
	Go        string `json:"go"`        // canonical Go observable
	Model     string `json:"model"`     // canonical model observable
	Direction string `json:"direction"` // which implication failed
	Class     string `json:"class"`     // transformation / call-site class, used to match known findings
	Witness   string `json:"witness"`   // minimal witness signature (class-specific)
}

type Report struct {
	Stream             string         `json:"stream"`
	Tier               string         `json:"tier"`
	Seed               uint64         `json:"seed"`
	Evaluations        int            `json:"evaluations"`
	DistinctNontrivial int            `json:"distinct_nontrivial"`
	Rule               string         `json:"rule"`
	Exhaustive         bool           `json:"exhaustive"`
	ExhaustiveNote     string         `json:"exhaustive_note,omitempty"`
	Samples            []string       `json:"samples"`
	Histogram          map[string]int `json:"histogram"`
	Disagreements      []Disagreement `json:"disagreements"`
	NDisagreements     int            `json:"n_disagreements"`
	Notes              []string       `json:"notes,omitempty"`
	Error              string         `json:"error,omitempty"`
	seen               map[uint64]struct{}
	sampleEvery        int
}

func New(stream, tier string, seed uint64, rule string) *Report {
	return &Report{Stream: stream, Tier: tier, Seed: seed, Rule: rule,
		Histogram: map[string]int{}, seen: map[uint64]struct{}{}}
}

// Case records one evaluated case. nontrivial says whether it counts by the stream's rule;
// distinctness is measured by hashing the canonical case line.
func (r *Report) Case(line string, nontrivial bool, tags ...string) {
	r.Evaluations++
	for _, t := range tags {
		r.Histogram[t]++
	}
	if nontrivial {
		h := fnv.New64a()
		h.Write([]byte(line))
		k := h.Sum64()
		if _, ok := r.seen[k]; !ok {
			r.seen[k] = struct{}{}
			r.DistinctNontrivial++
		}
	}
	// keep a thin, deterministic sample of the cases
	if len(r.Samples) < 12 && (r.Evaluations == 1 || r.Evaluations%(1+r.Evaluations/12*7) == 0) {
		r.Samples = append(r.Samples, line)
	}
}

func (r *Report) Tag(t string) { r.Histogram[t]++ }

func (r *Report) Disagree(d Disagreement) {
	r.NDisagreements++
	d.Stream = r.Stream
	// keep the 3 shortest per class (the number of classes of a stream is small and fixed; the overall bound only guards
	// against a stream that invents a class per case). A low overall bound let the early classes of a stream crowd out the
	// later ones, and a property that reads only its own classes then saw nothing.
	// a panic or a time-out is counted apart from the other disagreements of its class: a property that reads only those (C09)
	// must not find them crowded out by three wrong answers of the same class
	key := func(x Disagreement) string {
		if strings.HasPrefix(x.Go, "PANIC") || strings.HasPrefix(x.Go, "panic") || strings.HasPrefix(x.Go, "TIMEOUT") {
			return x.Class + "|crash"
		}
		return x.Class
	}
	n, longest := 0, -1
	for i, x := range r.Disagreements {
		if key(x) == key(d) {
			n++
			if longest < 0 || len(x.Case) > len(r.Disagreements[longest].Case) {
				longest = i
			}
		}
	}
	if n < 3 && len(r.Disagreements) < 1500 {
		r.Disagreements = append(r.Disagreements, d)
	} else if n >= 3 && len(d.Case) < len(r.Disagreements[longest].Case) {
		r.Disagreements[longest] = d
	}
}

func (r *Report) Write(path string) error {
	sort.SliceStable(r.Disagreements, func(i, j int) bool { return len(r.Disagreements[i].Case) < len(r.Disagreements[j].Case) })
	if r.Samples == nil {
		r.Samples = []string{}
	}
	if r.Disagreements == nil {
		r.Disagreements = []Disagreement{}
	}
	b, err := json.MarshalIndent(r, "", " ")
	if err != nil {
		return err
	}
	return os.WriteFile(path, b, 0o644)
}
