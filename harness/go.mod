module verifharness

go 1.23

require github.com/ucan-wg/go-ucan v0.0.0

replace github.com/ucan-wg/go-ucan => /repo
