#!/usr/bin/python3
"""seed_recheck.py [--tier T] <seed-id>...   — re-run the registered check of each kept seeded change against /repo with the
change applied (undone straight afterwards) and record the outcome in its meta.json. Serial: nothing else may use /repo meanwhile."""
import json, os, subprocess, sys
# RECHECK_VERIF / RECHECK_REPO: a scratch copy of /verif and a scratch worktree of /repo, so that a long sweep does not occupy
# /verif and /repo themselves (results are still written to /verif/seeded/<id>/meta.json)
V = os.environ.get("RECHECK_VERIF", "/verif")
R = os.environ.get("RECHECK_REPO", "/repo")
args = sys.argv[1:]
tier = "quick"
if args and args[0] == "--tier":
    tier = args[1]; args = args[2:]
if args == ["all"]:
    args = sorted(os.listdir("/verif/seeded"))
for sid in args:
    d = os.path.join("/verif/seeded", sid)
    meta = json.load(open(os.path.join(d, "meta.json")))
    prop = meta["property"]
    st = subprocess.run(["git", "-C", R, "status", "--porcelain"], capture_output=True, text=True).stdout.strip()
    if st:
        print("refusing: /repo is not clean:", st); sys.exit(2)
    p = subprocess.run(["git", "-C", R, "apply", os.path.join(d, "patch.diff")], capture_output=True, text=True)
    if p.returncode != 0:
        print(sid, "patch does not apply:", p.stderr[:300]); continue
    try:
        r = subprocess.run(["./check", prop], cwd=V, env=dict(os.environ, VERIF_TIER=tier, VERIF_REPO=R), capture_output=True, text=True)
    finally:
        subprocess.run(["git", "-C", R, "checkout", "--", "."]); subprocess.run(["git", "-C", R, "clean", "-fdq"])
        # the evidence file written by this run describes a CHANGED tree: put the committed one (unchanged tree) back
        if V == "/verif":
            subprocess.run(["git", "-C", "/verif", "checkout", "--", f"evidence/{prop}.json"])
    o = r.stdout + r.stderr
    lines = [l for l in o.splitlines() if l.startswith(("VIOLATION", "KNOWN", "ERROR", prop + ":"))][:6]
    det = r.returncode == 1 and any(l.startswith("VIOLATION property=" + prop) for l in lines)
    with_input = det and any(l.startswith("VIOLATION") and "no-failing-input-found" not in l for l in lines)
    meta["check_run"] = {"cmd": f"VERIF_TIER={tier} ./check {prop}", "exit": r.returncode, "detected": det, "with_failing_input": with_input, "lines": lines}
    json.dump(meta, open(os.path.join(d, "meta.json"), "w"), indent=1, ensure_ascii=False)
    print(sid, "detected=%s with_input=%s" % (det, with_input))
