#!/usr/bin/python3
"""benign_check.py <round tag> <property id>...  — behaviour-preserving rewrites written by independent sub-agents
(/tmp/mutants-<cxx>-<tag>/m{1,2,3}/patch.diff): confirm that each applies, builds and passes the suite in a scratch
worktree, then run the property's quick check against /repo with the rewrite applied (undone straight afterwards) and
record what the check says under /verif/benign/<id>/. An alarm WITH a failing input on a rewrite that really preserves
behaviour is a false alarm of the machinery; `no-failing-input-found` means a regenerated-code or table obligation broke
(the price of that tie, DESIGN.md §14.1)."""
import json, os, shutil, subprocess, sys
tag = sys.argv[1]
# BENIGN_VERIF / BENIGN_REPO: a scratch copy of /verif and a scratch worktree of /repo to run the checks in (so that a long
# round does not occupy /repo); the results are still recorded under /verif/benign
V = os.environ.get("BENIGN_VERIF", "/verif")
R = os.environ.get("BENIGN_REPO", "/repo")
ENV = dict(os.environ, GOFLAGS="-mod=mod", GOPROXY="off", GOSUMDB="off", GOTOOLCHAIN="local")
def sh(cmd, cwd=None, env=ENV):
    p = subprocess.run(cmd, cwd=cwd, env=env, shell=isinstance(cmd, str), stdout=subprocess.PIPE, stderr=subprocess.STDOUT, text=True, errors="replace")
    return p.returncode, p.stdout
for prop in sys.argv[2:]:
    low = prop.lower()
    for i in (1, 2, 3):
        d = f"/tmp/mutants-{low}-{tag}/m{i}"
        patch = os.path.join(d, "patch.diff")
        if not os.path.exists(patch):
            print(f"{prop}-{tag}-m{i}: no patch"); continue
        sid = f"{prop}-{tag}-m{i}"
        wt = "/tmp/wt-benign-" + sid
        subprocess.run(["git", "-C", "/repo", "worktree", "remove", "--force", wt], stdout=subprocess.DEVNULL, stderr=subprocess.DEVNULL)
        sh(["git", "-C", "/repo", "worktree", "add", "-q", "--detach", wt, "HEAD"])
        res = {"id": sid, "property": prop}
        try:
            rc, o = sh(["git", "apply", patch], cwd=wt); res["applies"] = rc == 0
            rc, o = sh("go build ./...", cwd=wt); res["builds"] = rc == 0
            if os.environ.get("BENIGN_SKIP_SUITE"):
                res["suite_passes"] = True  # confirmed separately (tools/benign_suites.sh), in parallel
            else:
                rc, o = sh("go test -vet=off -count=1 ./...", cwd=wt); res["suite_passes"] = rc == 0
        finally:
            subprocess.run(["git", "-C", "/repo", "worktree", "remove", "--force", wt])
        if not all(res.get(k) for k in ("applies", "builds", "suite_passes")):
            print(sid, "NOT USABLE", res); continue
        st = subprocess.run(["git", "-C", R, "status", "--porcelain"], capture_output=True, text=True).stdout.strip()
        if st:
            print("refusing: %s is not clean:" % R, st); sys.exit(2)
        rc, o = sh(["git", "-C", R, "apply", patch]); assert rc == 0, o
        try:
            rc, o = sh(["./check", prop], cwd=V, env=dict(os.environ, VERIF_REPO=R))
        finally:
            sh(["git", "-C", R, "checkout", "--", "."]); sh(["git", "-C", R, "clean", "-fdq"])
            if V == "/verif":
                # the evidence file written by this run describes a CHANGED tree: put the committed one (unchanged tree) back
                subprocess.run(["git", "-C", "/verif", "checkout", "--", f"evidence/{prop}.json"])
        lines = [l for l in o.splitlines() if l.startswith(("VIOLATION", "KNOWN", "ERROR", "CHECK", prop + ":"))][:6]
        viol = [l for l in lines if l.startswith("VIOLATION")]
        res["check_exit"] = rc
        res["alarm"] = bool(viol)
        res["alarm_with_failing_input"] = any("no-failing-input-found" not in l for l in viol)
        res["lines"] = lines
        if viol and res["alarm_with_failing_input"]:
            reps = []
            for l in viol[:2]:
                p = l.split("replay=")[1].split()[0]
                try:
                    r = json.load(open(p)); reps.append({k: str(r.get(k))[:400] for k in ("case", "readable", "go_output", "model_output", "class")})
                except Exception:
                    pass
            res["replays"] = reps
        try:
            meta = json.load(open(os.path.join(d, "meta.json")))
        except Exception:
            meta = {}
        out = os.path.join("/verif/benign", sid)
        os.makedirs(out, exist_ok=True)
        shutil.copyfile(patch, os.path.join(out, "patch.diff"))
        json.dump({"id": sid, "property": prop, "what_changed": meta.get("what_changed", ""), "why_behaviour_is_preserved": meta.get("why_behaviour_is_preserved", ""),
                   "origin": "written by an independent sub-agent that saw only the property text and its own scratch worktree, asked for a behaviour-preserving rewrite",
                   "confirmation": {k: res[k] for k in ("applies", "builds", "suite_passes")},
                   "check_run": {"cmd": f"./check {prop}", "exit": rc, "alarm": res["alarm"], "alarm_with_failing_input": res["alarm_with_failing_input"], "lines": lines, "replays": res.get("replays", [])}},
                  open(os.path.join(out, "meta.json"), "w"), indent=1, ensure_ascii=False)
        print(sid, "alarm=%s with_input=%s" % (res["alarm"], res["alarm_with_failing_input"]), lines[:1])
    subprocess.run(["git", "-C", "/repo", "worktree", "remove", "--force", f"/tmp/wt-{low}-{tag}"], stdout=subprocess.DEVNULL, stderr=subprocess.DEVNULL)
