#!/bin/bash
# seed_batch.sh <round tag> <property id>...  — confirm the mutants a sub-agent left in /tmp/mutants-<cXX>-<tag>/m{1,2,3}
# and run the quick check against each (applies to /repo, checks, undoes). Serial: nothing else may use /repo meanwhile.
tag=$1; shift
for P in "$@"; do
  low=$(echo $P | tr 'A-Z' 'a-z')
  for i in 1 2 3; do
    d=/tmp/mutants-$low-$tag/m$i
    [ -f $d/patch.diff ] || { echo "$P-$tag-m$i: no patch"; continue; }
    pkg=$(python3 -c "import json;print(json.load(open('$d/meta.json')).get('demo_package_dir',''))")
    out=$(python3 /verif/tools/seed_confirm.py $P-$tag-m$i $P $d $pkg 2>&1)
    echo "$out" | python3 -c "
import sys,json
t=sys.stdin.read()
try:
    j=json.loads(t[t.index('{'):])
    print('$P-$tag-m$i', 'confirmed=%s detected=%s' % (j.get('confirmed'), j.get('detected')), [k for k in ('applies','builds','suite_passes_with_change','demo_fails_with_change','demo_passes_without_change') if not j.get(k)])
except Exception as e:
    print('$P-$tag-m$i ERROR', t[-600:])
"
  done
  git -C /repo worktree remove --force /tmp/wt-$low-$tag 2>/dev/null
done
git -C /repo status --short
