#!/bin/bash
# benign_suites.sh <tag> <property>... — the full test suite on each benign rewrite, in its own scratch worktree (parallel-safe)
tag=$1; shift
export GOFLAGS=-mod=mod GOPROXY=off GOSUMDB=off GOTOOLCHAIN=local
for P in "$@"; do
  low=$(echo $P | tr 'A-Z' 'a-z')
  for i in 1 2 3; do
    d=/tmp/mutants-$low-$tag/m$i; [ -f $d/patch.diff ] || continue
    wt=/tmp/wt-bsuite-$low-$i
    git -C /repo worktree remove --force $wt 2>/dev/null; git -C /repo worktree add -q --detach $wt HEAD
    if (cd $wt && git apply $d/patch.diff && go build ./... && go test -vet=off -count=1 ./... >/dev/null 2>&1); then echo "$P-$tag-m$i suite=pass"; else echo "$P-$tag-m$i suite=FAIL"; fi
    git -C /repo worktree remove --force $wt
  done
done
