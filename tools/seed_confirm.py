#!/usr/bin/python3
"""
Confirm a seeded change and run the checks against it.

  seed_confirm.py <seed-id> <property> <mutant-dir> <pkg-dir-for-demo> [tier]

1. In a scratch worktree of /repo (outside /repo and /verif): apply patch.diff, `go build ./...`, the full
   test suite must pass; with demo_test.go dropped into <pkg-dir> the demo must FAIL; without the patch it must PASS.
2. Apply the patch to /repo, run `./check <property>`, undo it straight afterwards.
3. Keep it as /verif/seeded/<seed-id>/ (patch.diff, demo_test.go, meta.json).
"""
import json, os, shutil, subprocess, sys

seed, prop, mdir, pkg = sys.argv[1:5]
tier = sys.argv[5] if len(sys.argv) > 5 else "quick"
WT = "/tmp/wt-confirm-" + seed
ENV = dict(os.environ, GOFLAGS="-mod=mod", GOPROXY="off", GOSUMDB="off", GOTOOLCHAIN="local")


def sh(cmd, cwd=None, env=ENV):
    p = subprocess.run(cmd, cwd=cwd, env=env, shell=isinstance(cmd, str), stdout=subprocess.PIPE, stderr=subprocess.STDOUT, text=True, errors="replace")
    return p.returncode, p.stdout


patch = os.path.join(mdir, "patch.diff")
demo = os.path.join(mdir, "demo_test.go")
meta_in = {}
try:
    meta_in = json.load(open(os.path.join(mdir, "meta.json")))
except Exception:
    pass
res = {"seed": seed, "property": prop}
subprocess.run(["git", "-C", "/repo", "worktree", "remove", "--force", WT], stdout=subprocess.DEVNULL, stderr=subprocess.DEVNULL)
rc, o = sh(["git", "-C", "/repo", "worktree", "add", "-q", "--detach", WT, "HEAD"])
assert rc == 0, o
try:
    rc, o = sh(["git", "apply", patch], cwd=WT)
    res["applies"] = rc == 0
    assert rc == 0, o
    rc, o = sh("go build ./...", cwd=WT)
    res["builds"] = rc == 0
    rc, o = sh("go test -vet=off -count=1 ./...", cwd=WT)
    res["suite_passes_with_change"] = rc == 0
    if rc != 0:
        res["suite_output"] = o[-1500:]
    dst = os.path.join(WT, pkg, "zz_seed_demo_test.go")
    shutil.copyfile(demo, dst)
    rc, o = sh("go test -vet=off -count=1 .", cwd=os.path.join(WT, pkg))
    res["demo_fails_with_change"] = rc != 0
    sh(["git", "checkout", "--", "."], cwd=WT)
    rc, o = sh("go test -vet=off -count=1 .", cwd=os.path.join(WT, pkg))
    res["demo_passes_without_change"] = rc == 0
    if rc != 0:
        res["demo_clean_output"] = o[-1500:]
finally:
    subprocess.run(["git", "-C", "/repo", "worktree", "remove", "--force", WT])
confirmed = all(res.get(k) for k in ["applies", "builds", "suite_passes_with_change", "demo_fails_with_change", "demo_passes_without_change"])
res["confirmed"] = confirmed
if confirmed:
    if os.environ.get("SEED_NO_CHECK"):
        # confirmation only (can run in parallel); tools/seed_recheck.py runs the check against /repo afterwards
        res["check_exit"], res["check_output"], res["detected"] = None, ["(not run yet: see tools/seed_recheck.py)"], None
    else:
        # run the registered check against /repo with the change applied, and undo it straight afterwards
        rc, o = sh(["git", "-C", "/repo", "apply", patch])
        assert rc == 0, o
        try:
            rc, o = sh(["./check", prop], cwd="/verif", env=dict(os.environ, VERIF_TIER=tier))
        finally:
            sh(["git", "-C", "/repo", "checkout", "--", "."])
            # the evidence file written by this run describes a CHANGED tree: put the committed one back
            sh(["git", "-C", "/verif", "checkout", "--", f"evidence/{prop}.json"])
        res["check_exit"] = rc
        res["check_output"] = [l for l in o.splitlines() if l.startswith(("VIOLATION", "KNOWN", "ERROR", prop))][:6]
        res["detected"] = rc == 1 and any(l.startswith("VIOLATION property=" + prop) for l in o.splitlines())
    out = os.path.join("/verif/seeded", seed)
    os.makedirs(out, exist_ok=True)
    shutil.copyfile(patch, os.path.join(out, "patch.diff"))
    shutil.copyfile(demo, os.path.join(out, "demo_test.go"))
    meta = {
        "id": seed, "property": prop,
        "what_breaks": meta_in.get("what_breaks", ""),
        "needs_to_manifest": meta_in.get("needs_to_manifest", ""),
        "demo_package_dir": pkg,
        "confirmed_by": "tools/seed_confirm.py: scratch worktree; patch applies, go build ok, full suite passes with the change, demo fails with it and passes without it",
        "confirmation": {k: res[k] for k in ["applies", "builds", "suite_passes_with_change", "demo_fails_with_change", "demo_passes_without_change"]},
        "check_run": {"cmd": f"VERIF_TIER={tier} ./check {prop}", "exit": res["check_exit"], "detected": res["detected"], "lines": res["check_output"]},
        "origin": "written by an independent sub-agent that saw only the property text and its own scratch worktree",
    }
    json.dump(meta, open(os.path.join(out, "meta.json"), "w"), indent=1, ensure_ascii=False)
print(json.dumps(res, indent=1))
