#!/usr/bin/python3
"""cross_check.py <mutant id> ... — applies each kept seeded change to /repo, runs EVERY property's quick check and records
which properties raise an alarm (with a failing input / obligation only), so that alarms on properties other than the one
the change was written against can be examined. Serial; nothing else may use /repo meanwhile. Results: seeded/<id>/cross.json"""
import json, os, re, subprocess, sys
V = os.environ.get("CROSS_VERIF", "/verif")      # a scratch copy of /verif, so that /verif itself stays free
R = os.environ.get("CROSS_REPO", "/repo")        # a scratch worktree of /repo
def sh(cmd, **kw):
    return subprocess.run(cmd, shell=True, capture_output=True, text=True, **kw)
props = ["C%02d" % i for i in range(1, 21)]
for mid in sys.argv[1:]:
    d = os.path.join("/verif", "seeded", mid)
    patch = os.path.join(d, "patch.diff")
    assert sh(f"git -C {R} status --porcelain").stdout.strip() == "", "/repo not clean"
    r = sh(f"git -C {R} apply {patch}")
    if r.returncode != 0:
        print(mid, "does not apply"); continue
    res = {}
    try:
        for p in props:
            r = sh(f"./check {p}", cwd=V, env=dict(os.environ, VERIF_NO_ESCALATE="1", VERIF_REPO=R))
            v = [l for l in r.stdout.splitlines() if l.startswith("VIOLATION")]
            if not v:
                res[p] = "quiet" if r.returncode == 0 else f"rc={r.returncode}"
            elif all(l.endswith("no-failing-input-found") for l in v):
                res[p] = "obligation-only"
            else:
                reps = []
                for l in v[:3]:
                    m = re.search(r"replay=(\S+)", l)
                    try:
                        j = json.load(open(m.group(1)))
                        reps.append({"class": j.get("class"), "case": (j.get("readable") or "")[:160]})
                    except Exception:
                        pass
                res[p] = {"with-input": reps}
    finally:
        sh(f"git -C {R} checkout -- .")
        if V == "/verif":
            sh("git checkout -- evidence", cwd=V)
    json.dump(res, open(os.path.join(d, "cross.json"), "w"), indent=1)
    own = mid.split("-")[0]
    others = {p: (r if isinstance(r, str) else "with-input") for p, r in res.items() if r != "quiet" and p != own}
    print(mid, "own:", res.get(own) if isinstance(res.get(own), str) else "with-input", "others:", others, flush=True)
