#!/usr/bin/python3
"""mkprompt8.py <property id> <round tag> — prints the prompt for an independent sub-agent that is to seed
property-breaking changes (round 2 and later). The prompt contains the property's text and the anchors that are part
of the given property record, and nothing from /verif. The agent chooses the package its demonstration lives in."""
import json, sys
pid, tag = sys.argv[1:3]
d = {json.loads(l)['id']: json.loads(l) for l in open('/verif/properties.jsonl')}[pid]
low = pid.lower() + "-" + tag
files = ", ".join(d['anchors']['files'])
mech = "; ".join(f"{m['name']} ({m['where']})" for m in d['anchors'].get('mechanism', []))
obs = "; ".join(d['anchors'].get('observe_at', []))
print(f'''You are helping test a verification framework by playing the role of a developer who introduces a subtle regression.

Work ONLY inside the git worktree /tmp/wt-{low} (a checkout of the Go library ucan-wg/go-ucan). Never touch /repo or /verif, and do not read anything under /verif. Do not commit anything and do not use `git stash` (the worktrees share one stash).

Environment: the sandbox has no network. For every shell command that runs Go, first run: export GOFLAGS=-mod=mod GOPROXY=off GOSUMDB=off GOTOOLCHAIN=local

The property that the library is supposed to satisfy:

"{pid}: {d['title']}. {d['statement']} Quantifier: {d['quantifier']['text']}."

Relevant code (files): {files}. Mechanisms (line numbers may have drifted a little): {mech}. Observable at: {obs}.

Task: produce THREE different, independent source changes (mutants) to the library (non-test .go files only), each of which
 (a) breaks the property above for some inputs, states or histories,
 (b) still compiles (`go build ./...`),
 (c) still passes the ENTIRE existing test suite unchanged (`go test -vet=off -count=1 ./...` from the worktree root), and
 (d) needs something specific to manifest - NOT a change that ordinary use would expose at once. The three must differ in kind:
     mutant 1: a change to a CONSTANT, TABLE or DEFAULT - a limit, a size, a tag or header value, an entry of a lookup table or switch, a schema or struct-tag detail, a default option value, a sentinel, the unit of a number - adjusted, duplicated, re-ordered or derived differently "for consistency", so that everything the tests use still maps to the same thing and one entry / one boundary does not;
     mutant 2: a HELPER EXTRACTION or inlining that changes WHEN or HOW OFTEN something is evaluated - a check hoisted out of (or pushed into) a loop, a condition computed once before the data it depends on is final, short-circuit order swapped, an early exit added for a "trivial" case (empty, nil, single element, identical pointers, equal lengths), a result reused for a second argument, two similar branches merged into one that is right for only one of them;
     mutant 3: a change in OWNERSHIP or LIFETIME of data - returning or storing a slice/map/pointer that the caller or another token also holds instead of a copy (or copying where identity mattered), reusing a buffer or a builder across calls, keeping a reference to an argument after returning, pooling (sync.Pool) or caching an object that is later mutated, a value receiver turned pointer receiver or vice versa - visible only when two values that should be independent are used one after the other or side by side.
Make them realistic: the kind of slip a developer could make during a refactor, a performance optimisation or a "clean-up". Avoid the single most obvious mutation of the anchored lines (for example simply deleting a check); prefer changes that survive a casual code review.

For each mutant i in 1..3 create a directory /tmp/mutants-{low}/m<i>/ containing:
 - patch.diff : output of `git diff` in the worktree for that mutant alone (apply-able with `git apply` on a clean checkout of the same commit)
 - demo_test.go : a self-contained Go test file, to be dropped into ONE package directory of the library, whose test FAILS with the mutant applied and PASSES on the clean checkout, demonstrating the property violation (through the public API where possible; it must not depend on timing luck - if goroutines are involved make the demonstration deterministic or repeat until certain).
 - meta.json : {{"property":"{pid}","demo_package_dir":"<dir relative to the repo root where demo_test.go goes>","what_breaks": "...", "needs_to_manifest":"...", "commands_run":[...]}}
Procedure for each mutant: start from a clean tree (`git -C /tmp/wt-{low} checkout -- . && git -C /tmp/wt-{low} clean -fd`), make the change, run go build and the full test suite (must pass), save the diff, then add your demo test, show it fails with the mutant; then revert the mutant (keep the demo test), show the demo passes on clean code; then remove the demo test from the worktree again. Leave the worktree clean at the end.

Report back: for each mutant a two-line description and confirmation of (b), (c) and the demo behaviour. Be concise.''')
