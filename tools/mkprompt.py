#!/usr/bin/python3
"""mkprompt.py <property id> <relevant code text> <demo pkg dir> <demo package clause> — writes /tmp/prompt-<id>.txt for an
independent sub-agent that is to seed property-breaking changes. The prompt contains the property text only, nothing from /verif."""
import json, sys
pid, code, pkg, pkgname = sys.argv[1:5]
extra = sys.argv[5] if len(sys.argv) > 5 else ""
d = {json.loads(l)['id']: json.loads(l) for l in open('/verif/properties.jsonl')}[pid]
low = pid.lower()
open(f'/tmp/prompt-{pid}.txt', 'w').write(f'''You are helping test a verification framework by playing the role of a developer who introduces a subtle regression.

Work ONLY inside the git worktree /tmp/wt-{low} (a checkout of the Go library ucan-wg/go-ucan). Never touch /repo or /verif, and do not read anything under /verif. Do not commit anything.

Environment: the sandbox has no network. For every shell command that runs Go, first run: export GOFLAGS=-mod=mod GOPROXY=off GOSUMDB=off GOTOOLCHAIN=local

The property that the library is supposed to satisfy:

"{pid}: {d['title']}. {d['statement']} Quantifier: {d['quantifier']['text']}."

Relevant code: {code}. {extra}

Task: produce THREE different, independent source changes (mutants) to the library, each of which
 (a) breaks the property above for some inputs,
 (b) still compiles (`go build ./...`),
 (c) still passes the ENTIRE existing test suite unchanged (`go test -vet=off -count=1 ./...` from the worktree root; note: did.TestFromPubKey has a rare unrelated random flake, re-run once if only that fails), and
 (d) needs something specific to manifest — a particular interleaving, a fault at a particular point, a multi-step sequence of operations, an unusual input, or two cooperating sites that each look fine alone — NOT a change that ordinary use would expose at once.
Make them realistic: the kind of slip a developer could make during a refactor or "optimisation". The three mutants should differ in mechanism.

For each mutant i in 1..3 create a directory /tmp/mutants-{low}/m<i>/ containing:
 - patch.diff : output of `git diff` in the worktree for that mutant alone (apply-able with `git apply` on a clean checkout of the same commit)
 - demo_test.go : a self-contained Go test file ({pkgname}, to be dropped into {pkg}/) whose test FAILS with the mutant applied and PASSES on the clean checkout, demonstrating the property violation (through the public API where possible).
 - meta.json : {{"property":"{pid}","what_breaks": "...", "needs_to_manifest":"...", "commands_run":[...]}}
Procedure for each mutant: start from a clean tree (`git -C /tmp/wt-{low} checkout -- . && git -C /tmp/wt-{low} clean -fd`), make the change, run go build and the full test suite (must pass), save the diff, then add your demo test, show it fails with the mutant; then revert the mutant (keep the demo test), show the demo passes on clean code; then remove the demo test from the worktree again. Leave the worktree clean at the end.

Report back: for each mutant a two-line description and confirmation of (b), (c) and the demo behaviour. Be concise.''')
print("ok", pid)
