#!/bin/bash
# seed_confirm_only.sh <round tag> <property id>... — confirm (scratch worktree only, parallel-safe) the mutants of the given properties
tag=$1; shift
for P in "$@"; do
  low=$(echo $P | tr 'A-Z' 'a-z')
  for i in 1 2 3; do
    d=/tmp/mutants-$low-$tag/m$i
    [ -f $d/patch.diff ] || { echo "$P-$tag-m$i: no patch"; continue; }
    pkg=$(python3 -c "import json;print(json.load(open('$d/meta.json')).get('demo_package_dir',''))")
    out=$(SEED_NO_CHECK=1 python3 /verif/tools/seed_confirm.py $P-$tag-m$i $P $d $pkg 2>&1)
    echo "$out" | python3 -c "
import sys,json
t=sys.stdin.read()
try:
    j=json.loads(t[t.index('{'):])
    print('$P-$tag-m$i', 'confirmed=%s' % j.get('confirmed'), [k for k in ('applies','builds','suite_passes_with_change','demo_fails_with_change','demo_passes_without_change') if not j.get(k)])
except Exception as e:
    print('$P-$tag-m$i ERROR', t[-600:])
"
  done
  git -C /repo worktree remove --force /tmp/wt-$low-$tag 2>/dev/null
done
