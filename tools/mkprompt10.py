#!/usr/bin/python3
"""mkprompt10.py <property id> <round tag> — prints the prompt for an independent sub-agent that is to seed
property-breaking changes (round 2 and later). The prompt contains the property's text and the anchors that are part
of the given property record, and nothing from /verif. The agent chooses the package its demonstration lives in."""
import json, sys
pid, tag = sys.argv[1:3]
d = {json.loads(l)['id']: json.loads(l) for l in open('/verif/properties.jsonl')}[pid]
low = pid.lower() + "-" + tag
files = ", ".join(d['anchors']['files'])
mech = "; ".join(f"{m['name']} ({m['where']})" for m in d['anchors'].get('mechanism', []))
obs = "; ".join(d['anchors'].get('observe_at', []))
print(f'''You are helping test a verification framework by playing the role of a developer who introduces a subtle regression.

Work ONLY inside the git worktree /tmp/wt-{low} (a checkout of the Go library ucan-wg/go-ucan). Never touch /repo or /verif, and do not read anything under /verif. Do not commit anything and do not use `git stash` (the worktrees share one stash).

Environment: the sandbox has no network. For every shell command that runs Go, first run: export GOFLAGS=-mod=mod GOPROXY=off GOSUMDB=off GOTOOLCHAIN=local

The property that the library is supposed to satisfy:

"{pid}: {d['title']}. {d['statement']} Quantifier: {d['quantifier']['text']}."

Relevant code (files): {files}. Mechanisms (line numbers may have drifted a little): {mech}. Observable at: {obs}.

Task: produce THREE different, independent source changes (mutants) to the library (non-test .go files only), each of which
 (a) breaks the property above for some inputs, states or histories,
 (b) still compiles (`go build ./...`),
 (c) still passes the ENTIRE existing test suite unchanged (`go test -vet=off -count=1 ./...` from the worktree root), and
 (d) needs something specific to manifest - NOT a change that ordinary use would expose at once. The three must differ in kind:
     mutant 1: an OVER-CORRECTION OF A PLAUSIBLE BUG REPORT - imagine a user complaint ("X is refused although it is fine", "Y is slow", "Z panics on weird input", "the error is confusing") and the quick fix a maintainer would write for it: the fix handles the reported path and silently changes the symmetric or neighbouring one (the other codec, the other token type, the negative case, the second element, the decoder when the constructor was meant, the streaming variant), or widens/narrows a condition a little further than the report required;
     mutant 2: a TYPE-LEVEL SLIP - a width, signedness or kind changed somewhere along the way (int vs int64 vs uint64, a conversion that wraps or truncates for values nobody tests, byte vs rune vs string indexing, []byte vs string used as a map key or compared, a value receiver where a pointer receiver was needed (the update is lost) or the reverse (an alias appears), a nil interface vs an interface holding a nil pointer, a typed nil that passes a != nil test, time.Time compared with == instead of Equal, a struct compared or copied by value where one field is a slice or a map);
     mutant 3: a NEW FEATURE THAT INTERACTS WITH THE OLD ONES - add a small, plausible capability (an extra option, an extra accepted spelling or format, a convenience default, a fast path for a common case, support for one more key type / codec / selector form, a size or depth limit, a cache switch) whose implementation is correct on its own but whose interaction with an existing feature breaks the property for a particular combination of the new and the old (for example the new option together with an old one, the fast path when a rarely used field is set, the limit that is applied on one path and not on the other).
Make them realistic: the kind of slip a developer could make during a refactor, a performance optimisation or a "clean-up". Avoid the single most obvious mutation of the anchored lines (for example simply deleting a check); prefer changes that survive a casual code review.

For each mutant i in 1..3 create a directory /tmp/mutants-{low}/m<i>/ containing:
 - patch.diff : output of `git diff` in the worktree for that mutant alone (apply-able with `git apply` on a clean checkout of the same commit)
 - demo_test.go : a self-contained Go test file, to be dropped into ONE package directory of the library, whose test FAILS with the mutant applied and PASSES on the clean checkout, demonstrating the property violation (through the public API where possible; it must not depend on timing luck - if goroutines are involved make the demonstration deterministic or repeat until certain).
 - meta.json : {{"property":"{pid}","demo_package_dir":"<dir relative to the repo root where demo_test.go goes>","what_breaks": "...", "needs_to_manifest":"...", "commands_run":[...]}}
Procedure for each mutant: start from a clean tree (`git -C /tmp/wt-{low} checkout -- . && git -C /tmp/wt-{low} clean -fd`), make the change, run go build and the full test suite (must pass), save the diff, then add your demo test, show it fails with the mutant; then revert the mutant (keep the demo test), show the demo passes on clean code; then remove the demo test from the worktree again. Leave the worktree clean at the end.

Report back: for each mutant a two-line description and confirmation of (b), (c) and the demo behaviour. Be concise.''')
