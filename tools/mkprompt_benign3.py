#!/usr/bin/python3
"""mkprompt_benign3.py <property id> <round tag> — prints the prompt for an independent sub-agent that is to seed
property-breaking changes (round 2 and later). The prompt contains the property's text and the anchors that are part
of the given property record, and nothing from /verif. The agent chooses the package its demonstration lives in."""
import json, sys
pid, tag = sys.argv[1:3]
d = {json.loads(l)['id']: json.loads(l) for l in open('/verif/properties.jsonl')}[pid]
low = pid.lower() + "-" + tag
files = ", ".join(d['anchors']['files'])
mech = "; ".join(f"{m['name']} ({m['where']})" for m in d['anchors'].get('mechanism', []))
obs = "; ".join(d['anchors'].get('observe_at', []))
print(f'''You are helping test a verification framework for FALSE ALARMS by playing the role of a careful developer whose change keeps the stated property intact while changing behaviour the property leaves open.

Work ONLY inside the git worktree /tmp/wt-{low} (a checkout of the Go library ucan-wg/go-ucan). Never touch /repo or /verif, and do not read anything under /verif. Do not commit anything.

Environment: the sandbox has no network. For every shell command that runs Go, first run: export GOFLAGS=-mod=mod GOPROXY=off GOSUMDB=off GOTOOLCHAIN=local

The property that the library satisfies and MUST STILL SATISFY after your change:

"{pid}: {d['title']}. {d['statement']} Quantifier: {d['quantifier']['text']}."

Relevant code (files): {files}. Mechanisms (line numbers may have drifted a little): {mech}. Observable at: {obs}.

Task: produce THREE different, independent source changes to the non-test .go files that implement this property, each of which is CORRECT with respect to the property as it is written above - the property still holds for every input, state and history - but DOES change some behaviour that the property does NOT constrain. The point is to see whether a checker demands more than the property states. Read the property text literally and find latitude in it, e.g.:
   change 1: INPUTS THE PROPERTY DOES NOT SPEAK OF - change what the library does on inputs, states or call patterns that lie OUTSIDE what the property quantifies over or promises: values hand-assembled through exported struct fields (a key listed without a value, a nil map), nil receivers or nil options, the same option given twice or options in an unusual order where the documentation does not fix the outcome, oversized or degenerate inputs that are refused either way (refuse earlier/later, with another error, or turn a panic into an error or the reverse ONLY where the property says nothing about panics) - while every input the property does speak of is treated exactly as before;
   change 2: DEFENSIVE HARDENING AND COPIES - add defensive copies, clear or zero buffers after use, size buffers differently, read or write in different chunk sizes, validate eagerly what was validated lazily (same outcome at the observation points named above), add an extra consistency check that can never fail on inputs the property speaks of, normalise INTERNAL representations (never the observable values) - without introducing caches, shared mutable state or aliasing;
   change 3: STRICTER OR MORE LENIENT ONLY WHERE THE PROPERTY EXPLICITLY ALLOWS IT - find a place where the property's wording leaves a choice ("refused or ...", "at least", "may", "only if" without "if", an error whose kind is not named, an order that is not fixed, a bound that is only one-sided) and move the behaviour within that allowed range; if the property leaves no such room in the code you look at, instead reorder independent steps of a multi-step construction or validation whose relative order cannot be observed at the observation points.
Be careful: every clause of the property must still hold exactly; accept/reject decisions, values, CIDs, bytes and orders that the property DOES fix must not change, and the existing test suite must still pass unchanged (it pins some error sentinels and texts: keep those). Do not introduce caches, shared mutable state or aliasing. For each change write a short argument (3-6 sentences): which behaviour changed, and why the property does not constrain it.

For each refactoring i in 1..3 create a directory /tmp/mutants-{low}/m<i>/ containing:
 - patch.diff : output of `git diff` in the worktree for that change alone (apply-able with `git apply` on a clean checkout of the same commit)
 - meta.json : {{"property":"{pid}","kind":"benign","what_changed": "...", "why_the_property_still_holds":"...", "commands_run":[...]}}
Procedure for each: start from a clean tree (`git -C /tmp/wt-{low} checkout -- . && git -C /tmp/wt-{low} clean -fd`), make the change, run `go build ./...` and the full test suite `go test -vet=off -count=1 ./...` (must pass), save the diff. Leave the worktree clean at the end.

Report back: for each refactoring a two-line description and the confirmation that it builds and the suite passes. Be concise.''')
