#!/usr/bin/python3
"""mkprompt9.py <property id> <round tag> — prints the prompt for an independent sub-agent that is to seed
property-breaking changes (round 2 and later). The prompt contains the property's text and the anchors that are part
of the given property record, and nothing from /verif. The agent chooses the package its demonstration lives in."""
import json, sys
pid, tag = sys.argv[1:3]
d = {json.loads(l)['id']: json.loads(l) for l in open('/verif/properties.jsonl')}[pid]
low = pid.lower() + "-" + tag
files = ", ".join(d['anchors']['files'])
mech = "; ".join(f"{m['name']} ({m['where']})" for m in d['anchors'].get('mechanism', []))
obs = "; ".join(d['anchors'].get('observe_at', []))
print(f'''You are helping test a verification framework by playing the role of a developer who introduces a subtle regression.

Work ONLY inside the git worktree /tmp/wt-{low} (a checkout of the Go library ucan-wg/go-ucan). Never touch /repo or /verif, and do not read anything under /verif. Do not commit anything and do not use `git stash` (the worktrees share one stash).

Environment: the sandbox has no network. For every shell command that runs Go, first run: export GOFLAGS=-mod=mod GOPROXY=off GOSUMDB=off GOTOOLCHAIN=local

The property that the library is supposed to satisfy:

"{pid}: {d['title']}. {d['statement']} Quantifier: {d['quantifier']['text']}."

Relevant code (files): {files}. Mechanisms (line numbers may have drifted a little): {mech}. Observable at: {obs}.

Task: produce THREE different, independent source changes (mutants) to the library (non-test .go files only), each of which
 (a) breaks the property above for some inputs, states or histories,
 (b) still compiles (`go build ./...`),
 (c) still passes the ENTIRE existing test suite unchanged (`go test -vet=off -count=1 ./...` from the worktree root), and
 (d) needs something specific to manifest - NOT a change that ordinary use would expose at once. The three must differ in kind:
     mutant 1: a change in how INPUTS ARE NORMALISED OR COMPARED at an API boundary - trimming or case-folding that is added or dropped, duplicates merged or kept, an ordering imposed or lost, nil / empty / absent / zero-value treated alike or apart, equality by identity vs by content vs by printed form, a key looked up under a derived form - so that two inputs the property distinguishes are now confused, or two it identifies are now told apart, for unusual inputs only;
     mutant 2: a slip in a MULTI-STEP CONSTRUCTION OR MERGE - options applied in order where a later one should (or should not) override an earlier one, a default filled in before instead of after the caller's options, Include/merge/append semantics (first wins vs last wins, shallow vs deep), a field derived from another field at the wrong moment (before it is final), validation run on the intermediate instead of the final value, a builder reused across two products;
     mutant 3: a RESPONSIBILITY MOVED ACROSS A CALL BOUNDARY - a validation dropped in one function "because the caller / the callee already does it" although one path does not, a check duplicated with slightly different conditions in two places and removed from the stricter one, a precondition assumed of an exported function that internal callers satisfy and external callers need not, an invariant established by a constructor and relied upon for values that can also be built by a decoder (or by hand, the fields being exported).
Make them realistic: the kind of slip a developer could make during a refactor, a performance optimisation or a "clean-up". Avoid the single most obvious mutation of the anchored lines (for example simply deleting a check); prefer changes that survive a casual code review.

For each mutant i in 1..3 create a directory /tmp/mutants-{low}/m<i>/ containing:
 - patch.diff : output of `git diff` in the worktree for that mutant alone (apply-able with `git apply` on a clean checkout of the same commit)
 - demo_test.go : a self-contained Go test file, to be dropped into ONE package directory of the library, whose test FAILS with the mutant applied and PASSES on the clean checkout, demonstrating the property violation (through the public API where possible; it must not depend on timing luck - if goroutines are involved make the demonstration deterministic or repeat until certain).
 - meta.json : {{"property":"{pid}","demo_package_dir":"<dir relative to the repo root where demo_test.go goes>","what_breaks": "...", "needs_to_manifest":"...", "commands_run":[...]}}
Procedure for each mutant: start from a clean tree (`git -C /tmp/wt-{low} checkout -- . && git -C /tmp/wt-{low} clean -fd`), make the change, run go build and the full test suite (must pass), save the diff, then add your demo test, show it fails with the mutant; then revert the mutant (keep the demo test), show the demo passes on clean code; then remove the demo test from the worktree again. Leave the worktree clean at the end.

Report back: for each mutant a two-line description and confirmation of (b), (c) and the demo behaviour. Be concise.''')
