#!/bin/bash
# refresh_evidence.sh — run every quick check on the UNCHANGED tree so that the evidence files to be committed describe it
cd /verif
test -z "$(git -C /repo status --porcelain)" || { echo "/repo is not clean"; exit 2; }
rc=0
for p in 01 02 03 04 05 06 07 08 09 10 11 12 13 14 15 16 17 18 19 20; do
  ./check C$p 2>&1 | grep -E "^(VIOLATION|ERROR|CHECK|C$p:)" | cut -c1-170
  python3 - <<PY || rc=1
import json,sys
e=json.load(open('/verif/evidence/C$p.json'))
c=e['coverage']
if e.get('violations',0)!=0 or c['discharged']!=c['obligations'] or c['discharged']<1:
    print('BAD EVIDENCE C$p', e.get('violations'), c['discharged'], c['obligations']); sys.exit(1)
PY
done
exit $rc
