#!/usr/bin/python3
"""Regenerates MANIFEST.json from registry.py and properties.jsonl (keeps it valid at all times)."""
import json, os, sys
VERIF = os.path.dirname(os.path.dirname(os.path.abspath(__file__)))
sys.path.insert(0, VERIF)
from registry import PROPS, PENDING_REASON, NOT_APPLICABLE

ids = [json.loads(l)["id"] for l in open(os.path.join(VERIF, "properties.jsonl"))]
checks = []
for pid in ids:
    if pid not in PROPS:
        continue
    P = PROPS[pid]
    tie = P.get("tie", [])
    tie_text = ""
    tie_tech = ""
    if tie:
        mods = ", ".join(t.split(".")[-1] for t in tie)
        tie_text = (" REGENERATED-CODE TIE: the Go functions this property is anchored in that are pure enough to translate are regenerated as Lean definitions on every run "
                    "(harness/cmd/go2lean -> lean/Ucan/Gen) and proved EQUAL to the models these theorems are about, for all inputs, including absence of index/nil panics and loop termination "
                    f"(lean/Ucan/Props/Tie: {mods}; DESIGN.md §14.1); a change to one of them re-opens that proof obligation.")
        tie_tech = f"; plus machine-checked equality between the model and Lean code regenerated from the current Go source by a translator (go2lean; tie modules {mods})"
    checks.append({
        "property_id": pid,
        "quick_cmd": f"./check {pid}",
        "thorough_cmd": f"VERIF_TIER=thorough ./check {pid}",
        "evidence_file": f"/verif/evidence/{pid}.json",
        "replay_cmd_template": "./check replay {path}",
        "engine": "lean-proof+correspondence",
        "level_claimed": {"category": P.get("level", "proof"), "text": P["level_text"] + tie_text, "design_ref": "DESIGN.md §6 " + pid + (", §14" if tie else "")},
        "level_note": P["level_note"] + (" go2lean (syntactic Go-subset translator) and its library-call table are trusted for the regenerated-code tie." if tie else ""),
        "technique": P["technique"] + tie_tech,
    })
na = [{"property_id": pid, "reason": NOT_APPLICABLE.get(pid, PENDING_REASON)} for pid in ids if pid not in PROPS]
m = {
    "version": 1,
    "setup_cmd": "./check setup",
    "hooks": {
        "guard": "verif",
        "enable": "go build -tags verif (the harness is built with the tag on every run); one hook file: token/verif_hooks.go exposes envelope.NewCIDReader / NewCIDWriter as token.VerifCIDReader / VerifCIDWriter",
        "baseline_off_cmd": "cd /repo && GOFLAGS=-mod=mod GOPROXY=off GOSUMDB=off GOTOOLCHAIN=local go test -vet=off -count=1 ./...",
        "source_commits": ["6e84e06"],
        "add_only": True,
    },
    "engines": [{
        "name": "lean-proof+correspondence",
        "path": "/verif/check",
        "serves_properties": [c["property_id"] for c in checks],
        "kind_free_text": "Lean 4 theorems about hand-written models (lean/Ucan), tied to /repo on every run by (a) facts regenerated from the source (harness/cmd/factgen -> lean/Ucan/Gen/Facts.lean), (a') Go functions regenerated as Lean definitions (harness/cmd/go2lean -> lean/Ucan/Gen/*.lean) and proved equal to the models (lean/Ucan/Props/Tie), and (b) a differential correspondence between the real Go packages and the compiled Lean model driver (harness/cmd/drive <-> lean/Main.lean)",
    }],
    "checks": checks,
    "notes": "Every check: regenerate facts and translated functions from /repo, lake build of the property's theorems and tie theorems, #print axioms audit, forbidden-token scan, go build of the harness against /repo with -tags verif, correspondence streams, evidence. See DESIGN.md.",
    "not_applicable": na,
}
json.dump(m, open(os.path.join(VERIF, "MANIFEST.json"), "w"), indent=1, ensure_ascii=False)
print("MANIFEST.json:", len(checks), "checks,", len(na), "not claimed")
