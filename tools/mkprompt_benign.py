#!/usr/bin/python3
"""mkprompt2.py <property id> <round tag> — prints the prompt for an independent sub-agent that is to seed
property-breaking changes (round 2 and later). The prompt contains the property's text and the anchors that are part
of the given property record, and nothing from /verif. The agent chooses the package its demonstration lives in."""
import json, sys
pid, tag = sys.argv[1:3]
d = {json.loads(l)['id']: json.loads(l) for l in open('/verif/properties.jsonl')}[pid]
low = pid.lower() + "-" + tag
files = ", ".join(d['anchors']['files'])
mech = "; ".join(f"{m['name']} ({m['where']})" for m in d['anchors'].get('mechanism', []))
obs = "; ".join(d['anchors'].get('observe_at', []))
print(f'''You are helping test a verification framework for FALSE ALARMS by playing the role of a careful developer who refactors code WITHOUT changing its behaviour.

Work ONLY inside the git worktree /tmp/wt-{low} (a checkout of the Go library ucan-wg/go-ucan). Never touch /repo or /verif, and do not read anything under /verif. Do not commit anything.

Environment: the sandbox has no network. For every shell command that runs Go, first run: export GOFLAGS=-mod=mod GOPROXY=off GOSUMDB=off GOTOOLCHAIN=local

The property that the library satisfies and MUST STILL SATISFY after your change:

"{pid}: {d['title']}. {d['statement']} Quantifier: {d['quantifier']['text']}."

Relevant code (files): {files}. Mechanisms (line numbers may have drifted a little): {mech}. Observable at: {obs}.

Task: produce THREE different, independent, BEHAVIOUR-PRESERVING source changes (refactorings) to the non-test .go files that implement this property - the kind of change a maintainer makes during clean-up or optimisation and that is CORRECT: the property above still holds for every input, state and history, and no observable result of any public function changes (same values, same accept/reject decisions, same error classes under errors.Is; error message wording, internal helper names, allocation patterns and performance may change). Each change should touch the code the property is anchored in (not comments or formatting only), e.g.:
   refactoring 1: restructure the control flow of a central function (a loop rewritten with an index or with a helper, an if-chain turned into a switch or early returns reordered where the order provably does not matter, a fast path replaced by the equivalent straightforward computation or vice versa);
   refactoring 2: extract or inline helpers, rename internals, change a data representation internally (e.g. precomputed table vs switch, copy vs fresh allocation) with identical results;
   refactoring 3: a defensive copy added, an allocation avoided SAFELY (no aliasing of caller-visible or shared memory), error wrapping/wording changed while keeping the sentinel, or an independent validation moved earlier/later where that cannot change any outcome.
Be careful: do NOT introduce caches keyed lossily, shared mutable state, aliasing, changed boundary behaviour or changed accept/reject decisions. If you are not sure a rewrite is behaviour-preserving, pick another one. For each refactoring write a short argument (3-6 sentences) why behaviour is preserved.

For each refactoring i in 1..3 create a directory /tmp/mutants-{low}/m<i>/ containing:
 - patch.diff : output of `git diff` in the worktree for that change alone (apply-able with `git apply` on a clean checkout of the same commit)
 - meta.json : {{"property":"{pid}","kind":"benign","what_changed": "...", "why_behaviour_is_preserved":"...", "commands_run":[...]}}
Procedure for each: start from a clean tree (`git -C /tmp/wt-{low} checkout -- . && git -C /tmp/wt-{low} clean -fd`), make the change, run `go build ./...` and the full test suite `go test -vet=off -count=1 ./...` (must pass), save the diff. Leave the worktree clean at the end.

Report back: for each refactoring a two-line description and the confirmation that it builds and the suite passes. Be concise.''')
