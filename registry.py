"""Which Lean module and which correspondence streams decide each property."""

PENDING_REASON = "not claimed in this commit: the model, theorems and correspondence stream for it are not built yet (design in DESIGN.md §6); no other technique is substituted"
NOT_APPLICABLE = {}

def _chain_filter(clauses=None, completeness=False):
    """Attribute a disagreement of the shared `chain` stream to a property by its direction."""
    def f(pid, d):
        cl = d.get("class", "")
        if "harness/model error" in cl:
            # the scenario could not be built or decided at all (a delegation that does not decode, a constructor that refuses):
            # something rule-conforming is not accepted — a completeness matter, and of no other clause
            return completeness
        if cl.startswith("chain.validat"):
            return pid == "C04"
        if completeness:
            return "model-allows-go-denies" in cl
        if "go-allows-model-denies:" not in cl:
            return False
        failing = set(cl.split("go-allows-model-denies:")[1].split(","))
        return bool(failing & set(clauses))
    return f


def _token_filter(prefixes):
    """Attribute a disagreement of the shared `token` stream to a property by the class of the case."""
    def f(pid, d):
        cl = d.get("class", "")
        return any(cl.startswith(p) for p in prefixes)
    return f


def _either(*fs):
    def f(pid, d):
        return any(g(pid, d) for g in fs)
    return f


_TOKEN_NOTE = ("Trusted: Lean kernel; Model/Envelope.lean and Model/Token.lean render envelope/ipld.go, the two tokenFromModel/toIPLD pairs and validate() by hand; "
               "bindnode's schema strictness, dagcbor/dagjson, libp2p signatures, base58 and key unmarshalling are dependencies represented by model functions and oracle parameters "
               "(the harness computes signature validity, the canonical key bytes and strings.ToLower with the libraries directly, never with go-ucan) — all tied differentially, not proved; "
               "factgen for the schema tables, struct field order, nonce minimum, tags and varsig headers.")

def _container_filter(c18):
    """C18 owns faults, truncations and the writer contract; C17 owns round trips and corruptions."""
    c18_markers = ("container.truncated", "container.read-fault", "container.write:", "token.stream:", "cidstream.")
    def f(pid, d):
        cl = d.get("class", "")
        is18 = cl.startswith(c18_markers)
        # a writer/reader contract failure without a fault is a round-trip failure too, and a truncated
        # container that yields a partial set without an error is both a C17 and a C18 matter: report to both
        if cl.startswith(("container.write:", "container.truncated", "container.concurrent")):
            return True
        return is18 if c18 else not is18
    return f


_CTN_NOTE = ("Trusted: Lean kernel; Model/Container.lean renders car.go/reader.go/writer.go by hand (checked differentially); token.FromSealed is the parameter `unsealFn` (its own guarantees are C06/C08), "
             "go-cid's CID parsing/hashing, dagcbor, encoding/base64, bufio and io.ReadFull are dependencies: the harness parses each container with its own framing code and gives the model, per section, "
             "go-cid's integrity verdict and FromSealed's verdict as oracles. How bytes are chunked into Read calls is not represented in the model; independence from it is measured by the stream.")

_CHAIN_NOTE = ("Trusted: Lean kernel; go2lean (the translator): ExecutionAllowed, ExecutionAllowedWithArgsHook, executionAllowed, loadProofs, verifyProofs, verifyTimeBound(At), "
               "verifyArgs, both IsValidAt, Command.Covers and Policy.Match are regenerated from the source on every run and proved to compute what Model/Chain.lean computes "
               "(the Tie/Chain* modules listed under `tie`; Loader.GetDelegation, Args.ToIPLD (its sorting is modelled and proved order-free), matchStatement and time.Now are parameters); "
               "the differential `chain` stream (real signed tokens, verdicts compared in the direction this property needs) remains as a check of the translator, of the parameters' "
               "instances and of everything around the decision core; the system clock moving less than an hour during a call; "
               "Ed25519 signatures and go-ipld-prime are used to build the tokens but are not part of this property.")

PROPS = {
    "C15": dict(
        tie=["Ucan.Props.Tie.Command", "Ucan.Props.Tie.CommandCovers", "Ucan.Props.Tie.CommandJoin", "Ucan.Props.Tie.CommandApi"],
        props_module="Ucan.Props.C15",
        streams=["command"],
        technique="Lean 4 proof (induction over byte lists) of fast-path Covers ⇔ segment prefix, partial-order laws, parser grammar, Join; model tied to the code by an exhaustive small-domain differential run",
        level_text="Theorems C15_* in lean/Ucan/Props/C15.lean hold for every byte string: Covers (prefix + boundary fast path as written) is exactly segment-prefix on valid commands, hence reflexive/antisymmetric/transitive with / on top and no textual-prefix coverage; Parse accepts exactly the grammar and returns its input; Join appends the non-empty segments. The Go functions are compared with the executable model on every string ≤ 5 (7 thorough) over {/,a,b,A}, every pair of valid ones, and random UTF-8/binary strings.",
        level_note="Trusted: Lean kernel; go2lean (the translator) — the whole exported surface of pkg/command (Parse, IsValid, New, Top, Join, Segments, Covers) is regenerated from the source on every run and PROVED equal to Model/Command.lean (Tie/Command, CommandCovers, CommandJoin, CommandApi), so the model is no longer a hand rendering to be trusted; strings.ToLower is a model parameter (theorems hold for any function) instantiated with Go's own result, strings.Split / HasPrefix / HasSuffix have models in GoM.lean; factgen for the separator constant. The differential stream remains as a check of the translator and of the string library models.",
        assumptions=["strings.ToLower is a parameter of the model: every theorem holds for any lower-casing function; the driver is given Go's own strings.ToLower(s) with each case"],
    ),
    "C13": dict(
        tie=["Ucan.Props.Tie.Glob", "Ucan.Props.Tie.GlobMatch"],
        props_module="Ucan.Props.C13",
        streams=["glob"],
        technique="Lean 4 proof that the single-backtrack-point matcher decides the inductively defined glob language for every pattern and string; model tied to the code by an exhaustive small-alphabet differential run through policy.Like/Match",
        level_text="C13_globMatch_iff_Lang: for every token list and every byte string the matcher (literal run / backtrack rendering of the Go loop) returns true iff the string is in the inductively defined language (star = any split, literal = itself); C13_parse_reject_iff: patterns are rejected exactly when they end in a lone backslash; escape rules stated as equations. Go's policy.Like+Match is compared with model and spec on every pair over {a,b,*,\\} up to length 4 (5 thorough) and on random longer/multi-byte pairs.",
        level_note="Trusted: Lean kernel; go2lean — parseGlob and glob.Match (the index-level loop with its single backtrack point, including termination within the stated fuel) are regenerated from the source and proved equal to Model/Glob.lean (Tie/Glob, Tie/GlobMatch); the differential stream (exhaustive up to the stated size) remains as a check of the translator and of how policy.Like / Policy.Match reach the matcher.",
        assumptions=["like on a non-string value is false (part of the C11 model)"],
    ),
    "C12": dict(
        tie=["Ucan.Props.Tie.Selector"],
        props_module="Ucan.Props.C12",
        streams=["selector"],
        technique="Lean 4 proof that the Go-shaped resolve loop equals the fold of per-kind specification steps (Python index/slice rules proved with omega); model tied to the code by an exhaustive short-selector × value differential run through selector.Parse + Select",
        level_text="All theorems hold for EVERY reading of the points C12 leaves open (structure `Lat` of model and specification: an optional slice on a value that cannot be sliced — error, as the code does, or 'no value'; an optional iterator on null and on a scalar — error, 'no value' or the empty list; C12_latitude_only_optional_slice_or_iterator: readings differ nowhere else; the comparison accepts each reading of the slice and of the iterator on a scalar, and keeps the specification's `.[]?` on null = [] fixed). C12_resolve_eq_spec: for every segment list and every IPLD value, the model of resolve() (one branch per case of the Go switch) equals the left fold of the specification's per-kind step (field on map, Python index on list/bytes, Python slice on list/bytes/string-by-character, iterator, identity); C12_compositional: resolve (a++b) = resolve a >>= resolve b; C12_slice_eq_python / C12_slice_in_range / C12_index_eq_python for all integer bounds and lengths; optional field/index never error; classification theorems incl. empty field names. Go's Parse+Select is compared with model and spec on every selector of ≤ 2 (3 thorough) segments over 24 shapes × 18 values and on random longer ones.",
        level_note="Trusted: Lean kernel; Model/Selector.lean and Model/SelectorParse.lean render selector.go/parsing.go by hand (checked differentially, not proved); go-ipld-prime basicnode behaviour (LookupByString, iterators, qp.BuildList) is represented by the Node model; \\p{L} is a parameter instantiated with Go's unicode.IsLetter.",
        assumptions=["map keys are unique (basicnode rejects duplicates at assembly)", "string slicing by character uses the Go UTF-8 decoding rules modelled in Model/Utf8.lean, checked differentially incl. invalid UTF-8"],
    ),
    "C11": dict(
        tie=["Ucan.Props.Tie.PolicyMatch", "Ucan.Props.Tie.PolicyAcc", "Ucan.Props.Tie.PolicyOrder"],
        props_module="Ucan.Props.C11",
        streams=["policy"],
        technique="Lean 4 proofs over a mutual-recursive model of matchStatement: classical semantics under a resolves predicate, invariance under an inductively defined operand-permutation relation (loops shown equal to folds of commutative-associative four-valued operations), monotonicity, full⇒partial, concatenation; tied to the code by an exhaustive depth-≤2 statement × data differential run plus random permuted policies",
        level_text="C11_classical (every selector resolves ⇒ Match = conjunction of classical truth values; like = glob language; ordering only between two ints or two finite floats), C11_perm_operands / C11_perm_and / C11_perm_or / C11_perm_elements (order independence for any nesting), C11_and_monotone / C11_all_monotone, C11_full_implies_partial, C11_append, C11_required_missing / C11_optional_missing — all for every policy and every IPLD value. Go's Match/PartialMatch are compared with the model on every depth-≤2 statement family × 16 data trees (with the negated statement, to observe the four-valued result) and on random depth-≤4 policies in original and permuted form.",
        level_note="Trusted: Lean kernel; Policy.Match / PartialMatch, the fold step `accumulate` of and/or/all/any and the ordering test `isOrdered` behind > >= < <= (node API: Kind, AsInt with its error beyond int64, AsFloat; cmp.Compare and math.IsInf on the float bits) are regenerated from the source and proved equal to the model (Tie/PolicyMatch, Tie/PolicyAcc, Tie/PolicyOrder, go2lean trusted); matchStatement itself (type switches over an interface, go-ipld-prime iterators) is rendered by hand in Model/Policy.lean, evaluating children eagerly (sound because children are pure once integers fit int64 — C09), with DeepEqual and float comparison modelled on IEEE bit patterns in Model/Node.lean — that part is checked differentially, not proved.",
        assumptions=["integers in policies and data fit int64 (otherwise must.Int/DeepEqual panic: C09)", "or [] is true, as the UCAN specification and the in-tree tests require"],
    ),
    "C01": dict(
        tie=["Ucan.Props.Tie.ChainLoad", "Ucan.Props.Tie.ChainPrincipals", "Ucan.Props.Tie.ChainOrder"],
        props_module="Ucan.Props.C01",
        streams=["chain"],
        filter=_chain_filter(clauses=["principal", "load"]),
        technique="Lean 4 proof by induction over the chain that the running-issuer loop + root test accept exactly the declarative principal/command specification; soundness corollary and audience irrelevance; model tied to the code by exhaustive short-chain differential runs with real tokens (direction: Go allows ⇒ model allows)",
        level_text="verifyProofs_ok_iff (loop ⇔ PrincipalSpec ∧ CommandSpec for every chain length and principal assignment), C01_sound (allowed ⇒ non-empty, all proofs loaded in order, first link issued to the invoker, issuer/audience linked at every position, last link rooted in its own subject, every link names the invocation's subject), C01_no_proof, C01_missing, C01_audience_irrelevant. Go's ExecutionAllowed is compared with the model on every chain of ≤ 2 (3 thorough) links over all (iss, aud, sub) assignments × all invocations, and on random chains of ≤ 8 (40) links with deviations, missing, duplicated, truncated and permuted proofs.",
        level_note=_CHAIN_NOTE,
    ),
    "C02": dict(
        tie=["Ucan.Props.Tie.CommandCovers", "Ucan.Props.Tie.ChainProofs", "Ucan.Props.Tie.ChainOrder"],
        props_module="Ucan.Props.C02",
        streams=["chain"],
        filter=_chain_filter(clauses=["command"]),
        technique="Lean 4 proof: allowed ⇒ CommandSpec (first link covers the invoked command, every link covered by the next towards the root), with C15 giving segment-prefix and transitivity; tied by the command-lattice differential run (direction: Go allows ⇒ model allows)",
        level_text="C02_sound, C02_no_widening (segment prefix at every position, via C15_covers_iff), C02_every_link_covers_invocation (by C15_trans). Go is compared with the model on conforming chains of 1–3 links under every assignment of a 6-command lattice (top, parent, child, sibling, shared textual prefix /foo vs /foobar, /fo) to the invocation and each link, and on random longer chains.",
        level_note=_CHAIN_NOTE,
    ),
    "C03": dict(
        tie=["Ucan.Props.Tie.ChainEntry", "Ucan.Props.Tie.ChainOrder", "Ucan.Props.Tie.ChainArgs", "Ucan.Props.Tie.PolicyMatch"],
        props_module="Ucan.Props.C03",
        streams=["chain"],
        filter=_chain_filter(clauses=["policy", "hook"]),
        technique="Lean 4 proof: allowed ⇒ every statement of every link passes (Match over the concatenation = conjunction, C11_append), anti-monotone in links and statements, hook result is what is checked; tied by differential runs distributing statements over every link (direction: Go allows ⇒ model allows)",
        level_text="C03_sound, C03_antitone_links, C03_antitone_statements, C03_hook, C03_hook_error for every chain, policy distribution and argument value. Go is compared with the model on conforming chains of 1–3 links with each of 7 policies at each link × 4 argument maps, with and without replacing/failing argument hooks, and on random chains.",
        level_note=_CHAIN_NOTE,
    ),
    "C04": dict(
        tie=["Ucan.Props.Tie.ChainTime", "Ucan.Props.Tie.ChainOrder", "Ucan.Props.Tie.ParseTime"],
        props_module="Ucan.Props.C04",
        streams=["chain", "token"],
        # the time fields of decoded tokens (what `parse.OptionalTimestamp` makes of the signed integers) belong to C04 too
        filter=_either(_chain_filter(clauses=["time"]), _token_filter(["token.field-special:exp", "token.field-special:nbf", "token.field-special:iat"])),
        technique="Lean 4 proof of the validity window for every instant and of allowed ⇒ invocation and every link valid now; tied by IsValidAt probes at bound ± {1 ns, 1 s, 1 h} and by chains with past/future bounds at every position (direction: Go allows ⇒ model allows; IsValidAt: equality away from the exact bound)",
        level_text="C04_inside / C04_outside (delegations), C04_inv_inside / C04_inv_outside (invocations), absent bound = unbounded, C04_sound (allowed ⇒ invocation valid and every delegation valid at the check time). Go's IsValidAt is compared with the model on both sides of each bound for all present/absent combinations; ExecutionAllowed on every past/future/absent combination of nbf/exp on the invocation and each of 1–2 (3 thorough) links.",
        level_note=_CHAIN_NOTE + " Wall-clock reads and time.Time's monotonic-clock handling are not modelled; bounds in chain scenarios sit two hours from now.",
    ),
    "C05": dict(
        tie=["Ucan.Props.Tie.ChainEntry", "Ucan.Props.Tie.ChainProofs", "Ucan.Props.Tie.ChainTime", "Ucan.Props.Tie.ChainAllowed"],
        props_module="Ucan.Props.C05",
        streams=["chain"],
        filter=_chain_filter(completeness=True),
        technique="Lean 4 proof of completeness (all specification clauses ⇒ allowed; exact iff) and of independence from audience/meta/nonce/cause/iat; tied by generated conforming chains in the converse direction (model allows ⇒ Go allows)",
        level_text="C05_complete, C05_allowed_iff, C05_irrelevant_fields, C05_loadable; C05_args_supply_order_irrelevant and C05_args_node_sorted (the node the policies are matched on is Args.ToIPLD = one map with sorted keys, the same for every order in which distinct keys were supplied: Lemmas/ArgsOrder). Conforming chains are generated (any length ≤ 8/40, repeated principals and self-delegation, attenuating command sequences, satisfiable policies, valid windows) with every irrelevant field varied; every case where the model allows and Go denies is reported.",
        level_note=_CHAIN_NOTE,
    ),
    "C14": dict(
        tie=["Ucan.Props.Tie.Tokenize", "Ucan.Props.Tie.PolicyDecode"],
        props_module="Ucan.Props.C14",
        streams=["selparse", "polipld"],
        technique="Lean 4 proofs: the tokenizer partitions its input (induction over the byte list with the loop state generalised), every accepted selector is the concatenation of tokens each classified into one segment keeping its text, unterminated quotes are rejected, the printed text of an accepted selector parses to the very same selector (the tokenizer is characterised by a quote-state scan; well-formed tokens concatenated re-tokenize to themselves), and FromIPLD∘ToIPLD is the identity up to selector re-printing (mutual structural induction over the statement tree); tied by exhaustive parsing of all strings ≤ N over the 11 syntax characters and by policy-node round trips incl. DAG-JSON",
        level_text="C14_tokenize_partition, C14_nothing_dropped (parse s = ok sel ⇒ ∃ tokens, concat = s ∧ each segment classified from its token and storing its text — identity segments as \".\"), C14_unterminated_rejected, C14_print_reparse (parse s = ok sel ⇒ parse (print sel) = ok sel: same segments, same stored text), C14_policy_roundtrip (fromIPLD n = ok p ⇒ toIPLD p = n with every selector string replaced by what the parser prints for it), C14_decoded_ints_bounded. Go's selector.Parse is compared (accept/reject, every segment's fields, printed text) with the model on \".\" + every string of length ≤ 4 (6 thorough) over . [ ] \" ? : - 0 1 a \\ plus special and mutated selectors; policy.FromIPLD/ToIPLD and FromDagJson on well-formed and malformed policy nodes.",
        level_note="Trusted: Lean kernel; Model/SelectorParse.lean (hand-written recognisers for the three regular expressions, strconv range rules) and Model/PolicyIpld.lean render parsing.go / ipld.go by hand, checked differentially; \\p{L} is a parameter instantiated with Go's unicode.IsLetter; operator strings are regenerated facts. Partial with respect to the English statement: 'print then re-parse gives the same meaning' is covered by the differential stream (printed text compared) and by C14_nothing_dropped, the idempotence theorem parse (print sel) = ok sel is not yet proved.",
        assumptions=["dagjson.Decode (go-ipld-prime) is outside the model: the DAG-JSON path is compared on the node as it reads back from its own JSON text"],
    ),
    "C08": dict(
        tie=["Ucan.Props.Tie.Sealed"],
        props_module="Ucan.Props.C08",
        streams=["sealed", "container", "cidstream"],
        # of the container stream: the cases whose point is WHICH CID a token is known under after a read (a block labelled with
        # another codec, hash or an earlier block's CID) — the token's identifier is the one of its sealed bytes, whatever the label says
        filter=lambda pid, d: d.get("stream") != "container" or any(t in d.get("class", "") for t in ("foreign-cid", "mislabelled")),
        technique="Lean 4 proof (mutual structural recursion over the IPLD tree) that a lenient CBOR decoder inverts the canonical DAG-CBOR encoder, hence the encoding is injective and prefix-free and accepted bytes are exactly the canonical encoding of their content, so equal content ⇒ equal bytes ⇒ equal CID; tied by differential runs against go-ipld-prime's dagcbor and by every single-tweak re-encoding of real sealed tokens through all six unsealing APIs",
        level_text="C08_decode_encode, C08_prefix_free, C08_encode_injective, C08_canonical (accept b = some n ⇒ b = encode n), C08_accept_encode, C08_unique_cid (two accepted byte strings with the same content are equal, so their CIDs are), C08_cid_distinct. The CID reported by ToSealed/ToSealedWriter/FromSealed/FromSealedReader (generic and typed) is compared with an independent CIDv1(dag-cbor, sha2-256) for Ed25519, secp256k1, P-256 (RSA in the thorough tier); every re-encoding of each sealed token (wider head at each item, indefinite length at each string/list/map, swapped map entries, extra outer element) and key-less signature re-encodings are offered to every unsealing function.",
        level_note="Trusted: Lean kernel; dagcbor (go-ipld-prime/refmt), go-cid, go-multihash and SHA-256 are dependencies represented by Model/Cbor.lean and the parameter sha256 — the model is validated against dagcbor differentially, not proved. Uniqueness of the CID for a given signed content additionally needs each signature scheme to admit one signature encoding per (key, message): measured by the stream — holds for Ed25519/RSA, refuted for ECDSA (open known finding F-C08-ecdsa-signature-malleability).",
        assumptions=["SHA-256 is a parameter of the model (collision resistance is named where used, never proved)", "half- and single-precision floats, indefinite lengths and CBOR 'undefined' are rejected by the model's decoder; go-ipld-prime decodes them and the canonical re-encoding check then rejects them, so acceptance agrees"],
    ),
    "C16": dict(
        tie=["Ucan.Props.Tie.Did"],
        props_module="Ucan.Props.C16",
        streams=["did"],
        technique="Lean 4 proofs over a model of Parse/String/PubKey/FromPubKey; base-58 is a model of its own with decode∘encode = id proved by induction on positional notation (no multibase hypothesis left), the per-codec key (un)marshallers are parameters: varint round trip (induction), key→DID→text→DID→key identity, DID equality ⇔ key equality, canonical-identifier theorem, rejection theorems, and a decide-checked inclusion between the multicodec tables REGENERATED from the source; tied by a differential run over keys of every algorithm and alternative encodings of their material with an independent crypto-library oracle",
        level_text="Base58.decode_encode / encode_injective (every byte string, leading zeros included) and the corollaries C16_parse_print_base58, C16_roundtrip_base58, C16_print_injective_base58, C16_reject_not_base58; C16_tables (every code FromPubKey can emit is in Parse's whitelist and PubKey's table — over facts regenerated from did.go/crypto.go on every run), uvarint_roundtrip, C16_parse_print, C16_roundtrip, C16_eq_iff, C16_distinct_algorithms, C16_canonical, C16_one_principal_one_did, C16_print_injective, C16_reject_prefix/base/codec, C16_parsed_code. Go is compared with the model on keys of Ed25519, secp256k1 (native and ECDSA-typed, incl. short coordinates), P-256/384/521, RSA and on did:key strings with uncompressed/hybrid points, flipped parity, off-curve x, wrong lengths, malformed DER, non-minimal varints, foreign codes and multibases, bad base58.",
        level_note="Trusted: Lean kernel; factgen's extraction of the three multicodec tables; go2lean for did.Parse, which is regenerated and proved to accept exactly what Model/Did.lean accepts (Tie/Did: prefix, text handed to multibase, base58btc test, accepted codes; multibase.Decode and varint.FromUvarint are parameters there); String, PubKey and FromPubKey are rendered by hand; conditional on library contracts stated as hypotheses (base58 decode∘encode = id and injectivity; unmarshal∘marshal = id; marshal injective) — measured by the stream, not proved; mr-tron/base58, go-multibase, go-varint, libp2p crypto, crypto/x509 and crypto/elliptic are dependencies outside the proofs. The driver's base58 is executable glue, checked differentially against Go's.",
        assumptions=["base58btc and the key (un)marshallers are parameters of the model with explicit contracts"],
    ),
    "C06": dict(
        tie=["Ucan.Props.Tie.DecodeBridge", "Ucan.Props.Tie.Inspect"],
        props_module="Ucan.Props.C06",
        streams=["token"],
        # incl. sig-old-field, sig-concurrent, hdr-old-sig; field-special: a correctly signed value must come out as signed
        # sp-extra*: an ACCEPTED envelope whose signed map holds more than header + payload was signed over something else than
        # "the header and payload that were decoded" (the refusal side of these cases is C10's)
        filter=_either(_token_filter(["token.envelope:sig-", "token.envelope:hdr-", "token.bitflip", "token.honest", "token.field-special:"]),
                       lambda pid, d: d.get("class", "").startswith("token.envelope:sp-extra") and "go-accepts-model-rejects" in d.get("class", "")),
        technique="Lean 4 proof that an accepted envelope was inspected to exactly [signature, {header, tagged payload}], that the header is the varsig header of the issuer key's type (table regenerated from varsig.go), that the signature verifies under the key of the issuer DID of the DECODED payload over the canonical encoding of the decoded SigPayload, and (with injectivity of the encoding, C08) that every decoded field is a function of the signed bytes; tied by harness-built, re-signed and corrupted envelopes incl. every single-bit flip",
        level_text="C06_verified, C06_decoded_parts_are_signed, C06_fields_function_of_signed_bytes, C06_inspect_shape for every node and every instantiation of the crypto parameters. Go's six decoders are compared with the model on honest tokens (3–5 key algorithms), foreign/garbage/missing varsig headers, signatures by another key, truncated/empty/non-bytes signatures, and every third (every, thorough) single-bit flip of sealed Ed25519 tokens; accept/reject and all decoded fields.",
        level_note=_TOKEN_NOTE + " Conditional on EUF-CMA of the signature schemes: the theorems reduce 'no accepted modification changes a field' to 'no valid signature on a different message', they do not prove unforgeability.",
    ),
    "C07": dict(
        tie=["Ucan.Props.Tie.ParseTime", "Ucan.Props.Tie.Decode", "Ucan.Props.Tie.DecodeBridge"],
        props_module="Ucan.Props.C07",
        streams=["token"],
        filter=_token_filter(["token.roundtrip"]),
        technique="Lean 4 proofs that tokenFromModel∘toIPLD is the identity on every constructible delegation and invocation (all optional-field combinations, by case analysis closed with simp/omega), that the written payload conforms to the regenerated schema, and that unseal∘seal = id for any signature scheme with verify k m (sign m); tied by constructor-built tokens under every option mask × key algorithm × codec × decoder",
        level_text="C07_dlg_payload_roundtrip, C07_inv_payload_roundtrip, dlg_payload_conforms, C07_dlg_unseal_seal (delegations; the invocation envelope level is covered by the stream only), with C16_tables giving 'a key that can issue can be verified'. Go: 128 option masks (policy, metadata, extreme accepted time bounds, nonce, subject/powerline, audience, cause, iat) × Ed25519/secp256k1/P-256/P-384/P-521 (RSA thorough) × {DAG-CBOR, DAG-JSON} × {generic, typed}: every field of the unsealed token equals the constructed one at whole-second resolution.",
        level_note=_TOKEN_NOTE + " The component round trips are hypotheses of the theorems (DID: C16_parse_print; command: C15_parse_ok_iff; policy: C14_policy_roundtrip with C14_print_reparse for the selectors).",
    ),
    "C10": dict(
        tie=["Ucan.Props.Tie.ParseTime", "Ucan.Props.Tie.Command", "Ucan.Props.Tie.CommandApi", "Ucan.Props.Tie.Decode", "Ucan.Props.Tie.DecodeBridge", "Ucan.Props.Tie.Inspect", "Ucan.Props.Tie.FindTag", "Ucan.Props.Tie.Limits", "Ucan.Props.Tie.Args", "Ucan.Props.Tie.ParseDid", "Ucan.Props.Tie.PolicyDecode"],
        props_module="Ucan.Props.C10",
        streams=["token"],
        # field cases count in ONE direction: something malformed is accepted (or accepted with another value than the model
        # accepts it with is a C06/C07 matter: the token that comes out is still well-formed)
        filter=lambda pid, d: _token_filter(["token.field-", "literal.exact", "token.envelope:tag-", "token.envelope:sp-", "token.envelope:payload-not-map", "token.envelope:outer-extra"])(pid, d)
        and (not d.get("class", "").startswith("token.field-") or "go-accepts-model-rejects" in d.get("class", "") or "PANIC" in d.get("class", "") or "TIMEOUT" in d.get("class", "")),
        technique="Lean 4 proofs of envelope and schema strictness over REGENERATED schema tables (decide-checked facts: tags differ, Go struct field order = schema order, nonce minimum ≥ 12), of tag-directed dispatch (no type confusion) and of the well-formedness of every decoded delegation; tied by the full product field × mutation × decoder, each correctly re-signed, and by every Go integer type at its boundaries through literal.Any/args.Add/meta.Add",
        level_text="C10_tags_differ, C10_struct_order, C10_nonce_min, C10_schema_kinds_known, C10_schema_strict, C10_no_type_confusion_dlg/inv, C10_generic_dispatch, C10_decoded_dlg_wf (nonce ≥ 12, command in the grammar, time bounds within ±(2^53−1)). Go: every payload field of both token types × {dropped, null, 19 retypings incl. boundary integers, field-specific malformed values} + unknown key + envelope shape cases, re-signed, through 3 decoders (× DAG-JSON sample); 90 (type, value) integer cases exact-or-rejected. Regenerated and proved (Tie/Limits): limits.ValidateIntegerBoundsIPLD — the recursive walk behind args.Add, Args.Validate, literal.Any and the policy decoder — accepts exactly the nodes whose integers all lie within ±(2^53−1), for every node and every fuel above its nesting depth, and refuses with an error value (no panic, integers beyond int64 included); (*args.Args).Validate, the decoders' check of a decoded invocation's arguments, accepts exactly the argument sets whose values are all in bounds, for every order in which the Go map hands out its entries (Tie/Args), and is what the decode bridge's argsP stands for. Inv_decoded_args_in_bounds: an invocation handed out by the regenerated tokenFromModel + validate() + Args.Validate + ValidateIntegerBoundsIPLD has every argument integer within bounds at any depth.",
        level_note=_TOKEN_NOTE,
    ),
    "C17": dict(
        tie=["Ucan.Props.Tie.ContainerEntry"],
        props_module="Ucan.Props.C17",
        streams=["container"],
        filter=_container_filter(False),
        technique="Lean 4 proofs about a model of the CAR framing, the container readers and base-64 (decode∘encode = id proved, so the two base64 formats reduce to the CAR and CBOR ones): written sections read back exactly (varint round trip by induction), hence the CAR and CBOR containers return exactly the entries put in; the result is permutation-invariant in the write order; a successful read implies every entry unsealed and every block hashes to its stored CID; one bad entry fails the whole read; tied by all writer × reader combinations and single-entry corruptions",
        level_text="C17_car_roundtrip, C17_car_exact, C17_cbor_roundtrip (via C08_decode_encode), Base64.decode_encode, C17_carb64_exact, C17_cborb64_roundtrip, C17_base64_variant_agrees, C17_not_base64_refused, C17_order_independent, C17_all_or_nothing, C17_one_bad_entry_fails, C17_car_integrity. Go: sets of 0–4 sealed tokens × 4 formats × {bytes, io.Writer} writers × {bytes, 1-byte, data-with-EOF, chunked} readers; bit flips across the container (header, length prefixes, stored CIDs, data), bad signatures, duplicated/reordered/mislabelled blocks, blocks under a foreign-codec CID, zero/huge sections, trailing bytes — error/ok and the set of CIDs compared.",
        level_note=_CTN_NOTE,
    ),
    "C18": dict(
        tie=["Ucan.Props.Tie.ContainerEntry"],
        props_module="Ucan.Props.C18",
        streams=["container", "cidstream"],
        filter=_container_filter(True),
        technique="Lean 4 proofs over byte sources that end in eof or fault: a faulting source never yields a result (induction over the block loop); a truncated CAR is an error or, exactly on a block boundary, the blocks before the cut (lemma: a proper prefix of a varint never reads; a proper prefix of a section is an unexpected EOF); tied by truncation and read faults at every offset, write faults at every write call incl. the final base64 flush, and CID/bytes equality of the streaming and buffered token APIs under several chunkings",
        level_text="C18_fault_car, C18_fault_cbor, ldRead_prefix, C18_truncation_car (for every prefix of every written CAR). Streaming = buffered holds by construction in the model (one function of the byte source). Go: every (every 3rd, quick) truncation offset and read-fault offset of written containers in 4 formats through 3 reader variants; every write call failing for all 8 writers; FromSealedReader/ToSealedWriter of single tokens cut/failing at every offset/call, CIDs compared with the buffered calls. Partial: truncation of the CBOR container and of single tokens (always an error) is covered by the stream only — the prefix-freeness lemma for the lenient decoder on truncated input is not proved yet.",
        level_note=_CTN_NOTE,
    ),
    "C09": dict(
        # regenerated functions whose ties say "an error VALUE or a result, never a panic, for every input": the ordering test and
        # the bound walk on integers beyond int64, the argument check built on it, the policy entry point that runs the walk
        # before anything is decoded, the selector tokenizer and the slice arithmetic
        tie=["Ucan.Props.Tie.PolicyOrder", "Ucan.Props.Tie.Limits", "Ucan.Props.Tie.Args", "Ucan.Props.Tie.PolicyDecode", "Ucan.Props.Tie.Tokenize", "Ucan.Props.Tie.Selector"],
        props_module="Ucan.Props.C09",
        streams=["robust", "selparse", "selector", "polipld", "policy", "glob", "did", "container", "token"],
        filter=lambda pid, d: d.get("stream") == "robust" or str(d.get("go", "")).startswith(("PANIC", "panic", "TIMEOUT")) or "harness/model error" in d.get("class", ""),
        level="proof",
        technique="Lean 4 proofs about the decoder models (total functions): the selector parser's only slice-bounds panic is unreachable for every input (invariant over the tokenizer loop), slice bounds are in range, integers beyond int64 give an error / false instead of a panic, CAR sections and decoded DAG-CBOR trees, selectors and policies are bounded by the input size; the models are tied differentially (selparse, selector, polipld, policy, glob, did, container, token streams incl. integers ≥ 2^63, invalid UTF-8 and hostile length prefixes; any panic or hang of the real code in those streams is a C09 violation), and every untrusted entry point is exercised by the `robust` stream under recover with deep inputs in a memory-limited child process (PARTIAL: absence of OTHER panics, stack exhaustion and the dependencies' allocation behaviour are tested, not proved)",
        level_text="PARTIAL. Proved for all inputs, on the models: C09_parse_never_panics (no selector text reaches `lookup[1:len(lookup)-1]` with a one-byte lookup: a lone quote leaves the quote open and the selector is refused first — shown by an invariant over the tokenizer loop; the panic outcome IS reachable in the classifier alone, so the theorem is not vacuous); C09_slice_bounds_in_range; C09_beyond_int64_policy_is_error and C09_beyond_int64_compare_is_false (an integer that does not fit int64 anywhere in a policy is the bounds ERROR, comparing with one is false); C09_section_bounded (a CAR section is non-empty, ≤ 32 MiB and entirely present before it is returned); C09_cbor_tree_bounded, C09_declared_list_length_bounded, C09_declared_string_length_bounded (a decoded tree weighs ≤ the input; a declared length beyond the end of the input is an error); C09_selector_bounded; C09_policy_bounded. All model functions are total (Lean's termination checker), which is the model-level form of 'always terminates, returns value or error'. NOT proved, tested by the `robust` stream: that the Go code has no other panic site, that recursion depth cannot exhaust the goroutine stack, and how go-ipld-prime, libp2p, x509 and base58 allocate — 17 entry points × random bytes, mutated valid artefacts (bit flips, truncation, splices, hostile heads), correctly SIGNED delegations/invocations around hostile fields (uint ≥ 2^63, wrong kinds, invalid DIDs and key material, bad CIDs, non-canonical items), nesting depth 10^2…10^5 (3·10^6 thorough) in a child process under GOMEMLIMIT with a time limit, and allocation measured at n, 2n, 4n for seven growth families.",
        level_note="Trusted: Lean kernel; the hand-written models (tied differentially by the selparse/polipld/policy/selector/sealed/container streams); the `robust` stream is a TEST (sampling): it can find a panic, a crash, a hang or super-linear allocation, it cannot show their absence. go-ipld-prime's decoders, libp2p key parsing and crypto/x509 are dependencies: only observed. Three defects found by this check were repaired in /repo (see known_findings.json).",
        assumptions=["the Go runtime (stack growth, allocator) and the dependencies' decoders are outside the model; for them the check observes sampled inputs only"],
    ),
    "C19": dict(
        tie=["Ucan.Props.Tie.Meta"],
        props_module="Ucan.Props.C19",
        streams=["meta"],
        level="proof",
        technique="Lean 4 proofs about the wrapper around secretbox with seal/open as parameters: key validation iff, layout (nonce ‖ box, +40 bytes), round trip under the open∘seal contract, refusals surface as errors, distinct nonces give distinct stored values; tied by a differential run incl. every single-bit modification of stored ciphertexts with x/crypto's own verdict as oracle (PARTIAL: confidentiality and authenticity are cryptographic assumptions, tested, not proved)",
        level_text="PARTIAL. Proved for all inputs: C19_validateKey_iff (missing, wrongly sized and all-zero keys are refused, and only those) and that both directions refuse them; C19_layout; C19_roundtrip (given open k n (seal k n m) = some m); C19_refusal_is_error and C19_short_ciphertext (whatever secretbox refuses — wrong key, any modified ciphertext or nonce — is an error, never data); C19_distinct_nonce_distinct_value; C19_only_strings_and_bytes; C19_entropy_failure_is_error and C19_nonce_is_what_was_drawn (a failing or short entropy source is an error, the stored nonce is what was drawn). Not proved, named: that XSalsa20-Poly1305 hides the plaintext and rejects modifications, and that crypto/rand nonces do not repeat. Go: 26 key shapes; 6 plaintexts × right/wrong/nil/zero/short keys × every single-bit modification, truncation and extension of the stored value; round trips in memory and through sealed delegations and invocations (CBOR, JSON); plaintext-substring search in stored values and sealed tokens; repeated encryption distinctness; stored length; crypto/rand.Reader replaced by a source failing after 0…30 bytes × good/missing/zero/short keys.",
        level_note="Trusted: Lean kernel; Model/Meta.lean renders meta.go/secretbox.go by hand (checked differentially); x/crypto/nacl/secretbox and crypto/rand are dependencies: secretbox.Open's verdict is computed by the harness and given to the model as an oracle. The bit-flip sweep is a TEST of the wrapper wiring, not a proof of authenticity.",
        assumptions=["INT-CTXT and IND-CPA of XSalsa20-Poly1305; unpredictability/non-repetition of crypto/rand nonces"],
    ),
    "C20": dict(
        # the authorization entry points, the time checks and ToSealed translate into PURE functions of the token's fields: go2lean
        # refuses an assignment to a field and any call it does not know, so a read path that starts writing to the token (a memo, a
        # cache, an in-place sort) no longer translates and these obligations break
        tie=["Ucan.Props.Tie.ChainEntry", "Ucan.Props.Tie.ChainAllowed", "Ucan.Props.Tie.ChainArgs", "Ucan.Props.Tie.ChainTime", "Ucan.Props.Tie.Sealed"],
        props_module="Ucan.Props.C20",
        streams=["immut"],
        extra=[dict(name="racecheck", pkg="./cmd/racecheck", build_flags=["-race"], timeout=600,
                    what="read-only workload of the immut stream on shared tokens from 8 goroutines under the Go race detector (a TEST of sampled schedules, supporting evidence only)")],
        technique="Lean 4 proofs: frame theorem for every modelled read-only operation, repeatability, and — for arbitrary schedules of threads whose steps never write shared memory — that shared memory stays unchanged and every step sees the initial state (induction over the schedule); tied by before/after snapshots of the observable token state for every insertion order of the keys, and by concurrent versus alone results; race detector run as supporting test (PARTIAL: the Go memory model is not modelled)",
        level_text="PARTIAL. Proved: C20_frame (no read-only operation — incl. ExecutionAllowedWithArgsHook and a check with another loader — changes the token's argument/metadata key order or values, its proof links, or the spare capacity of a shared delegation's policy slice), C20_history_independent (what an operation returns does not depend on the read-only operations that ran before: no memoised state), C20_frame_spare, C20_repeatable, C20_iter_order_stable, C20_schedule_shared and C20_schedule_step_input (for EVERY interleaving of read-only threads the shared state is unchanged and each step reads the initial state, so each thread computes what it computes alone and no two steps conflict), C20_ops_are_readonly_steps. Go: for every insertion order of ≤ 4 (5 thorough) argument keys × 3 metadata orders × 9 read-only operations on constructed and decoded invocations and the two shared delegations of their chain (the leaf's policy slice has spare capacity), every ORDERED PAIR of operations on one fresh token (history independence), the token as seen by a re-entrant reader during ExecutionAllowedWithArgsHook, the Iter() order afterwards and the operation's output order are compared with the model; every operation from 8 goroutines on the same never-touched tokens must return what it returns alone on a twin; the same workload runs under `go build -race`.",
        level_note="Trusted: Lean kernel; Model/Immut.lean lists the token memory that read-only methods touch (the shared Keys slices and value maps) and renders each method as a state transformer — which methods exist and what they touch is tied differentially, not proved. NOT exhibited by the model: the Go memory model (visibility, tearing, compiler reordering); the race detector and the 8-goroutine runs are tests of sampled schedules.",
        assumptions=["the Go memory model is outside the model; data-race freedom is argued from the empty write footprint (proved on the model) plus race-detector runs (tests)"],
    ),
}
