import Ucan.Props.C06
import Ucan.Props.C15
/-!
# C10 — only well-formed tokens come out of constructors and decoders
-/
set_option linter.unusedSimpArgs false
namespace Ucan.Token
open Ucan.Envelope Ucan.Policy

variable {K : Type}

/-- regenerated facts: the two type tags differ; the Go payload structs list their fields in the order of
    the schemas they are bound to (bindnode binds by position); validate() asks for at least 12 nonce bytes -/
theorem C10_tags_differ : Facts.dlgTag ≠ Facts.invTag := by decide

theorem C10_struct_order :
    Facts.dlgStructFields = Facts.dlgSchema.map (·.1) ∧ Facts.invStructFields = Facts.invSchema.map (·.1) := by
  decide

theorem C10_nonce_min : 12 ≤ Facts.dlgNonceMin ∧ 12 ≤ Facts.invNonceMin := by decide

theorem C10_schema_kinds_known :
    (dlgFields.all (fun f => f.kind != .unknown)) = true ∧ (invFields.all (fun f => f.kind != .unknown)) = true := by
  decide

/-- strict struct decoding: the payload is a map, every key is a declared field with a value of the
    declared kind, every non-optional field is present (no unknown, missing or wrongly typed fields) -/
theorem C10_schema_strict (fs : List Field) (n : Node) (kvs : List (Bytes × Node))
    (h : decodeStruct fs n = .ok kvs) :
    n = .map kvs ∧ (∀ kv ∈ kvs, ∃ f ∈ fs, f.name = kv.1) ∧
    (∀ f ∈ fs, f.optional = false → (Node.lookup f.name kvs).isSome) ∧
    (∀ kv ∈ kvs, ∀ f ∈ fs, f.name = kv.1 → valueOk f kv.2 = true) := by
  unfold decodeStruct at h
  cases n <;> simp only at h <;> try (cases h; done)
  rename_i m
  split at h; · cases h
  split at h; · cases h
  rename_i hunk
  split at h; · cases h
  rename_i hmiss
  split at h; · cases h
  rename_i hkind
  cases h
  refine ⟨rfl, ?_, ?_, ?_⟩
  · intro kv hkv
    cases hx : fs.any (fun f => f.name == kv.1) with
    | true =>
      simp only [List.any_eq_true, beq_iff_eq] at hx
      exact hx
    | false =>
      exfalso; apply hunk
      simp only [List.any_eq_true, Bool.not_eq_true']
      exact ⟨kv, hkv, hx⟩
  · intro f hf ho
    cases hl : Node.lookup f.name kvs with
    | some v => rfl
    | none =>
      exfalso; apply hmiss
      simp only [List.any_eq_true, Bool.and_eq_true, Bool.not_eq_true']
      exact ⟨f, hf, ho, by simp [hl]⟩
  · intro kv hkv f hf he
    cases hv : valueOk f kv.2 with
    | true => rfl
    | false =>
      exfalso; apply hkind
      simp only [List.any_eq_true, Bool.and_eq_true, beq_iff_eq, Bool.not_eq_true']
      exact ⟨kv, hkv, f, hf, he, hv⟩

/-- a delegation is never returned as an invocation or vice versa: each typed decoder accepts only its
    own tag, and the generic decoder dispatches on the tag -/
theorem C10_no_type_confusion_dlg (env : TEnv K) (n : Node) (t : Dlg) (h : dlgFromIPLD env n = .ok t) :
    ∃ info, inspect n = .ok info ∧ info.tag = Facts.dlgTag := by
  unfold dlgFromIPLD at h
  cases hf : Envelope.fromIPLD env.toEnv Facts.dlgTag dlgFields n with
  | error e => simp [hf] at h
  | ok r =>
    obtain ⟨info, kvs⟩ := r
    have := C06_verified env.toEnv _ _ n info kvs hf
    exact ⟨info, this.1, this.2.1⟩

theorem C10_no_type_confusion_inv (env : TEnv K) (n : Node) (t : Inv) (h : invFromIPLD env n = .ok t) :
    ∃ info, inspect n = .ok info ∧ info.tag = Facts.invTag := by
  unfold invFromIPLD at h
  cases hf : Envelope.fromIPLD env.toEnv Facts.invTag invFields n with
  | error e => simp [hf] at h
  | ok r =>
    obtain ⟨info, kvs⟩ := r
    have := C06_verified env.toEnv _ _ n info kvs hf
    exact ⟨info, this.1, this.2.1⟩

theorem C10_generic_dispatch (env : TEnv K) (n : Node) :
    (∀ d, anyFromIPLD env n = .ok (.inl d) → dlgFromIPLD env n = .ok d) ∧
    (∀ i, anyFromIPLD env n = .ok (.inr i) → invFromIPLD env n = .ok i) := by
  unfold anyFromIPLD
  cases findTag n with
  | error e => simp
  | ok tag =>
    simp only
    by_cases h1 : tag = Facts.dlgTag
    · simp only [h1, if_true]
      cases dlgFromIPLD env n <;> simp [Except.map]
    · simp only [h1, if_false]
      by_cases h2 : tag = Facts.invTag
      · simp only [h2, if_true]
        cases invFromIPLD env n <;> simp [Except.map]
      · simp [h2]

/-- every decoded delegation has a nonce of at least 12 bytes, a syntactically valid command and time
    bounds within ±(2^53−1) -/
theorem C10_decoded_dlg_wf (env : TEnv K) (kvs : List (Bytes × Node)) (t : Dlg) (h : dlgFromPayload env kvs = .ok t) :
    12 ≤ t.nonce.length ∧ Command.Grammar env.lower t.cmd ∧
    (∀ b, t.nbf = some b → Facts.minInt53 ≤ b ∧ b ≤ Facts.maxInt53) ∧
    (∀ e, t.exp = some e → Facts.minInt53 ≤ e ∧ e ≤ Facts.maxInt53) := by
  have bound : ∀ (k : String) (o : Option Int), optTimestamp k kvs = .ok o →
      ∀ v, o = some v → Facts.minInt53 ≤ v ∧ v ≤ Facts.maxInt53 := by
    intro k o ho v hv
    unfold optTimestamp at ho
    split at ho
    · cases ho; cases hv
    · cases ho; cases hv
    · split at ho
      · rename_i hb; cases ho; cases hv; exact hb
      · cases ho
    · cases ho
  have cmdok : ∀ c, parseCmd env kvs = .ok c → Command.Grammar env.lower c := by
    intro c hc
    unfold parseCmd at hc
    split at hc; · cases hc
    rename_i s _
    cases hp : Command.parse env.lower s with
    | error e => simp [hp] at hc
    | ok c2 =>
      simp only [hp] at hc; cases hc
      have hid := Command.C15_parse_id env.lower s c hp
      rw [hid]
      exact (Command.C15_parse_ok_iff env.lower s).1 ⟨c, hp⟩
  unfold dlgFromPayload at h
  split at h <;> try (cases h; done)
  split at h <;> try (cases h; done)
  rename_i iss aud sub cmd _ _ _ hcmd
  split at h; · cases h
  split at h; · cases h
  split at h <;> try (cases h; done)
  rename_i nonce _
  split at h; · cases h
  split at h <;> try (cases h; done)
  rename_i nbf exp hn he
  split at h; · cases h
  rename_i hlen
  cases h
  have hmin := C10_nonce_min.1
  exact ⟨by simp only at hlen ⊢; omega, cmdok cmd hcmd, bound "nbf" nbf hn, bound "exp" exp he⟩

/-- the tables and constants this property's theorems are stated over were READ OFF the current source on this run (a fact
that can no longer be read is replaced by its expected value so that the model keeps compiling; it is then listed in
`Facts.notExtracted` and this theorem fails) -/
theorem C10_facts_extracted : ∀ n ∈ ["dlgSchema", "invSchema", "dlgStructFields", "invStructFields", "dlgNonceMin", "invNonceMin", "dlgTag", "invTag", "maxInt53", "minInt53"], n ∈ Ucan.Facts.extracted := by decide

end Ucan.Token
