import Ucan.Lemmas.Robust
/-!
# C09 — decoders fail cleanly on arbitrary untrusted input

What a theorem can carry here: the models of the decoders are total Lean functions (accepted by the
termination checker: structural recursion, or recursion on an explicit fuel that the caller sets from the
input length), so "returns a value or an error, always terminates" holds of the MODEL by construction; the
theorems below are about the places where the Go code has a run-time panic or an allocation that the
input controls, which the models represent explicitly:

* `selector.Parse` slices `lookup[1:len(lookup)-1]` — modelled as the outcome `panicSliceBounds`;
  `C09_parse_never_panics` shows no input reaches it (for every input and every `\p{L}` oracle).
* `resolve` slices with computed bounds — in range for all inputs (`C09_slice_bounds_in_range`).
* integers beyond int64 (`AsInt` fails; `must.Int` and `DeepEqual` panic): the bound check is an error,
  comparisons are false (`C09_beyond_int64_*`).
* the CAR reader allocates a section from a declared length — capped and never more than what is present
  (`C09_section_bounded`); every decoded DAG-CBOR tree weighs no more than the bytes consumed
  (`C09_cbor_tree_bounded`), so a hostile declared length cannot produce a large value; a decoded selector
  and policy are no larger than their source (`C09_selector_bounded`, `C09_policy_bounded`).

What it cannot carry: that the Go code has no OTHER panic site, goroutine-stack exhaustion, and the
allocation behaviour of go-ipld-prime, libp2p and the standard library. Those are observed by the `robust`
stream (a test, every call under recover, deep inputs in a child process with a memory limit).
-/
set_option linter.unusedSimpArgs false
namespace Ucan.Selector

/-- C09 (selector parser): for every input text and every letter oracle, `Parse` returns a selector or one
    of its parse errors — the slice expression `lookup[1:len(lookup)-1]` is never evaluated with
    `len(lookup) < 2`, because a token holding a lone quote leaves the quote open and the whole selector
    is then rejected as unterminated before any token is classified. -/
theorem C09_parse_never_panics (isLetter : Nat → Bool) (s : Bytes) :
    parse isLetter s ≠ .error .panicSliceBounds := by
  intro h
  unfold parse at h
  split at h; · cases h
  split at h; · cases h
  split at h; · cases h
  split at h; · cases h
  simp only at h
  split at h; · cases h
  rename_i hopen
  obtain ⟨t, ht, hq⟩ := parseLoop_panic _ _ _ h
  have hcl := tokenize_closed s (by simpa using hopen) t ht
  rw [hcl] at hq; cases hq

/-- the panic outcome is reachable in the model of the token classifier taken alone: the theorem above is
    not vacuous (it is the tokenizer's quote discipline that protects the slice expression) -/
example : classifyBody (fun _ => false) [cLBr, cQuote, cRBr] = .error .panicSliceBounds := by rfl

/-- C09 (selector evaluation): the bounds handed to Go's `xs[start:end]` are always in range -/
theorem C09_slice_bounds_in_range (s0 s1 len : Int) (hlen : 0 ≤ len) :
    0 ≤ (sliceIndices s0 s1 len).1 ∧ (sliceIndices s0 s1 len).1 ≤ (sliceIndices s0 s1 len).2 ∧
      (sliceIndices s0 s1 len).2 ≤ len := C12_slice_in_range s0 s1 len hlen

end Ucan.Selector

namespace Ucan.Selector

/-- C09 (selector parser, memory): an accepted selector has at most one segment per input byte and the
    texts its segments keep add up to no more than the input -/
theorem C09_selector_bounded (isLetter : Nat → Bool) (s : Bytes) (sel : List Seg)
    (h : parse isLetter s = .ok sel) : sel.length ≤ s.length ∧ (print sel).length ≤ s.length := by
  have hz := h
  unfold parse at h
  split at h; · cases h
  split at h; · cases h
  split at h
  · rename_i hs; cases h; subst hs; decide
  split at h
  · rename_i hs; cases h; subst hs; decide
  simp only at h
  split at h; · cases h
  obtain ⟨new, hnew, hzip⟩ := parseLoop_zip _ _ _ _ h
  simp at hnew; subst hnew
  obtain ⟨h1, h2⟩ := zip_print_length _ _ hzip
  have hne : ∀ t ∈ (tokenize s).1, t ≠ [] := tokenizeLoop_nonempty 0 false [] [] s (by simp)
  have h3 := flatten_length_ge _ hne
  have h4 : (tokenize s).1.flatten = s := C14_tokenize_partition s
  rw [h4] at h1 h3
  omega

end Ucan.Selector

namespace Ucan.Cbor
open Ucan

/-- C09 (DAG-CBOR, memory): whatever the heads declare, a decoded tree — one unit per node plus the
    payload of every string, byte string, link and map key — weighs no more than the input -/
theorem C09_cbor_tree_bounded (b : Bytes) (n : Node) (h : decode b = some n) : weight n ≤ b.length := by
  unfold decode at h
  split at h
  · rename_i n' hd
    cases h
    have := (decode_bounded _).1 _ _ _ hd
    simpa using this
  · cases h

theorem length_le_weightL (xs : List Node) : xs.length ≤ weightL xs := by
  induction xs with
  | nil => simp [weightL]
  | cons x xs ih =>
    have : 1 ≤ weight x := by cases x <;> rw [weight] <;> omega
    rw [weightL]; simp only [List.length_cons]; omega

/-- C09 (hostile lengths): a list head that declares more elements than there are bytes left cannot be
    honoured — decoding fails instead of producing (or pre-sizing for) that many elements -/
theorem C09_declared_list_length_bounded (fuel k : Nat) (bs : Bytes) (h : bs.length < k) :
    decodeListF fuel k bs = none := by
  cases hd : decodeListF fuel k bs with
  | none => rfl
  | some p =>
    obtain ⟨xs, r⟩ := p
    have h1 := (decode_bounded fuel).2.1 _ _ _ _ hd
    have h2 := length_le_weightL xs
    omega

/-- the same for byte and text strings: a declared length beyond the end of the input is an error -/
theorem C09_declared_string_length_bounded (fuel : Nat) (hd : Byte) (bs r : Bytes) (m ai n : Nat)
    (hm : m = 2 ∨ m = 3) (hh : readHead (hd :: bs) = some (m, ai, n, r)) (h : r.length < n) :
    decodeF (fuel + 1) (hd :: bs) = none := by
  unfold decodeF
  rw [hh]
  rcases hm with hm | hm <;> subst hm <;> simp [h]

end Ucan.Cbor

namespace Ucan.Container

/-- C09 (containers, memory): the section a CAR reader allocates from a declared length is non-empty, at
    most 32 MiB, and entirely present in the input: the allocation is bounded by the input size -/
theorem C09_section_bounded (e : Ending) (b d rest : Bytes) (h : ldRead e b = .section d rest) :
    0 < d.length ∧ d.length ≤ maxSection ∧ d.length + rest.length < b.length := by
  unfold ldRead at h
  split at h
  · split at h <;> cases h
  · rename_i hne
    split at h
    · cases h
    · rename_i l r hu
      split at h; · cases h
      split at h; · cases h
      split at h; · cases h
      cases h
      have hr := readUvarint_consumes 10 b l r hu
      simp only [List.length_take, List.length_drop]
      omega

end Ucan.Container

namespace Ucan.Policy
open Ucan

mutual
theorem intsInBounds_fits : ∀ n : Node, intsInBounds n = true → Node.fitsInt64 n = true
  | .int i, h => by
    simp only [intsInBounds, Bool.and_eq_true, decide_eq_true_eq] at h
    simp only [Node.fitsInt64, intFits64, Bool.and_eq_true, decide_eq_true_eq]
    have h3 : minInt64 = -9223372036854775808 := rfl
    have h4 : maxInt64 = 9223372036854775807 := rfl
    have h1 : Facts.minInt53 = -9007199254740991 := rfl
    have h2 : Facts.maxInt53 = 9007199254740991 := rfl
    omega
  | .list xs, h => by
    rw [intsInBounds] at h; rw [Node.fitsInt64]; exact intsInBoundsList_fits xs h
  | .map kvs, h => by
    rw [intsInBounds] at h; rw [Node.fitsInt64]; exact intsInBoundsMap_fits kvs h
  | .null, _ => by simp [Node.fitsInt64]
  | .bool _, _ => by simp [Node.fitsInt64]
  | .float _, _ => by simp [Node.fitsInt64]
  | .str _, _ => by simp [Node.fitsInt64]
  | .bytes _, _ => by simp [Node.fitsInt64]
  | .link _, _ => by simp [Node.fitsInt64]
theorem intsInBoundsList_fits : ∀ xs : List Node, intsInBoundsList xs = true → Node.fitsInt64List xs = true
  | [], _ => by rw [Node.fitsInt64List]
  | x :: xs, h => by
    rw [intsInBoundsList, Bool.and_eq_true] at h
    rw [Node.fitsInt64List, Bool.and_eq_true]
    exact ⟨intsInBounds_fits x h.1, intsInBoundsList_fits xs h.2⟩
theorem intsInBoundsMap_fits : ∀ kvs : List (Bytes × Node), intsInBoundsMap kvs = true → Node.fitsInt64Map kvs = true
  | [], _ => by rw [Node.fitsInt64Map]
  | (_, x) :: xs, h => by
    rw [intsInBoundsMap, Bool.and_eq_true] at h
    rw [Node.fitsInt64Map, Bool.and_eq_true]
    exact ⟨intsInBounds_fits x h.1, intsInBoundsMap_fits xs h.2⟩
end

/-- C09 (integers beyond int64, decoding): a policy node that holds, at any depth, an integer that does
    not fit int64 is refused with the integer-bounds ERROR (the Go code used to panic in `must.Int`) -/
theorem C09_beyond_int64_policy_is_error (isLetter : Nat → Bool) (n : Node) (h : Node.fitsInt64 n = false) :
    fromIPLD isLetter n = .error .intBounds := by
  unfold fromIPLD
  have : intsInBounds n = false := by
    cases hb : intsInBounds n with
    | false => rfl
    | true => rw [intsInBounds_fits n hb] at h; cases h
  simp [this]

/-- C09 (integers beyond int64, matching): comparing with such an integer is `false` for every operator
    (the Go code used to panic in `must.Int` and in `datamodel.DeepEqual`) -/
theorem C09_beyond_int64_compare_is_false (a b : Int) (op : Op) (h : intFits64 a = false ∨ intFits64 b = false) :
    cmpOp op (.int b) (.int a) = false := C11_ordered_int_beyond_int64 a b op h

/-- C09 (policies, memory): a decoded policy is as large as the node it was read from — written back it
    is that node with every selector text replaced by what the selector parser prints for it (no longer
    than the source text, `C09_selector_bounded`) -/
theorem C09_policy_bounded (isLetter : Nat → Bool) (n : Node) (p : List PStmt)
    (h : fromIPLD isLetter n = .ok p) : toIPLD p = normPolicy isLetter n := C14_policy_roundtrip isLetter n p h

end Ucan.Policy
