import Ucan.Props.C03
import Ucan.Props.C04
import Ucan.Lemmas.ArgsOrder
/-!
# C05 — every chain that satisfies the delegation rules is accepted
-/
set_option linter.unusedSectionVars false
namespace Ucan.Chain
open Ucan.Policy

variable {D C X : Type} [DecidableEq D]

/-- C05 (completeness): if all referenced delegations load, the chain is aligned on principals, names
    the subject, only narrows the command, everything is time-valid and every policy statement passes,
    then the invocation is allowed -/
theorem C05_complete (ld : C → Option (Dlg D)) (now : Int) (inv : Inv D C X) (args : Node) (ds : List (Dlg D))
    (hl : loadProofs ld inv.prf = .ok ds) (hp : PrincipalSpec inv ds) (hc : CommandSpec inv ds)
    (ht : TimeSpec now inv ds) (ha : PolicySpec ds args) :
    executionAllowed ld now inv args = .ok () := by
  unfold executionAllowed
  simp only [hl, (verifyProofs_ok_iff inv ds).2 ⟨hp, hc⟩, (verifyTime_ok_iff now inv ds).2 ht]
  exact (verifyArgs_ok_iff ds args).2 ha

/-- C05: exact characterisation — allowed iff all clauses of the specification hold -/
theorem C05_allowed_iff (ld : C → Option (Dlg D)) (now : Int) (inv : Inv D C X) (args : Node) :
    executionAllowed ld now inv args = .ok () ↔
      ∃ ds, loadProofs ld inv.prf = .ok ds ∧ PrincipalSpec inv ds ∧ CommandSpec inv ds ∧
        TimeSpec now inv ds ∧ PolicySpec ds args := by
  constructor
  · intro h
    obtain ⟨ds, hl, hv, ht, ha⟩ := allowed_loaded_verified ld now inv args h
    have := (verifyProofs_ok_iff inv ds).1 hv
    exact ⟨ds, hl, this.1, this.2, (verifyTime_ok_iff now inv ds).1 ht, (verifyArgs_ok_iff ds args).1 ha⟩
  · rintro ⟨ds, hl, hp, hc, ht, ha⟩
    exact C05_complete ld now inv args ds hl hp hc ht ha

/-- C05: the optional audience, metadata, nonce, cause and issue time do not occur in the decision -/
theorem C05_irrelevant_fields (ld : C → Option (Dlg D)) (now : Int) (inv : Inv D C X) (args : Node)
    (a : Option D) (n m c i : X) :
    executionAllowed ld now { inv with aud := a, nonce := n, metadata := m, cause := c, iat := i } args =
      executionAllowed ld now inv args := rfl

/-- C05: the verdict does not depend on the ORDER in which the invoker (or the argument hook) supplied the arguments: the
    policies are matched on `Args.ToIPLD`, one map with sorted keys, which is the same node for every order of supply
    (distinct keys: `args.Add` refuses a key that is already present) -/
theorem C05_args_supply_order_irrelevant (ld : C → Option (Dlg D)) (now : Int) (inv : Inv D C X)
    (kvs kvs' : List (Bytes × Node)) (h : kvs.Perm kvs') (nd : (kvs.map (·.1)).Nodup) :
    executionAllowed ld now inv (Immut.argsNode kvs) = executionAllowed ld now inv (Immut.argsNode kvs') := by
  rw [Immut.argsNode_perm h nd]

/-- … and a statement over the whole argument map sees the keys in sorted order -/
theorem C05_args_node_sorted (kvs : List (Bytes × Node)) :
    ∃ out, Immut.argsNode kvs = .map out ∧ (out.map (·.1)).Pairwise (fun a b => Immut.bytesLe a b = true) :=
  Immut.argsNode_sorted kvs

example : Immut.argsNode [([0x62], .int 2), ([0x61], .int 1)] = .map [([0x61], .int 1), ([0x62], .int 2)] := by
  simp [Immut.argsNode, Immut.sortKeys, Immut.insertSorted, Immut.bytesLe, Node.lookup]

/-- every loadable proof list loads (so "all loadable" is a hypothesis that can be met) -/
theorem C05_loadable (ld : C → Option (Dlg D)) (cs : List C) (h : ∀ c ∈ cs, (ld c).isSome) :
    ∃ ds, loadProofs ld cs = .ok ds := loadProofs_ok_of_all ld cs h

end Ucan.Chain
