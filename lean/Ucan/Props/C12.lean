import Ucan.Lemmas.Selector
/-!
# C12 — selectors resolve compositionally with the documented index and slice rules

Property theorems only. Model: `Ucan/Model/Selector.lean`; spec: `Ucan/Spec/Selector.lean`.
-/
set_option linter.unusedSimpArgs false
namespace Ucan.Selector

/-- one iteration of the Go loop is one step of the specification -/
theorem resolve_cons (l : Lat) (seg : Seg) (rest : List Seg) (cur : Option Node) :
    resolve l (seg :: rest) cur = stepSpec l (classify seg) seg.optional cur >>= resolve l rest := by
  conv => lhs; unfold resolve
  unfold classify
  by_cases h1 : seg.identity
  · simp only [h1, if_true, stepSpec]; rfl
  · by_cases h2 : seg.iterator
    · simp only [h1, h2, if_true, if_false, Bool.false_eq_true, stepSpec]
      cases hopt : seg.optional <;> cases hn : l.iterNull <;> cases hsc : l.iterScalar <;>
        rcases cur with _ | (_ | _ | _ | _ | _ | _ | _ | _ | _) <;>
        simp [bind, Except.bind, hn, hsc]
    · by_cases h3 : seg.isField
      · simp only [h1, h2, h3, if_true, if_false, Bool.false_eq_true, stepSpec]
        cases hopt : seg.optional <;> rcases cur with _ | (_ | _ | _ | _ | _ | _ | _ | kvs | _) <;>
          simp [bind, Except.bind, failOpt]
        all_goals (cases Node.lookup seg.field kvs <;> simp [bind, Except.bind])
      · simp only [h1, h2, h3, if_false, Bool.false_eq_true]
        cases hs : seg.slice with
        | some p =>
          obtain ⟨s0, s1⟩ := p
          simp only [stepSpec]
          cases hopt : seg.optional <;> rcases cur with _ | (_ | _ | _ | _ | s | bs | xs | _ | _) <;>
            simp [bind, Except.bind, failOpt]
          all_goals first
            | (rw [extract_sliceIndices_eq_pySlice]; rfl)
            | (cases hl : l.slice <;> simp [bind, Except.bind, hl])
        | none =>
          simp only [stepSpec]
          cases hopt : seg.optional <;> rcases cur with _ | (_ | _ | _ | _ | _ | bs | xs | _ | _) <;>
            simp [bind, Except.bind, failOpt, ← goIndex_eq_pyIndex]
          all_goals first
            | (cases goIndex xs seg.index <;> simp [bind, Except.bind])
            | (cases goIndex bs seg.index <;> simp [bind, Except.bind])

/-- resolving a selector equals resolving its segments one after the other (the fold of the
    per-kind steps of the specification): no early exit, no segment ignored -/
theorem C12_resolve_eq_spec (l : Lat) (segs : List Seg) (cur : Option Node) :
    resolve l segs cur = resolveSpec l segs cur := by
  unfold resolveSpec
  induction segs generalizing cur with
  | nil => simp [resolve, pure, Except.pure]
  | cons seg rest ih =>
    rw [List.foldlM_cons, resolve_cons]
    congr 1
    funext c
    exact ih c

/-- `resolve (a ++ b)` is `resolve a` followed by `resolve b` on its result -/
theorem C12_compositional (l : Lat) (a b : List Seg) (cur : Option Node) :
    resolve l (a ++ b) cur = resolve l a cur >>= resolve l b := by
  induction a generalizing cur with
  | nil => simp [resolve, bind, Except.bind]
  | cons seg rest ih =>
    rw [List.cons_append, resolve_cons, resolve_cons]
    cases stepSpec l (classify seg) seg.optional cur with
    | error e => rfl
    | ok v => exact ih v

/-- slices follow Python's clamping: Go's bound arithmetic + `xs[start:end]` selects `xs[lo:hi]` -/
theorem C12_slice_eq_python {α} (xs : List α) (s0 s1 : Int) :
    extract xs (sliceIndices s0 s1 xs.length).1 (sliceIndices s0 s1 xs.length).2 =
      pySlice xs (openLo s0) (openHi s1) :=
  extract_sliceIndices_eq_pySlice xs s0 s1

/-- the Go slice expressions `b[start:end]`, `runes[start:end]` never panic: bounds are in range -/
theorem C12_slice_in_range (s0 s1 len : Int) (hlen : 0 ≤ len) :
    0 ≤ (sliceIndices s0 s1 len).1 ∧ (sliceIndices s0 s1 len).1 ≤ (sliceIndices s0 s1 len).2 ∧
      (sliceIndices s0 s1 len).2 ≤ len :=
  sliceIndices_in_range s0 s1 len hlen

/-- negative indexes count from the end -/
theorem C12_index_eq_python {α} (xs : List α) (i : Int) : goIndex xs i = pyIndex xs i :=
  goIndex_eq_pyIndex xs i

/-- a failing optional field/index segment yields "no value", never an error -/
theorem C12_optional_never_errors (l : Lat) (k : SegKind) (cur : Option Node)
    (hk : (∃ f, k = .field f) ∨ (∃ i, k = .index i)) :
    ∃ r, stepSpec l k true cur = .ok r := by
  rcases hk with ⟨f, rfl⟩ | ⟨i, rfl⟩
  · unfold stepSpec
    rcases cur with _ | (_ | _ | _ | _ | _ | _ | _ | kvs | _) <;> simp [failOpt]
    cases Node.lookup f kvs <;> simp
  · unfold stepSpec
    rcases cur with _ | (_ | _ | _ | _ | _ | bs | xs | _ | _) <;> simp [failOpt]
    · cases pyIndex bs i <;> simp
    · cases pyIndex xs i <;> simp

/-- a failing non-optional field segment is an error -/
theorem C12_required_field_missing (l : Lat) (f : Bytes) (kvs : List (Bytes × Node))
    (h : Node.lookup f kvs = none) : stepSpec l (.field f) false (some (.map kvs)) = .error .resolution := by
  simp [stepSpec, h, failOpt]

/-- a failing non-optional index segment is an error -/
theorem C12_required_index_out_of_range (l : Lat) (i : Int) (xs : List Node)
    (h : pyIndex xs i = none) : stepSpec l (.index i) false (some (.list xs)) = .error .resolution := by
  simp [stepSpec, h, failOpt]

/-- the segment kinds the parser builds are recognised as such by the `switch` of `resolve`,
    in particular a field segment with an EMPTY name is a field, not index 0 -/
theorem C12_classify_field (str f : Bytes) (opt : Bool) :
    classify { str := str, optional := opt, isField := true, field := f } = .field f := by
  simp [classify]

theorem C12_classify_index (str : Bytes) (i : Int) (opt : Bool) :
    classify { str := str, optional := opt, index := i } = .index i := by
  simp [classify]

theorem C12_classify_iterator (str : Bytes) (opt : Bool) :
    classify { str := str, optional := opt, iterator := true } = .iterator := by
  simp [classify]

theorem C12_classify_slice (str : Bytes) (s0 s1 : Int) (opt : Bool) :
    classify { str := str, optional := opt, slice := some (s0, s1) } = .slice (openLo s0) (openHi s1) := by
  simp [classify, openLo, openHi]

-- non-vacuity: `.["a"][]` on {a: {x: 1, y: 2}} walks through the iterator (nothing after it is ignored)
example (l : Lat) :
    resolve l [{ str := [], isField := true, field := [97] }, { str := [], iterator := true },
             { str := [], index := -1 }]
      (some (.map [([97], .map [([120], .int 1), ([121], .int 2)])])) = .ok (some (.int 2)) := by
  simp [resolve, Node.lookup, Node.values, goIndex]

/-- the points C12 leaves open, stated: two readings differ only on an OPTIONAL slice or an OPTIONAL iterator (applied to a
value the segment cannot work on); on every field, index and identity segment, and on every non-optional segment, all readings
agree -/
theorem C12_latitude_only_optional_slice_or_iterator (l1 l2 : Lat) (k : SegKind) (opt : Bool) (cur : Option Node)
    (h : stepSpec l1 k opt cur ≠ stepSpec l2 k opt cur) :
    opt = true ∧ ((∃ lo hi, k = .slice lo hi) ∨ k = .iterator) := by
  cases k with
  | slice lo hi =>
    refine ⟨?_, Or.inl ⟨lo, hi, rfl⟩⟩
    cases opt
    · rcases cur with _ | (_ | _ | _ | _ | _ | _ | _ | _ | _) <;> simp [stepSpec] at h
    · rfl
  | iterator =>
    refine ⟨?_, Or.inr rfl⟩
    cases opt
    · rcases cur with _ | (_ | _ | _ | _ | _ | _ | _ | _ | _) <;> simp [stepSpec] at h
    · rfl
  | _ => simp [stepSpec] at h

example : resolve {} [{ str := [], optional := true, slice := some (0, 2) }] (some (.int 5)) = .error .resolution ∧
    resolve { slice := true } [{ str := [], optional := true, slice := some (0, 2) }] (some (.int 5)) = .ok none ∧
    resolve { iterScalar := .none } [{ str := [], optional := true, iterator := true }] (some (.int 5)) = .ok none ∧
    resolve {} [{ str := [], optional := true, iterator := true }] (some (.int 5)) = .error .resolution := by
  simp [resolve]

end Ucan.Selector
