import Ucan.Props.C02
import Ucan.Props.C11
/-!
# C03 — every policy statement of every delegation in the chain binds the arguments
-/
set_option linter.unusedSectionVars false
namespace Ucan.Chain
open Ucan.Policy

variable {D C X : Type} [DecidableEq D]

theorem verifyArgs_ok_iff (ds : List (Dlg D)) (args : Node) :
    verifyArgs ds args = .ok () ↔ PolicySpec ds args := by
  unfold verifyArgs PolicySpec
  constructor
  · intro h
    split at h
    · rename_i hm
      have := (match_flatten_iff _ _).1 hm
      intro d hd s hs
      exact this d.pol (List.mem_map_of_mem hd) s hs
    · cases h
  · intro h
    rw [if_pos]
    apply (match_flatten_iff _ _).2
    intro p hp s hs
    obtain ⟨d, hd, rfl⟩ := List.mem_map.1 hp
    exact h d hd s hs

/-- C03 (soundness): the arguments of an allowed invocation satisfy every statement of the policy of every
    delegation of its chain (root and leaf included) -/
theorem C03_sound (ld : C → Option (Dlg D)) (now : Int) (inv : Inv D C X) (args : Node)
    (h : executionAllowed ld now inv args = .ok ()) :
    ∃ ds, loadProofs ld inv.prf = .ok ds ∧ PolicySpec ds args := by
  obtain ⟨ds, hl, _, _, ha⟩ := allowed_loaded_verified ld now inv args h
  exact ⟨ds, hl, (verifyArgs_ok_iff ds args).1 ha⟩

/-- C03: adding a delegation anywhere in a chain never turns failing arguments into passing ones -/
theorem C03_antitone_links (xs ys : List (Dlg D)) (d : Dlg D) (args : Node)
    (h : verifyArgs (xs ++ d :: ys) args = .ok ()) : verifyArgs (xs ++ ys) args = .ok () := by
  rw [verifyArgs_ok_iff] at h ⊢
  intro e he s hs
  apply h e _ s hs
  rcases List.mem_append.1 he with he | he
  · exact List.mem_append_left _ he
  · exact List.mem_append_right _ (List.mem_cons_of_mem _ he)

/-- C03: adding a statement anywhere in the policy of any link never turns failing arguments into passing ones -/
theorem C03_antitone_statements (xs ys : List (Dlg D)) (d : Dlg D) (p₁ p₂ : List Stmt) (s : Stmt) (args : Node)
    (h : verifyArgs (xs ++ { d with pol := p₁ ++ s :: p₂ } :: ys) args = .ok ()) :
    verifyArgs (xs ++ { d with pol := p₁ ++ p₂ } :: ys) args = .ok () := by
  rw [verifyArgs_ok_iff] at h ⊢
  intro e he st hst
  rcases List.mem_append.1 he with he | he
  · exact h e (List.mem_append_left _ he) st hst
  · rcases List.mem_cons.1 he with rfl | he
    · apply h { d with pol := p₁ ++ s :: p₂ } (List.mem_append_right _ List.mem_cons_self) st
      simp only [] at hst ⊢
      rcases List.mem_append.1 hst with hst | hst
      · exact List.mem_append_left _ hst
      · exact List.mem_append_right _ (List.mem_cons_of_mem _ hst)
    · exact h e (List.mem_append_right _ (List.mem_cons_of_mem _ he)) st hst

/-- C03: with an argument hook, the arguments the hook returns are the ones that are checked -/
theorem C03_hook (ld : C → Option (Dlg D)) (now : Int) (inv : Inv D C X) (hook : Node → Option Node) (a : Node)
    (hh : hook inv.args = some a) :
    allowedWithHook ld now inv hook = executionAllowed ld now inv a := by
  simp [allowedWithHook, hh]

theorem C03_hook_error (ld : C → Option (Dlg D)) (now : Int) (inv : Inv D C X) (hook : Node → Option Node)
    (hh : hook inv.args = none) : allowedWithHook ld now inv hook ≠ .ok () := by
  simp [allowedWithHook, hh]

end Ucan.Chain
