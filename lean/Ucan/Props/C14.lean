import Ucan.Spec.PolicyIpld
import Ucan.Lemmas.SelectorReparse
/-!
# C14 — policies and selectors are parsed losslessly or rejected
-/
set_option linter.unusedSimpArgs false
namespace Ucan.Selector
open Ucan.Policy

/-- the tokenizer partitions its input: no byte is dropped, none is invented -/
theorem tokenizeLoop_flatten (prev : Byte) (inQ : Bool) (cur : Bytes) (acc : List Bytes) (rest : Bytes) :
    (tokenizeLoop prev inQ cur acc rest).1.flatten = acc.reverse.flatten ++ cur.reverse ++ rest := by
  induction rest generalizing prev inQ cur acc with
  | nil =>
    unfold tokenizeLoop
    by_cases h : cur = []
    · simp [h]
    · simp [h]
  | cons c rest ih =>
    unfold tokenizeLoop
    by_cases h1 : c = cQuote ∧ prev ≠ cBackslash
    · rw [if_pos h1, ih]; simp
    · rw [if_neg h1]
      by_cases h2 : inQ = true
      · rw [if_pos h2, ih]; simp
      · rw [if_neg h2]
        by_cases h3 : c = cDot ∨ c = cLBr
        · rw [if_pos h3, ih]
          by_cases h : cur = []
          · simp [h]
          · simp [h]
        · rw [if_neg h3, ih]; simp

theorem C14_tokenize_partition (s : Bytes) : (tokenize s).1.flatten = s := by
  unfold tokenize
  rw [tokenizeLoop_flatten]; simp

/-- every successfully classified token keeps its text (identity segments are stored as ".") -/
theorem parseToken_segOfTok (isLetter : Nat → Bool) (li : Bool) (tok : Bytes) (sg : Seg)
    (h : parseToken isLetter li tok = .ok sg) : SegOfTok tok sg := by
  unfold parseToken at h
  simp only at h
  by_cases hdot : (if tok.getLast? = some cQM then trimQM tok else tok) = [cDot]
  · rw [if_pos hdot] at h
    by_cases hli : li = true
    · rw [if_pos hli] at h; cases h
    · rw [if_neg hli] at h
      cases h
      right
      refine ⟨rfl, rfl, ?_⟩
      by_cases ho : tok.getLast? = some cQM
      · simpa [ho] using hdot
      · have : tok = [cDot] := by simpa [ho] using hdot
        rw [this]; decide
  · rw [if_neg hdot] at h
    cases hb : classifyBody isLetter (if tok.getLast? = some cQM then trimQM tok else tok) with
    | error e => rw [hb] at h; cases h
    | ok body =>
      rw [hb] at h
      cases h
      left
      cases body <;> rfl

theorem parseLoop_zip (isLetter : Nat → Bool) (sel : List Seg) (toks : List Bytes) (res : List Seg)
    (h : parseLoop isLetter sel toks = .ok res) : ∃ new, res = sel ++ new ∧ Zip SegOfTok toks new := by
  induction toks generalizing sel with
  | nil => simp [parseLoop] at h; subst h; exact ⟨[], by simp, .nil⟩
  | cons tok toks ih =>
    unfold parseLoop at h
    split at h
    · cases h
    · rename_i sg hsg
      obtain ⟨new, hnew, hz⟩ := ih _ h
      exact ⟨sg :: new, by simp [hnew], .cons (parseToken_segOfTok _ _ _ _ hsg) hz⟩

/-- C14 (selectors): an accepted selector text is interpreted in full — it is the concatenation of tokens,
    each of which was classified into exactly one segment that keeps the token's text -/
theorem C14_nothing_dropped (isLetter : Nat → Bool) (s : Bytes) (sel : List Seg) (h : parse isLetter s = .ok sel) :
    ∃ toks, toks.flatten = s ∧ Zip SegOfTok toks sel := by
  unfold parse at h
  split at h; · cases h
  split at h; · cases h
  split at h
  · rename_i hs; cases h; subst hs
    exact ⟨[[cDot]], rfl, .cons (Or.inl rfl) .nil⟩
  split at h
  · rename_i hs; cases h; subst hs
    exact ⟨[[cDot, cQM]], rfl, .cons (Or.inl rfl) .nil⟩
  simp only at h
  split at h; · cases h
  obtain ⟨new, hnew, hz⟩ := parseLoop_zip _ _ _ _ h
  simp at hnew; subst hnew
  exact ⟨(tokenize s).1, C14_tokenize_partition s, hz⟩

/-- an unterminated quote is rejected (nothing after it can be silently dropped) -/
theorem C14_unterminated_rejected (isLetter : Nat → Bool) (s : Bytes) (h : (tokenize s).2 = true)
    (h1 : s ≠ [cDot]) (h2 : s ≠ [cDot, cQM]) : ∃ e, parse isLetter s = .error e := by
  cases hp : parse isLetter s with
  | error e => exact ⟨e, rfl⟩
  | ok sel =>
    exfalso
    unfold parse at hp
    by_cases e0 : s = []
    · rw [if_pos e0] at hp; cases hp
    rw [if_neg e0] at hp
    by_cases e1 : s.head? ≠ some cDot
    · rw [if_pos e1] at hp; cases hp
    rw [if_neg e1, if_neg h1, if_neg h2] at hp
    rcases ht : tokenize s with ⟨toks, oq⟩
    rw [ht] at h hp
    simp only at h hp
    subst h
    simp at hp

theorem flatten_singleton (toks : List Bytes) (a : Byte) (hne : ∀ t ∈ toks, t ≠ []) (h : toks.flatten = [a]) :
    toks = [[a]] := by
  rcases toks with _ | ⟨t, ts⟩
  · simp at h
  · have ht := hne t List.mem_cons_self
    rcases t with _ | ⟨x, xs⟩
    · exact absurd rfl ht
    · simp only [List.flatten_cons, List.cons_append, List.cons.injEq] at h
      obtain ⟨hx, hrest⟩ := h
      have h1 : xs = [] := (List.append_eq_nil_iff.mp hrest).1
      have h2 : ts.flatten = [] := (List.append_eq_nil_iff.mp hrest).2
      rcases ts with _ | ⟨u, us⟩
      · subst hx; subst h1; rfl
      · have hu := hne u (List.mem_cons_of_mem _ List.mem_cons_self)
        simp only [List.flatten_cons, List.append_eq_nil_iff] at h2
        exact absurd h2.1 hu

/-- C14 (selectors, print and re-parse): the text printed for an accepted selector is accepted again and
    parses to the very same selector — same segments, same stored text — so printing loses nothing that
    parsing understood (identity segments written `.?` are printed `.`, which is what they mean) -/
theorem C14_print_reparse (isLetter : Nat → Bool) (s : Bytes) (sel : List Seg) (h : parse isLetter s = .ok sel) :
    parse isLetter (print sel) = .ok sel := by
  unfold parse at h
  split at h; · cases h
  rename_i hs0
  split at h; · cases h
  rename_i hhead
  split at h
  · cases h; rfl
  split at h
  · cases h; rfl
  simp only at h
  split at h; · cases h
  rename_i hopen
  have hhead' : s.head? = some cDot := by
    cases hh : s.head? with
    | none => cases s <;> simp_all
    | some c => by_cases hc : c = cDot
                · rw [hc]
                · exfalso; apply hhead; rw [hh]; simpa using hc
  have hclosed : (tokenize s).2 = false := by simpa using hopen
  have hok := tokenize_tokOK s hhead' hclosed
  have hpart := C14_tokenize_partition s
  have hprint := parseLoop_print isLetter _ _ _ h
  simp only [print, List.map_nil, List.flatten_nil, List.nil_append] at hprint
  have hprint' : print sel = ((tokenize s).1.map normTok).flatten := hprint
  -- name the tokens
  generalize htk : (tokenize s).1 = toks at *
  have hok' : ∀ t ∈ toks.map normTok, tokOK t = true := by
    intro t ht
    obtain ⟨u, hu, rfl⟩ := List.mem_map.mp ht
    exact tokOK_normTok u (hok u hu)
  have hne' : ∀ t ∈ toks.map normTok, t ≠ [] := fun t ht => tokOK_ne_nil t (hok' t ht)
  rw [hprint']
  -- the first token starts with '.'
  rcases toks with _ | ⟨t, ts⟩
  · simp at hpart; exact absurd hpart.symm (by simpa using hs0)
  have ht_ok := hok t List.mem_cons_self
  have hthead : t.head? = some cDot := by
    rcases t with _ | ⟨c, r⟩
    · simp [tokOK] at ht_ok
    · simp only [List.flatten_cons, List.cons_append] at hpart
      rw [← hpart] at hhead'
      simpa using hhead'
  have hnhead : (normTok t).head? = some cDot := by
    unfold normTok
    by_cases hd : (if t.getLast? = some cQM then trimQM t else t) = [cDot]
    · rw [if_pos hd]; rfl
    · rw [if_neg hd]; exact hthead
  unfold parse
  have g1 : ((t :: ts).map normTok).flatten ≠ [] := by
    simp only [List.map_cons, List.flatten_cons]
    intro hnil
    exact hne' (normTok t) (by simp) (List.append_eq_nil_iff.mp hnil).1
  have g2 : ¬ (((t :: ts).map normTok).flatten.head? ≠ some cDot) := by
    simp only [List.map_cons, List.flatten_cons, ne_eq, Classical.not_not]
    rcases hn : normTok t with _ | ⟨c, r⟩
    · rw [hn] at hnhead; simp at hnhead
    · rw [hn] at hnhead; simpa using hnhead
  rw [if_neg g1, if_neg g2]
  by_cases g3 : ((t :: ts).map normTok).flatten = [cDot]
  · rw [if_pos g3]
    have hsing := flatten_singleton _ cDot hne' g3
    simp only [List.map_cons, List.cons.injEq, List.map_eq_nil_iff] at hsing
    obtain ⟨hnt, hts⟩ := hsing
    subst hts
    unfold parseLoop at h
    rw [← parseToken_normTok, hnt] at h
    have hp : parseToken isLetter false [cDot] = .ok { str := [cDot], identity := true } := by
      unfold parseToken
      have h0 : (([cDot] : Bytes).getLast? = some cQM) = False := by decide
      simp only [h0, if_false, if_true]
      rfl
    simp only [List.getLast?_nil] at h
    rw [hp] at h
    simp only [parseLoop, List.nil_append] at h
    exact h
  · rw [if_neg g3]
    by_cases g4 : ((t :: ts).map normTok).flatten = [cDot, cQM]
    · exfalso
      -- the first token is "." or ".?": both impossible
      simp only [List.map_cons, List.flatten_cons] at g4
      rcases hn : normTok t with _ | ⟨c, r⟩
      · exact hne' (normTok t) (by simp) hn
      · rw [hn] at g4
        simp only [List.cons_append, List.cons.injEq] at g4
        obtain ⟨hc, hrest⟩ := g4
        rcases r with _ | ⟨c2, r2⟩
        · -- normTok t = ".", the rest flattens to "?": its first token would start with '?'
          simp only [List.nil_append] at hrest
          have hne2 : ∀ u ∈ ts.map normTok, u ≠ [] := fun u hu => hne' u (by simp at hu ⊢; exact Or.inr hu)
          have := flatten_singleton _ cQM hne2 hrest
          have hq : tokOK [cQM] = true := hok' [cQM] (by simp [this])
          revert hq; decide
        · simp only [List.cons_append, List.cons.injEq] at hrest
          obtain ⟨hc2, hr2⟩ := hrest
          have hr2' : r2 = [] := (List.append_eq_nil_iff.mp hr2).1
          subst hc; subst hc2; subst hr2'
          -- normTok t = ".?" is impossible: such a token is stored as "."
          unfold normTok at hn
          by_cases hd : (if t.getLast? = some cQM then trimQM t else t) = [cDot]
          · rw [if_pos hd] at hn; cases hn
          · rw [if_neg hd] at hn
            subst hn
            exact hd (by decide)
    · rw [if_neg g4]
      have htok := tokenize_flatten _ hok'
      rw [htok]
      simp only [Bool.false_eq_true, if_false]
      rw [parseLoop_normTok]
      exact h

-- non-vacuity: `.[0].?` is accepted (an index segment, then an identity segment written `.?`) and is
-- printed `.[0].`, which by the theorem parses to the same two segments
example : (match parse (fun _ => false) [46, 91, 48, 93, 46, 63] with | .ok sel => print sel | .error _ => []) =
    [46, 91, 48, 93, 46] := by rfl

end Ucan.Selector

namespace Ucan.Policy
open Ucan.Selector

theorem arg2_reprint (isLetter : Nat → Bool) (a : Node) (sel : List Seg)
    (h : arg2AsSelector isLetter a = .ok sel) : ∃ t, a = .str t ∧ reprint isLetter t = print sel := by
  unfold arg2AsSelector at h
  cases a <;> simp only at h <;> try cases h
  rename_i t
  cases hp : parse isLetter t with
  | error e => rw [hp] at h; cases h
  | ok s' =>
    rw [hp] at h; cases h
    exact ⟨t, rfl, by simp [reprint, hp]⟩

theorem opOfKind_kindOfOp (k : Bytes) (o : Op) (h : opOfKind k = some o) : kindOfOp o = k := by
  unfold opOfKind at h
  split at h; · cases h; rename_i e; exact e.symm
  split at h; · cases h; rename_i e; exact e.symm
  split at h; · cases h; rename_i e; exact e.symm
  split at h; · cases h; rename_i e; exact e.symm
  split at h; · cases h; rename_i e; exact e.symm
  cases h

mutual
theorem stmt_roundtrip (isLetter : Nat → Bool) : ∀ (n : Node) (s : PStmt),
    stmtFromIPLD isLetter n = .ok s → stmtToIPLD s = normStmt isLetter n
  | .list [opN, a], s, h => by
    unfold stmtFromIPLD at h
    cases opN <;> simp only at h <;> try cases h
    rename_i op
    unfold normStmt
    by_cases h1 : op = Facts.kindNot
    · simp only [h1, if_true] at h ⊢
      cases hs : stmtFromIPLD isLetter a with
      | error e => rw [hs] at h; cases h
      | ok s' =>
        rw [hs] at h; cases h
        simp only [stmtToIPLD, stmt_roundtrip isLetter a s' hs]
    · simp only [h1, if_false] at h ⊢
      by_cases h2 : op = Facts.kindAnd
      · simp only [h2, if_true, true_or] at h ⊢
        cases a <;> simp only at h <;> try cases h
        rename_i xs
        cases hs : stmtsFromIPLD isLetter xs with
        | error e => rw [hs] at h; cases h
        | ok ss =>
          rw [hs] at h; cases h
          simp only [stmtToIPLD, stmts_roundtrip isLetter xs ss hs]
      · simp only [h2, if_false, false_or] at h ⊢
        by_cases h3 : op = Facts.kindOr
        · simp only [h3, if_true] at h ⊢
          cases a <;> simp only at h <;> try cases h
          rename_i xs
          cases hs : stmtsFromIPLD isLetter xs with
          | error e => rw [hs] at h; cases h
          | ok ss =>
            rw [hs] at h; cases h
            simp only [stmtToIPLD, stmts_roundtrip isLetter xs ss hs]
        · simp only [h3, if_false] at h
          cases h
  | .list [opN, a, b], s, h => by
    unfold stmtFromIPLD at h
    cases opN <;> simp only at h <;> try cases h
    rename_i op
    cases ho : opOfKind op with
    | some o =>
      rw [ho] at h
      simp only at h
      cases hsel : arg2AsSelector isLetter a with
      | error e => rw [hsel] at h; cases h
      | ok sel =>
        rw [hsel] at h; cases h
        obtain ⟨t, rfl, ht⟩ := arg2_reprint isLetter a sel hsel
        unfold normStmt
        simp only [ho, Option.isSome_some, true_or, if_true, stmtToIPLD, ht, opOfKind_kindOfOp op o ho]
    | none =>
      rw [ho] at h
      simp only at h
      by_cases h1 : op = Facts.kindLike
      · simp only [h1, if_true] at h
        cases hsel : arg2AsSelector isLetter a with
        | error e => rw [hsel] at h; cases h
        | ok sel =>
          rw [hsel] at h
          simp only at h
          obtain ⟨t, rfl, ht⟩ := arg2_reprint isLetter a sel hsel
          cases b <;> simp only at h <;> try cases h
          rename_i pat
          split at h
          · cases h
            unfold normStmt
            simp only [h1, or_true, if_true, stmtToIPLD, ht]
          · cases h
      · simp only [h1, if_false] at h
        by_cases h2 : op = Facts.kindAll
        · simp only [h2, if_true] at h
          cases hsel : arg2AsSelector isLetter a with
          | error e => rw [hsel] at h; cases h
          | ok sel =>
            rw [hsel] at h
            simp only at h
            obtain ⟨t, rfl, ht⟩ := arg2_reprint isLetter a sel hsel
            cases hs : stmtFromIPLD isLetter b with
            | error e => rw [hs] at h; cases h
            | ok s' =>
              rw [hs] at h; cases h
              have hne : opOfKind Facts.kindAll = none := by rw [← h2]; exact ho
              have hnl : ¬ Facts.kindAll = Facts.kindLike := by rw [← h2]; exact h1
              unfold normStmt
              simp only [h2, hne, hnl, Option.isSome_none, Bool.false_eq_true, false_or, if_false, true_or,
                if_true, stmtToIPLD, ht, stmt_roundtrip isLetter b s' hs]
        · simp only [h2, if_false] at h
          by_cases h3 : op = Facts.kindAny
          · simp only [h3, if_true] at h
            cases hsel : arg2AsSelector isLetter a with
            | error e => rw [hsel] at h; cases h
            | ok sel =>
              rw [hsel] at h
              simp only at h
              obtain ⟨t, rfl, ht⟩ := arg2_reprint isLetter a sel hsel
              cases hs : stmtFromIPLD isLetter b with
              | error e => rw [hs] at h; cases h
              | ok s' =>
                rw [hs] at h; cases h
                have hne : opOfKind Facts.kindAny = none := by rw [← h3]; exact ho
                have hnl : ¬ Facts.kindAny = Facts.kindLike := by rw [← h3]; exact h1
                unfold normStmt
                simp only [h3, hne, hnl, Option.isSome_none, Bool.false_eq_true, false_or, if_false, or_true,
                  if_true, stmtToIPLD, ht, stmt_roundtrip isLetter b s' hs]
          · simp only [h3, if_false] at h
            cases h
  | .list [], s, h => by simp [stmtFromIPLD] at h
  | .list [_], s, h => by simp [stmtFromIPLD] at h
  | .list (_ :: _ :: _ :: _ :: _), s, h => by simp [stmtFromIPLD] at h
  | .null, s, h => by simp [stmtFromIPLD] at h
  | .bool _, s, h => by simp [stmtFromIPLD] at h
  | .int _, s, h => by simp [stmtFromIPLD] at h
  | .float _, s, h => by simp [stmtFromIPLD] at h
  | .str _, s, h => by simp [stmtFromIPLD] at h
  | .bytes _, s, h => by simp [stmtFromIPLD] at h
  | .map _, s, h => by simp [stmtFromIPLD] at h
  | .link _, s, h => by simp [stmtFromIPLD] at h
theorem stmts_roundtrip (isLetter : Nat → Bool) : ∀ (xs : List Node) (ss : List PStmt),
    stmtsFromIPLD isLetter xs = .ok ss → stmtsToIPLD ss = normStmts isLetter xs
  | [], ss, h => by simp [stmtsFromIPLD] at h; subst h; rfl
  | x :: xs, ss, h => by
    unfold stmtsFromIPLD at h
    cases hx : stmtFromIPLD isLetter x with
    | error e => rw [hx] at h; cases h
    | ok s =>
      rw [hx] at h
      simp only at h
      cases hxs : stmtsFromIPLD isLetter xs with
      | error e => rw [hxs] at h; cases h
      | ok ss' =>
        rw [hxs] at h; cases h
        simp only [stmtsToIPLD, normStmts, stmt_roundtrip isLetter x s hx, stmts_roundtrip isLetter xs ss' hxs]
end

/-- C14 (policies): a policy read from IPLD and written back is the same node, except that each selector
    string is replaced by the text the selector parser prints for it -/
theorem C14_policy_roundtrip (isLetter : Nat → Bool) (n : Node) (p : List PStmt)
    (h : fromIPLD isLetter n = .ok p) : toIPLD p = normPolicy isLetter n := by
  unfold fromIPLD at h
  split at h; · cases h
  cases n <;> simp only at h <;> try cases h
  rename_i xs _
  simp only [toIPLD, normPolicy, stmts_roundtrip isLetter xs p h]

/-- a decoded policy contains no integer outside ±(2^53−1) anywhere (selectors' literals included) -/
theorem C14_decoded_ints_bounded (isLetter : Nat → Bool) (n : Node) (p : List PStmt)
    (h : fromIPLD isLetter n = .ok p) : intsInBounds n = true := by
  unfold fromIPLD at h
  split at h
  · cases h
  · rename_i hb; simpa using hb

/-- the tables and constants this property's theorems are stated over were READ OFF the current source on this run (a fact
that can no longer be read is replaced by its expected value so that the model keeps compiling; it is then listed in
`Facts.notExtracted` and this theorem fails) -/
theorem C14_facts_extracted : ∀ n ∈ ["kindEqual", "kindGreaterThan", "kindGreaterThanOrEqual", "kindLessThan", "kindLessThanOrEqual", "kindNot", "kindAnd", "kindOr", "kindLike", "kindAll", "kindAny", "maxInt53", "minInt53"], n ∈ Ucan.Facts.extracted := by decide

end Ucan.Policy
