import Ucan.Lemmas.Glob
/-!
# C13 — `like` patterns match exactly the glob language

Property theorems only. Model: `Ucan/Model/Glob.lean`; spec: `Ucan/Spec/Glob.lean`.
-/
namespace Ucan.Glob

/-- the executable specification is the declarative language -/
theorem C13_matchSpec_iff_Lang (ps : List Tok) (s : Bytes) : matchSpec ps s = true ↔ Lang ps s := by
  constructor
  · intro h
    fun_induction matchSpec ps s with
    | case1 s =>
      have : s = [] := by simpa using h
      subst this; exact Lang.nil
    | case2 a ps c s ih =>
      simp only [Bool.and_eq_true, beq_iff_eq] at h
      obtain ⟨rfl, h2⟩ := h
      exact Lang.lit _ (ih h2)
    | case3 => cases h
    | case4 ps ih => exact Lang.star [] (ih h)
    | case5 ps c s ih1 ih2 =>
      simp only [Bool.or_eq_true] at h
      rcases h with h | h
      · exact Lang.star [] (ih1 h)
      · cases ih2 h with
        | star x hl => exact Lang.star (c :: x) hl
  · intro h
    induction h with
    | nil => simp [matchSpec]
    | lit b _ ih => simp [matchSpec, ih]
    | star x _ ih =>
      apply star_absorb
      rw [matchSpec_star]; simp [ih]

/-- C13 core: the matcher (one backtrack point, as in the Go loop) decides exactly the glob language,
    for every token list and every string — including strings that contain `*` or `\`. -/
theorem C13_globMatch_iff_Lang (ps : List Tok) (s : Bytes) : globMatch ps s = true ↔ Lang ps s := by
  rw [← C13_matchSpec_iff_Lang]
  have : globMatch ps s = matchSpec ps s := by
    unfold globMatch
    split
    · rename_i b h; exact (litRun_done h).1.symm
    · rename_i ps' s' h; rw [scan_eq, litRun_star_zero h]
    · rename_i h; exact (litRun_fail h).symm
  rw [this]

/-- `like` on a string value: true exactly when the string is in the language of the pattern -/
theorem C13_like_iff (p s : Bytes) (ts : List Tok) (hp : toks p = some ts) :
    like p s = some true ↔ Lang ts s := by
  unfold like
  rw [hp]
  simp only [Option.map_some, Option.some.injEq]
  exact C13_globMatch_iff_Lang ts s

/-- escape rules, stated outright: `*` is the wildcard, a backslash makes the next byte literal
    (whatever it is, including `*` and `\`), every other byte stands for itself -/
theorem C13_toks_star (r : Bytes) : toks (star :: r) = (toks r).map (Tok.star :: ·) := by
  conv => lhs; unfold toks
  simp

theorem C13_toks_escape (d : Byte) (r : Bytes) :
    toks (backslash :: d :: r) = (toks r).map (Tok.lit d :: ·) := by
  have : backslash ≠ star := by decide
  conv => lhs; unfold toks
  simp [this]

theorem C13_toks_plain (c : Byte) (r : Bytes) (h1 : c ≠ star) (h2 : c ≠ backslash) :
    toks (c :: r) = (toks r).map (Tok.lit c :: ·) := by
  conv => lhs; unfold toks
  simp [h1, h2]

theorem C13_toks_lone : toks [backslash] = none := by
  have : backslash ≠ star := by decide
  conv => lhs; unfold toks
  simp [this]

/-- patterns are rejected exactly when they end in a lone backslash -/
theorem C13_parse_reject_iff (p : Bytes) : parseGlob p = false ↔ EndsInLoneBackslash p := by
  unfold parseGlob EndsInLoneBackslash
  rw [Option.isSome_eq_false_iff, Option.isNone_iff_eq_none]
  constructor
  · intro h
    induction p using toks.induct with
    | case1 => simp [toks] at h
    | case2 r ih =>
      rw [C13_toks_star] at h
      have : toks r = none := by simpa using h
      obtain ⟨q, ts, hq, rfl⟩ := ih this
      exact ⟨star :: q, Tok.star :: ts, by rw [C13_toks_star, hq]; rfl, rfl⟩
    | case3 _ => exact ⟨[], [], by simp [toks], rfl⟩
    | case4 d r' _ ih =>
      rw [C13_toks_escape] at h
      have : toks r' = none := by simpa using h
      obtain ⟨q, ts, hq, rfl⟩ := ih this
      exact ⟨backslash :: d :: q, Tok.lit d :: ts, by rw [C13_toks_escape, hq]; rfl, rfl⟩
    | case5 c r hc hb ih =>
      rw [C13_toks_plain c r hc hb] at h
      have : toks r = none := by simpa using h
      obtain ⟨q, ts, hq, rfl⟩ := ih this
      exact ⟨c :: q, Tok.lit c :: ts, by rw [C13_toks_plain c q hc hb, hq]; rfl, rfl⟩
  · rintro ⟨q, ts, hq, rfl⟩
    induction q using toks.induct generalizing ts with
    | case1 => exact C13_toks_lone
    | case2 r ih =>
      rw [C13_toks_star] at hq
      cases hr : toks r with
      | none => simp [hr] at hq
      | some ts' => rw [List.cons_append, C13_toks_star, ih ts' hr]; rfl
    | case3 _ => rw [C13_toks_lone] at hq; cases hq
    | case4 d r' _ ih =>
      rw [C13_toks_escape] at hq
      cases hr : toks r' with
      | none => simp [hr] at hq
      | some ts' => rw [List.cons_append, List.cons_append, C13_toks_escape, ih ts' hr]; rfl
    | case5 c r hc hb ih =>
      rw [C13_toks_plain c r hc hb] at hq
      cases hr : toks r with
      | none => simp [hr] at hq
      | some ts' => rw [List.cons_append, C13_toks_plain c _ hc hb, ih ts' hr]; rfl

-- non-vacuity / the cases the property singles out: the string itself contains `*` or `\`
example : like [star, 98] [star, 97, 98] = some true :=             -- `*b` ~ `*ab`
  (C13_like_iff _ _ [.star, .lit 98] (by decide)).2 (Lang.star [star, 97] (Lang.lit 98 Lang.nil))
example : like [backslash, star] [backslash] = some false := by     -- `\*` !~ `\`
  simp [like, toks, star, backslash, globMatch, litRun, allStar]
example : like [backslash, star] [star] = some true := by           -- `\*` ~ `*`
  simp [like, toks, star, backslash, globMatch, litRun, allStar]
example : like [97, backslash] [97] = none := by                    -- lone trailing backslash
  simp [like, toks, star, backslash]
example : Lang [.lit 97, .star, .lit 98] [97, 42, 92, 98] :=
  Lang.lit 97 (Lang.star [42, 92] (Lang.lit 98 Lang.nil))

end Ucan.Glob
