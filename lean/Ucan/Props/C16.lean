import Ucan.Model.Did
import Ucan.Lemmas.Base58
/-!
# C16 — did:key text, DID value and public key convert back and forth without loss
-/
set_option linter.unusedSimpArgs false
namespace Ucan.Did

theorem toUvarint_length_pos (n : Nat) : 0 < (toUvarint n).length := by
  unfold toUvarint; split <;> simp

/-- the varint reader inverts the varint writer (and tells how many bytes it read) -/
theorem uvarint_roundtrip_succ (f n : Nat) (r : Bytes) (h : n < 128 ^ (f + 1)) :
    fromUvarint (f + 1) (toUvarint n ++ r) = some (n, (toUvarint n).length) := by
  induction f generalizing n with
  | zero =>
    have hn : n < 128 := by simpa using h
    unfold toUvarint
    have : n % 256 = n := by omega
    simp [hn, fromUvarint, UInt8.toNat_ofNat', this]
  | succ f ih =>
    unfold toUvarint
    by_cases hn : n < 128
    · have : n % 256 = n := by omega
      simp [hn, fromUvarint, UInt8.toNat_ofNat', this]
    · simp only [hn, if_false, List.cons_append, fromUvarint, UInt8.toNat_ofNat']
      have h1 : (n % 128 + 128) % 256 = n % 128 + 128 := by omega
      have h2 : ¬ (n % 128 + 128 < 128) := by omega
      have h3 : n / 128 < 128 ^ (f + 1) := by
        rw [Nat.pow_succ] at h
        exact Nat.div_lt_of_lt_mul (by rw [Nat.mul_comm]; exact h)
      rw [h1, if_neg h2, ih (n / 128) h3]
      have h4 : n / 128 ≠ 0 := by omega
      simp only [h4, if_false, List.length_cons, Option.some.injEq, Prod.mk.injEq, and_true]
      omega

theorem uvarint_roundtrip (fuel n : Nat) (r : Bytes) (hf : 0 < fuel) (h : n < 128 ^ fuel) :
    fromUvarint fuel (toUvarint n ++ r) = some (n, (toUvarint n).length) := by
  cases fuel with
  | zero => omega
  | succ f => exact uvarint_roundtrip_succ f n r h

/-- regenerated tables: every code `FromPubKey` can emit is accepted by `Parse` and known to `PubKey`
    ("a key that can issue can be verified") -/
theorem C16_tables : ∀ c ∈ Facts.fromPubKeyCodes, c ∈ Facts.parseWhitelist ∧ c ∈ Facts.pubKeyTable := by
  decide

theorem C16_codes_small : ∀ c ∈ Facts.fromPubKeyCodes, c < 128 ^ 9 := by decide

variable {K : Type}

/-- the DID built from a key prints to a did:key string that parses back to an equal DID -/
theorem C16_parse_print (mbDecode : Bytes → Option (Byte × Bytes)) (b58enc : Bytes → Bytes)
    (hmb : ∀ b, mbDecode (zChar :: b58enc b) = some (zChar, b))
    (marshal : Nat → K → Bytes) (c : Nat) (k : K) (hc : c ∈ Facts.fromPubKeyCodes) :
    parse mbDecode (print b58enc (fromPubKey marshal c k)) = .ok (fromPubKey marshal c k) := by
  unfold parse print fromPubKey
  have hp : keyPrefix.isPrefixOf (keyPrefix ++ zChar :: b58enc (toUvarint c ++ marshal c k)) = true := by
    rw [List.isPrefixOf_iff_prefix]; exact List.prefix_append _ _
  simp only [hp, not_true_eq_false, if_false, List.drop_left, hmb, ne_eq]
  rw [uvarint_roundtrip 9 c _ (by decide) (C16_codes_small c hc)]
  have := (C16_tables c hc).1
  simp [this]

/-- key → DID → text → DID → key is the identity, given that the per-codec unmarshaller inverts the marshaller -/
theorem C16_roundtrip (mbDecode : Bytes → Option (Byte × Bytes)) (b58enc : Bytes → Bytes)
    (hmb : ∀ b, mbDecode (zChar :: b58enc b) = some (zChar, b))
    (marshal : Nat → K → Bytes) (unmarshal : Nat → Bytes → Option K)
    (hum : ∀ c k, unmarshal c (marshal c k) = some k)
    (c : Nat) (k : K) (hc : c ∈ Facts.fromPubKeyCodes) :
    parse mbDecode (print b58enc (fromPubKey marshal c k)) = .ok (fromPubKey marshal c k) ∧
      pubKey marshal unmarshal (fromPubKey marshal c k) = .ok k := by
  refine ⟨C16_parse_print mbDecode b58enc hmb marshal c k hc, ?_⟩
  unfold pubKey
  have := (C16_tables c hc).2
  simp only [fromPubKey, List.contains_iff_mem, this, not_true_eq_false, if_false, List.drop_left, hum]
  simp

/-- DIDs built from two keys are equal exactly when the keys are (same algorithm, injective marshaller) -/
theorem C16_eq_iff (marshal : Nat → K → Bytes) (c : Nat) (k1 k2 : K)
    (hinj : ∀ a b, marshal c a = marshal c b → a = b) :
    fromPubKey marshal c k1 = fromPubKey marshal c k2 ↔ k1 = k2 := by
  constructor
  · intro h
    have : toUvarint c ++ marshal c k1 = toUvarint c ++ marshal c k2 := by
      simpa [fromPubKey] using h
    exact hinj _ _ (List.append_cancel_left this)
  · rintro rfl; rfl

theorem C16_distinct_algorithms (marshal : Nat → K → Bytes) (c1 c2 : Nat) (k1 k2 : K) (h : c1 ≠ c2) :
    fromPubKey marshal c1 k1 ≠ fromPubKey marshal c2 k2 := by
  intro e
  exact h (by simpa [fromPubKey] using congrArg DID.code e)

/-- one principal, one DID: an identifier from which a key can be extracted is the canonical
    identifier of that key -/
theorem C16_canonical (marshal : Nat → K → Bytes) (unmarshal : Nat → Bytes → Option K) (d : DID) (k : K)
    (h : pubKey marshal unmarshal d = .ok k) : d = fromPubKey marshal d.code k := by
  unfold pubKey at h
  split at h; · cases h
  split at h; · cases h
  split at h
  · rename_i hk heq; cases h; exact heq.symm
  · cases h

/-- hence two DIDs that yield the same key (under the same code) are the same DID -/
theorem C16_one_principal_one_did (marshal : Nat → K → Bytes) (unmarshal : Nat → Bytes → Option K) (d1 d2 : DID) (k : K)
    (h1 : pubKey marshal unmarshal d1 = .ok k) (h2 : pubKey marshal unmarshal d2 = .ok k)
    (hc : d1.code = d2.code) : d1 = d2 := by
  rw [C16_canonical marshal unmarshal d1 k h1, C16_canonical marshal unmarshal d2 k h2, hc]

/-- printing is injective when base58 encoding is -/
theorem C16_print_injective (b58enc : Bytes → Bytes) (hinj : ∀ a b, b58enc a = b58enc b → a = b) (d1 d2 : DID)
    (h : print b58enc d1 = print b58enc d2) : d1.bytes = d2.bytes := by
  unfold print at h
  have := List.append_cancel_left h
  simp at this
  exact hinj _ _ this

/-- rejections: not a did:key, not base58btc, unsupported key type -/
theorem C16_reject_prefix (mbDecode : Bytes → Option (Byte × Bytes)) (s : Bytes)
    (h : keyPrefix.isPrefixOf s = false) : parse mbDecode s = .error .noPrefix := by
  simp [parse, h]

theorem C16_reject_base (mbDecode : Bytes → Option (Byte × Bytes)) (s : Bytes) (base : Byte) (b : Bytes)
    (hp : keyPrefix.isPrefixOf s = true) (hm : mbDecode (s.drop keyPrefix.length) = some (base, b))
    (hb : base ≠ zChar) : parse mbDecode s = .error .notBase58 := by
  simp [parse, hp, hm, hb]

theorem C16_reject_codec (mbDecode : Bytes → Option (Byte × Bytes)) (s : Bytes) (b : Bytes) (code n : Nat)
    (hp : keyPrefix.isPrefixOf s = true) (hm : mbDecode (s.drop keyPrefix.length) = some (zChar, b))
    (hv : fromUvarint 9 b = some (code, n)) (hc : code ∉ Facts.parseWhitelist) :
    parse mbDecode s = .error .unsupportedCodec := by
  simp [parse, hp, hm, hv, hc]

/-- a parsed DID always carries a whitelisted code -/
theorem C16_parsed_code (mbDecode : Bytes → Option (Byte × Bytes)) (s : Bytes) (d : DID)
    (h : parse mbDecode s = .ok d) : d.code ∈ Facts.parseWhitelist := by
  unfold parse at h
  split at h; · cases h
  split at h; · cases h
  split at h; · cases h
  split at h; · cases h
  split at h
  · rename_i hc; cases h; simpa using hc
  · cases h

/-! ### with the base-58 algorithm itself (no multibase hypothesis left)

`mbDecode58` is `multibase.Decode` as far as `did.Parse` can tell: only the `z` (base58btc) prefix yields an
acceptable result. `Base58.decode_encode` discharges the hypothesis `hmb` of the theorems above, and
`Base58.encode_injective` the hypothesis of `C16_print_injective`. The base-58 functions are the ones the
driver executes in the `did` correspondence stream. -/

def mbDecode58 (s : Bytes) : Option (Byte × Bytes) :=
  match s with
  | [] => none
  | p :: r => if p = zChar then (Base58.decode r).map (fun b => (zChar, b)) else none

theorem mbDecode58_encode (b : Bytes) : mbDecode58 (zChar :: Base58.encode b) = some (zChar, b) := by
  simp [mbDecode58, Base58.decode_encode]

/-- print then parse is the identity on every DID the package can build, for base58btc as it is -/
theorem C16_parse_print_base58 (marshal : Nat → K → Bytes) (c : Nat) (k : K) (hc : c ∈ Facts.fromPubKeyCodes) :
    parse mbDecode58 (print Base58.encode (fromPubKey marshal c k)) = .ok (fromPubKey marshal c k) :=
  C16_parse_print mbDecode58 Base58.encode mbDecode58_encode marshal c k hc

/-- key → DID → text → DID → key, for base58btc as it is; only the key (un)marshalling contract remains -/
theorem C16_roundtrip_base58 (marshal : Nat → K → Bytes) (unmarshal : Nat → Bytes → Option K)
    (hum : ∀ c k, unmarshal c (marshal c k) = some k) (c : Nat) (k : K) (hc : c ∈ Facts.fromPubKeyCodes) :
    parse mbDecode58 (print Base58.encode (fromPubKey marshal c k)) = .ok (fromPubKey marshal c k) ∧
      pubKey marshal unmarshal (fromPubKey marshal c k) = .ok k :=
  C16_roundtrip mbDecode58 Base58.encode mbDecode58_encode marshal unmarshal hum c k hc

/-- two DIDs that print to the same text have the same bytes -/
theorem C16_print_injective_base58 (d1 d2 : DID) (h : print Base58.encode d1 = print Base58.encode d2) :
    d1.bytes = d2.bytes :=
  C16_print_injective Base58.encode Base58.encode_injective d1 d2 h

/-- text that is not base-58 after the `z` is refused -/
theorem C16_reject_not_base58 (s r : Bytes) (hp : keyPrefix.isPrefixOf s = true)
    (hs : s.drop keyPrefix.length = zChar :: r) (hr : Base58.decode r = none) :
    ∃ e, parse mbDecode58 s = .error e := by
  have : mbDecode58 (s.drop keyPrefix.length) = none := by rw [hs]; simp [mbDecode58, hr]
  unfold parse
  simp only [hp, not_true_eq_false, ↓reduceIte, this]
  exact ⟨_, rfl⟩

/-- the tables and constants this property's theorems are stated over were READ OFF the current source on this run (a fact
that can no longer be read is replaced by its expected value so that the model keeps compiling; it is then listed in
`Facts.notExtracted` and this theorem fails) -/
theorem C16_facts_extracted : ∀ n ∈ ["parseWhitelist", "pubKeyTable", "fromPubKeyCodes"], n ∈ Ucan.Facts.extracted := by decide

end Ucan.Did
