import Ucan.Model.Token
import Ucan.Props.C08
/-!
# C06 — a decoded token was signed by its issuer over exactly the decoded content
-/
set_option linter.unusedSimpArgs false
namespace Ucan.Envelope

variable {K : Type}

/-- C06: a decoder returns a payload only if the envelope is well-shaped, its tag is the requested one, the
    issuer DID of the DECODED payload yields a key, the header announced in the envelope is the varsig
    header of that key's type, and the signature verifies under that key over the canonical encoding of
    the decoded SigPayload (header + tagged payload) -/
theorem C06_verified (env : Env K) (tag : Bytes) (fields : List Field) (n : Node) (info : Info)
    (kvs : List (Bytes × Node)) (h : fromIPLD env tag fields n = .ok (info, kvs)) :
    inspect n = .ok info ∧ info.tag = tag ∧ decodeStruct fields info.payload = .ok kvs ∧
    ∃ iss d k, Node.lookup issKey kvs = some (.str iss) ∧ Did.parse env.mbDecode iss = .ok d ∧
      Did.pubKey env.marshal env.unmarshal d = .ok k ∧ varsigFor d.code = some info.header ∧
      env.verify k (Cbor.encode info.sigPayload) info.sig = true := by
  unfold fromIPLD at h
  cases hi : inspect n with
  | error e => simp [hi] at h
  | ok i =>
    simp only [hi] at h
    split at h; · cases h
    rename_i htag
    cases hd : decodeStruct fields i.payload with
    | error e => simp [hd] at h
    | ok kv =>
      simp only [hd] at h
      split at h
      · rename_i iss hiss
        cases hp : Did.parse env.mbDecode iss with
        | error e => simp [hp] at h
        | ok d =>
          simp only [hp] at h
          cases hk : Did.pubKey env.marshal env.unmarshal d with
          | error e => simp [hk] at h
          | ok k =>
            simp only [hk] at h
            split at h; · cases h
            rename_i hv
            split at h
            · rename_i hs
              cases h
              exact ⟨rfl, Classical.not_not.1 htag, hd, iss, d, k, hiss, hp, hk, Classical.not_not.1 hv, hs⟩
            · cases h
      · cases h

theorem classifyEntry_inl (k : Bytes) (v : Node) (h : Bytes) (e : classifyEntry k v = .ok (.inl h)) :
    k = headerKey ∧ v = .bytes h := by
  unfold classifyEntry at e
  split at e
  · rename_i hk
    cases v <;> simp only at e <;> try (cases e; done)
    cases e; exact ⟨hk, rfl⟩
  · split at e <;> cases e

theorem classifyEntry_inr (k : Bytes) (v : Node) (t : Bytes) (p : Node) (e : classifyEntry k v = .ok (.inr (t, p))) :
    t = k ∧ p = v ∧ k ≠ headerKey := by
  unfold classifyEntry at e
  split at e
  · cases v <;> simp only at e <;> cases e
  · rename_i hk
    split at e
    · cases e; exact ⟨rfl, rfl, hk⟩
    · cases e

/-- the header, the tag and the payload that are decoded are parts of the node whose canonical encoding
    is what the signature covers: nothing that is decoded lies outside the signed SigPayload -/
theorem C06_decoded_parts_are_signed (n : Node) (info : Info) (h : inspect n = .ok info) :
    info.tag ≠ headerKey ∧
    (info.sigPayload = .map [(headerKey, .bytes info.header), (info.tag, info.payload)] ∨
     info.sigPayload = .map [(info.tag, info.payload), (headerKey, .bytes info.header)]) := by
  unfold inspect at h
  split at h
  · rename_i sig k1 v1 k2 v2
    cases c1 : classifyEntry k1 v1 with
    | error e => simp [c1] at h
    | ok r1 =>
      cases c2 : classifyEntry k2 v2 with
      | error e => simp [c1, c2] at h
      | ok r2 =>
        rcases r1 with h1 | ⟨t1, p1⟩ <;> rcases r2 with h2 | ⟨t2, p2⟩ <;> simp only [c1, c2] at h <;> try (cases h; done)
        · cases h
          obtain ⟨a1, a2⟩ := classifyEntry_inl _ _ _ c1
          obtain ⟨b1, b2, b3⟩ := classifyEntry_inr _ _ _ _ c2
          subst a1 a2 b1 b2
          exact ⟨b3, Or.inl rfl⟩
        · cases h
          obtain ⟨a1, a2⟩ := classifyEntry_inl _ _ _ c2
          obtain ⟨b1, b2, b3⟩ := classifyEntry_inr _ _ _ _ c1
          subst a1 a2 b1 b2
          exact ⟨b3, Or.inr rfl⟩
  all_goals cases h

/-- two accepted envelopes whose signed bytes are equal decode to the same header, tag and payload:
    every decoded field is a function of the signed bytes (uses injectivity of the canonical encoding) -/
theorem C06_fields_function_of_signed_bytes (n1 n2 : Node) (i1 i2 : Info)
    (h1 : inspect n1 = .ok i1) (h2 : inspect n2 = .ok i2)
    (w1 : Cbor.WF i1.sigPayload) (w2 : Cbor.WF i2.sigPayload)
    (hb : Cbor.encode i1.sigPayload = Cbor.encode i2.sigPayload) :
    i1.header = i2.header ∧ i1.tag = i2.tag ∧ i1.payload = i2.payload := by
  have hsp := Cbor.C08_encode_injective _ _ w1 w2 hb
  obtain ⟨t1, a⟩ := C06_decoded_parts_are_signed n1 i1 h1
  obtain ⟨t2, b⟩ := C06_decoded_parts_are_signed n2 i2 h2
  rcases a with a | a <;> rcases b with b | b <;> rw [a, b] at hsp <;> simp at hsp
  · obtain ⟨x, y, z⟩ := hsp; exact ⟨x, y, z⟩
  · exact absurd hsp.1.1.symm t2
  · exact absurd hsp.1.1 t1
  · obtain ⟨⟨x, y⟩, z⟩ := hsp; exact ⟨z, x, y⟩

/-- the envelope has exactly the shape [signature bytes, {header, tagged payload}] (also used by C10) -/
theorem C06_inspect_shape (n : Node) (info : Info) (h : inspect n = .ok info) :
    n = .list [.bytes info.sig, info.sigPayload] := by
  unfold inspect at h
  split at h
  · rename_i sig k1 v1 k2 v2
    cases c1 : classifyEntry k1 v1 with
    | error e => simp [c1] at h
    | ok r1 =>
      cases c2 : classifyEntry k2 v2 with
      | error e => simp [c1, c2] at h
      | ok r2 =>
        rcases r1 with h1 | ⟨t1, p1⟩ <;> rcases r2 with h2 | ⟨t2, p2⟩ <;> simp only [c1, c2] at h <;>
          first | (cases h; rfl) | cases h
  all_goals cases h

/-- the varsig headers the library announces and accepts ARE the ones the specification assigns to the four signature schemes
(multicodec varsig 0x34, then the scheme — RSA 0x1205 + SHA-256 0x12 + 256 bytes, EdDSA 0xed, ES256K 0xe7 + SHA-256, ES256 0xd01200
+ SHA-256 — then DAG-CBOR 0x71): a hand-written expectation against the table regenerated from `varsig.go`. Without it the
model would follow a changed table entry, and "the scheme announced in the header" would silently become another scheme. -/
theorem C06_varsig_headers_are_the_specified_ones :
    Ucan.Facts.varsigTable.lookup "RSA" = some [0x34, 0x85, 0x24, 0x12, 0x80, 0x02, 0x71] ∧
    Ucan.Facts.varsigTable.lookup "Ed25519" = some [0x34, 0xed, 0x01, 0x71] ∧
    Ucan.Facts.varsigTable.lookup "Secp256k1" = some [0x34, 0xe7, 0x01, 0x12, 0x71] ∧
    Ucan.Facts.varsigTable.lookup "ECDSA" = some [0x34, 0x80, 0xa4, 0xc0, 0x06, 0x12, 0x71] ∧
    Ucan.Facts.varsigTable.length = 4 := by decide

/-- the tables and constants this property's theorems are stated over were READ OFF the current source on this run (a fact
that can no longer be read is replaced by its expected value so that the model keeps compiling; it is then listed in
`Facts.notExtracted` and this theorem fails) -/
theorem C06_facts_extracted : ∀ n ∈ ["varsigTable", "dlgTag", "invTag"], n ∈ Ucan.Facts.extracted := by decide

end Ucan.Envelope
