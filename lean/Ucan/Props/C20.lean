import Ucan.Model.Immut
/-!
# C20 — tokens are immutable: read-only use is race-free and repeatable (partial)

Proved: the frame property of every modelled read-only operation (the token's memory is the same afterwards),
and, for arbitrary schedules, that threads whose steps never write shared memory leave it unchanged and each
compute exactly what they compute when run alone — so no two steps conflict (a conflict needs a write).
Not exhibited by the model: the Go memory model; the race-detector run is a test.
-/
set_option linter.unusedSimpArgs false
namespace Ucan.Immut

/-- C20 (frame): no read-only operation changes the token -/
theorem C20_frame (op : ROp) (s : TokState) : (runOp op s).1 = s := by
  cases op <;> rfl

/-- C20 (repeatable): running any sequence of read-only operations first does not change what an operation returns -/
theorem C20_repeatable (ops : List ROp) (op : ROp) (s : TokState) :
    (runOp op (ops.foldl (fun st o => (runOp o st).1) s)).2 = (runOp op s).2 := by
  have : ops.foldl (fun st o => (runOp o st).1) s = s := by
    induction ops with
    | nil => rfl
    | cons o os ih => rw [List.foldl_cons, C20_frame]; exact ih
  rw [this]

/-- C20 (history independence): what an operation returns, and the token it leaves, do not depend on which
    read-only operations ran on the token before — an authorization check after a check with another loader
    or with hooked arguments, a read after a seal, … (no memoised state, no transient reassignment) -/
theorem C20_history_independent (x y : ROp) (s : TokState) :
    runOp y (runOp x s).1 = runOp y s := by rw [C20_frame]

/-- the spare capacity of a shared delegation's policy slice and the proof links are part of the frame -/
theorem C20_frame_spare (op : ROp) (s : TokState) :
    (runOp op s).1.dlgPolicySpare = s.dlgPolicySpare ∧ (runOp op s).1.proofs = s.proofs := by
  rw [C20_frame]; exact ⟨rfl, rfl⟩

/-- in particular the key order seen by `Iter()` is the insertion order, before and after sealing or checking -/
theorem C20_iter_order_stable (s : TokState) :
    (argsIter (sealReads (executionAllowedArgs s).1).1).2 = (argsIter s).2 := rfl

/-- a step is read-only when it never changes the shared memory -/
def ReadOnlyStep {S L : Type} (st : Step S L) : Prop := ∀ s l, (st s l).1 = s

theorem runAlone_shared {S L : Type} (prog : List (Step S L)) (hro : ∀ st ∈ prog, ReadOnlyStep st) (s : S) (l : L) :
    (runAlone prog s l).1 = s := by
  induction prog generalizing l with
  | nil => rfl
  | cons st more ih =>
    have h1 := hro st List.mem_cons_self s l
    simp only [runAlone]
    have h2 := ih (fun x hx => hro x (List.mem_cons_of_mem _ hx)) (st s l).2
    rw [show (st s l) = ((st s l).1, (st s l).2) from rfl, h1]
    exact h2

/-- C20 (schedules): for EVERY interleaving of threads made of read-only steps, the shared memory is left
    unchanged — hence no step ever observes a write by another thread -/
theorem C20_schedule_shared {S L : Type} (sched : List Nat) (progs : Nat → List (Step S L)) (s : S) (locals : Nat → L)
    (hro : ∀ t, ∀ st ∈ progs t, ReadOnlyStep st) :
    (runSchedule sched progs s locals).1 = s := by
  induction sched generalizing progs locals with
  | nil => rfl
  | cons t rest ih =>
    unfold runSchedule
    cases hp : progs t with
    | nil => simp only; exact ih progs locals hro
    | cons st more =>
      simp only
      have h1 : (st s (locals t)).1 = s := hro t st (by rw [hp]; exact List.mem_cons_self) s (locals t)
      rw [show (st s (locals t)) = ((st s (locals t)).1, (st s (locals t)).2) from rfl, h1]
      apply ih
      intro u x hx
      by_cases hu : u = t
      · simp only [hu, if_true] at hx
        exact hro t x (by rw [hp]; exact List.mem_cons_of_mem _ hx)
      · simp only [hu, if_false] at hx
        exact hro u x hx

/-- a step of a read-only thread computes the same local result whatever the other threads did before:
    its input shared memory is always the initial one -/
theorem C20_schedule_step_input {S L : Type} (pre : List Nat) (progs : Nat → List (Step S L)) (s : S) (locals : Nat → L)
    (hro : ∀ t, ∀ st ∈ progs t, ReadOnlyStep st) (st : Step S L) (l : L) :
    st (runSchedule pre progs s locals).1 l = st s l := by
  rw [C20_schedule_shared pre progs s locals hro]

/-- every modelled read-only operation is a read-only step (local memory: the last output) -/
theorem C20_ops_are_readonly_steps (op : ROp) :
    ReadOnlyStep (fun (s : TokState) (_ : Option Out) => ((runOp op s).1, some (runOp op s).2)) := by
  intro s l
  exact C20_frame op s

-- non-vacuity: keys inserted as ["b", "a"] are iterated in that order, ToIPLD lists them sorted, and the
-- token still iterates ["b", "a"] afterwards
example :
    let s : TokState := { argKeys := [[98], [97]], argVals := [([98], .int 1), ([97], .int 2)], metaKeys := [], metaVals := [] }
    (argsToIPLD s).1.argKeys = [[98], [97]] ∧
    (match (argsToIPLD s).2 with | .node (.map kvs) => kvs.map (·.1) = [[97], [98]] | _ => False) := by
  simp [argsToIPLD, sortKeys, insertSorted, bytesLe, Node.lookup]

end Ucan.Immut
