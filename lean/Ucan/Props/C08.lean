import Ucan.Lemmas.Cbor
/-!
# C08 — a token's CID is the content address of its canonical sealed bytes
-/
set_option linter.unusedSimpArgs false
namespace Ucan.Cbor

theorem head_length_pos (m n : Nat) : 0 < (head m n).length := by
  unfold head
  repeat' split
  all_goals simp

mutual
theorem size_le : ∀ n : Node, size n + 1 ≤ 3 * (encode n).length
  | .null => by simp [size, encode]
  | .bool b => by cases b <;> simp [size, encode]
  | .int i => by
    simp only [size, encode]
    split <;> (have := head_length_pos 0 i.toNat; have := head_length_pos 1 (-1 - i).toNat; omega)
  | .float b => by simp [size, encode, beBytes_length]
  | .str s => by have := head_length_pos 3 s.length; simp [size, encode]; omega
  | .bytes b => by have := head_length_pos 2 b.length; simp [size, encode]; omega
  | .link c => by have := head_length_pos 6 42; simp [size, encode]; omega
  | .list xs => by
    have := head_length_pos 4 xs.length
    have := sizeL_le xs
    simp only [size, encode, List.length_append]; omega
  | .map kvs => by
    have := head_length_pos 5 kvs.length
    have := sizeM_le kvs
    simp only [size, encode, List.length_append]; omega
theorem sizeL_le : ∀ xs : List Node, sizeL xs ≤ 1 + 3 * (encodeList xs).length
  | [] => by simp [sizeL, encodeList]
  | x :: xs => by
    have := size_le x
    have := sizeL_le xs
    simp only [sizeL, encodeList, List.length_append]; omega
theorem sizeM_le : ∀ kvs : List (Bytes × Node), sizeM kvs ≤ 1 + 3 * (encodeMap kvs).length
  | [] => by simp [sizeM, encodeMap]
  | (k, v) :: kvs => by
    have := size_le v
    have := sizeM_le kvs
    simp only [sizeM, encodeMap, List.length_append]; omega
end

/-- the decoder inverts the canonical encoder (sealed bytes always unseal to what was sealed) -/
theorem C08_decode_encode (n : Node) (h : WF n) : decode (encode n) = some n := by
  unfold decode
  have := decode_encode n [] (3 * (encode n).length) h (by have := size_le n; omega)
  rw [List.append_nil] at this
  rw [this]

/-- the canonical encoding is prefix-free: an item followed by anything determines the item -/
theorem C08_prefix_free (a b : Node) (r1 r2 : Bytes) (ha : WF a) (hb : WF b)
    (h : encode a ++ r1 = encode b ++ r2) : a = b ∧ r1 = r2 := by
  have h1 := decode_encode a r1 (size a + size b) ha (by omega)
  have h2 := decode_encode b r2 (size a + size b) hb (by omega)
  rw [h, h2] at h1
  simp at h1
  exact ⟨h1.1.symm, h1.2.symm⟩

/-- the canonical encoding is injective: every decoded field is a function of the bytes -/
theorem C08_encode_injective (a b : Node) (ha : WF a) (hb : WF b) (h : encode a = encode b) : a = b :=
  (C08_prefix_free a b [] [] ha hb (by simp [h])).1

/-- accepted bytes are exactly the canonical encoding of their content -/
theorem C08_canonical (b : Bytes) (n : Node) (h : accept b = some n) :
    b = encode n ∧ keysSorted n = true := by
  unfold accept at h
  cases hd : decode b with
  | none => simp [hd] at h
  | some m =>
    simp only [hd] at h
    split at h
    · rename_i hc
      cases h
      simp only [Bool.and_eq_true, beq_iff_eq] at hc
      exact ⟨hc.2.symm, hc.1⟩
    · cases h

/-- canonical encodings of canonical trees are accepted (honest sealed bytes always unseal) -/
theorem C08_accept_encode (n : Node) (h : WF n) (hs : keysSorted n = true) : accept (encode n) = some n := by
  unfold accept
  rw [C08_decode_encode n h]
  simp [hs]

/-- CIDv1, DAG-CBOR codec (0x71), SHA2-256 multihash (0x12, 32 bytes) of the sealed bytes; the hash
    function is a parameter -/
def cidOf (sha256 : Bytes → Bytes) (sealed : Bytes) : Bytes := [0x01, 0x71, 0x12, 0x20] ++ sha256 sealed

/-- C08: two accepted byte strings that carry the same content are the same bytes, hence have the same
    CID (whatever the hash function) -/
theorem C08_unique_cid (sha256 : Bytes → Bytes) (b1 b2 : Bytes) (n : Node)
    (h1 : accept b1 = some n) (h2 : accept b2 = some n) : b1 = b2 ∧ cidOf sha256 b1 = cidOf sha256 b2 := by
  have e1 := (C08_canonical b1 n h1).1
  have e2 := (C08_canonical b2 n h2).1
  subst e1 e2
  exact ⟨rfl, rfl⟩

/-- and distinct contents have distinct CIDs as long as the hash does not collide on them -/
theorem C08_cid_distinct (sha256 : Bytes → Bytes) (a b : Node) (ha : WF a) (hb : WF b) (hne : a ≠ b)
    (hcr : sha256 (encode a) = sha256 (encode b) → encode a = encode b) :
    cidOf sha256 (encode a) ≠ cidOf sha256 (encode b) := by
  intro h
  unfold cidOf at h
  have := List.append_cancel_left h
  exact hne (C08_encode_injective a b ha hb (hcr this))

-- non-vacuity: a small envelope-shaped tree round-trips, and a non-minimal re-encoding is not accepted
example : accept (encode (.list [.bytes [1, 2], .map [([104], .bytes [52]), ([117, 99], .map [])]])) =
    some (.list [.bytes [1, 2], .map [([104], .bytes [52]), ([117, 99], .map [])]]) := by
  apply C08_accept_encode
  · simp [WF, WFL, WFM]
  · simp [keysSorted, keysSortedList, keysSortedMap, keysStrictlySorted, keyLt]
example : accept [0x18, 0x05] = none := by   -- the integer 5 with a one-byte argument: decodes, not canonical
  simp [accept, decode, decodeF, readHead, beVal, encode, head, keysSorted]

end Ucan.Cbor
