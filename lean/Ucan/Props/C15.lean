import Ucan.Lemmas.Command
import Ucan.Gen.Facts
/-!
# C15 — command coverage is the segment-prefix partial order

Property theorems only. Models: `Ucan/Model/Command.lean`; spec: `Ucan/Spec/Command.lean`.
-/
namespace Ucan.Command

/-- the parser accepts exactly the grammar and returns its input unchanged -/
theorem C15_parse_ok_iff (lower : Bytes → Bytes) (s : Bytes) :
    (∃ c, parse lower s = .ok c) ↔ Grammar lower s := by
  unfold parse Grammar
  constructor
  · intro ⟨c, h⟩
    split at h; · cases h
    split at h; · cases h
    split at h; · cases h
    rename_i h1 h2 h3
    have h1' : s.head? = some slash := Classical.not_not.1 h1
    have h3' : s = lower s := Classical.not_not.1 h3
    refine ⟨?_, ?_, h3'.symm⟩
    · cases s with
      | nil => simp at h1'
      | cons b r => simp at h1'; exact ⟨r, by rw [h1']⟩
    · by_cases hl : s.length > 1
      · right; intro hh; exact h2 ⟨hl, hh⟩
      · left
        cases s with
        | nil => simp at h1'
        | cons b r =>
          simp at h1'; subst h1'
          cases r with
          | nil => rfl
          | cons _ _ => simp at hl
  · intro ⟨⟨r, hr⟩, h2, h3⟩
    refine ⟨s, ?_⟩
    rw [if_neg (by simp [hr])]
    rw [if_neg]
    · rw [if_neg (by simp [h3])]
    · intro ⟨hl, hh⟩
      rcases h2 with h2 | h2
      · rw [h2] at hl; simp at hl
      · exact h2 hh

theorem C15_parse_id (lower : Bytes → Bytes) (s c : Bytes) (h : parse lower s = .ok c) : c = s := by
  unfold parse at h
  split at h; · cases h
  split at h; · cases h
  split at h; · cases h
  cases h; rfl

theorem Grammar.valid {lower s} (h : Grammar lower s) : Valid s := ⟨h.1, h.2.1⟩

/-- main equivalence: the prefix + boundary fast path decides segment-prefix
    (the equivalence the source comment says was "verified with fuzzing") -/
theorem C15_covers_iff (c o : Bytes) (hc : Valid c) (ho : Valid o) :
    covers c o = true ↔ CoversSpec c o := by
  obtain ⟨⟨rc, rfl⟩, hc2⟩ := hc
  obtain ⟨⟨ro, rfl⟩, ho2⟩ := ho
  unfold CoversSpec
  by_cases hctop : rc = []
  · subst hctop
    simp [covers, segments_top]
  · rw [segments_slash_cons rc hctop]
    have hcne : (slash :: rc) ≠ [slash] := by simpa using hctop
    constructor
    · intro h
      unfold covers at h
      split at h; · cases h
      rename_i hp
      have hp : (slash :: rc).isPrefixOf (slash :: ro) = true := by simpa using hp
      rw [List.isPrefixOf_iff_prefix] at hp
      obtain ⟨t, ht⟩ := hp
      have ht' : ro = rc ++ t := by simpa using ht.symm
      subst ht'
      have hone : ((slash :: rc) == [slash]) = false := by simpa using hctop
      simp only [hone, Bool.false_or, Bool.or_eq_true] at h
      cases t with
      | nil => rw [List.append_nil, segments_slash_cons rc hctop]; exact List.prefix_refl _
      | cons b t =>
        rcases h with h | h
        · simp at h
        · have hb : b = slash := by
            simpa [List.getElem?_append_right] using h
          subst hb
          have hne : rc ++ slash :: t ≠ [] := by simp
          rw [segments_slash_cons _ hne, split_append_sep]
          exact List.prefix_append _ _
    · intro h
      by_cases hotop : ro = []
      · subst hotop
        rw [segments_top] at h
        exact absurd (List.prefix_nil.1 h) (split_ne_nil _ _)
      · rw [segments_slash_cons ro hotop] at h
        obtain ⟨rest, hrest⟩ := h
        have hro : ro = unsplit slash (split slash rc ++ rest) := by
          rw [hrest, unsplit_split]
        unfold covers
        cases rest with
        | nil =>
          have : ro = rc := by
            rw [hro, List.append_nil, unsplit_split]
          subst this
          simp
        | cons y r =>
          have hno : ∀ x ∈ split slash rc ++ y :: r, slash ∉ x := by
            rw [hrest]; exact split_no_sep _ _
          have hro' : ro = rc ++ slash :: unsplit slash (y :: r) := by
            rw [hro, unsplit_append _ _ _ (split_ne_nil _ _) (by simp), unsplit_split]
          rw [hro']
          have hpre : (slash :: rc).isPrefixOf (slash :: (rc ++ slash :: unsplit slash (y :: r))) = true := by
            rw [List.isPrefixOf_iff_prefix]
            exact ⟨slash :: unsplit slash (y :: r), by simp⟩
          rw [if_neg (by simp [hpre])]
          simp

/-- a command never covers one that merely shares a textual prefix -/
theorem C15_no_textual_prefix (c o : Bytes) (h : covers c o = true) :
    c <+: o ∧ (c = [slash] ∨ c.length = o.length ∨ o[c.length]? = some slash) := by
  unfold covers at h
  split at h; · cases h
  rename_i hp
  have hp : c.isPrefixOf o = true := by simpa using hp
  refine ⟨List.isPrefixOf_iff_prefix.1 hp, ?_⟩
  simpa [or_assoc] using h

theorem C15_refl (c : Bytes) (hc : Valid c) : covers c c = true :=
  (C15_covers_iff c c hc hc).2 (List.prefix_refl _)

theorem C15_trans (a b c : Bytes) (ha : Valid a) (hb : Valid b) (hc : Valid c)
    (h1 : covers a b = true) (h2 : covers b c = true) : covers a c = true :=
  (C15_covers_iff a c ha hc).2
    (((C15_covers_iff a b ha hb).1 h1).trans ((C15_covers_iff b c hb hc).1 h2))

/-- segments determine a valid command -/
theorem segments_injective (a b : Bytes) (ha : Valid a) (hb : Valid b)
    (h : segments a = segments b) : a = b := by
  obtain ⟨⟨ra, rfl⟩, _⟩ := ha
  obtain ⟨⟨rb, rfl⟩, _⟩ := hb
  by_cases h1 : ra = [] <;> by_cases h2 : rb = []
  · rw [h1, h2]
  · subst h1; rw [segments_top] at h
    exact absurd h.symm (segments_ne_nil_of_ne_top rb h2)
  · subst h2; rw [segments_top] at h
    exact absurd h (segments_ne_nil_of_ne_top ra h1)
  · rw [segments_slash_cons ra h1, segments_slash_cons rb h2] at h
    rw [split_injective slash h]

theorem C15_antisymm (a b : Bytes) (ha : Valid a) (hb : Valid b)
    (h1 : covers a b = true) (h2 : covers b a = true) : a = b := by
  have p1 := (C15_covers_iff a b ha hb).1 h1
  have p2 := (C15_covers_iff b a hb ha).1 h2
  apply segments_injective a b ha hb
  exact List.IsPrefix.eq_of_length_le p1 (List.IsPrefix.length_le p2)

theorem C15_top_covers (o : Bytes) (ho : Valid o) : covers [slash] o = true :=
  (C15_covers_iff _ o ⟨⟨[], rfl⟩, Or.inl rfl⟩ ho).2 (by unfold CoversSpec; rw [segments_top]; exact List.nil_prefix)

theorem valid_snoc (buf s : Bytes) (hb : Valid buf) (hs : s ≠ []) (hno : slash ∉ s) :
    Valid (buf ++ s) := by
  obtain ⟨⟨r, rfl⟩, _⟩ := hb
  refine ⟨⟨r ++ s, rfl⟩, Or.inr ?_⟩
  rw [getLast?_append_ne_nil _ _ hs]
  intro h
  exact hno (List.mem_of_getLast? h)

theorem joinLoop_segments (buf : Bytes) (xs : List Bytes) (hb : Valid buf)
    (hno : ∀ x ∈ xs, slash ∉ x) :
    segments (joinLoop buf xs) = segments buf ++ xs.filter (· ≠ []) := by
  induction xs generalizing buf with
  | nil => simp [joinLoop]
  | cons s ss ih =>
    have hss : ∀ x ∈ ss, slash ∉ x := fun x hx => hno x (List.mem_cons_of_mem _ hx)
    have hs : slash ∉ s := hno s List.mem_cons_self
    unfold joinLoop
    by_cases hne : s ≠ []
    · rw [if_pos hne]
      obtain ⟨⟨r, rfl⟩, hb2⟩ := hb
      by_cases hr : r = []
      · subst hr
        have hv : Valid ([slash] ++ s) := valid_snoc _ _ ⟨⟨[], rfl⟩, Or.inl rfl⟩ hne hs
        rw [if_neg (by simp), ih _ hv hss]
        have : [slash] ++ s = slash :: s := rfl
        rw [this, segments_slash_cons s hne, segments_top, split_of_no_sep _ _ hs]
        simp [hne]
      · have hv0 : Valid (slash :: r ++ [slash]  ++ s) := by
          refine ⟨⟨r ++ [slash] ++ s, by simp⟩, Or.inr ?_⟩
          rw [getLast?_append_ne_nil _ _ hne]
          intro h; exact hs (List.mem_of_getLast? h)
        have hlen : (slash :: r).length > 1 := by
          cases r with
          | nil => exact absurd rfl hr
          | cons _ _ => simp
        rw [if_pos hlen, ih _ hv0 hss]
        have e : slash :: r ++ [slash] ++ s = slash :: (r ++ slash :: s) := by simp
        rw [e, segments_slash_cons _ (by simp), segments_slash_cons r hr, split_append_sep,
          split_of_no_sep _ _ hs]
        simp [hne]
    · have hnil : s = [] := Classical.not_not.1 hne
      rw [if_neg hne, ih _ hb hss]
      simp [hnil]

/-- joining segments appends them (empty ones are skipped); a segment containing a slash would be
    split again by `Segments`, hence the hypothesis -/
theorem C15_join_segments (c : Bytes) (xs : List Bytes) (hc : Valid c)
    (hno : ∀ x ∈ xs, slash ∉ x) :
    segments (join c xs) = segments c ++ xs.filter (· ≠ []) := by
  unfold join
  split
  · rename_i h0
    have hall : ∀ x ∈ xs, x = [] := by
      clear hno
      induction xs with
      | nil => simp
      | cons y ys ih =>
        simp only [List.map_cons, List.sum_cons] at h0
        intro x hx
        rcases List.mem_cons.1 hx with rfl | hx
        · exact List.length_eq_zero_iff.1 (by omega)
        · exact ih (by omega) x hx
    have : xs.filter (· ≠ []) = [] := by
      rw [List.filter_eq_nil_iff]
      intro x hx
      simp [hall x hx]
    rw [this, List.append_nil]
  · exact joinLoop_segments c xs hc hno

/-- regenerated fact: the separator constant of the source is the byte the model splits on -/
theorem C15_fact_separator : Facts.separator = [slash] := by decide

-- non-vacuity: the hypotheses are met by concrete commands, and both outcomes occur
example : Valid [slash, 97] ∧ Valid [slash, 97, slash, 98] ∧
    covers [slash, 97] [slash, 97, slash, 98] = true ∧
    covers [slash, 97] [slash, 97, 98] = false := by
  refine ⟨⟨⟨_, rfl⟩, Or.inr (by decide)⟩, ⟨⟨_, rfl⟩, Or.inr (by decide)⟩, by decide, by decide⟩

/-- the tables and constants this property's theorems are stated over were READ OFF the current source on this run (a fact
that can no longer be read is replaced by its expected value so that the model keeps compiling; it is then listed in
`Facts.notExtracted` and this theorem fails) -/
theorem C15_facts_extracted : ∀ n ∈ ["separator"], n ∈ Ucan.Facts.extracted := by decide

end Ucan.Command
