import Ucan.Lemmas.Policy
import Ucan.Lemmas.Glob
/-!
# C11 — policy matching follows the policy-language semantics

Property theorems only. Model: `Ucan/Model/Policy.lean`; spec: `Ucan/Spec/Policy.lean`.
-/
set_option linter.unusedSimpArgs false
namespace Ucan.Policy
open Ucan.Selector

/-! ## classical semantics when every selector resolves -/

theorem globMatch_eq_matchSpec (ps : List Glob.Tok) (s : Bytes) : Glob.globMatch ps s = Glob.matchSpec ps s := by
  unfold Glob.globMatch
  split
  · rename_i b h; exact (Glob.litRun_done h).1.symm
  · rename_i ps' s' h; rw [Glob.scan_eq, Glob.litRun_star_zero h]
  · rename_i h; exact (Glob.litRun_fail h).symm

theorem map_classical_of_resolves (s : Stmt)
    (ih : ∀ x, resolves s x = true → matchStmt s x = Res.ofBool (classical s x))
    (xs : List Node) (h : xs.all (fun x => resolves s x) = true) :
    xs.map (fun x => matchStmt s x) = (xs.map (fun x => classical s x)).map Res.ofBool := by
  induction xs with
  | nil => rfl
  | cons x xs ihx =>
    simp only [List.all_cons, Bool.and_eq_true] at h
    simp only [List.map_cons, ih x h.1, ihx h.2]

mutual
theorem classical_stmt : ∀ (s : Stmt) (n : Node), resolves s n = true →
    matchStmt s n = Res.ofBool (classical s n)
  | .cmp op sel v, n, h => by
    simp only [resolves, matchStmt, classical] at *
    cases hs : select sel n with
    | error e => simp [hs] at h
    | ok o => cases o with
      | none => simp [hs] at h
      | some r => rfl
  | .like sel pat, n, h => by
    simp only [resolves, matchStmt, classical] at *
    cases hs : select sel n with
    | error e => simp [hs] at h
    | ok o => cases o with
      | none => simp [hs] at h
      | some r => cases r <;> simp [globMatch_eq_matchSpec, Res.ofBool]
  | .not s, n, h => by
    simp only [resolves] at h
    simp only [matchStmt, classical, classical_stmt s n h]
    cases classical s n <;> rfl
  | .and ss, n, h => by
    simp only [resolves] at h
    simp only [matchStmt, classical]
    obtain ⟨bs, h1, h2⟩ := classical_list ss n h
    rw [h1, andLoop_bools, h2]
  | .or ss, n, h => by
    simp only [resolves] at h
    simp only [matchStmt, classical]
    obtain ⟨bs, h1, h2, h3⟩ := classical_list_or ss n h
    cases he : ss.isEmpty with
    | true => simp [Res.ofBool]
    | false => simp only [if_false, Bool.false_eq_true, Bool.false_or]; rw [h1, orLoop_bools, h2]
  | .all sel s, n, h => by
    simp only [resolves, matchStmt, classical] at *
    cases hs : select sel n with
    | error e => simp [hs] at h
    | ok o => cases o with
      | none => simp [hs] at h
      | some r =>
        cases r <;> try (simp [Res.ofBool]; done)
        rename_i xs
        simp only [hs] at h
        simp only []
        rw [map_classical_of_resolves s (classical_stmt s) xs h, andLoop_bools]
        simp [List.all_map]
  | .any sel s, n, h => by
    simp only [resolves, matchStmt, classical] at *
    cases hs : select sel n with
    | error e => simp [hs] at h
    | ok o => cases o with
      | none => simp [hs] at h
      | some r =>
        cases r <;> try (simp [Res.ofBool]; done)
        rename_i xs
        simp only [hs] at h
        simp only []
        rw [map_classical_of_resolves s (classical_stmt s) xs h, orLoop_bools]
        simp [List.any_map]
theorem classical_list : ∀ (ss : List Stmt) (n : Node), resolvesList ss n = true →
    ∃ bs : List Bool, matchList ss n = bs.map Res.ofBool ∧ bs.all id = classicalAll ss n
  | [], _, _ => ⟨[], rfl, rfl⟩
  | s :: ss, n, h => by
    simp only [resolvesList, Bool.and_eq_true] at h
    obtain ⟨bs, h1, h2⟩ := classical_list ss n h.2
    refine ⟨classical s n :: bs, ?_, ?_⟩
    · simp only [matchList, List.map_cons, classical_stmt s n h.1, h1]
    · simp only [List.all_cons, id, classicalAll, h2]
theorem classical_list_or : ∀ (ss : List Stmt) (n : Node), resolvesList ss n = true →
    ∃ bs : List Bool, matchList ss n = bs.map Res.ofBool ∧ bs.any id = classicalAny ss n ∧ True
  | [], _, _ => ⟨[], rfl, rfl, trivial⟩
  | s :: ss, n, h => by
    simp only [resolvesList, Bool.and_eq_true] at h
    obtain ⟨bs, h1, h2, _⟩ := classical_list_or ss n h.2
    refine ⟨classical s n :: bs, ?_, ?_, trivial⟩
    · simp only [matchList, List.map_cons, classical_stmt s n h.1, h1]
    · simp only [List.any_cons, id, classicalAny, h2]
end

/-- C11, classical clause: when every selector of the policy resolves, the policy matches exactly when
    all its statements are true under the classical reading -/
theorem C11_classical (p : List Stmt) (n : Node) (h : ∀ s ∈ p, resolves s n = true) :
    Match p n = p.all (fun s => classical s n) := by
  induction p with
  | nil => rfl
  | cons s p ih =>
    have hs := classical_stmt s n (h s List.mem_cons_self)
    have hp := ih (fun s' hs' => h s' (List.mem_cons_of_mem _ hs'))
    simp only [Match, hs, List.all_cons]
    cases classical s n <;> simp [Res.ofBool, hp]

/-- `like` inside the classical reading is membership in the glob language (C13) -/
theorem C11_classical_like (sel : List Seg) (pat : List Glob.Tok) (n : Node) (s : Bytes)
    (h : select sel n = .ok (some (.str s))) : classical (.like sel pat) n = Glob.matchSpec pat s := by
  simp [classical, h]

/-- ordering comparisons hold between two integers or two finite floats only -/
theorem C11_ordered_int (a b : Int) (ha : intFits64 a = true) (hb : intFits64 b = true) :
    isOrdered (.int b) (.int a) .gt = decide (a > b) ∧ isOrdered (.int b) (.int a) .gte = decide (a ≥ b) ∧
    isOrdered (.int b) (.int a) .lt = decide (a < b) ∧ isOrdered (.int b) (.int a) .lte = decide (a ≤ b) := by
  simp only [isOrdered, Op.satisfies, compareInt, ha, hb, Bool.true_and]
  by_cases h1 : a < b
  · have h2 : ¬ a > b := by omega
    have h3 : ¬ a ≥ b := by omega
    have h4 : a ≤ b := by omega
    simp [h1, h2, h3, h4]
  · by_cases h2 : a > b
    · have h3 : a ≥ b := by omega
      have h4 : ¬ a ≤ b := by omega
      simp [h1, h2, h3, h4]
    · have h3 : a ≥ b := by omega
      have h4 : a ≤ b := by omega
      simp [h1, h2, h3, h4]

/-- an integer that does not fit int64 (an unsigned value above 2^63−1) is never ordered and never
    equal: the Go code used to panic there (C09) -/
theorem C11_ordered_int_beyond_int64 (a b : Int) (op : Op) (h : intFits64 a = false ∨ intFits64 b = false) :
    cmpOp op (.int b) (.int a) = false := by
  cases op <;> rcases h with h | h <;> simp [cmpOp, isOrdered, Node.deepEq, h]

theorem C11_ordered_mixed (a : Int) (b : UInt64) (op : Op) :
    isOrdered (.int a) (.float b) op = false ∧ isOrdered (.float b) (.int a) op = false := by
  simp [isOrdered]

theorem C11_ordered_nonfinite (a b : UInt64) (op : Op)
    (h : Float64.isNaN a = true ∨ Float64.isInf a = true ∨ Float64.isNaN b = true ∨ Float64.isInf b = true) :
    isOrdered (.float b) (.float a) op = false := by
  simp only [isOrdered]
  rcases h with h | h | h | h <;> simp [h]

/-! ## independence of the order of operands and of visited elements -/

mutual
theorem permEq_sound : ∀ {a b : Stmt}, PermEq a b → ∀ n, matchStmt a n = matchStmt b n
  | _, _, .refl _, _ => rfl
  | _, _, .trans h1 h2, n => (permEq_sound h1 n).trans (permEq_sound h2 n)
  | _, _, .not h, n => by simp only [matchStmt, permEq_sound h n]
  | _, _, .and h, n => by simp only [matchStmt]; exact (permEqList_sound h n).1
  | _, _, .or h, n => by
    simp only [matchStmt]
    obtain ⟨_, h2, h3⟩ := permEqList_sound h n
    rw [h2, h3]
  | _, _, .all sel h, n => by
    simp only [matchStmt]
    have : (fun x => matchStmt _ x) = (fun x => matchStmt _ x) := funext (permEq_sound h)
    rw [this]
  | _, _, .any sel h, n => by
    simp only [matchStmt]
    have : (fun x => matchStmt _ x) = (fun x => matchStmt _ x) := funext (permEq_sound h)
    rw [this]
theorem permEqList_sound : ∀ {as bs : List Stmt}, PermEqList as bs → ∀ n,
    andLoop .t (matchList as n) = andLoop .t (matchList bs n) ∧
    orLoop .f (matchList as n) = orLoop .f (matchList bs n) ∧ as.isEmpty = bs.isEmpty
  | _, _, .nil, _ => ⟨rfl, rfl, rfl⟩
  | _, _, .cons h hs, n => by
    obtain ⟨h1, h2, _⟩ := permEqList_sound hs n
    refine ⟨?_, ?_, rfl⟩
    · simp only [matchList, andLoop_cons, permEq_sound h n, h1]
    · simp only [matchList, orLoop_cons, permEq_sound h n, h2]
  | _, _, .swap a b ss, n => by
    refine ⟨?_, ?_, rfl⟩
    · simp only [matchList, andLoop_cons]
      rw [← andC_assoc, andC_comm (matchStmt a n), andC_assoc]
    · simp only [matchList, orLoop_cons]
      rw [← orC_assoc, orC_comm (matchStmt a n), orC_assoc]
  | _, _, .trans h1 h2, n => by
    obtain ⟨a1, a2, a3⟩ := permEqList_sound h1 n
    obtain ⟨b1, b2, b3⟩ := permEqList_sound h2 n
    exact ⟨a1.trans b1, a2.trans b2, a3.trans b3⟩
end

/-- any permutation of a list of statements is related by `PermEqList` -/
theorem permEqList_of_perm {as bs : List Stmt} (p : as.Perm bs) : PermEqList as bs := by
  induction p with
  | nil => exact .nil
  | cons x _ ih => exact .cons (.refl x) ih
  | swap x y l =>
    have hl : PermEqList l l := by
      induction l with
      | nil => exact .nil
      | cons z l ih => exact .cons (.refl z) ih
    exact .trans (.swap y x l) (.cons (.refl x) (.cons (.refl y) hl))
  | trans _ _ ih1 ih2 => exact .trans ih1 ih2

/-- C11, order clause (operands): permuting the operands of `and`/`or` anywhere in any statement of the
    policy changes neither `Match` nor `PartialMatch` -/
theorem C11_perm_operands (p q : List Stmt) (n : Node) (h : PolicyPermEq p q) :
    Match p n = Match q n ∧ PartialMatch p n = PartialMatch q n := by
  induction h with
  | nil => exact ⟨rfl, rfl⟩
  | cons hs _ ih => simp only [Match, PartialMatch, permEq_sound hs n, ih.1, ih.2, and_self]

theorem C11_perm_and (ss ss' : List Stmt) (n : Node) (h : ss.Perm ss') :
    matchStmt (.and ss) n = matchStmt (.and ss') n :=
  permEq_sound (.and (permEqList_of_perm h)) n

theorem C11_perm_or (ss ss' : List Stmt) (n : Node) (h : ss.Perm ss') :
    matchStmt (.or ss) n = matchStmt (.or ss') n :=
  permEq_sound (.or (permEqList_of_perm h)) n

/-- C11, order clause (elements): `all`/`any` do not depend on the order in which the elements of the
    selected list are visited -/
theorem C11_perm_elements (sel : List Seg) (s : Stmt) (n n' : Node) (xs xs' : List Node)
    (h1 : select sel n = .ok (some (.list xs))) (h2 : select sel n' = .ok (some (.list xs')))
    (p : xs.Perm xs') :
    matchStmt (.all sel s) n = matchStmt (.all sel s) n' ∧ matchStmt (.any sel s) n = matchStmt (.any sel s) n' := by
  simp only [matchStmt, h1, h2]
  exact ⟨andLoop_perm (p.map _), orLoop_perm (p.map _)⟩

/-! ## monotonicity, full ⇒ partial, concatenation, missing data -/

theorem passes_andC (a b : Res) : (andC a b).passes = (a.passes && b.passes) := by
  cases a <;> cases b <;> rfl

/-- C11, monotonicity: adding an operand to a top-level `and` never turns a failing match into a passing
    one (stated contrapositively: if the larger `and` passes, so does the smaller) -/
theorem C11_and_monotone (ss₁ ss₂ : List Stmt) (s : Stmt) (p : List Stmt) (n : Node)
    (h : Match (.and (ss₁ ++ s :: ss₂) :: p) n = true) : Match (.and (ss₁ ++ ss₂) :: p) n = true := by
  have key : ∀ ss, (matchStmt (.and ss) n).passes = (ss.all (fun x => (matchStmt x n).passes)) := by
    intro ss
    simp only [matchStmt]
    induction ss with
    | nil => rfl
    | cons x xs ih => simp only [matchList, andLoop_cons, passes_andC, ih, List.all_cons]
  have hm : ∀ st q, Match (st :: q) n = ((matchStmt st n).passes && Match q n) := by
    intro st q; simp only [Match]; cases matchStmt st n <;> simp [Res.passes]
  rw [hm, key] at h ⊢
  simp only [List.all_append, List.all_cons, Bool.and_eq_true] at h ⊢
  exact ⟨⟨h.1.1, h.1.2.2⟩, h.2⟩

/-- the same for an element added to the list visited by a top-level `all` -/
theorem C11_all_monotone (sel : List Seg) (s : Stmt) (p : List Stmt) (n n' : Node) (xs₁ xs₂ : List Node) (x : Node)
    (h1 : select sel n = .ok (some (.list (xs₁ ++ x :: xs₂)))) (h2 : select sel n' = .ok (some (.list (xs₁ ++ xs₂))))
    (hp : Match p n = true → Match p n' = true)
    (h : Match (.all sel s :: p) n = true) : Match (.all sel s :: p) n' = true := by
  have key : ∀ ys : List Node, (andLoop .t (ys.map (fun y => matchStmt s y))).passes =
      ys.all (fun y => (matchStmt s y).passes) := by
    intro ys
    induction ys with
    | nil => rfl
    | cons y ys ih => simp only [List.map_cons, andLoop_cons, passes_andC, ih, List.all_cons]
  have hm : ∀ st q m, Match (st :: q) m = ((matchStmt st m).passes && Match q m) := by
    intro st q m; simp only [Match]; cases matchStmt st m <;> simp [Res.passes]
  rw [hm] at h ⊢
  simp only [matchStmt, h1, h2, key, List.all_append, List.all_cons, Bool.and_eq_true] at h ⊢
  exact ⟨⟨h.1.1, h.1.2.2⟩, hp h.2⟩

/-- C11: a full match implies a partial match -/
theorem C11_full_implies_partial (p : List Stmt) (n : Node) (h : Match p n = true) : PartialMatch p n = true := by
  induction p with
  | nil => rfl
  | cons s p ih =>
    simp only [Match, PartialMatch] at h ⊢
    cases hs : matchStmt s n <;> simp [hs] at h ⊢ <;> exact ih h

/-- C11: matching concatenated policies equals matching each of them -/
theorem C11_append (p q : List Stmt) (n : Node) :
    Match (p ++ q) n = (Match p n && Match q n) ∧ PartialMatch (p ++ q) n = (PartialMatch p n && PartialMatch q n) := by
  induction p with
  | nil => simp [Match, PartialMatch]
  | cons s p ih =>
    simp only [List.cons_append, Match, PartialMatch]
    cases matchStmt s n <;> simp [ih.1, ih.2]

/-- C11: a top-level comparison whose REQUIRED data is missing fails the full match but not the partial one -/
theorem C11_required_missing (op : Op) (sel : List Seg) (v : Node) (n : Node) (e : Err)
    (h : select sel n = .error e) :
    Match [.cmp op sel v] n = false ∧ PartialMatch [.cmp op sel v] n = true := by
  simp [Match, PartialMatch, matchStmt, h]

/-- C11: a top-level comparison over missing OPTIONAL data passes both -/
theorem C11_optional_missing (op : Op) (sel : List Seg) (v : Node) (n : Node)
    (h : select sel n = .ok none) :
    Match [.cmp op sel v] n = true ∧ PartialMatch [.cmp op sel v] n = true := by
  simp [Match, PartialMatch, matchStmt, h]

-- non-vacuity: the witness that used to depend on operand order (`and [.a? == 1, .b == 2]` on {b: 3})
example :
    let a : Stmt := .cmp .eq [{ str := [], isField := true, field := [97], optional := true }] (.int 1)
    let b : Stmt := .cmp .eq [{ str := [], isField := true, field := [98] }] (.int 2)
    let n : Node := .map [([98], .int 3)]
    Match [.and [a, b]] n = false ∧ Match [.and [b, a]] n = false := by
  simp [Match, matchStmt, matchList, andLoop, select, resolve, Node.lookup, cmpOp, Node.deepEq, Res.ofBool]

end Ucan.Policy
