import Ucan.Props.C02
/-!
# C04 — expired or not-yet-active tokens never authorize
-/
set_option linter.unusedSectionVars false
namespace Ucan.Chain

variable {D C X : Type} [DecidableEq D]

/-- a delegation is valid at every instant strictly inside its window (absent bound = unbounded) -/
theorem C04_inside (d : Dlg D) (t : Int) (h1 : ∀ b, d.nbf = some b → b < t) (h2 : ∀ e, d.exp = some e → t < e) :
    d.validAt t = true := by
  rw [dlg_validAt_iff]
  exact ⟨fun b hb => Int.le_of_lt (h1 b hb), fun e he => Int.le_of_lt (h2 e he)⟩

/-- a delegation is invalid at every instant strictly outside its window -/
theorem C04_outside (d : Dlg D) (t : Int)
    (h : (∃ b, d.nbf = some b ∧ t < b) ∨ (∃ e, d.exp = some e ∧ e < t)) : d.validAt t = false := by
  cases hv : d.validAt t with
  | false => rfl
  | true =>
    have := (dlg_validAt_iff d t).1 hv
    rcases h with ⟨b, hb, hlt⟩ | ⟨e, he, hlt⟩
    · have := this.1 b hb; omega
    · have := this.2 e he; omega

theorem C04_inv_inside (inv : Inv D C X) (t : Int) (h : ∀ e, inv.exp = some e → t < e) : inv.validAt t = true := by
  rw [inv_validAt_iff]
  exact ⟨fun b hb => (by cases hb), fun e he => Int.le_of_lt (h e he)⟩

theorem C04_inv_outside (inv : Inv D C X) (t : Int) (e : Int) (he : inv.exp = some e) (hlt : e < t) :
    inv.validAt t = false := by
  cases hv : inv.validAt t with
  | false => rfl
  | true => have := ((inv_validAt_iff inv t).1 hv).2 e he; omega

theorem verifyTime_ok_iff (now : Int) (inv : Inv D C X) (ds : List (Dlg D)) :
    verifyTime now inv ds = .ok () ↔ TimeSpec now inv ds := by
  unfold verifyTime TimeSpec
  constructor
  · intro h
    split at h
    · cases h
    · rename_i hi
      split at h
      · rename_i hall
        refine ⟨(inv_validAt_iff inv now).1 (by simpa using hi), ?_⟩
        intro d hd
        exact (dlg_validAt_iff d now).1 (List.all_eq_true.1 hall d hd)
      · cases h
  · rintro ⟨h1, h2⟩
    have hi : inv.validAt now = true := (inv_validAt_iff inv now).2 h1
    rw [if_neg (by simp [hi]), if_pos]
    exact List.all_eq_true.2 (fun d hd => (dlg_validAt_iff d now).2 (h2 d hd))

/-- C04 (soundness): an allowed invocation is itself valid at the time of the check, and so is every
    delegation of its chain -/
theorem C04_sound (ld : C → Option (Dlg D)) (now : Int) (inv : Inv D C X) (args : Node)
    (h : executionAllowed ld now inv args = .ok ()) :
    ∃ ds, loadProofs ld inv.prf = .ok ds ∧ inv.validAt now = true ∧ ∀ d ∈ ds, d.validAt now = true := by
  obtain ⟨ds, hl, _, ht, _⟩ := allowed_loaded_verified ld now inv args h
  obtain ⟨h1, h2⟩ := (verifyTime_ok_iff now inv ds).1 ht
  exact ⟨ds, hl, (inv_validAt_iff inv now).2 h1, fun d hd => (dlg_validAt_iff d now).2 (h2 d hd)⟩

-- non-vacuity: both outcomes occur for a window [10, 20]
example : (⟨0, 1, none, [], [], some 10, some 20⟩ : Dlg Nat).validAt 15 = true ∧
    (⟨0, 1, none, [], [], some 10, some 20⟩ : Dlg Nat).validAt 21 = false ∧
    (⟨0, 1, none, [], [], some 10, some 20⟩ : Dlg Nat).validAt 9 = false := by decide

end Ucan.Chain
