import Ucan.Model.Meta
/-!
# C19 — encrypted metadata: key validation, layout, round trip (partial)

Proved: what the wrapper does around the secretbox primitive. NOT proved (cryptographic assumptions, named):
that secretbox hides the plaintext and refuses every modified ciphertext or wrong key, and that
crypto/rand nonces do not repeat. The stream `meta` tests the wiring on every single-bit modification.
-/
set_option linter.unusedSimpArgs false
namespace Ucan.Meta

/-- keys that are missing, of the wrong size or all-zero are refused — and only those -/
theorem C19_validateKey_iff (key : Option Bytes) :
    (∃ k, validateKey key = .ok k) ↔ ∃ k, key = some k ∧ k.length = 32 ∧ ¬ (∀ b ∈ k, b = 0) := by
  unfold validateKey
  cases key with
  | none => simp
  | some k =>
    by_cases h1 : k.length = keySize
    · by_cases h2 : k.all (· == 0) = true
      · simp only [h1, ne_eq, not_true_eq_false, if_false, h2, if_true]
        constructor
        · rintro ⟨_, h⟩; cases h
        · rintro ⟨k', hk, _, hz⟩; cases hk
          exact absurd (by simpa using h2) hz
      · simp only [h1, ne_eq, not_true_eq_false, if_false, h2]
        constructor
        · intro _; exact ⟨k, rfl, h1, by simpa using h2⟩
        · intro _; exact ⟨k, rfl⟩
    · simp only [ne_eq, h1, not_false_eq_true, if_true]
      constructor
      · rintro ⟨_, h⟩; cases h
      · rintro ⟨k', hk, hl, _⟩; cases hk; exact absurd hl h1

theorem C19_encrypt_refuses_bad_key (sealFn : Bytes → Bytes → Bytes → Bytes) (key : Option Bytes) (n d : Bytes) (e : Err)
    (h : validateKey key = .error e) : encrypt sealFn key n d = .error e := by
  simp [encrypt, h]

theorem C19_decrypt_refuses_bad_key (open_ : Bytes → Bytes → Bytes → Option Bytes) (key : Option Bytes) (c : Bytes) (e : Err)
    (h : validateKey key = .error e) : decrypt open_ key c = .error e := by
  simp [decrypt, h]

/-- layout: the stored value is the 24-byte nonce followed by the box; with a box of |m| + 16 bytes
    (Poly1305 tag) that is |m| + 40 bytes -/
theorem C19_layout (sealFn : Bytes → Bytes → Bytes → Bytes) (key : Option Bytes) (k nonce d c : Bytes)
    (hk : validateKey key = .ok k) (hn : nonce.length = 24) (hbox : ∀ k n m, (sealFn k n m).length = m.length + 16)
    (h : encrypt sealFn key nonce d = .ok c) :
    c = nonce ++ sealFn k nonce d ∧ c.take 24 = nonce ∧ c.length = d.length + 40 := by
  simp only [encrypt, hk] at h
  cases h
  refine ⟨rfl, ?_, ?_⟩
  · rw [← hn]; simp
  · simp [hn, hbox]; omega

/-- round trip: a value added encrypted is returned unchanged with the same key, given that `open`
    inverts `sealFn` (the secretbox contract) -/
theorem C19_roundtrip (sealFn : Bytes → Bytes → Bytes → Bytes) (open_ : Bytes → Bytes → Bytes → Option Bytes)
    (hso : ∀ k n m, open_ k n (sealFn k n m) = some m)
    (key : Option Bytes) (k nonce : Bytes) (v : Plain) (d : Bytes) (stored : Node)
    (hk : validateKey key = .ok k) (hn : nonce.length = 24) (hv : v.data = some d)
    (h : addEncrypted sealFn key nonce v = .ok stored) :
    getEncrypted open_ key (some stored) = .ok d := by
  simp only [addEncrypted, hv, encrypt, hk] at h
  cases h
  have hlen : ¬ (nonce ++ sealFn k nonce d).length < nonceSize := by simp [nonceSize, hn]
  simp only [getEncrypted, decrypt, hk, hlen, if_false]
  have h1 : (nonce ++ sealFn k nonce d).take nonceSize = nonce := by rw [nonceSize, ← hn]; simp
  have h2 : (nonce ++ sealFn k nonce d).drop nonceSize = sealFn k nonce d := by rw [nonceSize, ← hn]; simp
  rw [h1, h2, hso]

/-- whatever secretbox refuses (wrong key, modified ciphertext or nonce) surfaces as an error, never as data -/
theorem C19_refusal_is_error (open_ : Bytes → Bytes → Bytes → Option Bytes) (key : Option Bytes) (k c : Bytes)
    (hk : validateKey key = .ok k) (hl : 24 ≤ c.length) (hr : open_ k (c.take 24) (c.drop 24) = none) :
    getEncrypted open_ key (some (.bytes c)) = .error .decryption := by
  have : ¬ c.length < nonceSize := by simp [nonceSize]; omega
  simp [getEncrypted, decrypt, hk, this, nonceSize, hr, hl]

theorem C19_short_ciphertext (open_ : Bytes → Bytes → Bytes → Option Bytes) (key : Option Bytes) (k c : Bytes)
    (hk : validateKey key = .ok k) (hl : c.length < 24) :
    getEncrypted open_ key (some (.bytes c)) = .error .shortCiphertext := by
  simp [getEncrypted, decrypt, hk, nonceSize, hl]

/-- two encryptions of the same value under different nonces are stored differently -/
theorem C19_distinct_nonce_distinct_value (sealFn : Bytes → Bytes → Bytes → Bytes) (key : Option Bytes) (n1 n2 d c1 c2 : Bytes)
    (h1 : encrypt sealFn key n1 d = .ok c1) (h2 : encrypt sealFn key n2 d = .ok c2)
    (hl1 : n1.length = 24) (hl2 : n2.length = 24) (hne : n1 ≠ n2) : c1 ≠ c2 := by
  unfold encrypt at h1 h2
  cases hk : validateKey key with
  | error e => simp [hk] at h1
  | ok k =>
    simp only [hk] at h1 h2
    cases h1; cases h2
    intro h
    have := congrArg (List.take 24) h
    rw [← hl1] at this
    simp only [List.take_left] at this
    rw [hl1, ← hl2] at this
    simp only [List.take_left] at this
    exact hne this

/-- only strings and byte slices can be encrypted -/
theorem C19_only_strings_and_bytes (sealFn : Bytes → Bytes → Bytes → Bytes) (key : Option Bytes) (n : Bytes) :
    addEncrypted sealFn key n .other = .error .notEncryptable := rfl

/-- C19 (entropy source): when the random source fails or delivers fewer than 24 bytes, encryption is an
    ERROR — no value is ever stored under a nonce that was not entirely drawn (a swallowed read error would
    store it under a partly zero, repeating nonce and two encryptions of the same value would coincide) -/
theorem C19_entropy_failure_is_error (sealFn : Bytes → Bytes → Bytes → Bytes) (key : Option Bytes) (src : Option Bytes)
    (data : Bytes) (h : src = none ∨ ∃ d, src = some d ∧ d.length < nonceSize) :
    ∃ e, encryptDrawing sealFn key src data = .error e := by
  unfold encryptDrawing
  cases validateKey key with
  | error e => exact ⟨e, rfl⟩
  | ok k =>
    rcases h with h | ⟨d, h, hl⟩
    · subst h; exact ⟨.entropy, rfl⟩
    · subst h; exact ⟨.entropy, by simp [hl]⟩

/-- the stored nonce is exactly what was drawn -/
theorem C19_nonce_is_what_was_drawn (sealFn : Bytes → Bytes → Bytes → Bytes) (key : Option Bytes) (d data c : Bytes)
    (h : encryptDrawing sealFn key (some d) data = .ok c) : c.take nonceSize = d.take nonceSize ∧ nonceSize ≤ d.length := by
  unfold encryptDrawing at h
  cases hk : validateKey key with
  | error e => rw [hk] at h; cases h
  | ok k =>
    rw [hk] at h; simp only at h
    by_cases hl : d.length < nonceSize
    · rw [if_pos hl] at h; cases h
    · rw [if_neg hl] at h
      unfold encrypt at h
      rw [hk] at h; cases h
      have : (d.take nonceSize).length = nonceSize := by simp [List.length_take]; omega
      refine ⟨?_, by omega⟩
      rw [List.take_append_of_le_length (by omega), List.take_of_length_le (by omega)]

end Ucan.Meta
