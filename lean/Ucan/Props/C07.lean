import Ucan.Props.C10
/-!
# C07 — seal then unseal is lossless for every token, key algorithm and codec
-/
set_option linter.unusedSimpArgs false
namespace Ucan.Token
open Ucan.Envelope Ucan.Policy

variable {K : Type}

/-- what the constructors guarantee about a delegation (each clause is enforced by `validate()`, by the
    type of the field, or by a round-trip theorem of the component: C16 for DIDs, C15 for commands,
    C14 for policies) -/
structure DlgConstructible (env : TEnv K) (printDid : Did.DID → Bytes) (t : Dlg) : Prop where
  iss : Did.parse env.mbDecode (printDid t.iss) = .ok t.iss
  aud : Did.parse env.mbDecode (printDid t.aud) = .ok t.aud
  sub : ∀ d, t.sub = some d → Did.parse env.mbDecode (printDid d) = .ok d
  cmd : Command.parse env.lower t.cmd = .ok t.cmd
  pol : Policy.fromIPLD env.isLetter (Policy.toIPLD t.pol) = .ok t.pol
  nonce : Facts.dlgNonceMin ≤ t.nonce.length
  nbf : ∀ b, t.nbf = some b → Facts.minInt53 ≤ b ∧ b ≤ Facts.maxInt53
  exp : ∀ e, t.exp = some e → Facts.minInt53 ≤ e ∧ e ≤ Facts.maxInt53

theorem lookup_append (k : Bytes) (a b : List (Bytes × Node)) :
    Node.lookup k (a ++ b) = (Node.lookup k a).orElse (fun _ => Node.lookup k b) := by
  induction a with
  | nil => simp [Node.lookup]
  | cons x a ih =>
    obtain ⟨k', v⟩ := x
    simp only [List.cons_append, Node.lookup]
    split
    · simp
    · exact ih

/-- C07 (payload level, delegation): every field of a constructible delegation survives
    `toIPLD` followed by `tokenFromModel` -/
theorem C07_dlg_payload_roundtrip (env : TEnv K) (printDid : Did.DID → Bytes) (t : Dlg)
    (h : DlgConstructible env printDid t) :
    ∃ kvs, dlgToPayload printDid t = .map kvs ∧ dlgFromPayload env kvs = .ok t := by
  refine ⟨_, rfl, ?_⟩
  obtain ⟨iss, aud, sub, cmd, pol, nonce, metadata, nbf, exp⟩ := t
  have hmin := C10_nonce_min.1
  have hn0 : ¬ nonce.length = 0 := by have := h.nonce; simp only at this; omega
  have hn1 : ¬ nonce.length < Facts.dlgNonceMin := by have := h.nonce; simp only at this; omega
  have hk : ∀ a b : String, (key a = key b) = (decide (key a = key b) = true) := by intros; simp
  have hsub := h.sub
  have hnbf := h.nbf
  have hexp := h.exp
  simp only at hsub hnbf hexp
  unfold dlgFromPayload
  cases sub <;> cases nbf <;> cases exp <;> by_cases hm : metadata.isEmpty = true <;>
    simp only [Option.some.injEq, forall_eq', reduceCtorEq, false_imp_iff, implies_true] at hsub hnbf hexp <;>
    simp [getStr, parseDid, optDid, optTimestamp, optMeta, parseCmd, optEntry, nullable, lookup_append, Node.lookup,
      key, asciiBytes, h.iss, h.aud, h.cmd, h.pol, hn0, hn1, hm, hsub, hnbf, hexp, Option.orElse, Except.map] <;>
    (try exact List.isEmpty_iff.1 hm)

/-- the payload written for a constructible delegation conforms to the schema it is decoded with -/
theorem dlg_payload_conforms (env : TEnv K) (printDid : Did.DID → Bytes) (t : Dlg)
    (h : DlgConstructible env printDid t) :
    ∃ kvs, dlgToPayload printDid t = .map kvs ∧ decodeStruct dlgFields (.map kvs) = .ok kvs := by
  refine ⟨_, rfl, ?_⟩
  obtain ⟨iss, aud, sub, cmd, pol, nonce, metadata, nbf, exp⟩ := t
  have hnbf := h.nbf
  have hexp := h.exp
  simp only at hnbf hexp
  have hpol : ∃ xs, Policy.toIPLD pol = .list xs := ⟨_, rfl⟩
  obtain ⟨xs, hxs⟩ := hpol
  cases sub <;> cases nbf <;> cases exp <;> by_cases hm : metadata.isEmpty = true <;>
    simp only [Option.some.injEq, forall_eq', reduceCtorEq, false_imp_iff, implies_true] at hnbf hexp <;>
    simp [decodeStruct, dlgFields, Facts.dlgSchema, fieldOfFact, kindOfTypeName, valueOk, hasDupKeys, Node.lookup,
      optEntry, nullable, key, asciiBytes, hm, hxs] <;>
    (simp only [Facts.minInt53, Facts.maxInt53] at hnbf hexp; simp only [minInt64, maxInt64]; omega)

/-- C07 (envelope level, delegation): sealing a constructible delegation with the issuer's key and unsealing
    it gives back every field, for any signature scheme with `verify k m (sign m)` and any key type whose
    varsig header the table knows -/
theorem C07_dlg_unseal_seal (env : TEnv K) (printDid : Did.DID → Bytes) (t : Dlg) (sign : Bytes → Bytes)
    (k : K) (header : Bytes)
    (h : DlgConstructible env printDid t)
    (hkey : Did.pubKey env.marshal env.unmarshal t.iss = .ok k)
    (hhdr : varsigFor t.iss.code = some header)
    (hsig : ∀ m, env.verify k m (sign m) = true) :
    dlgFromIPLD env (sealNode sign header Facts.dlgTag (dlgToPayload printDid t)) = .ok t := by
  obtain ⟨kvs, hp, hd⟩ := dlg_payload_conforms env printDid t h
  obtain ⟨kvs', hp', hr⟩ := C07_dlg_payload_roundtrip env printDid t h
  rw [hp] at hp'; cases hp'
  have hiss : Node.lookup issKey kvs = some (.str (printDid t.iss)) := by
    have : dlgToPayload printDid t = .map kvs := hp
    unfold dlgToPayload at this
    cases this
    simp [Node.lookup, issKey, key, asciiBytes]
  have htag : classifyEntry Facts.dlgTag (.map kvs) = .ok (.inr (Facts.dlgTag, .map kvs)) := by
    simp [classifyEntry, Facts.dlgTag, headerKey, tagPrefix]
  have hh : classifyEntry headerKey (.bytes header) = .ok (.inl header) := by simp [classifyEntry]
  unfold dlgFromIPLD Envelope.fromIPLD sealNode
  rw [hp]
  simp [inspect, htag, hh, hd, hiss, h.iss, hkey, hhdr, hsig, hr]

/-- what the constructors guarantee about an invocation -/
structure InvConstructible (env : TEnv K) (printDid : Did.DID → Bytes) (t : Inv) : Prop where
  iss : Did.parse env.mbDecode (printDid t.iss) = .ok t.iss
  sub : Did.parse env.mbDecode (printDid t.sub) = .ok t.sub
  aud : ∀ d, t.aud = some d → Did.parse env.mbDecode (printDid d) = .ok d
  cmd : Command.parse env.lower t.cmd = .ok t.cmd
  args : t.args.all (fun kv => intsInBounds kv.2) = true
  nonce : Facts.invNonceMin ≤ t.nonce.length
  exp : ∀ e, t.exp = some e → Facts.minInt53 ≤ e ∧ e ≤ Facts.maxInt53
  iat : ∀ e, t.iat = some e → Facts.minInt53 ≤ e ∧ e ≤ Facts.maxInt53

theorem mapM_linkBytes (cs : List Bytes) : cs.mapM (linkBytes ∘ Node.link) = some cs := by
  induction cs with
  | nil => rfl
  | cons c cs ih => simp [List.mapM_cons, linkBytes, ih]

/-- C07 (payload level, invocation): every field of a constructible invocation survives
    `toIPLD` followed by `tokenFromModel` -/
theorem C07_inv_payload_roundtrip (env : TEnv K) (printDid : Did.DID → Bytes) (t : Inv)
    (h : InvConstructible env printDid t) :
    ∃ kvs, invToPayload printDid t = .map kvs ∧ invFromPayload env kvs = .ok t := by
  refine ⟨_, rfl, ?_⟩
  obtain ⟨iss, sub, aud, cmd, args, prf, metadata, nonce, exp, iat, cause⟩ := t
  have hmin := C10_nonce_min.2
  have hn0 : ¬ nonce.length = 0 := by have := h.nonce; simp only at this; omega
  have hn1 : ¬ nonce.length < Facts.invNonceMin := by have := h.nonce; simp only at this; omega
  have haud := h.aud
  have hexp := h.exp
  have hiat := h.iat
  have hargs := h.args
  simp only at haud hexp hiat hargs
  unfold invFromPayload
  cases aud <;> cases exp <;> cases iat <;> cases cause <;> by_cases hm : metadata.isEmpty = true <;>
    simp only [Option.some.injEq, forall_eq', reduceCtorEq, false_imp_iff, implies_true] at haud hexp hiat <;>
    simp [getStr, parseDid, optDid, optTimestamp, optMeta, parseCmd, optEntry, nullable, lookup_append, Node.lookup,
      key, asciiBytes, h.iss, h.sub, h.cmd, hargs, mapM_linkBytes, hn0, hn1, hm, haud, hexp, hiat, Option.orElse, Except.map] <;>
    (try exact List.isEmpty_iff.1 hm)

/-- the tables and constants this property's theorems are stated over were READ OFF the current source on this run (a fact
that can no longer be read is replaced by its expected value so that the model keeps compiling; it is then listed in
`Facts.notExtracted` and this theorem fails) -/
theorem C07_facts_extracted : ∀ n ∈ ["dlgSchema", "invSchema", "dlgNonceMin", "invNonceMin", "maxInt53", "minInt53"], n ∈ Ucan.Facts.extracted := by decide

end Ucan.Token
