import Ucan.Props.C01
import Ucan.Props.C15
/-!
# C02 — commands can only be narrowed along a proof chain
-/
set_option linter.unusedSectionVars false
namespace Ucan.Chain

variable {D C X : Type} [DecidableEq D]

theorem allowed_loaded_verified (ld : C → Option (Dlg D)) (now : Int) (inv : Inv D C X) (args : Node)
    (h : executionAllowed ld now inv args = .ok ()) :
    ∃ ds, loadProofs ld inv.prf = .ok ds ∧ verifyProofs inv ds = .ok () ∧ verifyTime now inv ds = .ok () ∧
      verifyArgs ds args = .ok () := by
  unfold executionAllowed at h
  cases hl : loadProofs ld inv.prf with
  | error e => simp [hl] at h
  | ok ds =>
    simp only [hl] at h
    cases hv : verifyProofs inv ds with
    | error e => simp [hv] at h
    | ok u =>
      cases u
      simp only [hv] at h
      cases ht : verifyTime now inv ds with
      | error e => simp [ht] at h
      | ok u =>
        cases u
        simp only [ht] at h
        exact ⟨ds, rfl, hv, ht, h⟩

/-- C02 (soundness): an allowed invocation's first delegation covers the invoked command and every
    delegation's command is covered by the command of the next one towards the root -/
theorem C02_sound (ld : C → Option (Dlg D)) (now : Int) (inv : Inv D C X) (args : Node)
    (h : executionAllowed ld now inv args = .ok ()) :
    ∃ ds, loadProofs ld inv.prf = .ok ds ∧ CommandSpec inv ds := by
  obtain ⟨ds, hl, hv, _, _⟩ := allowed_loaded_verified ld now inv args h
  exact ⟨ds, hl, ((verifyProofs_ok_iff inv ds).1 hv).2⟩

/-- C02: no link widens — in terms of segments (C15), for chains of valid commands each link's
    segments are a prefix of the segments of the link it delegates to -/
theorem C02_no_widening (inv : Inv D C X) (ds : List (Dlg D)) (hc : CommandSpec inv ds)
    (hvalid : ∀ d ∈ ds, Command.Valid d.cmd) (i : Nat) (h : i + 1 < ds.length) :
    Command.segments ds[i + 1].cmd <+: Command.segments ds[i].cmd :=
  (Command.C15_covers_iff _ _ (hvalid _ (List.getElem_mem _)) (hvalid _ (List.getElem_mem _))).1 (hc.narrowing i h)

/-- C02 corollary: every link, in particular the root, covers the invoked command -/
theorem C02_every_link_covers_invocation (inv : Inv D C X) (ds : List (Dlg D)) (hc : CommandSpec inv ds)
    (hvalid : ∀ d ∈ ds, Command.Valid d.cmd) (hinv : Command.Valid inv.cmd) (i : Nat) (h : i < ds.length) :
    Command.covers ds[i].cmd inv.cmd = true := by
  induction i with
  | zero =>
    cases ds with
    | nil => simp at h
    | cons d ds => exact hc.first_covers_invocation d rfl
  | succ j ih =>
    have hj : j < ds.length := by omega
    exact Command.C15_trans _ _ _ (hvalid _ (List.getElem_mem _)) (hvalid _ (List.getElem_mem _)) hinv
      (hc.narrowing j h) (ih hj)

end Ucan.Chain
