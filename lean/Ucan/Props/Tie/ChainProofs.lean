import Ucan.Gen.ChainProofs
import Ucan.Props.Tie.ChainDefs
import Ucan.Props.Tie.CommandCovers
import Ucan.Props.C01
/-! Regenerated-code tie for `verifyProofs` (C02, C05; C01 has `ChainPrincipals`): the regenerated function returns nil EXACTLY
when the model's `verifyProofs` does, i.e. exactly when the chain satisfies the principal and command clauses of the specification
(`verifyProofs_ok_iff`). Which error a refused chain gets, and which of several failing links is named, is not part of any property
and is not fixed here: in the loop lemma every delegation is analysed by the three tests at once (subject, audience, command) and
the proof goes through for any order in which the loop body makes them (`ChainProofsExact` has the equality with the error class
for the code as it is today; it belongs to no property). -/
set_option linter.unusedSimpArgs false
set_option linter.unusedSectionVars false
namespace Ucan.Tie
open Ucan Ucan.GoM

variable {D C S A : Type} [DecidableEq D]

/-- the alignment loop from position `k`: it never leaves through `return`, and it runs to the end exactly when the model's
`proofLoop` accepts the rest of the chain -/
theorem verifyProofs_loop_iff (undef : D) (pol) (g : Gen.InvTok D C A) (ds : List (Gen.DlgTok D S)) (sub : D)
    (hs : sub ≠ undef) (hlen : ds.length = g.proof.length) (fuel k : Nat) (hf : ds.length - k < fuel)
    (hk : k ≤ ds.length) (cmd : Bytes) (iss : D) :
    (∀ out, Gen.Inv_verifyProofs.loop1 fuel g ds sub (k : Int) cmd iss = .ok out → ∃ r, out = .next r) ∧
    ((∃ r, Gen.Inv_verifyProofs.loop1 fuel g ds sub (k : Int) cmd iss = .ok (.next r)) ↔
      Chain.proofLoop sub iss cmd ((ds.drop k).map (toDlg undef pol)) = .ok ()) := by
  induction fuel generalizing k cmd iss with
  | zero => omega
  | succ fuel ih =>
    unfold Gen.Inv_verifyProofs.loop1
    by_cases hlt : k < ds.length
    · have hd : ds.drop k = ds[k] :: ds.drop (k + 1) := List.drop_eq_getElem_cons hlt
      have hltp : k < g.proof.length := by omega
      have h1 : ((k : Int) < (g.proof.length : Int)) := by omega
      have h2 : ((k : Int) + 1) = ((k + 1 : Nat) : Int) := by omega
      rw [hd]
      simp only [List.map_cons]
      have hsub := toDlg_sub_ne (S := S) undef sub pol ds[k] hs
      obtain ⟨ihA, ihB⟩ := ih (k + 1) (by omega) (by omega) ds[k].command ds[k].issuer
      -- the model's step, in terms of the three tests on the Go structure
      have hmodel : Chain.proofLoop sub iss cmd (toDlg undef pol ds[k] :: (ds.drop (k + 1)).map (toDlg undef pol)) =
          if ds[k].subject = sub ∧ ds[k].audience = iss ∧ Command.covers ds[k].command cmd = true then
            Chain.proofLoop sub ds[k].issuer ds[k].command ((ds.drop (k + 1)).map (toDlg undef pol))
          else Chain.proofLoop sub iss cmd (toDlg undef pol ds[k] :: (ds.drop (k + 1)).map (toDlg undef pol)) := by
        split
        · rename_i h
          obtain ⟨a1, a2, a3⟩ := h
          have c1' : ¬ ((toDlg undef pol ds[k]).sub ≠ some sub) := by rw [hsub]; simpa using a1
          have c2' : (toDlg undef pol ds[k]).aud = iss := a2
          have c3' : Command.covers (toDlg undef pol ds[k]).cmd cmd = true := a3
          simp only [Chain.proofLoop]
          rw [if_neg c1', if_neg (by simpa using c2'), if_neg (by simpa using c3')]
          rfl
        · rfl
      have hfail : ¬ (ds[k].subject = sub ∧ ds[k].audience = iss ∧ Command.covers ds[k].command cmd = true) →
          Chain.proofLoop sub iss cmd (toDlg undef pol ds[k] :: (ds.drop (k + 1)).map (toDlg undef pol)) ≠ .ok () := by
        intro hn
        simp only [Chain.proofLoop]
        by_cases a1 : ds[k].subject = sub
        · have c1' : ¬ ((toDlg undef pol ds[k]).sub ≠ some sub) := by rw [hsub]; simpa using a1
          rw [if_neg c1']
          by_cases a2 : ds[k].audience = iss
          · have c2' : (toDlg undef pol ds[k]).aud = iss := a2
            rw [if_neg (by simpa using c2')]
            have a3 : ¬ (Command.covers ds[k].command cmd = true) := fun h => hn ⟨a1, a2, h⟩
            have c3' : ¬ (Command.covers (toDlg undef pol ds[k]).cmd cmd = true) := a3
            rw [if_pos c3']
            simp
          · have c2' : ¬ ((toDlg undef pol ds[k]).aud = iss) := a2
            rw [if_pos c2']
            simp
        · have c1' : (toDlg undef pol ds[k]).sub ≠ some sub := by rw [hsub]; exact a1
          rw [if_pos c1']
          simp
      by_cases c1 : ds[k].subject = sub
      · by_cases c2 : ds[k].audience = iss
        · cases hc : Command.covers ds[k].command cmd with
          | true =>
            rw [hmodel, if_pos (show ds[k].subject = sub ∧ ds[k].audience = iss ∧ Command.covers ds[k].command cmd = true from ⟨c1, c2, hc⟩)]
            simp only [len, idx, h1, decide_true, Bool.not_true, Bool.false_eq_true, ↓reduceIte,
              Int.natCast_nonneg, Int.toNat_natCast, hltp, hlt, and_self, ↓reduceDIte, bind, Except.bind, pure, Except.pure,
              c1, c2, bne_self_eq_false, Command_Covers_eq, hc, h2]
            exact ⟨ihA, ihB⟩
          | false =>
            have hm := hfail (by simp [hc])
            refine ⟨?_, ?_⟩
            · intro out h
              simp [len, idx, h1, hltp, hlt, bind, Except.bind, pure, Except.pure, c1, c2, Command_Covers_eq, hc,
                throw, throwThe, MonadExceptOf.throw] at h
            · constructor
              · rintro ⟨r, h⟩
                simp [len, idx, h1, hltp, hlt, bind, Except.bind, pure, Except.pure, c1, c2, Command_Covers_eq, hc,
                  throw, throwThe, MonadExceptOf.throw] at h
              · intro h; exact absurd h hm
        · have hm := hfail (by simp [c2])
          have c2b : (ds[k].audience != iss) = true := by simpa using c2
          refine ⟨?_, ?_⟩
          · intro out h
            cases hc : Command.covers ds[k].command cmd <;>
              simp [len, idx, h1, hltp, hlt, bind, Except.bind, pure, Except.pure, c1, c2b, Command_Covers_eq, hc,
                throw, throwThe, MonadExceptOf.throw] at h
          · constructor
            · rintro ⟨r, h⟩
              cases hc : Command.covers ds[k].command cmd <;>
                simp [len, idx, h1, hltp, hlt, bind, Except.bind, pure, Except.pure, c1, c2b, Command_Covers_eq, hc,
                  throw, throwThe, MonadExceptOf.throw] at h
            · intro h; exact absurd h hm
      · have hm := hfail (by simp [c1])
        have c1b : (ds[k].subject != sub) = true := by simpa using c1
        refine ⟨?_, ?_⟩
        · intro out h
          by_cases c2 : ds[k].audience = iss <;> cases hc : Command.covers ds[k].command cmd <;>
            simp [len, idx, h1, hltp, hlt, bind, Except.bind, pure, Except.pure, c1b, c2, Command_Covers_eq, hc,
              throw, throwThe, MonadExceptOf.throw] at h
        · constructor
          · rintro ⟨r, h⟩
            by_cases c2 : ds[k].audience = iss <;> cases hc : Command.covers ds[k].command cmd <;>
              simp [len, idx, h1, hltp, hlt, bind, Except.bind, pure, Except.pure, c1b, c2, Command_Covers_eq, hc,
                throw, throwThe, MonadExceptOf.throw] at h
          · intro h; exact absurd h hm
    · have : k = ds.length := by omega
      subst this
      have h1 : ¬ (((ds.length : Nat) : Int) < (g.proof.length : Int)) := by omega
      refine ⟨?_, ?_⟩
      · intro out h
        simp only [len, h1, decide_false, Bool.not_false, ↓reduceIte, bind, Except.bind, pure, Except.pure] at h
        exact ⟨_, (Except.ok.inj h).symm⟩
      · simp [len, h1, Chain.proofLoop, bind, Except.bind, pure, Except.pure]

/-- `verifyProofs`, regenerated, returns nil EXACTLY when the model's `verifyProofs` does (one delegation loaded per proof CID, the
invocation's subject a defined DID) -/
theorem Inv_verifyProofs_ok_iff {X : Type} (x : X) (args : Node) (undef : D) (pol) (g : Gen.InvTok D C A)
    (ds : List (Gen.DlgTok D S)) (hs : g.subject ≠ undef) (hlen : ds.length = g.proof.length) :
    Gen.Inv_verifyProofs g ds = .ok () ↔ Chain.verifyProofs (toInv x args g) (ds.map (toDlg undef pol)) = .ok () := by
  unfold Gen.Inv_verifyProofs Chain.verifyProofs
  by_cases h0 : ds.length < 1
  · have : ((ds.length : Int) < 1) := by omega
    simp [len, this, h0, bind, Except.bind, throw, throwThe, MonadExceptOf.throw]
  · have h0' : ¬ ((ds.length : Int) < 1) := by omega
    obtain ⟨hA, hB⟩ := verifyProofs_loop_iff undef pol g ds g.subject hs hlen (g.proof.length + 1) 0 (by omega) (by omega)
      g.command g.issuer
    simp only [List.drop_zero, Int.natCast_zero] at hA hB
    simp only [len, h0', decide_false, Bool.false_eq_true, ↓reduceIte, List.length_map, h0, toInv]
    have hne : ds ≠ [] := by intro e; simp [e] at h0
    have hidx : idx ds ((ds.length : Int) - 1) = .ok (ds.getLast hne) := by
      have hpos : 0 < ds.length := by omega
      have e1 : ((ds.length : Int) - 1).toNat = ds.length - 1 := by omega
      simp only [idx, e1]
      rw [dif_pos ⟨by omega, by omega⟩]
      simp [pure, Except.pure, List.getLast_eq_getElem]
    have hlast : (ds.map (toDlg undef pol)).getLast? = some (toDlg undef pol (ds.getLast hne)) := by
      rw [List.getLast?_map, List.getLast?_eq_some_getLast hne]; rfl
    cases hl : Gen.Inv_verifyProofs.loop1 (g.proof.length + 1) g ds g.subject 0 g.command g.issuer with
    | error e =>
      have hm : Chain.proofLoop g.subject g.issuer g.command (ds.map (toDlg undef pol)) ≠ .ok () := by
        intro h
        obtain ⟨r, hr⟩ := hB.2 h
        rw [hl] at hr; cases hr
      cases hp : Chain.proofLoop g.subject g.issuer g.command (ds.map (toDlg undef pol)) with
      | error e' => simp [bind, Except.bind]
      | ok u => exact absurd hp hm
    | ok out =>
      obtain ⟨r, hr⟩ := hA out hl
      subst hr
      have hp : Chain.proofLoop g.subject g.issuer g.command (ds.map (toDlg undef pol)) = .ok () := hB.1 ⟨r, hl⟩
      have hall := ((Chain.proofLoop_ok_iff _ _ _ _).mp hp).1
      have hsubj : (toDlg undef pol (ds.getLast hne)).sub = some g.subject :=
        hall _ (List.mem_map.mpr ⟨_, List.getLast_mem hne, rfl⟩)
      have hsubj' : (ds.getLast hne).subject = g.subject := by
        unfold toDlg at hsubj
        by_cases hu : (ds.getLast hne).subject = undef
        · simp [hu] at hsubj
        · simpa [hu] using hsubj
      simp only [bind, Except.bind, hidx, hlast, hsubj, hp, pure, Except.pure]
      by_cases hr : (ds.getLast hne).issuer = (ds.getLast hne).subject
      · have : (toDlg undef pol (ds.getLast hne)).iss = g.subject := by
          show (ds.getLast hne).issuer = g.subject
          rw [hr, hsubj']
        simp [hr, this]
      · have : ¬ ((toDlg undef pol (ds.getLast hne)).iss = g.subject) := by
          show ¬ ((ds.getLast hne).issuer = g.subject)
          rw [← hsubj']; exact hr
        simp [hr, this, throw, throwThe, MonadExceptOf.throw]

/-- … i.e. exactly for the chains that satisfy the principal and command clauses of the specification -/
theorem Inv_verifyProofs_ok_iff_spec {X : Type} (x : X) (args : Node) (undef : D) (pol) (g : Gen.InvTok D C A)
    (ds : List (Gen.DlgTok D S)) (hs : g.subject ≠ undef) (hlen : ds.length = g.proof.length) :
    Gen.Inv_verifyProofs g ds = .ok () ↔
      Chain.PrincipalSpec (toInv x args g) (ds.map (toDlg undef pol)) ∧
      Chain.CommandSpec (toInv x args g) (ds.map (toDlg undef pol)) := by
  rw [Inv_verifyProofs_ok_iff x args undef pol g ds hs hlen, Chain.verifyProofs_ok_iff]

end Ucan.Tie
