import Ucan.Gen.PolicyOrder
import Ucan.Model.Policy
/-!
Regenerated-code tie for `isOrdered` (`pkg/policy/match.go`), the ordering test behind `>`, `>=`, `<`, `<=` (C11; C03 through the
policies of a chain; C09: an unsigned integer beyond int64 answers "not ordered" instead of a panic). The translation works on the
model's `Node` through the node API of `Model/NodeApi.lean` (`Kind`, `AsInt` — an error VALUE beyond int64 —, `AsFloat`), with
`cmp.Compare` on integers and on float bits (Go's total order, NaN lowest) and `math.IsInf(f, 0)`. The callee's error value is
answered with `false` (`attempt`), the float extraction's with a panic (`errToPanic`) that the kind test before it rules out.
-/
set_option linter.unusedSimpArgs false
namespace Ucan.Tie
open Ucan Ucan.GoM Ucan.Policy

theorem cmpInt_eq (a b : Int) : cmpInt a b = compareInt a b := rfl

theorem floatIsInf_zero (b : UInt64) : floatIsInf b 0 = Float64.isInf b := by
  simp [floatIsInf]

/-- `isOrdered`, regenerated, never fails (no error, no panic) and is the model's `isOrdered`, for every pair of nodes and each of
the four ordering operators (and `==`'s `satisfies`, which the code never passes) -/
theorem isOrdered_eq (expected actual : Node) (op : Op) :
    Gen.isOrdered expected actual (op.satisfies) = .ok (Policy.isOrdered expected actual op) := by
  unfold Gen.isOrdered Policy.isOrdered
  cases expected <;> cases actual <;>
    simp [Node.kind, asInt, asFloat, attempt, errToPanic, bind, Except.bind, pure, Except.pure, floatIsInf_zero, cmpInt_eq]
  · rename_i b a
    by_cases ha : intFits64 a = true <;> by_cases hb : intFits64 b = true <;>
      simp [ha, hb, throw, throwThe, MonadExceptOf.throw]
  · rename_i b a
    by_cases h1 : Float64.isInf a = true <;> by_cases h2 : Float64.isNaN a = true <;>
      by_cases h3 : Float64.isInf b = true <;> by_cases h4 : Float64.isNaN b = true <;>
      simp [h1, h2, h3, h4, floatCompare]


end Ucan.Tie
