import Ucan.Gen.ChainProofsShell
import Ucan.Props.Tie.ChainDefs
import Ucan.Props.C01
/-! Regenerated-code tie for the PRINCIPAL clauses of `verifyProofs` (C01), independent of `Command.Covers`: in the shell
translation of `verifyProofs` the command test is a parameter `cov : Bytes → Bytes → GoM Bool` (it may answer anything, fail
or panic). Whatever `cov` does, when the regenerated function returns nil the chain is aligned on principals: non-empty, first
delegation issued to the invoker, every issuer the audience of the next delegation, every subject the invocation's subject,
the last delegation a root. A change to `Covers` therefore leaves this obligation alone; a change to the body of
`verifyProofs` does not.

The proof reuses the model: with every command replaced by the top command `/` (which covers itself) the model's
`verifyProofs` accepts whenever the shell does, and `PrincipalSpec` does not look at commands. -/
set_option linter.unusedSimpArgs false
set_option linter.unusedSectionVars false
namespace Ucan.Tie
open Ucan Ucan.GoM

variable {D C S A : Type} [DecidableEq D]

def topCmd : Bytes := [47]

theorem covers_top_top : Command.covers topCmd topCmd = true := by decide

/-- the delegation with its command replaced by `/` -/
def topD (d : Chain.Dlg D) : Chain.Dlg D := { d with cmd := topCmd }

/-- `PrincipalSpec` does not depend on commands -/
theorem PrincipalSpec_of_top {X : Type} (inv : Chain.Inv D C X) (ds : List (Chain.Dlg D))
    (h : Chain.PrincipalSpec ({ inv with cmd := topCmd } : Chain.Inv D C X) (ds.map topD)) : Chain.PrincipalSpec inv ds := by
  refine ⟨?_, ?_, ?_, ?_, ?_⟩
  · intro e; exact h.nonempty (by simp [e])
  · intro d hd
    have := h.first_to_invoker (topD d) (by simp [List.head?_map, hd])
    simpa [topD] using this
  · intro i hi
    have := h.linked i (by simpa using hi)
    simpa [topD] using this
  · intro d hd
    have := h.root (topD d) (by simp [List.getLast?_map, hd])
    simpa [topD] using this
  · intro d hd
    have := h.subject (topD d) (List.mem_map.mpr ⟨d, hd, rfl⟩)
    simpa [topD] using this

/-- when the shell loop runs to the end from position `k`, the model's alignment loop accepts the rest of the chain with
all commands `/` -/
theorem shell_loop (cov : Bytes → Bytes → GoM Bool) (undef : D) (pol) (g : Gen.InvTok D C A) (ds : List (Gen.DlgTok D S))
    (sub : D) (hs : sub ≠ undef) (hlen : ds.length = g.proof.length) (fuel k : Nat) (hf : ds.length - k < fuel)
    (hk : k ≤ ds.length) (cmd : Bytes) (iss : D) (out : LoopOut Unit (Int × Bytes × D))
    (h : Gen.Inv_verifyProofs_shell.loop1 cov fuel g ds sub (k : Int) cmd iss = .ok out) :
    (∃ r, out = .next r) ∧
      Chain.proofLoop sub iss topCmd (((ds.drop k).map (toDlg undef pol)).map topD) = .ok () := by
  induction fuel generalizing k cmd iss with
  | zero => omega
  | succ fuel ih =>
    unfold Gen.Inv_verifyProofs_shell.loop1 at h
    by_cases hlt : k < ds.length
    · have hd : ds.drop k = ds[k] :: ds.drop (k + 1) := List.drop_eq_getElem_cons hlt
      have hltp : k < g.proof.length := by omega
      have h1 : ((k : Int) < (g.proof.length : Int)) := by omega
      have h2 : ((k : Int) + 1) = ((k + 1 : Nat) : Int) := by omega
      rw [hd]
      simp only [List.map_cons, Chain.proofLoop]
      have hsub := toDlg_sub_ne (S := S) undef sub pol ds[k] hs
      -- every delegation is analysed by the three tests at once (whatever their order in the loop body): only when subject and
      -- audience are right and the command test answers true does the loop go on; every other combination throws
      by_cases c1 : ds[k].subject = sub
      · by_cases c2 : ds[k].audience = iss
        · rcases hc : cov ds[k].command cmd with e | b
          · exfalso
            simp [len, idx, h1, hltp, hlt, bind, Except.bind, pure, Except.pure, c1, c2, hc, throw, throwThe,
            MonadExceptOf.throw] at h
          · cases b with
            | false =>
              exfalso
              simp [len, idx, h1, hltp, hlt, bind, Except.bind, pure, Except.pure, c1, c2, hc, throw, throwThe,
            MonadExceptOf.throw] at h
            | true =>
              have c1' : ¬ ((topD (toDlg undef pol ds[k])).sub ≠ some sub) := by
                show ¬ ((toDlg undef pol ds[k]).sub ≠ some sub)
                rw [hsub]; simpa using c1
              have c2' : (topD (toDlg undef pol ds[k])).aud = iss := c2
              have c3' : Command.covers (topD (toDlg undef pol ds[k])).cmd topCmd = true := covers_top_top
              rw [if_neg c1', if_neg (by simpa using c2'), if_neg (by simpa using c3')]
              simp only [len, idx, h1, decide_true, Bool.not_true, Bool.false_eq_true, ↓reduceIte,
                Int.natCast_nonneg, Int.toNat_natCast, hltp, hlt, and_self, ↓reduceDIte, bind, Except.bind, pure,
                Except.pure, c1, c2, bne_self_eq_false, hc, h2] at h
              exact ih (k + 1) (by omega) (by omega) _ _ h
        · exfalso
          rcases hc : cov ds[k].command cmd with e | b
          · simp [len, idx, h1, hltp, hlt, bind, Except.bind, pure, Except.pure, c1, c2, hc, throw, throwThe,
            MonadExceptOf.throw] at h
          · cases b <;>
            simp [len, idx, h1, hltp, hlt, bind, Except.bind, pure, Except.pure, c1, c2, hc, throw, throwThe,
            MonadExceptOf.throw] at h
      · exfalso
        by_cases c2 : ds[k].audience = iss
        · rcases hc : cov ds[k].command cmd with e | b
          · simp [len, idx, h1, hltp, hlt, bind, Except.bind, pure, Except.pure, c1, c2, hc, throw, throwThe,
            MonadExceptOf.throw] at h
          · cases b <;>
            simp [len, idx, h1, hltp, hlt, bind, Except.bind, pure, Except.pure, c1, c2, hc, throw, throwThe,
            MonadExceptOf.throw] at h
        · rcases hc : cov ds[k].command cmd with e | b
          · simp [len, idx, h1, hltp, hlt, bind, Except.bind, pure, Except.pure, c1, c2, hc, throw, throwThe,
            MonadExceptOf.throw] at h
          · cases b <;>
            simp [len, idx, h1, hltp, hlt, bind, Except.bind, pure, Except.pure, c1, c2, hc, throw, throwThe,
            MonadExceptOf.throw] at h
    · have : k = ds.length := by omega
      subst this
      have h1 : ¬ (((ds.length : Nat) : Int) < (g.proof.length : Int)) := by omega
      simp only [len, h1, decide_false, Bool.not_false, ↓reduceIte, bind, Except.bind, pure, Except.pure] at h
      refine ⟨⟨_, (Except.ok.inj h).symm⟩, by simp [Chain.proofLoop]⟩

/-- C01 on the regenerated `verifyProofs`, for EVERY behaviour of the command test: nil ⇒ the chain is aligned on principals -/
theorem verifyProofs_shell_principals {X : Type} (x : X) (args : Node) (cov : Bytes → Bytes → GoM Bool) (undef : D) (pol)
    (g : Gen.InvTok D C A) (ds : List (Gen.DlgTok D S)) (hs : g.subject ≠ undef) (hlen : ds.length = g.proof.length)
    (h : Gen.Inv_verifyProofs_shell cov g ds = .ok ()) :
    Chain.PrincipalSpec (toInv x args g) (ds.map (toDlg undef pol)) := by
  apply PrincipalSpec_of_top
  refine ((Chain.verifyProofs_ok_iff _ _).1 ?_).1
  unfold Gen.Inv_verifyProofs_shell at h
  unfold Chain.verifyProofs
  by_cases h0 : ds.length < 1
  · have : ((ds.length : Int) < 1) := by omega
    simp [len, this, bind, Except.bind, throw, throwThe, MonadExceptOf.throw] at h
  · have h0' : ¬ ((ds.length : Int) < 1) := by omega
    have hne : ds ≠ [] := by intro e; simp [e] at h0
    simp only [len, h0', decide_false, Bool.false_eq_true, ↓reduceIte, bind, Except.bind, pure, Except.pure] at h
    cases hl : Gen.Inv_verifyProofs_shell.loop1 cov (g.proof.length + 1) g ds g.subject ((0 : Nat) : Int) g.command g.issuer with
    | error e => simp only [Int.natCast_zero] at hl; rw [hl] at h; simp at h
    | ok out =>
      obtain ⟨⟨r, hr⟩, hp⟩ := shell_loop cov undef pol g ds g.subject hs hlen (g.proof.length + 1) 0 (by omega) (by omega)
        g.command g.issuer out hl
      simp only [Int.natCast_zero] at hl
      subst hr
      simp only [List.drop_zero] at hp
      have hidx : idx ds ((ds.length : Int) - 1) = .ok (ds.getLast hne) := by
        have hpos : 0 < ds.length := by omega
        have e1 : ((ds.length : Int) - 1).toNat = ds.length - 1 := by omega
        simp only [idx, e1]
        rw [dif_pos ⟨by omega, by omega⟩]
        simp [pure, Except.pure, List.getLast_eq_getElem]
      rw [hl] at h
      simp only [hidx] at h
      have hlen1 : ¬ ((ds.map (toDlg undef pol)).map topD).length < 1 := by simpa using h0
      simp only [hlen1, if_false]
      have hp' : Chain.proofLoop (toInv x args g).sub (toInv x args g).iss topCmd ((ds.map (toDlg undef pol)).map topD) = .ok () := hp
      simp only [hp']
      have hlast : ((ds.map (toDlg undef pol)).map topD).getLast? = some (topD (toDlg undef pol (ds.getLast hne))) := by
        rw [List.getLast?_map, List.getLast?_map, List.getLast?_eq_some_getLast hne]; rfl
      simp only [hlast]
      -- every subject is the invocation's, in particular the last one's
      have hall := ((Chain.proofLoop_ok_iff _ _ _ _).mp hp).1
      have hsubj : (topD (toDlg undef pol (ds.getLast hne))).sub = some g.subject :=
        hall _ (List.mem_map.mpr ⟨_, List.mem_map.mpr ⟨_, List.getLast_mem hne, rfl⟩, rfl⟩)
      by_cases hr : (ds.getLast hne).issuer = (ds.getLast hne).subject
      · have hsubj' : (ds.getLast hne).subject = g.subject := by
          have : (toDlg undef pol (ds.getLast hne)).sub = some g.subject := hsubj
          unfold toDlg at this
          by_cases hu : (ds.getLast hne).subject = undef
          · simp [hu] at this
          · simpa [hu] using this
        have : some (topD (toDlg undef pol (ds.getLast hne))).iss = (topD (toDlg undef pol (ds.getLast hne))).sub := by
          rw [hsubj]
          show some (ds.getLast hne).issuer = some g.subject
          rw [hr, hsubj']
        simp [this]
      · have hr' : ((ds.getLast hne).issuer != (ds.getLast hne).subject) = true := by simpa using hr
        simp [hr', throw, throwThe, MonadExceptOf.throw] at h

end Ucan.Tie
