import Ucan.Gen.Command
import Ucan.Model.Command
/-!
Regenerated-code tie. `Ucan/Gen/Code.lean` is produced on every run by `harness/cmd/go2lean` from the Go
source as it is now. Each theorem below says that a regenerated function computes exactly what the
hand-written model computes — for every input, including the inputs on which the Go code would panic
(`GoErr.panic`) and including termination of its loops (`GoErr.fuel` is never the outcome). The property
theorems (C01 … C20) are about the hand-written models; through these equalities they are about the code
that was translated. When the Go function changes, its translation changes and the equality has to be
re-proved by `lake build`: a broken obligation, reported by `./check`.
-/
set_option linter.unusedSimpArgs false
set_option linter.unusedSectionVars false
namespace Ucan.Tie
open Ucan Ucan.GoM

/-! ### pkg/command -/

def cmdErr : Command.Err → GoErr
  | .leadingSlash => .err "ErrRequiresLeadingSlash"
  | .trailingSlash => .err "ErrDisallowsTrailingSlash"
  | .lowercase => .err "ErrRequiresLowercase"

theorem isPrefixOf_singleton (b : Byte) (s : Bytes) : List.isPrefixOf [b] s = decide (s.head? = some b) := by
  cases s with
  | nil => simp [List.isPrefixOf]
  | cons c s =>
    by_cases h : b = c
    · subst h; simp [List.isPrefixOf]
    · have h' : ¬ c = b := fun e => h e.symm
      simp [List.isPrefixOf, h, h']

theorem isSuffixOf_singleton (b : Byte) (s : Bytes) : List.isSuffixOf [b] s = decide (s.getLast? = some b) := by
  simp only [List.isSuffixOf, List.reverse_cons, List.reverse_nil, List.nil_append]
  rw [isPrefixOf_singleton, List.head?_reverse]

/-- `command.Parse`, regenerated, ACCEPTS what the model's `parse` accepts and returns what it returns (C15: which strings are
accepted, returned unchanged). Which error a refused string gets is not part of the property and is not fixed here: the proof is a
case analysis over the three tests and goes through for any order in which the function makes them (`CommandExact` has the equality
with the error class, for the code as it is today; it belongs to no property). -/
theorem Command_Parse_ok_iff (lower : Bytes → Bytes) (s c : Bytes) :
    Gen.Command_Parse lower s = .ok c ↔ Command.parse lower s = .ok c := by
  unfold Gen.Command_Parse Command.parse
  simp only [isPrefixOf_singleton, isSuffixOf_singleton, len, Command.slash]
  have hlen : ((1 : Int) < (s.length : Int)) ↔ s.length > 1 := by omega
  by_cases h3 : lower s = s
  · by_cases h1 : s.head? = some 47 <;> by_cases h2 : s.length > 1 <;> by_cases h2' : s.getLast? = some 47 <;>
      simp [h1, h2, h2', h3, hlen, throw, throwThe, MonadExceptOf.throw, bind, Except.bind, pure, Except.pure]
  · have h3' : ¬ s = lower s := fun e => h3 e.symm
    by_cases h1 : s.head? = some 47 <;> by_cases h2 : s.length > 1 <;> by_cases h2' : s.getLast? = some 47 <;>
      simp [h1, h2, h2', h3', hlen, throw, throwThe, MonadExceptOf.throw, bind, Except.bind, pure, Except.pure]

/-- a refused string is refused (with some error), an accepted one is returned unchanged -/
theorem Command_Parse_refuses_iff (lower : Bytes → Bytes) (s : Bytes) :
    (∃ e, Gen.Command_Parse lower s = .error e) ↔ (∃ e, Command.parse lower s = .error e) := by
  have h := Command_Parse_ok_iff lower s
  cases hg : Gen.Command_Parse lower s with
  | ok c =>
    have := (h c).1 hg
    simp [this]
  | error e =>
    cases hm : Command.parse lower s with
    | error e' => simp
    | ok c => have := (h c).2 hm; rw [hg] at this; cases this

end Ucan.Tie
