import Ucan.Gen.Command
import Ucan.Model.Command
/-!
Regenerated-code tie. `Ucan/Gen/Code.lean` is produced on every run by `harness/cmd/go2lean` from the Go
source as it is now. Each theorem below says that a regenerated function computes exactly what the
hand-written model computes — for every input, including the inputs on which the Go code would panic
(`GoErr.panic`) and including termination of its loops (`GoErr.fuel` is never the outcome). The property
theorems (C01 … C20) are about the hand-written models; through these equalities they are about the code
that was translated. When the Go function changes, its translation changes and the equality has to be
re-proved by `lake build`: a broken obligation, reported by `./check`.
-/
set_option linter.unusedSimpArgs false
set_option linter.unusedSectionVars false
namespace Ucan.Tie
open Ucan Ucan.GoM

/-! ### pkg/command -/

def cmdErr : Command.Err → GoErr
  | .leadingSlash => .err "ErrRequiresLeadingSlash"
  | .trailingSlash => .err "ErrDisallowsTrailingSlash"
  | .lowercase => .err "ErrRequiresLowercase"

theorem isPrefixOf_singleton (b : Byte) (s : Bytes) : List.isPrefixOf [b] s = decide (s.head? = some b) := by
  cases s with
  | nil => simp [List.isPrefixOf]
  | cons c s =>
    by_cases h : b = c
    · subst h; simp [List.isPrefixOf]
    · have h' : ¬ c = b := fun e => h e.symm
      simp [List.isPrefixOf, h, h']

theorem isSuffixOf_singleton (b : Byte) (s : Bytes) : List.isSuffixOf [b] s = decide (s.getLast? = some b) := by
  simp only [List.isSuffixOf, List.reverse_cons, List.reverse_nil, List.nil_append]
  rw [isPrefixOf_singleton, List.head?_reverse]

/-- `command.Parse`, regenerated, is the model's `parse` -/
theorem Command_Parse_eq (lower : Bytes → Bytes) (s : Bytes) :
    Gen.Command_Parse lower s = (Command.parse lower s).mapError cmdErr := by
  unfold Gen.Command_Parse Command.parse
  simp only [isPrefixOf_singleton, isSuffixOf_singleton, len, Command.slash]
  by_cases h1 : s.head? = some 47
  · by_cases h2 : s.length > 1 ∧ s.getLast? = some 47
    · have : (1 : Int) < s.length := by omega
      simp [h1, h2, this, Except.mapError, cmdErr, throw, throwThe, MonadExceptOf.throw, bind, Except.bind]
    · by_cases h3 : s = lower s
      · have hh : ¬ ((1 : Int) < s.length ∧ s.getLast? = some 47) := by
          intro ⟨a, b⟩; exact h2 ⟨by omega, b⟩
        simp [h1, h2, ← h3, hh, Except.mapError, pure, Except.pure]
      · have hh : ¬ ((1 : Int) < s.length ∧ s.getLast? = some 47) := by
          intro ⟨a, b⟩; exact h2 ⟨by omega, b⟩
        simp [h1, h2, h3, hh, Except.mapError, cmdErr, throw, throwThe, MonadExceptOf.throw, bind, Except.bind]
  · simp [h1, Except.mapError, cmdErr, throw, throwThe, MonadExceptOf.throw, bind, Except.bind]

end Ucan.Tie
