import Ucan.Gen.ParseTime
import Ucan.Model.Token
/-! Regenerated-code tie for `parse.OptionalTimestamp` (C04, C07, C10): the conversion every decoder uses for `nbf`, `exp` and
`iat`. An absent value is "no bound"; a present one — second 0, the Unix epoch, like any other — is that instant, provided it
lies within ±(2^53−1) (the regenerated constants of `limits`); anything else is refused. -/
set_option linter.unusedSimpArgs false
namespace Ucan.Tie
open Ucan Ucan.GoM

theorem OptionalTimestamp_eq (sec : Option Int) :
    Gen.OptionalTimestamp sec =
      match sec with
      | none => .ok none
      | some i =>
        if Facts.minInt53 ≤ i ∧ i ≤ Facts.maxInt53 then .ok (some i)
        else .error (.err "timestamp value %d exceeds safe integer bounds") := by
  cases sec with
  | none => simp [Gen.OptionalTimestamp, notNil, bind, Except.bind, pure, Except.pure]
  | some i =>
    by_cases h1 : i > Facts.maxInt53
    · have : ¬ (Facts.minInt53 ≤ i ∧ i ≤ Facts.maxInt53) := by omega
      simp [Gen.OptionalTimestamp, notNil, deref, gor, h1, this, bind, Except.bind, pure, Except.pure, throw, throwThe,
        MonadExceptOf.throw]
    · by_cases h2 : i < Facts.minInt53
      · have : ¬ (Facts.minInt53 ≤ i ∧ i ≤ Facts.maxInt53) := by omega
        simp [Gen.OptionalTimestamp, notNil, deref, gor, h1, h2, this, bind, Except.bind, pure, Except.pure, throw,
          throwThe, MonadExceptOf.throw]
      · have : Facts.minInt53 ≤ i ∧ i ≤ Facts.maxInt53 := by omega
        simp [Gen.OptionalTimestamp, notNil, deref, gor, h1, h2, this, bind, Except.bind, pure, Except.pure]

/-- in particular: a present timestamp is never read as absent, and the value that comes out is the value that went in -/
theorem OptionalTimestamp_present (i : Int) (r : Option Int) (h : Gen.OptionalTimestamp (some i) = .ok r) : r = some i := by
  rw [OptionalTimestamp_eq] at h
  simp only at h
  split at h
  · exact (Except.ok.inj h).symm
  · cases h

/-- the model's field reader (`Token.optTimestamp`, the function the C06/C07/C10 theorems are about) is this conversion applied
to the integer found under the key -/
theorem optTimestamp_is_OptionalTimestamp (k : String) (kvs : List (Bytes × Node)) (i : Int)
    (hk : Node.lookup (Token.key k) kvs = some (.int i)) :
    Token.optTimestamp k kvs = (Gen.OptionalTimestamp (some i)).mapError (fun _ => Envelope.Err.field) := by
  rw [OptionalTimestamp_eq]
  unfold Token.optTimestamp
  rw [hk]
  simp only
  split <;> rfl

end Ucan.Tie
