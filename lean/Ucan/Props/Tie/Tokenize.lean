import Ucan.Gen.SelectorParse
import Ucan.Model.SelectorParse
/-! Regenerated-code tie for the selector tokenizer (C14, C09): Go's `tokenize` — an index loop over the bytes of the
selector with the running offsets `col`/`ofs`, the quote context `ctx` and the token slice — IS the model's
`tokenizeLoop`, a structural recursion over the remaining bytes, for every input that does not begin with a quote
(`Parse` calls it only after checking that the first byte is `.`; on a leading quote the Go function reads `str[-1]`
and panics, which the translation reproduces — second theorem). `string(str[col])` is the UTF-8 encoding of the byte
as a code point, so from 0x80 on it equals none of the one-byte strings it is compared with. -/
set_option linter.unusedSimpArgs false
set_option linter.unusedSectionVars false
namespace Ucan.Tie
open Ucan Ucan.GoM Ucan.Selector

theorem byteToString_eq_single (c k : UInt8) (hk : k < 128) : (byteToString c == [k]) = (c == k) := by
  unfold byteToString
  by_cases hc : c < 128
  · simp [hc]
  · have hne : c ≠ k := by
      intro h; subst h; exact hc hk
    simp [hc, hne]

theorem byteToString_ne_single (c k : UInt8) (hk : k < 128) : (byteToString c != [k]) = (c != k) := by
  simp only [bne, byteToString_eq_single c k hk]

/-- what Go does after the loop -/
def tokFinish (str : Bytes) (col : Int) (ctx : Bytes) (ofs : Int) (toks : List Bytes) : List Bytes × Bool :=
  if ctx == [34] then ([], false)
  else if ofs < col then (toks ++ [(str.drop ofs.toNat).take (col - ofs).toNat], true) else (toks, true)

/-- the model's answer in the shape of Go's results: no tokens and `false` when a quote is left open -/
def tokResult (r : List Bytes × Bool) : List Bytes × Bool := if r.2 then ([], false) else (r.1, true)

theorem take_succ_drop (str : Bytes) (ofs col : Nat) (h1 : ofs ≤ col) (h2 : col < str.length) :
    (str.drop ofs).take (col + 1 - ofs) = (str.drop ofs).take (col - ofs) ++ [str[col]] := by
  have : col + 1 - ofs = (col - ofs) + 1 := by omega
  rw [this, List.take_succ]
  congr 1
  have hlt : col - ofs < (str.drop ofs).length := by simp; omega
  rw [List.getElem?_eq_getElem hlt]
  simp only [List.getElem_drop, Option.toList_some]
  congr 2
  omega

theorem take_one_drop (str : Bytes) (col : Nat) (h : col < str.length) :
    [str[col]].reverse = (str.drop col).take (col + 1 - col) := by
  have : col + 1 - col = 1 := by omega
  rw [this, List.drop_eq_getElem_cons h]
  rfl

/-- the loop invariant: from column `col` on, Go's loop followed by its epilogue computes what the model's loop computes
from the corresponding state -/
theorem tokenize_loop (str : Bytes) (fuel col ofs : Nat) (ctx : Bytes) (toks : List Bytes)
    (prev : Byte) (cur : Bytes) (acc : List Bytes)
    (hf : str.length - col < fuel) (hoc : ofs ≤ col) (hcl : col ≤ str.length)
    (hctx : ctx = [] ∨ ctx = [34])
    (hprev : ∀ h : 0 < col, prev = str[col - 1]'(by omega))
    (h0 : col = 0 → str.head? ≠ some 34)
    (hcur : cur.reverse = (str.drop ofs).take (col - ofs))
    (hacc : acc.reverse = toks) :
    ∃ (ctx' : Bytes) (ofs' : Nat) (toks' : List Bytes),
      Gen.tokenize.loop1 fuel str (col : Int) ctx (ofs : Int) toks =
        .ok (.next ((str.length : Int), ctx', (ofs' : Int), toks')) ∧ ofs' ≤ str.length ∧
      tokFinish str (str.length : Int) ctx' (ofs' : Int) toks' =
        tokResult (tokenizeLoop prev (ctx == [34]) cur acc (str.drop col)) := by
  induction fuel generalizing col ofs ctx toks prev cur acc with
  | zero => omega
  | succ fuel ih =>
    unfold Gen.tokenize.loop1
    by_cases hlt : col < str.length
    · have hd : str.drop col = str[col] :: str.drop (col + 1) := List.drop_eq_getElem_cons hlt
      have h1 : ((col : Int) < (str.length : Int)) := by omega
      have h2 : ((col : Int) + 1) = ((col + 1 : Nat) : Int) := by omega
      have hidx : idx str (col : Int) = .ok str[col] := by
        simp [idx, hlt, pure, Except.pure]
      have hcur' : (str[col] :: cur).reverse = (str.drop ofs).take (col + 1 - ofs) := by
        rw [List.reverse_cons, hcur, take_succ_drop str ofs col hoc hlt]
      rw [hd]
      unfold tokenizeLoop
      by_cases hq : str[col] = 34
      · -- a quote character: Go looks at the byte before it
        have hcpos : 0 < col := by
          rcases Nat.eq_zero_or_pos col with hz | hp
          · exfalso
            subst hz
            apply h0 rfl
            cases str with
            | nil => simp at hlt
            | cons a t => simp at hq; simp [hq]
          · exact hp
        have hprevv := hprev hcpos
        have hidx1 : idx str ((col : Int) - 1) = .ok (str[col - 1]'(by omega)) := by
          have : ((col : Int) - 1) = ((col - 1 : Nat) : Int) := by omega
          rw [this]
          have hl : col - 1 < str.length := by omega
          simp [idx, hl, pure, Except.pure]
        by_cases hb : prev = 92
        · -- escaped quote: an ordinary byte
          have hb' : str[col - 1]'(by omega) = 92 := by rw [← hprevv]; exact hb
          rcases hctx with hc | hc
          · subst hc
            have := ih (col + 1) ofs [] toks str[col] (str[col] :: cur) acc (by omega) (by omega) (by omega)
              (Or.inl rfl) (fun _ => by simp) (by omega) hcur' hacc
            obtain ⟨b, c, d, he, hle, hr⟩ := this
            refine ⟨b, c, d, ?_, hle, ?_⟩
            · simp only [len, h1, decide_true, Bool.not_true, Bool.false_eq_true, ↓reduceIte, hidx, hidx1, bind,
                Except.bind, pure, Except.pure, gand, byteToString_eq_single _ 34 (by decide),
                byteToString_ne_single _ 92 (by decide), byteToString_eq_single _ 46 (by decide),
                byteToString_eq_single _ 91 (by decide), hq, hb', beq_self_eq_true, bne_self_eq_false,
                Bool.and_false, h2]
              simpa [hq] using he
            · simpa [hq, hb, cQuote, cBackslash, cDot, cLBr] using hr
          · subst hc
            have := ih (col + 1) ofs [34] toks str[col] (str[col] :: cur) acc (by omega) (by omega) (by omega)
              (Or.inr rfl) (fun _ => by simp) (by omega) hcur' hacc
            obtain ⟨b, c, d, he, hle, hr⟩ := this
            refine ⟨b, c, d, ?_, hle, ?_⟩
            · simp only [len, h1, decide_true, Bool.not_true, Bool.false_eq_true, ↓reduceIte, hidx, hidx1, bind,
                Except.bind, pure, Except.pure, gand, byteToString_eq_single _ 34 (by decide),
                byteToString_ne_single _ 92 (by decide), byteToString_eq_single _ 46 (by decide),
                byteToString_eq_single _ 91 (by decide), hq, hb', beq_self_eq_true, bne_self_eq_false,
                Bool.and_false, h2]
              simpa [hq] using he
            · simpa [hq, hb, cQuote, cBackslash, cDot, cLBr] using hr
        · -- a real quote: the context flips
          have hb' : str[col - 1]'(by omega) ≠ 92 := by rw [← hprevv]; exact hb
          rcases hctx with hc | hc
          · subst hc
            have := ih (col + 1) ofs [34] toks str[col] (str[col] :: cur) acc (by omega) (by omega) (by omega)
              (Or.inr rfl) (fun _ => by simp) (by omega) hcur' hacc
            obtain ⟨b, c, d, he, hle, hr⟩ := this
            refine ⟨b, c, d, ?_, hle, ?_⟩
            · simp only [len, h1, decide_true, Bool.not_true, Bool.false_eq_true, ↓reduceIte, hidx, hidx1, bind,
                Except.bind, pure, Except.pure, gand, byteToString_eq_single _ 34 (by decide),
                byteToString_ne_single _ 92 (by decide), hq, beq_self_eq_true, h2]
              simpa [hb'] using he
            · simpa [hq, hb, cQuote, cBackslash, cDot, cLBr] using hr
          · subst hc
            have := ih (col + 1) ofs [] toks str[col] (str[col] :: cur) acc (by omega) (by omega) (by omega)
              (Or.inl rfl) (fun _ => by simp) (by omega) hcur' hacc
            obtain ⟨b, c, d, he, hle, hr⟩ := this
            refine ⟨b, c, d, ?_, hle, ?_⟩
            · simp only [len, h1, decide_true, Bool.not_true, Bool.false_eq_true, ↓reduceIte, hidx, hidx1, bind,
                Except.bind, pure, Except.pure, gand, byteToString_eq_single _ 34 (by decide),
                byteToString_ne_single _ 92 (by decide), hq, beq_self_eq_true, h2]
              simpa [hb'] using he
            · simpa [hq, hb, cQuote, cBackslash, cDot, cLBr] using hr
      · -- not a quote
        have hq' : (str[col] == 34) = false := by simpa using hq
        rcases hctx with hc | hc
        · subst hc
          by_cases hsep : str[col] = 46 ∨ str[col] = 91
          · -- a separator outside quotes: the pending token is emitted
            have hsep' : ((str[col] == 46) || (str[col] == 91)) = true := by
              rcases hsep with h | h <;> simp [h]
            by_cases hoc' : ofs < col
            · have hcne : cur ≠ [] := by
                intro hc
                rw [hc] at hcur
                have : ((str.drop ofs).take (col - ofs)).length = col - ofs := by
                  simp; omega
                rw [← hcur] at this
                simp at this
                omega
              have hsl : slice str (ofs : Int) (col : Int) = .ok ((str.drop ofs).take (col - ofs)) := by
                have : (0 : Int) ≤ ofs ∧ (ofs : Int) ≤ col ∧ (col : Int) ≤ str.length := by omega
                have h3 : ((col : Int) - (ofs : Int)).toNat = col - ofs := by omega
                simp [slice, this, pure, Except.pure, h3]
              have := ih (col + 1) col [] (toks ++ [(str.drop ofs).take (col - ofs)]) str[col] [str[col]]
                (cur.reverse :: acc) (by omega) (by omega) (by omega) (Or.inl rfl) (fun _ => by simp) (by omega)
                (take_one_drop str _ hlt) (by simp [hacc, hcur])
              obtain ⟨b, c, d, he, hle, hr⟩ := this
              refine ⟨b, c, d, ?_, hle, ?_⟩
              · simp only [len, h1, decide_true, Bool.not_true, Bool.false_eq_true, ↓reduceIte, hidx, bind,
                  Except.bind, pure, Except.pure, gand, byteToString_eq_single _ 34 (by decide),
                  byteToString_eq_single _ 46 (by decide), byteToString_eq_single _ 91 (by decide), hq', hsep',
                  show (([] : Bytes) == [34]) = false from rfl, hsl, h2,
                  show decide ((ofs : Int) < (col : Int)) = true from by simpa using hoc']
                simpa using he
              · have hs2 : str[col] = cDot ∨ str[col] = cLBr := hsep
                simpa [hq, cQuote, hs2, hcne, show (([] : Bytes) == [34]) = false from rfl] using hr
            · have hoeq : ofs = col := by omega
              subst hoeq
              have hce : cur = [] := by
                have : cur.reverse = [] := by simpa using hcur
                simpa using this
              have := ih (ofs + 1) ofs [] toks str[ofs] [str[ofs]] acc (by omega) (by omega) (by omega) (Or.inl rfl)
                (fun _ => by simp) (by omega) (take_one_drop str _ hlt) hacc
              obtain ⟨b, c, d, he, hle, hr⟩ := this
              refine ⟨b, c, d, ?_, hle, ?_⟩
              · simp only [len, h1, decide_true, Bool.not_true, Bool.false_eq_true, ↓reduceIte, hidx, bind,
                  Except.bind, pure, Except.pure, gand, byteToString_eq_single _ 34 (by decide),
                  byteToString_eq_single _ 46 (by decide), byteToString_eq_single _ 91 (by decide), hq', hsep',
                  show (([] : Bytes) == [34]) = false from rfl, h2,
                  show decide ((ofs : Int) < (ofs : Int)) = false from by simp]
                simpa using he
              · have hs2 : str[ofs] = cDot ∨ str[ofs] = cLBr := hsep
                simpa [hq, cQuote, hs2, hce, show (([] : Bytes) == [34]) = false from rfl] using hr
          · -- an ordinary byte outside quotes
            have hsep' : ((str[col] == 46) || (str[col] == 91)) = false := by
              have a : str[col] ≠ 46 := fun h => hsep (Or.inl h)
              have b : str[col] ≠ 91 := fun h => hsep (Or.inr h)
              simp [a, b]
            have := ih (col + 1) ofs [] toks str[col] (str[col] :: cur) acc (by omega) (by omega) (by omega)
              (Or.inl rfl) (fun _ => by simp) (by omega) hcur' hacc
            obtain ⟨b, c, d, he, hle, hr⟩ := this
            refine ⟨b, c, d, ?_, hle, ?_⟩
            · simp only [len, h1, decide_true, Bool.not_true, Bool.false_eq_true, ↓reduceIte, hidx, bind,
                Except.bind, pure, Except.pure, gand, byteToString_eq_single _ 34 (by decide),
                byteToString_eq_single _ 46 (by decide), byteToString_eq_single _ 91 (by decide), hq', hsep',
                show (([] : Bytes) == [34]) = false from rfl, h2]
              simpa using he
            · have hs2 : ¬ (str[col] = cDot ∨ str[col] = cLBr) := hsep
              simpa [hq, cQuote, hs2, show (([] : Bytes) == [34]) = false from rfl] using hr
        · -- inside quotes: every byte but a quote is skipped
          subst hc
          have := ih (col + 1) ofs [34] toks str[col] (str[col] :: cur) acc (by omega) (by omega) (by omega)
            (Or.inr rfl) (fun _ => by simp) (by omega) hcur' hacc
          obtain ⟨b, c, d, he, hle, hr⟩ := this
          refine ⟨b, c, d, ?_, hle, ?_⟩
          · simp only [len, h1, decide_true, Bool.not_true, Bool.false_eq_true, ↓reduceIte, hidx, bind,
              Except.bind, pure, Except.pure, gand, byteToString_eq_single _ 34 (by decide), hq',
              beq_self_eq_true, h2]
            simpa using he
          · simpa [hq, cQuote] using hr
    · -- the end of the input
      have hce : col = str.length := by omega
      subst hce
      have h1 : ¬ (((str.length : Nat) : Int) < (str.length : Int)) := by omega
      refine ⟨ctx, ofs, toks, by simp [len, h1, bind, Except.bind, pure, Except.pure], hoc, ?_⟩
      simp only [List.drop_length, tokenizeLoop, tokFinish, tokResult]
      rcases hctx with hc | hc
      · subst hc
        simp only [show (([] : Bytes) == [34]) = false from rfl, Bool.false_eq_true, ↓reduceIte]
        by_cases hoc' : ofs < str.length
        · have hcne : cur ≠ [] := by
            intro hc
            rw [hc] at hcur
            have : ((str.drop ofs).take (str.length - ofs)).length = str.length - ofs := by simp
            rw [← hcur] at this
            simp at this
            omega
          have h3 : (((str.length : Nat) : Int) - (ofs : Int)).toNat = str.length - ofs := by omega
          simp [hcne, show ((ofs : Int) < (str.length : Int)) from by omega, h3, ← hcur, ← hacc]
        · have : ofs = str.length := by omega
          subst this
          have hce : cur = [] := by
            have : cur.reverse = [] := by simpa using hcur
            simpa using this
          simp [hce, ← hacc]
      · subst hc
        simp

/-- `tokenize`, regenerated, is the model's `tokenize` on every input that does not begin with a quote -/
theorem tokenize_eq (str : Bytes) (h0 : str.head? ≠ some 34) :
    Gen.tokenize str = .ok (tokResult (Selector.tokenize str)) := by
  unfold Gen.tokenize Selector.tokenize
  obtain ⟨b, c, d, he, hle, hr⟩ := tokenize_loop str (str.length + 1) 0 0 [] [] 0 [] [] (by omega) (by omega) (by omega)
    (Or.inl rfl) (fun h => by omega) (fun _ => h0) (by simp) rfl
  simp only [Int.natCast_zero, List.drop_zero, show (([] : Bytes) == [34]) = false from rfl] at he hr
  rw [← hr]
  simp only [he, bind, Except.bind, pure, Except.pure, tokFinish]
  by_cases hb : (b == [34]) = true
  · simp [hb]
  · have hb' : (b == [34]) = false := by simpa using hb
    by_cases hc : c < str.length
    · have hsl : slice str (c : Int) (str.length : Int) = .ok ((str.drop c).take (str.length - c)) := by
        have : (0 : Int) ≤ c ∧ (c : Int) ≤ str.length ∧ ((str.length : Nat) : Int) ≤ str.length := by omega
        have h3 : (((str.length : Nat) : Int) - (c : Int)).toNat = str.length - c := by omega
        simp [slice, this, pure, Except.pure, h3]
      have hc' : ((c : Int) < (str.length : Int)) := by omega
      have h3 : (((str.length : Nat) : Int) - (c : Int)).toNat = str.length - c := by omega
      simp [hb', hc', hsl, h3]
    · have hc' : ¬ ((c : Int) < (str.length : Int)) := by omega
      simp [hb', hc']

/-- on a leading quote the Go function reads `str[-1]`: a run-time panic (`Parse` never calls it so: it has checked that
the first byte is `.`) -/
theorem tokenize_leading_quote_panics (rest : Bytes) :
    Gen.tokenize (34 :: rest) = .error (.panic "index out of range") := by
  unfold Gen.tokenize
  simp only [List.length_cons]
  unfold Gen.tokenize.loop1
  have h1 : ((0 : Int) < ((rest.length + 1 : Nat) : Int)) := by omega
  simp [len, h1, idx, gand, byteToString, bind, Except.bind, pure, Except.pure, throw, throwThe, MonadExceptOf.throw]

end Ucan.Tie
