import Ucan.Gen.Limits
import Ucan.Model.PolicyIpld
/-!
Regenerated-code tie for `limits.ValidateIntegerBoundsIPLD` (`pkg/policy/limits/int.go`), the walk that `args.Add`,
`Args.Validate` (both decoders), `literal.Any` and the policy decoder use to refuse integers outside ±(2^53−1) anywhere in a value
(C10; C09: an unsigned integer beyond int64 is an error value, not a panic). The function is recursive over the nested node:
`go2lean` translates its body with the recursive call as a parameter (`ValidateIntegerBoundsIPLD_step ext_self`), and the generated
file closes the recursion with fuel (`ValidateIntegerBoundsIPLD`). Shown here: for every node and every fuel above the node's
nesting depth the regenerated walk succeeds exactly when the model's `intsInBounds` holds, fails with an error VALUE otherwise
(never a panic, never out of fuel), and the two iterator loops visit every element.
-/
set_option linter.unusedSimpArgs false
namespace Ucan.Tie
open Ucan Ucan.GoM Ucan.Policy

/-- running `g` over a list, stopping at the first failure -/
def allOk (g : Node → GoM Unit) : List Node → GoM Unit
  | [] => .ok ()
  | x :: xs => match g x with
    | .ok _ => allOk g xs
    | .error e => .error e

theorem idx_drop {α} (xs : List α) (k : Nat) (x : α) (rest : List α) (h : xs.drop k = x :: rest) :
    idx xs (k : Int) = .ok x ∧ ((k : Int) < len xs) ∧ xs.drop (k + 1) = rest := by
  have hk : k < xs.length := by
    rcases Nat.lt_or_ge k xs.length with h' | h'
    · exact h'
    · rw [List.drop_eq_nil_of_le h'] at h; cases h
  have hx : xs[k] = x := by
    have := List.drop_eq_getElem_cons hk
    rw [this] at h; exact (List.cons.inj h).1
  have hr : xs.drop (k + 1) = rest := by
    have := List.drop_eq_getElem_cons hk
    rw [this] at h; exact (List.cons.inj h).2
  refine ⟨?_, ?_, hr⟩
  · simp [idx, hk, hx, pure, Except.pure]
  · simp only [len]; omega

/-- the loop over a list node visits every remaining element in order -/
theorem list_loop_eq (g : Node → GoM Unit) (node : Node) :
    ∀ (fuel k : Nat), (listEntries node).length - k < fuel → k ≤ (listEntries node).length →
      Gen.ValidateIntegerBoundsIPLD_step.loop1 g fuel node (k : Int) =
        (match allOk g ((listEntries node).drop k) with
         | .ok _ => .ok (.next ((listEntries node).length : Int))
         | .error e => .error e)
  | 0, _, h, _ => by omega
  | fuel + 1, k, h, hk => by
    rw [Gen.ValidateIntegerBoundsIPLD_step.loop1]
    cases hd : (listEntries node).drop k with
    | nil =>
      have : (listEntries node).length ≤ k := by
        rcases Nat.lt_or_ge k (listEntries node).length with h' | h'
        · have := List.drop_eq_getElem_cons h'; rw [this] at hd; cases hd
        · exact h'
      have hk' : k = (listEntries node).length := by omega
      simp [allOk, len, hk', bind, Except.bind, pure, Except.pure]
    | cons x rest =>
      obtain ⟨hi, hl, hr⟩ := idx_drop _ _ _ _ hd
      have hk1 : ((k : Int) + 1) = ((k + 1 : Nat) : Int) := by omega
      have hlt : k < (listEntries node).length := by simp only [len] at hl; omega
      simp only [hl, hi, decide_true, Bool.not_true, Bool.false_eq_true, ↓reduceIte, bind, Except.bind, pure, Except.pure, hk1, allOk]
      cases hg : g x with
      | error e => rfl
      | ok u =>
        simp only []
        rw [list_loop_eq g node fuel (k + 1) (by omega) (by omega), hr]

/-- the loop over a map node visits every remaining value in order -/
theorem map_loop_eq (g : Node → GoM Unit) (node : Node) :
    ∀ (fuel k : Nat), (mapEntries node).length - k < fuel → k ≤ (mapEntries node).length →
      Gen.ValidateIntegerBoundsIPLD_step.loop2 g fuel node (k : Int) =
        (match allOk g (((mapEntries node).drop k).map (·.2)) with
         | .ok _ => .ok (.next ((mapEntries node).length : Int))
         | .error e => .error e)
  | 0, _, h, _ => by omega
  | fuel + 1, k, h, hk => by
    rw [Gen.ValidateIntegerBoundsIPLD_step.loop2]
    cases hd : (mapEntries node).drop k with
    | nil =>
      have : (mapEntries node).length ≤ k := by
        rcases Nat.lt_or_ge k (mapEntries node).length with h' | h'
        · have := List.drop_eq_getElem_cons h'; rw [this] at hd; cases hd
        · exact h'
      have hk' : k = (mapEntries node).length := by omega
      simp [allOk, len, hk', bind, Except.bind, pure, Except.pure]
    | cons x rest =>
      obtain ⟨hi, hl, hr⟩ := idx_drop _ _ _ _ hd
      have hk1 : ((k : Int) + 1) = ((k + 1 : Nat) : Int) := by omega
      have hlt : k < (mapEntries node).length := by simp only [len] at hl; omega
      simp only [hl, hi, decide_true, Bool.not_true, Bool.false_eq_true, ↓reduceIte, bind, Except.bind, pure, Except.pure, hk1, allOk,
        List.map_cons]
      cases hg : g x.2 with
      | error e => rfl
      | ok u =>
        simp only []
        rw [map_loop_eq g node fuel (k + 1) (by omega) (by omega), hr]

/-- what the regenerated body does with its recursive calls bound to `g` -/
def stepSpec (g : Node → GoM Unit) : Node → GoM Unit
  | .int i =>
    if intFits64 i then
      (if i > 9007199254740991 ∨ i < -9007199254740991 then .error (.err "integer value %d exceeds safe bounds") else .ok ())
    else .error (.err "unsigned integer beyond int64")
  | .list xs => allOk g xs
  | .map kvs => allOk g (kvs.map (·.2))
  | _ => .ok ()

theorem step_eq (g : Node → GoM Unit) (node : Node) : Gen.ValidateIntegerBoundsIPLD_step g node = stepSpec g node := by
  unfold Gen.ValidateIntegerBoundsIPLD_step
  cases node with
  | int i =>
    by_cases hf : intFits64 i = true
    · by_cases hb : i > 9007199254740991 ∨ i < -9007199254740991
      · simp [Node.kind, stepSpec, asInt, hf, hb, bind, Except.bind, pure, Except.pure, throw, throwThe, MonadExceptOf.throw]
      · simp [Node.kind, stepSpec, asInt, hf, hb, bind, Except.bind, pure, Except.pure, throw, throwThe, MonadExceptOf.throw]
    · simp [Node.kind, stepSpec, asInt, hf, bind, Except.bind, pure, Except.pure, throw, throwThe, MonadExceptOf.throw]
  | list xs =>
    have := list_loop_eq g (.list xs) (xs.length + 1) 0 (by simp [listEntries]) (by simp)
    simp only [Int.natCast_zero] at this
    simp only [Node.kind, stepSpec, listEntries, bind, Except.bind, pure, Except.pure] at this ⊢
    simp [this, listEntries]
    cases allOk g xs <;> rfl
  | map kvs =>
    have hlen : (mapEntries (.map kvs)).length = kvs.length := by simp [mapEntries]
    have hval : (mapEntries (.map kvs)).map (·.2) = kvs.map (·.2) := by simp [mapEntries, List.map_map]
    have := map_loop_eq g (.map kvs) (kvs.length + 1) 0 (by rw [hlen]; omega) (by simp)
    simp only [Int.natCast_zero, List.drop_zero, hval, hlen] at this
    simp only [Node.kind, stepSpec, bind, Except.bind, pure, Except.pure, hlen]
    simp [this]
    cases allOk g (kvs.map (·.2)) <;> rfl
  | _ => simp [Node.kind, stepSpec, bind, Except.bind, pure, Except.pure]

/-- the outcome the walk must have: success when the model says "in bounds", an error VALUE otherwise -/
def Verdict (b : Bool) (r : GoM Unit) : Prop := if b = true then r = .ok () else ∃ m, r = .error (.err m)

theorem facts_bounds : Facts.maxInt53 = 9007199254740991 ∧ Facts.minInt53 = -9007199254740991 := ⟨rfl, rfl⟩

theorem validate_scalar (fuel : Nat) (n : Node) (hl : ∀ xs, n ≠ .list xs) (hm : ∀ kvs, n ≠ .map kvs) :
    Verdict (intsInBounds n) (Gen.ValidateIntegerBoundsIPLD (fuel + 1) n) := by
  rw [Gen.ValidateIntegerBoundsIPLD, step_eq]
  cases n with
  | int i =>
    simp only [stepSpec, intsInBounds, facts_bounds.1, facts_bounds.2, Verdict]
    by_cases hin : (-9007199254740991 ≤ i ∧ i ≤ 9007199254740991)
    · have hf : intFits64 i = true := by
        simp only [intFits64, minInt64, maxInt64, Bool.and_eq_true, decide_eq_true_eq]
        exact ⟨decide_eq_true (by omega), decide_eq_true (by omega)⟩
      have hb : ¬ (i > 9007199254740991 ∨ i < -9007199254740991) := by omega
      simp [hin, hf, hb]
    · have hb : (i > 9007199254740991 ∨ i < -9007199254740991) := by omega
      have hno : ¬ ((decide (-9007199254740991 ≤ i) && decide (i ≤ 9007199254740991)) = true) := by
        simp only [Bool.and_eq_true, decide_eq_true_eq]; exact hin
      simp only [hno, ↓reduceIte]
      by_cases hf : intFits64 i = true
      · simp [hf, hb]
      · simp [hf]
  | list xs => exact absurd rfl (hl xs)
  | map kvs => exact absurd rfl (hm kvs)
  | _ => simp [stepSpec, intsInBounds, Verdict]

mutual
/-- the regenerated walk against the model, for every node and every fuel above its nesting depth -/
theorem validate_node : ∀ (n : Node) (fuel : Nat), nodeDepth n < fuel →
    Verdict (intsInBounds n) (Gen.ValidateIntegerBoundsIPLD fuel n)
  | .list xs, 0, h => by omega
  | .list xs, fuel + 1, h => by
    rw [Gen.ValidateIntegerBoundsIPLD, step_eq]
    simp only [stepSpec, intsInBounds]
    exact validate_list xs fuel (by simp only [nodeDepth] at h; omega)
  | .map kvs, 0, h => by omega
  | .map kvs, fuel + 1, h => by
    rw [Gen.ValidateIntegerBoundsIPLD, step_eq]
    simp only [stepSpec, intsInBounds]
    exact validate_map kvs fuel (by simp only [nodeDepth] at h; omega)
  | .null, 0, h => by omega
  | .null, fuel + 1, _ => validate_scalar fuel _ (by intro xs h; cases h) (by intro xs h; cases h)
  | .bool _, 0, h => by omega
  | .bool _, fuel + 1, _ => validate_scalar fuel _ (by intro xs h; cases h) (by intro xs h; cases h)
  | .int _, 0, h => by omega
  | .int _, fuel + 1, _ => validate_scalar fuel _ (by intro xs h; cases h) (by intro xs h; cases h)
  | .float _, 0, h => by omega
  | .float _, fuel + 1, _ => validate_scalar fuel _ (by intro xs h; cases h) (by intro xs h; cases h)
  | .str _, 0, h => by omega
  | .str _, fuel + 1, _ => validate_scalar fuel _ (by intro xs h; cases h) (by intro xs h; cases h)
  | .bytes _, 0, h => by omega
  | .bytes _, fuel + 1, _ => validate_scalar fuel _ (by intro xs h; cases h) (by intro xs h; cases h)
  | .link _, 0, h => by omega
  | .link _, fuel + 1, _ => validate_scalar fuel _ (by intro xs h; cases h) (by intro xs h; cases h)
theorem validate_list : ∀ (xs : List Node) (fuel : Nat), nodeDepthList xs < fuel →
    Verdict (intsInBoundsList xs) (allOk (Gen.ValidateIntegerBoundsIPLD fuel) xs)
  | [], _, _ => by simp [Verdict, intsInBoundsList, allOk]
  | x :: xs, fuel, h => by
    have hx := validate_node x fuel (by simp only [nodeDepthList] at h; omega)
    have hxs := validate_list xs fuel (by simp only [nodeDepthList] at h; omega)
    simp only [intsInBoundsList, allOk]
    unfold Verdict at hx hxs ⊢
    by_cases bx : intsInBounds x = true
    · simp only [bx, ↓reduceIte, Bool.true_and] at hx ⊢
      rw [hx]; exact hxs
    · simp only [bx, ↓reduceIte, Bool.false_eq_true] at hx
      obtain ⟨m, hm⟩ := hx
      have : (intsInBounds x && intsInBoundsList xs) = false := by simp [Bool.eq_false_iff.mpr bx]
      simp only [this, Bool.false_eq_true, ↓reduceIte, hm]
      exact ⟨m, rfl⟩
theorem validate_map : ∀ (kvs : List (Bytes × Node)) (fuel : Nat), nodeDepthMap kvs < fuel →
    Verdict (intsInBoundsMap kvs) (allOk (Gen.ValidateIntegerBoundsIPLD fuel) (kvs.map (·.2)))
  | [], _, _ => by simp [Verdict, intsInBoundsMap, allOk]
  | (k, x) :: kvs, fuel, h => by
    have hx := validate_node x fuel (by simp only [nodeDepthMap] at h; omega)
    have hxs := validate_map kvs fuel (by simp only [nodeDepthMap] at h; omega)
    simp only [intsInBoundsMap, allOk, List.map_cons]
    unfold Verdict at hx hxs ⊢
    by_cases bx : intsInBounds x = true
    · simp only [bx, ↓reduceIte, Bool.true_and] at hx ⊢
      rw [hx]; exact hxs
    · simp only [bx, ↓reduceIte, Bool.false_eq_true] at hx
      obtain ⟨m, hm⟩ := hx
      have : (intsInBounds x && intsInBoundsMap kvs) = false := by simp [Bool.eq_false_iff.mpr bx]
      simp only [this, Bool.false_eq_true, ↓reduceIte, hm]
      exact ⟨m, rfl⟩
end

/-- `limits.ValidateIntegerBoundsIPLD`, regenerated: it accepts exactly the nodes whose integers all lie within ±(2^53−1) -/
theorem ValidateIntegerBoundsIPLD_ok_iff (n : Node) (fuel : Nat) (h : nodeDepth n < fuel) :
    Gen.ValidateIntegerBoundsIPLD fuel n = .ok () ↔ intsInBounds n = true := by
  have := validate_node n fuel h
  unfold Verdict at this
  by_cases b : intsInBounds n = true
  · simp only [b, ↓reduceIte] at this; simp [this, b]
  · simp only [b, ↓reduceIte, Bool.false_eq_true] at this
    obtain ⟨m, hm⟩ := this
    simp [hm, b]

/-- … and every refusal is an error VALUE: no panic (C09: integers beyond int64 included), no exhausted fuel; the answer does
not depend on the fuel once it exceeds the nesting depth -/
theorem ValidateIntegerBoundsIPLD_refusal_is_value (n : Node) (fuel : Nat) (h : nodeDepth n < fuel) (e : GoErr)
    (he : Gen.ValidateIntegerBoundsIPLD fuel n = .error e) : ∃ m, e = .err m := by
  have := validate_node n fuel h
  unfold Verdict at this
  by_cases b : intsInBounds n = true
  · simp only [b, ↓reduceIte] at this; rw [this] at he; cases he
  · simp only [b, ↓reduceIte, Bool.false_eq_true] at this
    obtain ⟨m, hm⟩ := this
    rw [hm] at he; exact ⟨m, (Except.error.inj he).symm⟩

example : Gen.ValidateIntegerBoundsIPLD 3 (.map [([97], .list [.int 1, .int 9007199254740992])]) =
    .error (.err "integer value %d exceeds safe bounds") := by
  simp [Gen.ValidateIntegerBoundsIPLD, step_eq, stepSpec, allOk, intFits64, minInt64, maxInt64]

end Ucan.Tie
