import Ucan.Gen.ChainAllowed
import Ucan.Props.Tie.ChainOrder
import Ucan.Props.Tie.ChainTime
import Ucan.Props.Tie.ChainProofs
import Ucan.Props.Tie.ChainArgs
import Ucan.Props.Tie.ChainLoad
import Ucan.Props.C05
/-! Regenerated-code tie for `executionAllowed` as a whole (C05, and C01–C04 through it): the regenerated function — with its
callees `loadProofs`, `verifyProofs`, `verifyTimeBound`, `verifyArgs`, `Policy.Match` regenerated as well — returns nil EXACTLY when
the model's `executionAllowed` does, i.e. exactly when the proofs load and the chain satisfies the principal, command, time and
policy clauses of the specification. The statement is about nil / not nil: which error a refused invocation gets, and in which order
the four stages run, is not part of any property (`ChainAllowedExact` proves the stronger, order-dependent equality for the code
as it is today; it belongs to no property). The proof composes the four stage ties through `ChainOrder`'s order-independent
characterisation of the shell. -/
set_option linter.unusedSimpArgs false
set_option linter.unusedSectionVars false
namespace Ucan.Tie
open Ucan Ucan.GoM

variable {D C L A : Type} [DecidableEq D]

def liftE {α} (r : Except Chain.Err α) : GoM α := r.mapError chainErr

/-- the full translation of `executionAllowed` is the shell translation (`ChainOrder`) with the regenerated stages for
its parameters: both come from the same Go function body -/
theorem Inv_executionAllowed_is_shell {S N : Type} (now : Int)
    (extGet : L → C → GoM (Gen.DlgTok D S))
    (extMS : Option S → N → (Int × Option S)) (extIPLD : A → GoM N)
    (g : Gen.InvTok D C A) (loader : L) (a : A) :
    Gen.Inv_executionAllowed now extGet extMS extIPLD g loader a =
      Gen.Inv_executionAllowed_shell (Gen.Inv_loadProofs extGet) Gen.Inv_verifyProofs (Gen.Inv_verifyTimeBound now)
        (Gen.Inv_verifyArgs extMS extIPLD) g loader a := rfl

theorem mapM_length {α β} (f : α → Option β) : ∀ (cs : List α) ds, cs.mapM f = some ds → ds.length = cs.length := by
  intro cs
  induction cs with
  | nil => intro ds h; simp at h; subst h; rfl
  | cons c cs ih =>
    intro ds h
    simp only [List.mapM_cons] at h
    cases hc : f c with
    | none => simp [hc] at h
    | some d =>
      cases hm : cs.mapM f with
      | none => simp [hc, hm] at h
      | some ds' =>
        simp [hc, hm] at h
        subst h
        simp [ih ds' hm]

theorem mapM_mem {α β} (f : α → Option β) : ∀ (cs : List α) ds, cs.mapM f = some ds → ∀ d ∈ ds, ∃ c, f c = some d := by
  intro cs
  induction cs with
  | nil => intro ds h d hd; simp at h; subst h; simp at hd
  | cons c cs ih =>
    intro ds h d hd
    simp only [List.mapM_cons] at h
    cases hc : f c with
    | none => simp [hc] at h
    | some d0 =>
      cases hm : cs.mapM f with
      | none => simp [hc, hm] at h
      | some ds' =>
        simp [hc, hm] at h
        subst h
        rcases List.mem_cons.1 hd with h1 | h1
        · exact ⟨c, by rw [hc, h1]⟩
        · exact ih ds' hm d h1

theorem model_loadProofs (undef : D) (pol) (ldG : C → Option (Gen.DlgTok D Policy.Stmt)) : ∀ (cs : List C),
    Chain.loadProofs (fun c => (ldG c).map (toDlg undef pol)) cs =
      match cs.mapM ldG with
      | some ds => .ok (ds.map (toDlg undef pol))
      | none => .error .missingDelegation := by
  intro cs
  induction cs with
  | nil => simp [Chain.loadProofs]
  | cons c cs ih =>
    simp only [Chain.loadProofs, List.mapM_cons]
    cases hc : ldG c with
    | none => simp [hc]
    | some d =>
      simp only [hc, Option.map_some, ih]
      cases cs.mapM ldG <;> simp

/-- C01–C05 on the regenerated `executionAllowed`: nil EXACTLY when the proofs load and the chain satisfies the principal,
command, time and policy clauses of the specification -/
theorem Inv_executionAllowed_ok_iff_spec {X : Type} (x : X) (args : Node) (undef : D) (pol) (now : Int)
    (extGet : L → C → GoM (Gen.DlgTok D Policy.Stmt)) (extIPLD : A → GoM Node)
    (ldG : C → Option (Gen.DlgTok D Policy.Stmt))
    (g : Gen.InvTok D C A) (loader : L) (a : A) (hs : g.subject ≠ undef)
    (hl : LoaderIs extGet loader ldG) (hipld : extIPLD a = .ok args)
    (hpol : ∀ c d, ldG c = some d → d.policy = (pol d).map some) :
    Gen.Inv_executionAllowed now extGet extMatch extIPLD g loader a = .ok () ↔
      ∃ ds, Chain.loadProofs (fun c => (ldG c).map (toDlg undef pol)) g.proof = .ok ds ∧
        Chain.PrincipalSpec (toInv x args g) ds ∧ Chain.CommandSpec (toInv x args g) ds ∧
        Chain.TimeSpec now (toInv x args g) ds ∧ Chain.PolicySpec ds args := by
  rw [Inv_executionAllowed_is_shell, Inv_executionAllowed_ok_iff, model_loadProofs]
  simp only [Inv_loadProofs_ok_iff extGet loader ldG hl g]
  cases hm : g.proof.mapM ldG with
  | none => simp
  | some gs =>
    have hlen : gs.length = g.proof.length := mapM_length ldG _ _ hm
    have hpol' : ∀ d ∈ gs, d.policy = (pol d).map some := by
      intro d hd
      obtain ⟨c, hc⟩ := mapM_mem ldG _ _ hm d hd
      exact hpol c d hc
    have e1 : Gen.Inv_verifyProofs g gs = .ok () ↔
        Chain.PrincipalSpec (toInv x args g) (gs.map (toDlg undef pol)) ∧ Chain.CommandSpec (toInv x args g) (gs.map (toDlg undef pol)) := by
      exact Inv_verifyProofs_ok_iff_spec x args undef pol g gs hs hlen
    have e2 : Gen.Inv_verifyTimeBound now g gs = .ok () ↔ Chain.TimeSpec now (toInv x args g) (gs.map (toDlg undef pol)) := by
      rw [Inv_verifyTimeBound_eq, Inv_verifyTimeBoundAt_eq x args undef pol g gs now hlen, ← Chain.verifyTime_ok_iff]
      cases Chain.verifyTime now (toInv x args g) (gs.map (toDlg undef pol)) <;> simp [Except.mapError]
    have e3 : Gen.Inv_verifyArgs extMatch extIPLD g gs a = .ok () ↔ Chain.PolicySpec (gs.map (toDlg undef pol)) args := by
      rw [Inv_verifyArgs_eq undef pol extIPLD g gs a args hlen hipld hpol', ← Chain.verifyArgs_ok_iff]
      cases Chain.verifyArgs (gs.map (toDlg undef pol)) args <;> simp [Except.mapError]
    constructor
    · rintro ⟨ds, hds, h1, h2, h3⟩
      have : ds = gs := (Option.some.inj hds).symm
      subst this
      exact ⟨_, rfl, (e1.1 h1).1, (e1.1 h1).2, e2.1 h2, e3.1 h3⟩
    · rintro ⟨ds, hds, p1, p2, p3, p4⟩
      have : ds = gs.map (toDlg undef pol) := (Except.ok.inj hds).symm
      subst this
      exact ⟨gs, rfl, e1.2 ⟨p1, p2⟩, e2.2 p3, e3.2 p4⟩

/-- … which is when the model's `executionAllowed` returns nil (`C05_allowed_iff`) -/
theorem Inv_executionAllowed_ok_iff_model {X : Type} (x : X) (args : Node) (undef : D) (pol) (now : Int)
    (extGet : L → C → GoM (Gen.DlgTok D Policy.Stmt)) (extIPLD : A → GoM Node)
    (ldG : C → Option (Gen.DlgTok D Policy.Stmt))
    (g : Gen.InvTok D C A) (loader : L) (a : A) (hs : g.subject ≠ undef)
    (hl : LoaderIs extGet loader ldG) (hipld : extIPLD a = .ok args)
    (hpol : ∀ c d, ldG c = some d → d.policy = (pol d).map some) :
    Gen.Inv_executionAllowed now extGet extMatch extIPLD g loader a = .ok () ↔
      Chain.executionAllowed (fun c => (ldG c).map (toDlg undef pol)) now (toInv x args g) args = .ok () := by
  rw [Inv_executionAllowed_ok_iff_spec x args undef pol now extGet extIPLD ldG g loader a hs hl hipld hpol]
  exact (Chain.C05_allowed_iff (fun c => (ldG c).map (toDlg undef pol)) now (toInv x args g) args).symm

end Ucan.Tie
