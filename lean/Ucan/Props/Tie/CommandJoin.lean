import Ucan.Gen.Command
import Ucan.Model.Command
/-! Regenerated-code tie for `Command.Join` (C15): the two `range` loops of the Go source, as translated, compute the
model's `join`; no index panics, no fuel exhaustion. -/
set_option linter.unusedSimpArgs false
set_option linter.unusedSectionVars false
namespace Ucan.Tie
open Ucan Ucan.GoM

theorem idx_natJ {α} (xs : List α) (n : Nat) (h : n < xs.length) : idx xs (n : Int) = .ok xs[n] := by
  simp [idx, h, pure, Except.pure]

/-- first loop: the total length of the segments from position `k` on is added to `size` -/
theorem join_loop1 (c : Bytes) (segs : List Bytes) (fuel k : Nat) (size : Int) (hf : segs.length - k < fuel) (hk : k ≤ segs.length) :
    Gen.Command_Join.loop1 fuel c segs (k : Int) size =
      .ok (.next ((segs.length : Int), size + (((segs.drop k).map List.length).sum : Nat))) := by
  induction fuel generalizing k size with
  | zero => omega
  | succ fuel ih =>
    rw [Gen.Command_Join.loop1]
    by_cases hlt : k < segs.length
    · have h1 : ((k : Int) < (segs.length : Int)) := by omega
      have h2 : ((k : Int) + 1) = ((k + 1 : Nat) : Int) := by omega
      have hd : segs.drop k = segs[k] :: segs.drop (k + 1) := List.drop_eq_getElem_cons hlt
      simp only [len, h1, decide_true, Bool.not_true, Bool.false_eq_true, ↓reduceIte, idx_natJ segs k hlt, bind, Except.bind,
        pure, Except.pure, h2]
      rw [ih (k + 1) _ (by omega) (by omega), hd]
      simp only [List.map_cons, List.sum_cons, Int.natCast_add]
      congr 3
      omega
    · have : k = segs.length := by omega
      subst this
      have h1 : ¬ (((segs.length : Nat) : Int) < (segs.length : Int)) := by omega
      simp [len, h1, bind, Except.bind, pure, Except.pure]

/-- second loop: the model's `joinLoop` over the remaining segments -/
theorem join_loop2 (c : Bytes) (segs : List Bytes) (size : Int) (fuel k : Nat) (buf : Bytes) (hf : segs.length - k < fuel)
    (hk : k ≤ segs.length) :
    Gen.Command_Join.loop2 fuel c segs size (k : Int) buf =
      .ok (.next ((segs.length : Int), Command.joinLoop buf (segs.drop k))) := by
  induction fuel generalizing k buf with
  | zero => omega
  | succ fuel ih =>
    rw [Gen.Command_Join.loop2]
    by_cases hlt : k < segs.length
    · have h1 : ((k : Int) < (segs.length : Int)) := by omega
      have h2 : ((k : Int) + 1) = ((k + 1 : Nat) : Int) := by omega
      have hd : segs.drop k = segs[k] :: segs.drop (k + 1) := List.drop_eq_getElem_cons hlt
      rw [hd]
      by_cases hs : segs[k] = []
      · simp only [len, h1, decide_true, Bool.not_true, Bool.false_eq_true, ↓reduceIte, idx_natJ segs k hlt, bind, Except.bind,
          pure, Except.pure, h2, hs, bne_self_eq_false, Command.joinLoop, ne_eq, not_true_eq_false]
        exact ih (k + 1) buf (by omega) (by omega)
      · have hs' : (segs[k] != []) = true := by simpa using hs
        by_cases hb : buf.length > 1
        · have hbI : ((1 : Int) < (buf.length : Int)) := by omega
          simp only [len, h1, decide_true, Bool.not_true, Bool.false_eq_true, ↓reduceIte, idx_natJ segs k hlt, bind, Except.bind,
            pure, Except.pure, h2, hs', Command.joinLoop, ne_eq, hs, not_false_eq_true, hb, hbI, gt_iff_lt, Command.slash]
          exact ih (k + 1) _ (by omega) (by omega)
        · have hbI : ¬ ((1 : Int) < (buf.length : Int)) := by omega
          simp only [len, h1, decide_true, Bool.not_true, Bool.false_eq_true, ↓reduceIte, idx_natJ segs k hlt, bind, Except.bind,
            pure, Except.pure, h2, hs', Command.joinLoop, ne_eq, hs, not_false_eq_true, hb, hbI, gt_iff_lt, decide_false]
          exact ih (k + 1) _ (by omega) (by omega)
    · have : k = segs.length := by omega
      subst this
      have h1 : ¬ (((segs.length : Nat) : Int) < (segs.length : Int)) := by omega
      simp [len, h1, Command.joinLoop, bind, Except.bind, pure, Except.pure]

/-- `Command.Join`, regenerated, is the model's `join` (the function `C15_join_segments` is about) -/
theorem Command_Join_eq (c : Bytes) (segs : List Bytes) : Gen.Command_Join c segs = .ok (Command.join c segs) := by
  unfold Gen.Command_Join Command.join
  have h1 := join_loop1 c segs (segs.length + 1) 0 0 (by omega) (by omega)
  simp only [Int.natCast_zero, List.drop_zero, Int.zero_add] at h1
  simp only [bind, Except.bind, h1, pure, Except.pure]
  by_cases hz : (segs.map List.length).sum = 0
  · simp [hz]
  · have hzI : ¬ ((((segs.map List.length).sum : Nat) : Int) = 0) := by omega
    have h2 := join_loop2 c segs (((segs.map List.length).sum : Nat) : Int) (segs.length + 1) 0 ([] ++ c) (by omega) (by omega)
    simp only [Int.natCast_zero, List.drop_zero, List.nil_append] at h2
    simp [hz, hzI, h2]

end Ucan.Tie
