import Ucan.Gen.ChainLoad
import Ucan.Props.Tie.ChainDefs
/-! Regenerated-code tie for `loadProofs` (C01 "all referenced delegations must be available", C05): the slice that is made
with the length of the proof list and filled at the key of the `range` loop (translated as appending in order — `go2lean`
checks that the slice is written at the range key only and otherwise just returned) holds the loader's delegation for every
proof CID, in proof order; the first CID the loader has no delegation for ends the function with `ErrMissingDelegation`,
whatever error the loader reported. `Loader.GetDelegation` is a parameter. -/
set_option linter.unusedSimpArgs false
set_option linter.unusedSectionVars false
namespace Ucan.Tie
open Ucan Ucan.GoM

variable {D C S A L : Type} [DecidableEq D]

/-- what the caller's loader does, as far as `loadProofs` can tell: a delegation, or some error value -/
def LoaderIs (extGet : L → C → GoM (Gen.DlgTok D S)) (loader : L) (ldG : C → Option (Gen.DlgTok D S)) : Prop :=
  ∀ c, match ldG c with
    | some d => extGet loader c = .ok d
    | none => ∃ msg, extGet loader c = .error (.err msg)

/-- the loop from position `k`: it runs to the end exactly when the loader has a delegation for every remaining proof CID, and then
holds them in proof order (which error ends it otherwise is not fixed here: the proof analyses the loader's answer for the current
CID and goes through whether the function replaces, wraps or passes on the loader's error) -/
theorem loadProofs_loop_iff (extGet : L → C → GoM (Gen.DlgTok D S)) (loader : L) (ldG : C → Option (Gen.DlgTok D S))
    (hl : LoaderIs extGet loader ldG) (g : Gen.InvTok D C A) (fuel k : Nat) (hf : g.proof.length - k < fuel)
    (hk : k ≤ g.proof.length) (res : List (Gen.DlgTok D S)) :
    match (g.proof.drop k).mapM ldG with
    | some ds => Gen.Inv_loadProofs.loop1 extGet fuel g loader (k : Int) res = .ok (.next ((g.proof.length : Int), res ++ ds))
    | none => ∃ e, Gen.Inv_loadProofs.loop1 extGet fuel g loader (k : Int) res = .error e := by
  induction fuel generalizing k res with
  | zero => omega
  | succ fuel ih =>
    unfold Gen.Inv_loadProofs.loop1
    by_cases hlt : k < g.proof.length
    · have hd : g.proof.drop k = g.proof[k] :: g.proof.drop (k + 1) := List.drop_eq_getElem_cons hlt
      have h1 : ((k : Int) < (g.proof.length : Int)) := by omega
      have h2 : ((k : Int) + 1) = ((k + 1 : Nat) : Int) := by omega
      have hidx : idx g.proof (k : Int) = .ok g.proof[k] := by simp [idx, hlt, pure, Except.pure]
      rw [hd, List.mapM_cons]
      have hc := hl g.proof[k]
      cases hg : ldG g.proof[k] with
      | none =>
        rw [hg] at hc
        obtain ⟨msg, hm⟩ := hc
        simp [len, h1, hidx, hm, replaceErr, bind, Except.bind, pure, Except.pure]
      | some d =>
        rw [hg] at hc
        have := ih (k + 1) (by omega) (by omega) (res ++ [d])
        cases hm : (g.proof.drop (k + 1)).mapM ldG with
        | none =>
          rw [hm] at this
          obtain ⟨e, he⟩ := this
          refine ⟨e, ?_⟩
          simp only [len, h1, decide_true, Bool.not_true, Bool.false_eq_true, ↓reduceIte, hidx, hc, replaceErr, bind,
            Except.bind, pure, Except.pure, h2, Option.bind_eq_bind, Option.bind_some, Option.bind_none]
          simpa using he
        | some ds' =>
          rw [hm] at this
          simp only [len, h1, decide_true, Bool.not_true, Bool.false_eq_true, ↓reduceIte, hidx, hc, replaceErr, bind,
            Except.bind, pure, Except.pure, h2, Option.bind_eq_bind, Option.bind_some]
          simpa [List.append_assoc] using this
    · have : k = g.proof.length := by omega
      subst this
      have h1 : ¬ (((g.proof.length : Nat) : Int) < (g.proof.length : Int)) := by omega
      simp [len, h1, bind, Except.bind, pure, Except.pure]

/-- `loadProofs`, regenerated: every proof CID is looked up, in order; it returns the loader's delegations — one per CID, in proof
order — exactly when the loader has one for every CID, and an error otherwise -/
theorem Inv_loadProofs_ok_iff (extGet : L → C → GoM (Gen.DlgTok D S)) (loader : L) (ldG : C → Option (Gen.DlgTok D S))
    (hl : LoaderIs extGet loader ldG) (g : Gen.InvTok D C A) (ds : List (Gen.DlgTok D S)) :
    Gen.Inv_loadProofs extGet g loader = .ok ds ↔ g.proof.mapM ldG = some ds := by
  unfold Gen.Inv_loadProofs
  have := loadProofs_loop_iff extGet loader ldG hl g (g.proof.length + 1) 0 (by omega) (by omega) []
  simp only [Int.natCast_zero, List.drop_zero, List.nil_append] at this
  cases hm : g.proof.mapM ldG with
  | none =>
    rw [hm] at this
    obtain ⟨e, he⟩ := this
    simp [bind, Except.bind, he]
  | some ds' =>
    rw [hm] at this
    simp [bind, Except.bind, pure, Except.pure, this]

end Ucan.Tie
