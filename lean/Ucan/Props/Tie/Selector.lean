import Ucan.Gen.Selector
import Ucan.Model.Selector
/-! Regenerated-code tie for `resolveSliceIndices` (see `Ucan/Props/Tie/Command.lean` for what the tie is). -/
set_option linter.unusedSimpArgs false
set_option linter.unusedSectionVars false
namespace Ucan.Tie
open Ucan Ucan.GoM

/-! ### pkg/policy/selector -/

/-- `resolveSliceIndices`, regenerated, is the model's `sliceIndices` (the function C12's Python-slice
theorems are about); the two `slice[k]` reads never panic on a 2-element slice -/
theorem resolveSliceIndices_eq (s0 s1 length : Int) :
    Gen.resolveSliceIndices [s0, s1] length = pure (Selector.sliceIndices s0 s1 length) := by
  unfold Gen.resolveSliceIndices Selector.sliceIndices Selector.rawStart Selector.rawEnd Selector.clamp
  simp only [len, idx, Selector.minInt, Selector.maxInt]
  simp [pure, Except.pure, bind, Except.bind]
  grind

/-- a slice of any other length is the panic the Go source announces -/
theorem resolveSliceIndices_panics (sl : List Int) (length : Int) (h : sl.length ≠ 2) :
    Gen.resolveSliceIndices sl length = throw (.panic "should always be 2-length") := by
  unfold Gen.resolveSliceIndices
  have : ¬ ((sl.length : Int) = 2) := by omega
  simp [len, this, bind, Except.bind, throw, throwThe, MonadExceptOf.throw]

end Ucan.Tie
