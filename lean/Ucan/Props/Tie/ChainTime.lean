import Ucan.Gen.ChainTime
import Ucan.Props.Tie.ChainDefs
/-! Regenerated-code tie for `IsValidAt`, `IsValidNow` (delegation, invocation) and `verifyTimeBoundAt` (C04). -/
set_option linter.unusedSimpArgs false
set_option linter.unusedSectionVars false
namespace Ucan.Tie
open Ucan Ucan.GoM

variable {D C S A : Type} [DecidableEq D]

/-- `delegation.Token.IsValidAt`, regenerated, is the model's `validAt`; `*t.expiration` is never a nil dereference -/
theorem Dlg_IsValidAt_eq (undef : D) (pol) (g : Gen.DlgTok D S) (t : Int) :
    Gen.Dlg_IsValidAt g t = pure ((toDlg undef pol g).validAt t) := by
  unfold Gen.Dlg_IsValidAt Chain.Dlg.validAt Chain.afterBound Chain.beforeBound toDlg
  cases he : g.expiration <;> cases hn : g.notBefore <;>
    simp [gand, notNil, deref, bind, Except.bind, pure, Except.pure] <;> grind

/-- `invocation.Token.IsValidAt` -/
theorem Inv_IsValidAt_eq {X : Type} (x : X) (args : Node) (g : Gen.InvTok D C A) (t : Int) :
    Gen.Inv_IsValidAt g t = pure ((toInv x args g).validAt t) := by
  unfold Gen.Inv_IsValidAt Chain.Inv.validAt Chain.afterBound toInv
  cases he : g.expiration <;>
    simp [gand, notNil, deref, bind, Except.bind, pure, Except.pure] <;> grind

/-- `IsValidNow` (both token types), regenerated: `IsValidAt` at the instant the clock shows — the model's `validAt` there -/
theorem Dlg_IsValidNow_eq (undef : D) (pol) (g : Gen.DlgTok D S) (now : Int) :
    Gen.Dlg_IsValidNow now g = pure ((toDlg undef pol g).validAt now) := by
  unfold Gen.Dlg_IsValidNow
  rw [Dlg_IsValidAt_eq undef pol g now]

theorem Inv_IsValidNow_eq {X : Type} (x : X) (args : Node) (g : Gen.InvTok D C A) (now : Int) :
    Gen.Inv_IsValidNow now g = pure ((toInv x args g).validAt now) := by
  unfold Gen.Inv_IsValidNow
  rw [Inv_IsValidAt_eq x args g now]

/-- the loop of `verifyTimeBoundAt` from position `k` -/
theorem verifyTime_loop (undef : D) (pol) (g : Gen.InvTok D C A) (ds : List (Gen.DlgTok D S)) (now : Int)
    (hlen : ds.length = g.proof.length) (fuel k : Nat) (hf : ds.length - k < fuel) (hk : k ≤ ds.length) :
    Gen.Inv_verifyTimeBoundAt.loop1 fuel g now ds (k : Int) =
      if ((ds.drop k).map (toDlg undef pol)).all (fun d => d.validAt now) then .ok (.next (ds.length : Int))
      else .error (.err "ErrTokenInvalidNow") := by
  induction fuel generalizing k with
  | zero => omega
  | succ fuel ih =>
    unfold Gen.Inv_verifyTimeBoundAt.loop1
    by_cases hlt : k < ds.length
    · have hd : ds.drop k = ds[k] :: ds.drop (k + 1) := List.drop_eq_getElem_cons hlt
      have hltp : k < g.proof.length := by omega
      have h1 : ((k : Int) < (g.proof.length : Int)) := by omega
      have h2 : ((k : Int) + 1) = ((k + 1 : Nat) : Int) := by omega
      rw [hd]
      by_cases hv : (toDlg undef pol ds[k]).validAt now = true
      · simp only [len, idx, h1, decide_true, Bool.not_true, Bool.false_eq_true, ↓reduceIte,
          Int.natCast_nonneg, Int.toNat_natCast, hltp, hlt, and_self, ↓reduceDIte, bind, Except.bind, pure, Except.pure,
          Dlg_IsValidAt_eq undef pol, hv, h2, List.map_cons, List.all_cons, Bool.true_and]
        exact ih (k + 1) (by omega) (by omega)
      · have hv' : (toDlg undef pol ds[k]).validAt now = false := by simpa using hv
        simp only [len, idx, h1, decide_true, Bool.not_true, Bool.false_eq_true, ↓reduceIte,
          Int.natCast_nonneg, Int.toNat_natCast, hltp, hlt, and_self, ↓reduceDIte, bind, Except.bind, pure, Except.pure,
          Dlg_IsValidAt_eq undef pol, hv', List.map_cons, List.all_cons, Bool.false_and, Bool.not_false,
          throw, throwThe, MonadExceptOf.throw]
    · have : k = ds.length := by omega
      subst this
      have h1 : ¬ (((ds.length : Nat) : Int) < (g.proof.length : Int)) := by omega
      simp [len, h1, bind, Except.bind, pure, Except.pure]

/-- `verifyTimeBoundAt`, regenerated, is the model's `verifyTime` (the function C04 is about) -/
theorem Inv_verifyTimeBoundAt_eq {X : Type} (x : X) (args : Node) (undef : D) (pol) (g : Gen.InvTok D C A)
    (ds : List (Gen.DlgTok D S)) (now : Int) (hlen : ds.length = g.proof.length) :
    Gen.Inv_verifyTimeBoundAt g now ds =
      (Chain.verifyTime now (toInv x args g) (ds.map (toDlg undef pol))).mapError chainErr := by
  unfold Gen.Inv_verifyTimeBoundAt Chain.verifyTime
  have hloop := verifyTime_loop undef pol g ds now hlen (g.proof.length + 1) 0 (by omega) (by omega)
  simp only [List.drop_zero, Int.natCast_zero] at hloop
  rw [Inv_IsValidAt_eq x args]
  by_cases hi : (toInv x args g).validAt now = true
  · by_cases ha : (ds.map (toDlg undef pol)).all (fun d => d.validAt now) = true
    · rw [if_pos ha] at hloop
      simp [hi, ha, hloop, bind, Except.bind, pure, Except.pure, Except.mapError]
    · rw [if_neg ha] at hloop
      simp [hi, ha, hloop, bind, Except.bind, pure, Except.pure, Except.mapError, chainErr]
  · have hi' : (toInv x args g).validAt now = false := by simpa using hi
    simp [hi', bind, Except.bind, pure, Except.pure, Except.mapError, chainErr, throw, throwThe, MonadExceptOf.throw]

/-- `verifyTimeBound` is `verifyTimeBoundAt` at the instant `time.Now()` returned (a parameter of the translation) -/
theorem Inv_verifyTimeBound_eq (now : Int) (g : Gen.InvTok D C A) (ds : List (Gen.DlgTok D S)) :
    Gen.Inv_verifyTimeBound now g ds = Gen.Inv_verifyTimeBoundAt g now ds := by
  unfold Gen.Inv_verifyTimeBound
  cases Gen.Inv_verifyTimeBoundAt g now ds <;> rfl

end Ucan.Tie
