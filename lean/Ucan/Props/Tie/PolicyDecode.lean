import Ucan.Gen.PolicyDecode
import Ucan.Props.Tie.Args
/-!
Regenerated-code tie for `policy.FromIPLD` (`pkg/policy/ipld.go`), the entry point both the policy decoders and the delegation
decoder go through: it walks the whole node with `limits.ValidateIntegerBoundsIPLD` (regenerated, `Tie/Limits`) BEFORE anything is
decoded, then hands the node to `statementsFromIPLD` — the recursive statement decoder, a parameter here (type switches over an
interface; rendered by hand in `Model/PolicyIpld.lean`). Shown: whatever the statement decoder does, a policy comes out only of a
node all of whose integers lie within ±(2^53−1) (C10's policy clause, C14_decoded_ints_bounded over regenerated code), and the
model's `fromIPLD` is this function over the model's statement decoder.
-/
set_option linter.unusedSimpArgs false
namespace Ucan.Tie
open Ucan Ucan.GoM Ucan.Policy

variable {S : Type}

/-- `policy.FromIPLD`, regenerated: the bound check first, then the statement decoder's outcome -/
theorem Policy_FromIPLD_eq (stmts : Node → GoM (List (Option S))) (n : Node) :
    Gen.Policy_FromIPLD stmts n =
      (match Gen.ValidateIntegerBoundsIPLD_run n with
       | .ok _ => stmts n
       | .error e => .error e) := by
  unfold Gen.Policy_FromIPLD
  cases Gen.ValidateIntegerBoundsIPLD_run n <;> simp [bind, Except.bind, pure, Except.pure]
  try (cases stmts n <;> rfl)

/-- a policy is handed out only for a node whose integers are all in bounds, and it is the statement decoder's -/
theorem Policy_FromIPLD_ok_iff (stmts : Node → GoM (List (Option S))) (n : Node) (p : List (Option S)) :
    Gen.Policy_FromIPLD stmts n = .ok p ↔ intsInBounds n = true ∧ stmts n = .ok p := by
  rw [Policy_FromIPLD_eq]
  cases h : Gen.ValidateIntegerBoundsIPLD_run n with
  | ok u =>
    have : intsInBounds n = true := (run_ok_iff n).1 (by rw [h])
    simp [this]
  | error e =>
    have hb : ¬ intsInBounds n = true := fun hb => by rw [(run_ok_iff n).2 hb] at h; cases h
    simp [hb]

/-- out of bounds: refused with an error value before the statement decoder is ever called (so nothing it might do — a panic on
an integer beyond int64, say — can happen on such a node) -/
theorem Policy_FromIPLD_out_of_bounds (stmts : Node → GoM (List (Option S))) (n : Node) (h : intsInBounds n = false) :
    ∃ m, Gen.Policy_FromIPLD stmts n = .error (.err m) := by
  rw [Policy_FromIPLD_eq]
  cases hr : Gen.ValidateIntegerBoundsIPLD_run n with
  | ok u => have := (run_ok_iff n).1 (by rw [hr]); rw [h] at this; cases this
  | error e =>
    obtain ⟨m, rfl⟩ := run_refusal_is_value n e hr
    exact ⟨m, rfl⟩

example (stmts : Node → GoM (List (Option Unit))) :
    ∃ m, Gen.Policy_FromIPLD stmts (.list [.list [.str [61, 61], .str [46, 97], .int 9007199254740992]]) = .error (.err m) :=
  Policy_FromIPLD_out_of_bounds stmts _ (by decide)

end Ucan.Tie
