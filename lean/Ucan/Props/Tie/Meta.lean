import Ucan.Gen.Secretbox
import Ucan.Model.Meta
/-! Regenerated-code tie for `validateKey` (see `Ucan/Props/Tie/Command.lean` for what the tie is). -/
set_option linter.unusedSimpArgs false
set_option linter.unusedSectionVars false
namespace Ucan.Tie
open Ucan Ucan.GoM

/-! ### pkg/meta/internal/crypto -/

def metaErr : Meta.Err → GoErr
  | .noKey => .err "ErrNoEncryptionKey"
  | .keySize => .err "ErrInvalidKeySize"
  | .zeroKey => .err "ErrZeroKey"
  | .shortCiphertext => .err "ErrShortCipherText"
  | .decryption => .err "decryption failed"
  | _ => .err "other"

/-- the `for _, b := range key` loop: from position `k`, with enough fuel, it returns as soon as a
non-zero byte is met and otherwise runs to the end -/
theorem validateKey_loop (key : Bytes) (fuel k : Nat) (hf : key.length - k < fuel) (hk : k ≤ key.length) :
    Gen.validateKey.loop1 fuel (some key) (k : Int) =
      if ∀ x ∈ key.drop k, x = 0 then Except.ok (.next (key.length : Int)) else Except.ok (.ret ()) := by
  induction fuel generalizing k with
  | zero => omega
  | succ fuel ih =>
    unfold Gen.validateKey.loop1
    by_cases hlt : k < key.length
    · have hd : key.drop k = key[k] :: key.drop (k + 1) := List.drop_eq_getElem_cons hlt
      have h1 : ((k : Int) < (key.length : Int)) := by omega
      have h2 : ((k : Int) + 1) = ((k + 1 : Nat) : Int) := by omega
      rw [hd]
      by_cases hz : key[k] = 0
      · simp only [len, idx, Option.getD_some, h1, decide_true, Bool.not_true, Bool.false_eq_true, ↓reduceIte,
          Int.natCast_nonneg, Int.toNat_natCast, hlt, and_self, ↓reduceDIte, bind, Except.bind, pure, Except.pure,
          hz, bne_self_eq_false, h2, List.mem_cons, forall_eq_or_imp, true_and]
        exact ih (k + 1) (by omega) (by omega)
      · have hz' : (key[k] != 0) = true := by simp [hz]
        simp only [len, idx, Option.getD_some, h1, decide_true, Bool.not_true, Bool.false_eq_true, ↓reduceIte,
          Int.natCast_nonneg, Int.toNat_natCast, hlt, and_self, ↓reduceDIte, bind, Except.bind, pure, Except.pure,
          hz', List.mem_cons, forall_eq_or_imp, hz, false_and]
    · have : k = key.length := by omega
      subst this
      simp [len, bind, Except.bind, pure, Except.pure]

/-- `validateKey`, regenerated, is the model's key validation (C19_validateKey_iff is about the model) -/
theorem validateKey_eq (key : Option Bytes) :
    Gen.validateKey key = ((Meta.validateKey key).map (fun _ => ())).mapError metaErr := by
  unfold Gen.validateKey Meta.validateKey
  cases key with
  | none => simp [notNil, Except.map, Except.mapError, metaErr, bind, Except.bind, throw, throwThe, MonadExceptOf.throw]
  | some k =>
    by_cases hl : k.length = 32
    · have := validateKey_loop k (k.length + 1) 0 (by omega) (by omega)
      simp only [Int.natCast_zero, List.drop_zero] at this
      simp only [notNil, Option.isSome_some, Bool.not_true, Bool.false_eq_true, ↓reduceIte, len, Option.getD_some,
        hl, bne_self_eq_false, bind, Except.bind, pure, Except.pure, Meta.keySize, ne_eq,
        not_true_eq_false]
      rw [hl] at this
      rw [this]
      by_cases hz : ∀ x ∈ k, x = 0
      · have : k.all (· == 0) = true := by simpa using hz
        rw [if_pos hz]
        simp [this, Except.map, Except.mapError, metaErr, throw, throwThe, MonadExceptOf.throw]
      · have : ¬ (k.all (· == 0) = true) := by simpa using hz
        rw [if_neg hz]
        simp [this, Except.map, Except.mapError]
    · have : ¬ ((k.length : Int) = 32) := by omega
      simp [notNil, len, hl, this, Meta.keySize, Except.map, Except.mapError, metaErr, bind, Except.bind, throw, throwThe, MonadExceptOf.throw]

/-! ### `EncryptWithKey` / `DecryptStringWithKey`: the wrapper around secretbox

`secretbox.Seal`, `secretbox.Open` and the random source are parameters of the translation. The fixed-size arrays of the Go code
(`var secretKey [32]byte; copy(secretKey[:], key)`) are byte lists of that length; `copyInto` is Go's `copy` into such an array. -/

theorem copyInto_full (n : Nat) (src : Bytes) (h : src.length = n) :
    copyInto (List.replicate n (0 : UInt8)) src = src := by
  subst h
  simp [copyInto]

theorem validateKey_ok_length (key : Option Bytes) (k : Bytes) (h : Meta.validateKey key = .ok k) :
    key = some k ∧ k.length = 32 := by
  unfold Meta.validateKey at h
  cases key with
  | none => simp at h
  | some k0 =>
    by_cases h1 : k0.length ≠ Meta.keySize
    · simp [h1] at h
    · by_cases h2 : (k0.all fun x => x == 0) = true
      · simp [h1, h2] at h
      · simp only [h1, h2, if_false] at h
        have : k0 = k := Except.ok.inj h
        subst this
        have : k0.length = Meta.keySize := by simpa using h1
        exact ⟨rfl, this⟩

/-- `EncryptWithKey`, regenerated: the key is validated first; the nonce is what the random source delivered (all 24 bytes or an
error); the stored value is nonce ‖ Seal(key, nonce, data) — the key and the nonce handed to `Seal` are the caller's key bytes and
that nonce, nothing else -/
theorem EncryptWithKey_eq (randRead : Nat → GoM Bytes) (sealFn : Bytes → Bytes → Bytes → Bytes) (data : Bytes) (key : Option Bytes) :
    Gen.EncryptWithKey randRead sealFn data key =
      match Meta.validateKey key with
      | .error e => .error (metaErr e)
      | .ok _ => randRead 24 >>= fun nonce => (Meta.encrypt sealFn key nonce data).mapError metaErr := by
  unfold Gen.EncryptWithKey
  rw [validateKey_eq]
  cases hv : Meta.validateKey key with
  | error e => simp [Except.map, Except.mapError, bind, Except.bind]
  | ok k =>
    obtain ⟨hk, hl⟩ := validateKey_ok_length key k hv
    subst hk
    simp only [Except.map, Except.mapError, bind, Except.bind, Option.getD_some, copyInto_full 32 k hl, pure, Except.pure]
    cases randRead 24 with
    | error e => rfl
    | ok nonce => simp [Meta.encrypt, hv, Except.mapError]

/-- Go's `Open` returns (message, ok); the model's returns an option -/
def openOpt (openFn : Bytes → Bytes → Bytes → (Bytes × Bool)) (k n box : Bytes) : Option Bytes :=
  if (openFn k n box).2 then some (openFn k n box).1 else none

/-- `DecryptStringWithKey`, regenerated, is the model's `decrypt`: key validated first, at least 24 bytes required, the first 24
bytes are the nonce and the rest the box handed to `Open` with the caller's key bytes; what `Open` refuses is an error, never data -/
theorem DecryptStringWithKey_eq (openFn : Bytes → Bytes → Bytes → (Bytes × Bool)) (data : Bytes) (key : Option Bytes) :
    Gen.DecryptStringWithKey openFn data key = (Meta.decrypt (openOpt openFn) key data).mapError metaErr := by
  unfold Gen.DecryptStringWithKey Meta.decrypt
  rw [validateKey_eq]
  cases hv : Meta.validateKey key with
  | error e => simp [Except.map, Except.mapError, bind, Except.bind]
  | ok k =>
    obtain ⟨hk, hl⟩ := validateKey_ok_length key k hv
    subst hk
    by_cases hs : data.length < 24
    · have : ((data.length : Int) < 24) := by omega
      simp [Except.map, Except.mapError, bind, Except.bind, len, this, hs, Meta.nonceSize, metaErr, throw, throwThe,
        MonadExceptOf.throw, pure, Except.pure]
    · have h1 : ¬ ((data.length : Int) < 24) := by omega
      have hsl1 : slice data 0 24 = .ok (data.take 24) := by
        have : (0 : Int) ≤ 0 ∧ (0 : Int) ≤ 24 ∧ (24 : Int) ≤ data.length := by omega
        simp [slice, this, pure, Except.pure]
      have hsl2 : slice data 24 (data.length : Int) = .ok (data.drop 24) := by
        have : (0 : Int) ≤ 24 ∧ (24 : Int) ≤ data.length ∧ ((data.length : Nat) : Int) ≤ data.length := by omega
        have h3 : (((data.length : Nat) : Int) - 24).toNat = data.length - 24 := by omega
        have h4 : (data.drop 24).take (data.length - 24) = data.drop 24 := by
          apply List.take_of_length_le; simp
        simp [slice, this, pure, Except.pure, h3, h4]
      have htake : (data.take 24).length = 24 := by simp; omega
      rcases hr : openFn k (data.take 24) (data.drop 24) with ⟨m, okb⟩
      simp only [Except.map, Except.mapError, bind, Except.bind, len, h1, decide_false, Bool.false_eq_true, ↓reduceIte,
        Option.getD_some, copyInto_full 32 k hl, hsl1, hsl2, copyInto_full 24 (data.take 24) htake, pure, Except.pure,
        hs, Meta.nonceSize, openOpt, hr]
      cases okb <;> simp [metaErr, throw, throwThe, MonadExceptOf.throw]

end Ucan.Tie
