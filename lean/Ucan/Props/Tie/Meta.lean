import Ucan.Gen.Secretbox
import Ucan.Model.Meta
/-! Regenerated-code tie for `validateKey` (see `Ucan/Props/Tie/Command.lean` for what the tie is). -/
set_option linter.unusedSimpArgs false
set_option linter.unusedSectionVars false
namespace Ucan.Tie
open Ucan Ucan.GoM

/-! ### pkg/meta/internal/crypto -/

def metaErr : Meta.Err → GoErr
  | .noKey => .err "ErrNoEncryptionKey"
  | .keySize => .err "ErrInvalidKeySize"
  | .zeroKey => .err "ErrZeroKey"
  | _ => .err "other"

/-- the `for _, b := range key` loop: from position `k`, with enough fuel, it returns as soon as a
non-zero byte is met and otherwise runs to the end -/
theorem validateKey_loop (key : Bytes) (fuel k : Nat) (hf : key.length - k < fuel) (hk : k ≤ key.length) :
    Gen.validateKey.loop1 fuel (some key) (k : Int) =
      if ∀ x ∈ key.drop k, x = 0 then Except.ok (.next (key.length : Int)) else Except.ok (.ret ()) := by
  induction fuel generalizing k with
  | zero => omega
  | succ fuel ih =>
    unfold Gen.validateKey.loop1
    by_cases hlt : k < key.length
    · have hd : key.drop k = key[k] :: key.drop (k + 1) := List.drop_eq_getElem_cons hlt
      have h1 : ((k : Int) < (key.length : Int)) := by omega
      have h2 : ((k : Int) + 1) = ((k + 1 : Nat) : Int) := by omega
      rw [hd]
      by_cases hz : key[k] = 0
      · simp only [len, idx, Option.getD_some, h1, decide_true, Bool.not_true, Bool.false_eq_true, ↓reduceIte,
          Int.natCast_nonneg, Int.toNat_natCast, hlt, and_self, ↓reduceDIte, bind, Except.bind, pure, Except.pure,
          hz, bne_self_eq_false, h2, List.mem_cons, forall_eq_or_imp, true_and]
        exact ih (k + 1) (by omega) (by omega)
      · have hz' : (key[k] != 0) = true := by simp [hz]
        simp only [len, idx, Option.getD_some, h1, decide_true, Bool.not_true, Bool.false_eq_true, ↓reduceIte,
          Int.natCast_nonneg, Int.toNat_natCast, hlt, and_self, ↓reduceDIte, bind, Except.bind, pure, Except.pure,
          hz', List.mem_cons, forall_eq_or_imp, hz, false_and]
    · have : k = key.length := by omega
      subst this
      simp [len, bind, Except.bind, pure, Except.pure]

/-- `validateKey`, regenerated, is the model's key validation (C19_validateKey_iff is about the model) -/
theorem validateKey_eq (key : Option Bytes) :
    Gen.validateKey key = ((Meta.validateKey key).map (fun _ => ())).mapError metaErr := by
  unfold Gen.validateKey Meta.validateKey
  cases key with
  | none => simp [notNil, Except.map, Except.mapError, metaErr, bind, Except.bind, throw, throwThe, MonadExceptOf.throw]
  | some k =>
    by_cases hl : k.length = 32
    · have := validateKey_loop k (k.length + 1) 0 (by omega) (by omega)
      simp only [Int.natCast_zero, List.drop_zero] at this
      simp only [notNil, Option.isSome_some, Bool.not_true, Bool.false_eq_true, ↓reduceIte, len, Option.getD_some,
        hl, bne_self_eq_false, bind, Except.bind, pure, Except.pure, Meta.keySize, ne_eq,
        not_true_eq_false]
      rw [hl] at this
      rw [this]
      by_cases hz : ∀ x ∈ k, x = 0
      · have : k.all (· == 0) = true := by simpa using hz
        rw [if_pos hz]
        simp [this, Except.map, Except.mapError, metaErr, throw, throwThe, MonadExceptOf.throw]
      · have : ¬ (k.all (· == 0) = true) := by simpa using hz
        rw [if_neg hz]
        simp [this, Except.map, Except.mapError]
    · have : ¬ ((k.length : Int) = 32) := by omega
      simp [notNil, len, hl, this, Meta.keySize, Except.map, Except.mapError, metaErr, bind, Except.bind, throw, throwThe, MonadExceptOf.throw]

end Ucan.Tie
