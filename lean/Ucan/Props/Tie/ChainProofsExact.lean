import Ucan.Gen.ChainProofs
import Ucan.Props.Tie.ChainProofs
import Ucan.Props.Tie.ChainDefs
import Ucan.Props.Tie.CommandCovers
import Ucan.Lemmas.Chain
/-! (Not registered for any property.) Exact form of the `verifyProofs` tie: equality with the model INCLUDING the error class and
the position of the first failing test, i.e. the order of the tests as the code has it today. -/
set_option linter.unusedSimpArgs false
set_option linter.unusedSectionVars false
namespace Ucan.Tie
open Ucan Ucan.GoM

variable {D C S A : Type} [DecidableEq D]

/-- the alignment loop of `verifyProofs` from position `k`: it fails exactly where the model's `proofLoop`
fails, with the same error class, and otherwise runs to the end of the proof list (no panic: every
`delegations[i]` is in range because one delegation was loaded per proof CID; no fuel exhaustion) -/
theorem verifyProofs_loop (undef : D) (pol) (g : Gen.InvTok D C A) (ds : List (Gen.DlgTok D S)) (sub : D)
    (hs : sub ≠ undef) (hlen : ds.length = g.proof.length) (fuel k : Nat) (hf : ds.length - k < fuel)
    (hk : k ≤ ds.length) (cmd : Bytes) (iss : D) :
    match Chain.proofLoop sub iss cmd ((ds.drop k).map (toDlg undef pol)) with
    | .error e => Gen.Inv_verifyProofs.loop1 fuel g ds sub (k : Int) cmd iss = .error (chainErr e)
    | .ok () => ∃ c i, Gen.Inv_verifyProofs.loop1 fuel g ds sub (k : Int) cmd iss = .ok (.next ((ds.length : Int), c, i)) := by
  induction fuel generalizing k cmd iss with
  | zero => omega
  | succ fuel ih =>
    unfold Gen.Inv_verifyProofs.loop1
    by_cases hlt : k < ds.length
    · have hd : ds.drop k = ds[k] :: ds.drop (k + 1) := List.drop_eq_getElem_cons hlt
      have hltp : k < g.proof.length := by omega
      have h1 : ((k : Int) < (g.proof.length : Int)) := by omega
      have h2 : ((k : Int) + 1) = ((k + 1 : Nat) : Int) := by omega
      rw [hd]
      simp only [List.map_cons, Chain.proofLoop]
      have hsub := toDlg_sub_ne undef sub pol ds[k] hs
      by_cases c1 : ds[k].subject = sub
      · have c1' : ¬ ((toDlg undef pol ds[k]).sub ≠ some sub) := by rw [hsub]; simpa using c1
        by_cases c2 : ds[k].audience = iss
        · have c2' : (toDlg undef pol ds[k]).aud = iss := c2
          by_cases c3 : Command.covers ds[k].command cmd = true
          · have c3' : Command.covers (toDlg undef pol ds[k]).cmd cmd = true := c3
            have := ih (k + 1) (by omega) (by omega) ds[k].command ds[k].issuer
            rw [if_neg c1', if_neg (by simpa using c2'), if_neg (by simpa using c3')]
            simp only [len, idx, h1, decide_true, Bool.not_true, Bool.false_eq_true, ↓reduceIte,
              Int.natCast_nonneg, Int.toNat_natCast, hltp, hlt, and_self, ↓reduceDIte, bind, Except.bind, pure, Except.pure,
              c1, c2, bne_self_eq_false, Command_Covers_eq, c3, h2]
            exact this
          · have c3' : ¬ (Command.covers (toDlg undef pol ds[k]).cmd cmd = true) := c3
            have c3'' : Command.covers ds[k].command cmd = false := by simpa using c3
            rw [if_neg c1', if_neg (by simpa using c2'), if_pos c3']
            simp only [len, idx, h1, decide_true, Bool.not_true, Bool.false_eq_true, ↓reduceIte,
              Int.natCast_nonneg, Int.toNat_natCast, hltp, hlt, and_self, ↓reduceDIte, bind, Except.bind, pure, Except.pure,
              c1, c2, bne_self_eq_false, Command_Covers_eq, c3'', Bool.not_false, chainErr, throw, throwThe, MonadExceptOf.throw]
        · have c2' : ¬ ((toDlg undef pol ds[k]).aud = iss) := c2
          have c2'' : (ds[k].audience != iss) = true := by simpa using c2
          rw [if_neg c1', if_pos c2']
          simp only [len, idx, h1, decide_true, Bool.not_true, Bool.false_eq_true, ↓reduceIte,
            Int.natCast_nonneg, Int.toNat_natCast, hltp, hlt, and_self, ↓reduceDIte, bind, Except.bind, pure, Except.pure,
            c1, c2'', bne_self_eq_false, chainErr, throw, throwThe, MonadExceptOf.throw]
      · have c1' : (toDlg undef pol ds[k]).sub ≠ some sub := by rw [hsub]; exact c1
        have c1'' : (ds[k].subject != sub) = true := by simpa using c1
        rw [if_pos c1']
        simp only [len, idx, h1, decide_true, Bool.not_true, Bool.false_eq_true, ↓reduceIte,
          Int.natCast_nonneg, Int.toNat_natCast, hltp, hlt, and_self, ↓reduceDIte, bind, Except.bind, pure, Except.pure,
          c1'', chainErr, throw, throwThe, MonadExceptOf.throw]
    · have : k = ds.length := by omega
      subst this
      have h1 : ¬ (((ds.length : Nat) : Int) < (g.proof.length : Int)) := by omega
      simp [len, h1, Chain.proofLoop, bind, Except.bind, pure, Except.pure]

/-- `verifyProofs`, regenerated, is the model's `verifyProofs` (the function `verifyProofs_ok_iff`, C01, C02 and
C05 are about) whenever one delegation was loaded per proof CID (what `loadProofs` guarantees,
`loadProofs_length`) and the invocation's subject is a defined DID (what `validate()` guarantees). -/
theorem Inv_verifyProofs_eq {X : Type} (x : X) (args : Node) (undef : D) (pol) (g : Gen.InvTok D C A)
    (ds : List (Gen.DlgTok D S)) (hs : g.subject ≠ undef) (hlen : ds.length = g.proof.length) :
    Gen.Inv_verifyProofs g ds =
      (Chain.verifyProofs (toInv x args g) (ds.map (toDlg undef pol))).mapError chainErr := by
  unfold Gen.Inv_verifyProofs Chain.verifyProofs
  by_cases h0 : ds.length < 1
  · have : ((ds.length : Int) < 1) := by omega
    simp [len, this, h0, Except.mapError, chainErr, bind, Except.bind, throw, throwThe, MonadExceptOf.throw]
  · have h0' : ¬ ((ds.length : Int) < 1) := by omega
    have hloop := verifyProofs_loop undef pol g ds g.subject hs hlen (g.proof.length + 1) 0 (by omega) (by omega)
      g.command g.issuer
    simp only [List.drop_zero, Int.natCast_zero] at hloop
    simp only [len, h0', decide_false, Bool.false_eq_true, ↓reduceIte, List.length_map, h0, toInv]
    cases hp : Chain.proofLoop g.subject g.issuer g.command (ds.map (toDlg undef pol)) with
    | error e =>
      rw [hp] at hloop
      simp only [bind, Except.bind, hloop, Except.mapError]
    | ok u =>
      rw [hp] at hloop
      obtain ⟨c, i, hl⟩ := hloop
      have hne : ds ≠ [] := by intro e; simp [e] at h0
      have hall := ((Chain.proofLoop_ok_iff _ _ _ _).mp hp).1
      have hlast : (ds.map (toDlg undef pol)).getLast? = some (toDlg undef pol (ds.getLast hne)) := by
        rw [List.getLast?_map, List.getLast?_eq_some_getLast hne]; rfl
      have hsubj : (toDlg undef pol (ds.getLast hne)).sub = some g.subject :=
        hall _ (List.mem_map.mpr ⟨_, List.getLast_mem hne, rfl⟩)
      have hsubj' : (ds.getLast hne).subject = g.subject := by
        unfold toDlg at hsubj
        by_cases hu : (ds.getLast hne).subject = undef
        · simp [hu] at hsubj
        · simpa [hu] using hsubj
      have hidx : idx ds ((ds.length : Int) - 1) = .ok (ds.getLast hne) := by
        have hpos : 0 < ds.length := by omega
        have e1 : ((ds.length : Int) - 1).toNat = ds.length - 1 := by omega
        simp only [idx, e1]
        rw [dif_pos ⟨by omega, by omega⟩]
        simp [pure, Except.pure, List.getLast_eq_getElem]
      simp only [bind, Except.bind, hl, hidx, hlast, hsubj, pure, Except.pure, Except.mapError]
      by_cases hr : (ds.getLast hne).issuer = (ds.getLast hne).subject
      · have : (toDlg undef pol (ds.getLast hne)).iss = g.subject := by
          show (ds.getLast hne).issuer = g.subject
          rw [hr, hsubj']
        simp [hr, this]
      · have : ¬ ((toDlg undef pol (ds.getLast hne)).iss = g.subject) := by
          show ¬ ((ds.getLast hne).issuer = g.subject)
          rw [← hsubj']; exact hr
        simp [hr, this, chainErr, throw, throwThe, MonadExceptOf.throw]

end Ucan.Tie
