import Ucan.Props.Tie.Decode
import Ucan.Model.Token
/-!
THE BRIDGE between the regenerated decoders (`Tie/Decode.lean`) and the hand model of "payload map → token"
(`Model/Token.lean`: `dlgFromPayload`, the function the C06 / C07 / C10 theorems are about).

`dlgFromPayload` reads the payload MAP; the Go code gets there in two steps: bindnode turns the map into the typed
`tokenPayloadModel` (a dependency: its part is written down here as `unwrapDlg` — which key is a string, which may be absent or
null, which is bytes — and stays tied differentially by the token stream), then `tokenFromModel` + `validate()` (regenerated).
`Dlg_decode_is_model` / `Inv_decode_is_model`: the hand model accepts a payload and returns `d` EXACTLY when the typed view exists and the regenerated
decoder returns `d` — with the model's DID parser and policy reader as the parameters `did.Parse`, `parse.OptionalDID`,
`policy.FromIPLD`, `Option.isSome` as `DID.Defined`, and the empty list as the fresh `Meta`. So every theorem about
`dlgFromPayload` is, through this equivalence, a theorem about the code that was translated; and a change to `tokenFromModel` or
`validate()` that changes which payloads are accepted, or which token comes out, breaks this obligation.
-/
set_option linter.unusedSimpArgs false
set_option linter.unusedSectionVars false
namespace Ucan.Tie
open Ucan Ucan.GoM Ucan.Token Ucan.Envelope

variable {K : Type}

def optStr (k : String) (kvs : List (Bytes × Node)) : Option (Option Bytes) :=
  match Node.lookup (key k) kvs with
  | none => some none
  | some (.str s) => some (some s)
  | some _ => none

def optInt (k : String) (kvs : List (Bytes × Node)) : Option (Option Int) :=
  match Node.lookup (key k) kvs with
  | none | some .null => some none
  | some (.int i) => some (some i)
  | some _ => none

def metaOf (kvs : List (Bytes × Node)) : Option (List (Bytes × Node)) :=
  match Node.lookup (key "meta") kvs with
  | some (.map m) => some m
  | _ => none

/-- what the hand model accepts, written out as one conjunction -/
def DlgAccept (env : TEnv K) (kvs : List (Bytes × Node)) (d : Dlg) : Prop :=
  ∃ issS audS cmdS polN nonce,
    getStr "iss" kvs = some issS ∧ getStr "aud" kvs = some audS ∧ getStr "cmd" kvs = some cmdS ∧
    Node.lookup (key "pol") kvs = some polN ∧ Node.lookup (key "nonce") kvs = some (.bytes nonce) ∧
    parseDid env issS = .ok d.iss ∧ parseDid env audS = .ok d.aud ∧ optDid env "sub" kvs = .ok d.sub ∧
    Command.parse env.lower cmdS = .ok d.cmd ∧ Policy.fromIPLD env.isLetter polN = .ok d.pol ∧
    optTimestamp "nbf" kvs = .ok d.nbf ∧ optTimestamp "exp" kvs = .ok d.exp ∧
    Facts.dlgNonceMin ≤ nonce.length ∧ nonce ≠ [] ∧ d.nonce = nonce ∧ d.metadata = optMeta kvs

theorem parseCmd_ok_iff (env : TEnv K) (kvs : List (Bytes × Node)) (c : Bytes) :
    parseCmd env kvs = .ok c ↔ ∃ cmdS, getStr "cmd" kvs = some cmdS ∧ Command.parse env.lower cmdS = .ok c := by
  unfold parseCmd
  cases h : getStr "cmd" kvs with
  | none => simp
  | some s =>
    cases h2 : Command.parse env.lower s with
    | ok c' => simp [h2]
    | error e => simp [h2]

theorem dlgFromPayload_ok_imp (env : TEnv K) (kvs : List (Bytes × Node)) (d : Dlg)
    (h : dlgFromPayload env kvs = .ok d) : DlgAccept env kvs d := by
  unfold dlgFromPayload at h
  split at h
  · rename_i issS audS h1 h2
    split at h
    · rename_i iss aud sub cmd h3 h4 h5 h6
      split at h
      · cases h
      · rename_i polN h7
        split at h
        · cases h
        · rename_i pol h8
          split at h
          · rename_i nonce h9
            split at h
            · cases h
            · rename_i hne
              split at h
              · rename_i nbf exp h10 h11
                split at h
                · cases h
                · rename_i hmin
                  cases h
                  obtain ⟨cmdS, hc1, hc2⟩ := (parseCmd_ok_iff env kvs cmd).1 h6
                  refine ⟨issS, audS, cmdS, polN, nonce, h1, h2, hc1, h7, h9, h3, h4, h5, hc2, h8, h10, h11, by omega, ?_, rfl, rfl⟩
                  intro hn; apply hne; simp [hn]
              · cases h
          · cases h
    · cases h
  · cases h

theorem dlgFromPayload_ok_of (env : TEnv K) (kvs : List (Bytes × Node)) (d : Dlg)
    (h : DlgAccept env kvs d) : dlgFromPayload env kvs = .ok d := by
  obtain ⟨issS, audS, cmdS, polN, nonce, h1, h2, hc1, h7, h9, h3, h4, h5, hc2, h8, h10, h11, hmin, hne, hn, hm⟩ := h
  have hc : parseCmd env kvs = .ok d.cmd := (parseCmd_ok_iff env kvs d.cmd).2 ⟨cmdS, hc1, hc2⟩
  have hl : ¬ nonce.length = 0 := fun h0 => hne (List.eq_nil_of_length_eq_zero h0)
  have hmin' : ¬ nonce.length < Facts.dlgNonceMin := by omega
  unfold dlgFromPayload
  simp only [h1, h2, h3, h4, h5, hc, h7, h8, h9, h10, h11, hl, hmin', ↓reduceIte]
  cases d
  simp_all

theorem dlgFromPayload_ok_iff (env : TEnv K) (kvs : List (Bytes × Node)) (d : Dlg) :
    dlgFromPayload env kvs = .ok d ↔ DlgAccept env kvs d :=
  ⟨dlgFromPayload_ok_imp env kvs d, dlgFromPayload_ok_of env kvs d⟩

/-! ### the instances of the decoder's parameters -/

def didP (env : TEnv K) (s : Bytes) : GoM (Option Did.DID) :=
  match parseDid env s with
  | .ok d => .ok (some d)
  | .error _ => .error (.err "did")

def optP (env : TEnv K) : Option Bytes → GoM (Option Did.DID)
  | none => .ok none
  | some s => didP env s

def polP (env : TEnv K) (n : Node) : GoM (List (Option Policy.PStmt)) :=
  match Policy.fromIPLD env.isLetter n with
  | .ok p => .ok (p.map some)
  | .error _ => .error (.err "policy")

/-- bindnode's part for a delegation payload: the typed fields (a field of another kind is a refusal) -/
def unwrapDlg (kvs : List (Bytes × Node)) : Option (Gen.DlgModel Node (List (Bytes × Node))) :=
  match getStr "iss" kvs, getStr "aud" kvs, getStr "cmd" kvs, Node.lookup (key "pol") kvs, Node.lookup (key "nonce") kvs,
        optStr "sub" kvs, optInt "nbf" kvs, optInt "exp" kvs with
  | some iss, some aud, some cmd, some pol, some (.bytes nonce), some sub, some nbf, some exp =>
    some { Iss := iss, Aud := aud, Sub := sub, Cmd := cmd, Pol := pol, Nonce := nonce, Meta := metaOf kvs, Nbf := nbf, Exp := exp }
  | _, _, _, _, _, _, _, _ => none

/-- the hand model's delegation as the regenerated decoder represents it -/
def dlgDecOf (d : Dlg) : Gen.DlgDec (Option Did.DID) Policy.PStmt (List (Bytes × Node)) :=
  { issuer := some d.iss, audience := some d.aud, subject := d.sub, command := d.cmd, policy := d.pol.map some, nonce := d.nonce,
    meta_ := some d.metadata, notBefore := d.nbf, expiration := d.exp }

theorem didP_ok_iff (env : TEnv K) (s : Bytes) (r : Option Did.DID) :
    didP env s = .ok r ↔ ∃ d, parseDid env s = .ok d ∧ r = some d := by
  unfold didP
  cases h : parseDid env s with
  | ok d => simp [eq_comm]
  | error e => simp

theorem optDid_iff (env : TEnv K) (k : String) (kvs : List (Bytes × Node)) (r : Option Did.DID) :
    optDid env k kvs = .ok r ↔ ∃ o, optStr k kvs = some o ∧ optP env o = .ok r := by
  unfold optDid optStr
  cases h : Node.lookup (key k) kvs with
  | none => simp [optP, eq_comm]
  | some n =>
    cases n <;> simp [optP]
    rename_i s
    unfold didP
    cases h2 : parseDid env s with
    | ok d => simp [Except.map, eq_comm]
    | error e => simp [Except.map]

theorem optTimestamp_iff (k : String) (kvs : List (Bytes × Node)) (r : Option Int) :
    optTimestamp k kvs = .ok r ↔ ∃ o, optInt k kvs = some o ∧ Gen.OptionalTimestamp o = .ok r := by
  unfold optTimestamp optInt
  cases h : Node.lookup (key k) kvs with
  | none => simp [OptionalTimestamp_eq, eq_comm]
  | some n =>
    cases n <;> simp [OptionalTimestamp_eq, eq_comm]
    rename_i i
    by_cases hb : Facts.minInt53 ≤ i ∧ i ≤ Facts.maxInt53
    · simp [hb, eq_comm]
    · simp [hb]

theorem metaOf_getD (kvs : List (Bytes × Node)) : (metaOf kvs).getD [] = optMeta kvs := by
  unfold metaOf optMeta
  cases h : Node.lookup (key "meta") kvs with
  | none => rfl
  | some n => cases n <;> rfl

theorem parse_ok_eq (lower : Bytes → Bytes) (s c : Bytes) (h : Command.parse lower s = .ok c) : c = s := by
  unfold Command.parse at h
  split at h
  · cases h
  · split at h
    · cases h
    · split at h
      · cases h
      · exact (Except.ok.inj h).symm

theorem boundOk_of_ts (o r : Option Int) (h : Gen.OptionalTimestamp o = .ok r) : boundOk r = true := by
  cases r with
  | none => rfl
  | some b =>
    have := OptionalTimestamp_some_bounds o b (some b) h rfl
    simp [boundOk, this]

theorem polP_ok_iff (env : TEnv K) (n : Node) (r : List (Option Policy.PStmt)) :
    polP env n = .ok r ↔ ∃ p, Policy.fromIPLD env.isLetter n = .ok p ∧ r = p.map some := by
  unfold polP
  cases h : Policy.fromIPLD env.isLetter n with
  | ok p => simp [eq_comm]
  | error e => simp

theorem map_some_inj {α : Type} : ∀ (a b : List α), a.map some = b.map some → a = b
  | [], [], _ => rfl
  | [], _ :: _, h => by simp at h
  | _ :: _, [], h => by simp at h
  | x :: xs, y :: ys, h => by
    simp only [List.map_cons, List.cons.injEq, Option.some.injEq] at h
    rw [h.1, map_some_inj xs ys h.2]

/-- THE BRIDGE (delegation): the hand model of "payload map → delegation" that the C06/C07/C10 theorems are about accepts a
payload and returns `d` exactly when bindnode's typed view of the payload exists and the REGENERATED `tokenFromModel` — with the
regenerated `validate()`, `command.Parse` and `OptionalTimestamp`, and the model's DID parser and policy reader for its
parameters — returns `d`. -/
theorem Dlg_decode_is_model (env : TEnv K) (kvs : List (Bytes × Node)) (d : Dlg) :
    dlgFromPayload env kvs = .ok d ↔
      ∃ m, unwrapDlg kvs = some m ∧
        Gen.Dlg_tokenFromModel env.lower (didP env) (optP env) (polP env) ([] : List (Bytes × Node))
          (Gen.Dlg_validate env.lower Option.isSome) m = .ok (dlgDecOf d) := by
  rw [dlgFromPayload_ok_iff]
  have hmin12 : Facts.dlgNonceMin = 12 := rfl
  constructor
  · rintro ⟨issS, audS, cmdS, polN, nonce, h1, h2, hc1, h7, h9, h3, h4, h5, hc2, h8, h10, h11, hmin, hne, hn, hm⟩
    obtain ⟨osub, hs1, hs2⟩ := (optDid_iff env "sub" kvs d.sub).1 h5
    obtain ⟨onbf, hn1, hn2⟩ := (optTimestamp_iff "nbf" kvs d.nbf).1 h10
    obtain ⟨oexp, he1, he2⟩ := (optTimestamp_iff "exp" kvs d.exp).1 h11
    refine ⟨{ Iss := issS, Aud := audS, Sub := osub, Cmd := cmdS, Pol := polN, Nonce := nonce, Meta := metaOf kvs,
              Nbf := onbf, Exp := oexp }, ?_, ?_⟩
    · simp [unwrapDlg, h1, h2, hc1, h7, h9, hs1, hn1, he1]
    · rw [Dlg_tokenFromModel_ok_iff]
      have hcmd : d.cmd = cmdS := parse_ok_eq env.lower cmdS d.cmd hc2
      refine ⟨some d.iss, some d.aud, d.sub, d.cmd, d.pol.map some, d.nbf, d.exp,
        (didP_ok_iff env issS _).2 ⟨d.iss, h3, rfl⟩, (didP_ok_iff env audS _).2 ⟨d.aud, h4, rfl⟩, hs2,
        (Command_Parse_ok_iff env.lower cmdS d.cmd).2 hc2, (polP_ok_iff env polN _).2 ⟨d.pol, h8, rfl⟩, hne, hn2, he2, ?_, ?_⟩
      · simp only [dlgDecOf, dlgOf, metaOf_getD, hn, hm]
      · rw [Dlg_validate_ok_iff]
        refine ⟨rfl, rfl, ?_, ?_, boundOk_of_ts onbf d.nbf hn2, boundOk_of_ts oexp d.exp he2⟩
        · simp only [dlgDecOf, hn]; omega
        · simp only [dlgDecOf]
          rw [hcmd] at hc2 ⊢
          simp [hc2, Except.isOk, Except.toBool]
  · rintro ⟨m, hu, hg⟩
    unfold unwrapDlg at hu
    split at hu
    · rename_i issS audS cmdS polN nonce osub onbf oexp h1 h2 hc1 h7 h9 hs1 hn1 he1
      cases hu
      obtain ⟨iss, aud, sub, cmd, pol, nbf, exp, e1, e2, e3, e4, e5, hne, e6, e7, heq, hv⟩ :=
        (Dlg_tokenFromModel_ok_iff _ _ _ _ _ _ _ _).1 hg
      simp only [dlgDecOf, dlgOf, Gen.DlgDec.mk.injEq, Option.some.injEq] at heq
      obtain ⟨q1, q2, q3, q4, q5, q6, q7, q8, q9⟩ := heq
      obtain ⟨di, hdi, rfl⟩ := (didP_ok_iff env issS iss).1 e1
      obtain ⟨da, hda, rfl⟩ := (didP_ok_iff env audS aud).1 e2
      obtain ⟨p, hp, rfl⟩ := (polP_ok_iff env polN pol).1 e5
      cases q1; cases q2
      have hpol : d.pol = p := map_some_inj _ _ q5
      subst q3 q4 q8 q9
      obtain ⟨_, _, hlen, _, _, _⟩ := (Dlg_validate_ok_iff env.lower Option.isSome _).1 hv
      refine ⟨issS, audS, cmdS, polN, nonce, h1, h2, hc1, h7, h9, hdi, hda, (optDid_iff env "sub" kvs _).2 ⟨osub, hs1, e3⟩,
        (Command_Parse_ok_iff env.lower cmdS _).1 e4, by rw [hpol]; exact hp, (optTimestamp_iff "nbf" kvs _).2 ⟨onbf, hn1, e6⟩,
        (optTimestamp_iff "exp" kvs _).2 ⟨oexp, he1, e7⟩, ?_, hne, q6, ?_⟩
      · simp only [dlgDecOf] at hlen
        rw [q6] at hlen; omega
      · rw [← metaOf_getD]; exact q7
    · cases hu

/-! ### invocation -/

def causeOf (kvs : List (Bytes × Node)) : Option Bytes :=
  match Node.lookup (key "cause") kvs with
  | some (.link c) => some c
  | _ => none

/-- what the hand model of the invocation decoder accepts, as one conjunction -/
def InvAccept (env : TEnv K) (kvs : List (Bytes × Node)) (d : Inv) : Prop :=
  ∃ issS subS cmdS prfN,
    getStr "iss" kvs = some issS ∧ getStr "sub" kvs = some subS ∧ getStr "cmd" kvs = some cmdS ∧
    Node.lookup (key "nonce") kvs = some (.bytes d.nonce) ∧ Node.lookup (key "args") kvs = some (.map d.args) ∧
    Node.lookup (key "prf") kvs = some (.list prfN) ∧ prfN.mapM linkBytes = some d.prf ∧
    parseDid env issS = .ok d.iss ∧ parseDid env subS = .ok d.sub ∧ optDid env "aud" kvs = .ok d.aud ∧
    Command.parse env.lower cmdS = .ok d.cmd ∧ (d.args.all (fun kv => Policy.intsInBounds kv.2)) = true ∧
    optTimestamp "exp" kvs = .ok d.exp ∧ optTimestamp "iat" kvs = .ok d.iat ∧
    Facts.invNonceMin ≤ d.nonce.length ∧ d.nonce ≠ [] ∧ d.metadata = optMeta kvs ∧ d.cause = causeOf kvs

theorem invFromPayload_ok_imp (env : TEnv K) (kvs : List (Bytes × Node)) (d : Inv)
    (h : invFromPayload env kvs = .ok d) : InvAccept env kvs d := by
  unfold invFromPayload at h
  split at h
  · rename_i issS subS h1 h2
    split at h
    · rename_i iss sub aud cmd h3 h4 h5 h6
      split at h
      · rename_i nonce h9
        split at h
        · cases h
        · rename_i hne
          split at h
          · rename_i args prfN h7 h8
            split at h
            · cases h
            · rename_i hb
              split at h
              · rename_i prf exp iat hp h10 h11
                obtain ⟨cmdS, hc1, hc2⟩ := (parseCmd_ok_iff env kvs cmd).1 h6
                have hne' : nonce ≠ [] := by intro hn; apply hne; simp [hn]
                have hb' : (args.all (fun kv => Policy.intsInBounds kv.2)) = true := by simpa using hb
                split at h
                · rename_i c hcause
                  split at h
                  · cases h
                  · rename_i hmin
                    cases h
                    exact ⟨issS, subS, cmdS, prfN, h1, h2, hc1, h9, h7, h8, hp, h3, h4, h5, hc2, hb', h10, h11, (by show Facts.invNonceMin ≤ nonce.length; omega), hne', rfl,
                      by simp [causeOf, hcause]⟩
                · rename_i hcause
                  split at h
                  · cases h
                  · rename_i hmin
                    cases h
                    refine ⟨issS, subS, cmdS, prfN, h1, h2, hc1, h9, h7, h8, hp, h3, h4, h5, hc2, hb', h10, h11, (by show Facts.invNonceMin ≤ nonce.length; omega), hne', rfl, ?_⟩
                    unfold causeOf
                    split
                    · rename_i c hc; exact absurd hc (hcause c)
                    · rfl
              · cases h
          · cases h
      · cases h
    · cases h
  · cases h
theorem invFromPayload_ok_of (env : TEnv K) (kvs : List (Bytes × Node)) (d : Inv)
    (h : InvAccept env kvs d) : invFromPayload env kvs = .ok d := by
  obtain ⟨issS, subS, cmdS, prfN, h1, h2, hc1, h9, h7, h8, hp, h3, h4, h5, hc2, hb, h10, h11, hmin, hne, hm, hca⟩ := h
  have hc : parseCmd env kvs = .ok d.cmd := (parseCmd_ok_iff env kvs d.cmd).2 ⟨cmdS, hc1, hc2⟩
  have hl : ¬ d.nonce.length = 0 := fun h0 => hne (List.eq_nil_of_length_eq_zero h0)
  have hmin' : ¬ d.nonce.length < Facts.invNonceMin := by omega
  unfold invFromPayload
  simp only [h1, h2, h3, h4, h5, hc, h7, h8, h9, h10, h11, hl, hmin', hp, hb, Bool.not_true, Bool.false_eq_true, ↓reduceIte]
  unfold causeOf at hca
  cases d
  simp_all
  cases hlk : Node.lookup (key "cause") kvs with
  | none => rfl
  | some n => cases n <;> rfl

theorem invFromPayload_ok_iff (env : TEnv K) (kvs : List (Bytes × Node)) (d : Inv) :
    invFromPayload env kvs = .ok d ↔ InvAccept env kvs d :=
  ⟨invFromPayload_ok_imp env kvs d, invFromPayload_ok_of env kvs d⟩

/-- `Args.Validate` as the model has it: every integer of every argument within ±(2^53−1) -/
def argsP (a : List (Bytes × Node)) : GoM Unit :=
  if a.all (fun kv => Policy.intsInBounds kv.2) then .ok () else .error (.err "arguments")

/-- bindnode's part for an invocation payload -/
def unwrapInv (kvs : List (Bytes × Node)) : Option (Gen.InvModel Bytes (List (Bytes × Node)) (List (Bytes × Node))) :=
  match getStr "iss" kvs, getStr "sub" kvs, getStr "cmd" kvs, Node.lookup (key "nonce") kvs, Node.lookup (key "args") kvs,
        Node.lookup (key "prf") kvs, optStr "aud" kvs, optInt "exp" kvs, optInt "iat" kvs with
  | some iss, some sub, some cmd, some (.bytes nonce), some (.map args), some (.list prfN), some aud, some exp, some iat =>
    match prfN.mapM linkBytes with
    | some prf =>
      some { Iss := iss, Sub := sub, Aud := aud, Cmd := cmd, Args := args, Prf := prf, Meta := metaOf kvs, Nonce := nonce,
             Exp := exp, Iat := iat, Cause := causeOf kvs }
    | none => none
  | _, _, _, _, _, _, _, _, _ => none

def invDecOf (d : Inv) : Gen.InvDec (Option Did.DID) Bytes (List (Bytes × Node)) (List (Bytes × Node)) :=
  { issuer := some d.iss, subject := some d.sub, audience := d.aud, command := d.cmd, arguments := d.args, proof := d.prf,
    meta_ := some d.metadata, nonce := d.nonce, expiration := d.exp, invokedAt := d.iat, cause := d.cause }

/-- THE BRIDGE (invocation) -/
theorem Inv_decode_is_model (env : TEnv K) (kvs : List (Bytes × Node)) (d : Inv) :
    invFromPayload env kvs = .ok d ↔
      ∃ m, unwrapInv kvs = some m ∧
        Gen.Inv_tokenFromModel env.lower (didP env) (optP env) ([] : List (Bytes × Node))
          (Gen.Inv_validate env.lower Option.isSome) argsP m = .ok (invDecOf d) := by
  rw [invFromPayload_ok_iff]
  have hmin12 : Facts.invNonceMin = 12 := rfl
  constructor
  · rintro ⟨issS, subS, cmdS, prfN, h1, h2, hc1, h9, h7, h8, hp, h3, h4, h5, hc2, hb, h10, h11, hmin, hne, hm, hca⟩
    obtain ⟨oaud, hs1, hs2⟩ := (optDid_iff env "aud" kvs d.aud).1 h5
    obtain ⟨oexp, he1, he2⟩ := (optTimestamp_iff "exp" kvs d.exp).1 h10
    obtain ⟨oiat, hi1, hi2⟩ := (optTimestamp_iff "iat" kvs d.iat).1 h11
    refine ⟨{ Iss := issS, Sub := subS, Aud := oaud, Cmd := cmdS, Args := d.args, Prf := d.prf, Meta := metaOf kvs,
              Nonce := d.nonce, Exp := oexp, Iat := oiat, Cause := causeOf kvs }, ?_, ?_⟩
    · simp [unwrapInv, h1, h2, hc1, h7, h8, h9, hs1, he1, hi1, hp]
    · rw [Inv_tokenFromModel_ok_iff]
      have hcmd : d.cmd = cmdS := parse_ok_eq env.lower cmdS d.cmd hc2
      refine ⟨some d.iss, some d.sub, d.aud, d.cmd, d.exp, d.iat,
        (didP_ok_iff env issS _).2 ⟨d.iss, h3, rfl⟩, (didP_ok_iff env subS _).2 ⟨d.sub, h4, rfl⟩, hs2,
        (Command_Parse_ok_iff env.lower cmdS d.cmd).2 hc2, hne, by simp [argsP, hb], he2, hi2, ?_, ?_⟩
      · simp only [invDecOf, invOf, metaOf_getD, hm, hca]
      · rw [Inv_validate_ok_iff]
        refine ⟨rfl, rfl, ?_, ?_, boundOk_of_ts oexp d.exp he2, boundOk_of_ts oiat d.iat hi2⟩
        · simp only [invDecOf]; omega
        · simp only [invDecOf]
          rw [hcmd] at hc2 ⊢
          simp [hc2, Except.isOk, Except.toBool]
  · rintro ⟨m, hu, hg⟩
    unfold unwrapInv at hu
    split at hu
    · rename_i issS subS cmdS nonce args prfN oaud oexp oiat h1 h2 hc1 h9 h7 h8 hs1 he1 hi1
      split at hu
      · rename_i prf hp
        cases hu
        obtain ⟨iss, sub, aud, cmd, exp, iat, e1, e2, e3, e4, hne, e5, e6, e7, heq, hv⟩ :=
          (Inv_tokenFromModel_ok_iff _ _ _ _ _ _ _ _).1 hg
        simp only [invDecOf, invOf, Gen.InvDec.mk.injEq, Option.some.injEq] at heq
        obtain ⟨q1, q2, q3, q4, q5, q6, q7, q8, q9, q10, q11⟩ := heq
        obtain ⟨di, hdi, rfl⟩ := (didP_ok_iff env issS iss).1 e1
        obtain ⟨ds, hds, rfl⟩ := (didP_ok_iff env subS sub).1 e2
        cases q1; cases q2
        subst q3 q4 q9 q10
        obtain ⟨_, _, hlen, _, _, _⟩ := (Inv_validate_ok_iff env.lower Option.isSome _).1 hv
        have hb : (d.args.all (fun kv => Policy.intsInBounds kv.2)) = true := by
          rw [q5]
          simp only [argsP] at e5
          split at e5
          · assumption
          · cases e5
        refine ⟨issS, subS, cmdS, prfN, h1, h2, hc1, by rw [q8]; exact h9, by rw [q5]; exact h7, h8, by rw [q6]; exact hp, hdi, hds,
          (optDid_iff env "aud" kvs _).2 ⟨oaud, hs1, e3⟩, (Command_Parse_ok_iff env.lower cmdS _).1 e4, hb,
          (optTimestamp_iff "exp" kvs _).2 ⟨oexp, he1, e6⟩, (optTimestamp_iff "iat" kvs _).2 ⟨oiat, hi1, e7⟩, ?_, by rw [q8]; exact hne,
          ?_, q11⟩
        · simp only [invDecOf] at hlen
          omega
        · rw [← metaOf_getD]; exact q7
      · cases hu
    · cases hu

end Ucan.Tie
