import Ucan.Gen.Envelope
import Ucan.Model.Envelope
/-!
Regenerated-code tie for `envelope.Inspect` (token/internal/envelope/ipld.go; C06, C10): the function every decoder runs first on
an untyped node — it decides that the envelope is exactly `[signature bytes, {h: header bytes, ucan/…: payload}]` and hands out
the parts. The node interface of go-ipld-prime is the model's (`Model/NodeApi.lean`), the map iterator a loop over the entries
(`go2lean/iterators.go`), the result struct one local per field (`structlocal.go`, zero-valued up front: three fields are first
assigned inside the loop).

`Inspect_ok_iff`: the regenerated function accepts exactly the nodes the hand model `Envelope.inspect` accepts — the model the
C06 / C10 theorems are about — and returns the same signature, header, tag, payload and signed map. In particular it refuses a
signed map with a third entry wherever that entry stands, an envelope with a third element, a header that is not bytes, and two
headers or two payloads. Which error a refused node gets is not compared.
-/
set_option linter.unusedSimpArgs false
set_option linter.unusedSectionVars false
set_option maxRecDepth 4000
namespace Ucan.Tie
open Ucan Ucan.GoM Ucan.Envelope

/-- the hand model's `Info` as the regenerated code represents it -/
def envInfoOf (i : Envelope.Info) : Gen.EnvInfo :=
  { Tag := i.tag, Signature := i.sig, VarsigHeader := i.header, sigPayloadNode := i.sigPayload, tokenPayloadNode := i.payload }

theorem idx_entries0 (k : Bytes) (v : Node) (r : List (Node × Node)) : idx ((Node.str k, v) :: r) (0 : Int) = .ok (Node.str k, v) := by
  simp [idx, pure, Except.pure]

theorem idx_entries1 (e : Node × Node) (k : Bytes) (v : Node) (r : List (Node × Node)) :
    idx (e :: (Node.str k, v) :: r) (1 : Int) = .ok (Node.str k, v) := by
  simp [idx, pure, Except.pure]

theorem idx_entries2 (e1 e2 e3 : Node × Node) (r : List (Node × Node)) : idx (e1 :: e2 :: e3 :: r) (2 : Int) = .ok e3 := by
  simp [idx, pure, Except.pure]

/-- the loop of `Inspect` counts: when it ends normally it has counted every entry, and it never counts beyond two -/
theorem inspect_loop_next (node : Node) (sig : Bytes) (spn sn : Node) :
    ∀ (fuel k1 : Nat) (ft fh : Bool) (i : Int) (t h : Bytes) (p : Node) (out : Int × Bool × Bool × Int × Bytes × Bytes × Node),
      k1 ≤ (mapEntries spn).length →
      Gen.Inspect.loop1 fuel node sig spn sn (k1 : Int) ft fh i t h p = .ok (.next out) →
        out.2.2.2.1 - i = ((mapEntries spn).length : Int) - k1 ∧ (i ≤ 2 → out.2.2.2.1 ≤ 2) := by
  intro fuel
  induction fuel with
  | zero => intro k1 ft fh i t h p out _ hh; simp [Gen.Inspect.loop1, throw, throwThe, MonadExceptOf.throw] at hh
  | succ fuel ih =>
    intro k1 ft fh i t h p out hk hh
    unfold Gen.Inspect.loop1 at hh
    by_cases hlt : k1 < (mapEntries spn).length
    · have h1 : ((k1 : Int) < len (mapEntries spn)) := by simp only [len]; omega
      have hidx : idx (mapEntries spn) (k1 : Int) = .ok ((mapEntries spn)[k1]'hlt) := by
        simp [idx, hlt, pure, Except.pure]
      have hk1 : ((k1 : Int) + 1) = ((k1 + 1 : Nat) : Int) := by omega
      simp only [h1, decide_true, Bool.not_true, Bool.false_eq_true, ↓reduceIte, hidx, bind, Except.bind, pure, Except.pure, hk1] at hh
      by_cases hi : i ≥ 2
      · simp [hi, throw, throwThe, MonadExceptOf.throw] at hh
      · simp only [hi, decide_false, Bool.false_eq_true, ↓reduceIte] at hh
        repeat' (split at hh)
        all_goals (first | (cases hh; done) | skip)
        all_goals
          have := ih (k1 + 1) _ _ _ _ _ _ out (by omega) (by assumption)
          constructor
          · omega
          · intro _; have := this.2 (by omega); omega
    · have h1 : ¬ ((k1 : Int) < len (mapEntries spn)) := by simp only [len]; omega
      simp only [h1, decide_false, Bool.not_false, ↓reduceIte, pure, Except.pure, Except.ok.injEq, LoopOut.next.injEq] at hh
      subst hh
      simp only
      constructor
      · omega
      · intro h2; exact h2

/-- the loop has no `return`: it ends normally or with an error -/
theorem inspect_loop_no_ret (node : Node) (sig : Bytes) (spn sn : Node) :
    ∀ (fuel : Nat) (k1 : Int) (ft fh : Bool) (i : Int) (t h : Bytes) (p : Node) (r : Gen.EnvInfo),
      Gen.Inspect.loop1 fuel node sig spn sn k1 ft fh i t h p ≠ .ok (.ret r) := by
  intro fuel
  induction fuel with
  | zero => intro k1 ft fh i t h p r hh; simp [Gen.Inspect.loop1, throw, throwThe, MonadExceptOf.throw] at hh
  | succ fuel ih =>
    intro k1 ft fh i t h p r hh
    unfold Gen.Inspect.loop1 at hh
    simp only [bind, Except.bind, pure, Except.pure] at hh
    repeat' (split at hh)
    all_goals (first | (cases hh; done) | skip)
    all_goals exact ih _ _ _ _ _ _ _ _ (by assumption)

/-- an accepted envelope's signed map has exactly two entries -/
theorem Inspect_ok_two_entries (sig : Bytes) (kvs : List (Bytes × Node)) (g : Gen.EnvInfo)
    (h : Gen.Inspect (.list [.bytes sig, .map kvs]) = .ok g) : kvs.length = 2 := by
  unfold Gen.Inspect at h
  simp only [Node.kind, nodeLength, lookupByIndex, asBytes, bind, Except.bind, pure, Except.pure, List.length_cons, List.length_nil,
    bne_self_eq_false, Bool.false_eq_true, Bool.or_self, ↓reduceIte, Int.reduceNeg] at h
  simp (config := { decide := true }) only [↓reduceDIte, ↓reduceIte, List.getElem_cons_zero, List.getElem_cons_succ, Int.toNat_zero, Int.toNat_one,
    Nat.reduceLT, Int.reduceLE, and_self] at h
  cases hl : Gen.Inspect.loop1 ((mapEntries (Node.map kvs)).length + 1) (Node.list [Node.bytes sig, Node.map kvs]) sig
      (Node.map kvs) (Node.bytes sig) 0 false false 0 [] [] Node.null with
  | error e => simp [hl] at h
  | ok v =>
    cases v with
    | ret r => exact absurd hl (inspect_loop_no_ret _ _ _ _ _ _ _ _ _ _ _ _ _)
    | next out =>
      obtain ⟨k1', ft, fh, i', t, hh, p⟩ := out
      have hcount := inspect_loop_next _ _ _ _ _ 0 false false 0 [] [] Node.null _ (Nat.zero_le _) (by simpa using hl)
      simp only [hl] at h
      by_cases hi : i' = 2
      · have := hcount.1
        simp only [mapEntries, List.length_map] at this
        subst hi
        omega
      · have hne : (i' != 2) = true := by simp [hi]
        simp [hne, throw, throwThe, MonadExceptOf.throw] at h

/-! one iteration of the loop is the model's `classifyEntry` -/

theorem idx_of_getElem? {α} (xs : List α) (k : Nat) (x : α) (h : xs[k]? = some x) : idx xs (k : Int) = .ok x := by
  have hk : k < xs.length := by
    rcases Nat.lt_or_ge k xs.length with h' | h'
    · exact h'
    · simp [List.getElem?_eq_none h'] at h
  have hx : xs[k] = x := by
    rw [List.getElem?_eq_getElem hk] at h; exact Option.some.inj h
  simp [idx, hk, hx, pure, Except.pure]

theorem lt_len_of_getElem? {α} (xs : List α) (k : Nat) (x : α) (h : xs[k]? = some x) : ((k : Int) < len xs) := by
  have hk : k < xs.length := by
    rcases Nat.lt_or_ge k xs.length with h' | h'
    · exact h'
    · simp [List.getElem?_eq_none h'] at h
  simp only [len]; omega

/-- one iteration, unfolded: the counter test, then the three kinds of key -/
theorem inspect_loop_unfold (node : Node) (sig : Bytes) (spn sn : Node) (fuel k : Nat) (ft fh : Bool) (i : Int) (t h : Bytes) (p : Node)
    (key : Bytes) (v : Node) (hk : (mapEntries spn)[k]? = some (Node.str key, v)) :
    Gen.Inspect.loop1 (fuel + 1) node sig spn sn (k : Int) ft fh i t h p =
      if i ≥ 2 then .error (.err "expected two and only two fields in SigPayload")
      else if key = ([104] : Bytes) then
        (match asBytes v with
         | .ok hd => Gen.Inspect.loop1 fuel node sig spn sn ((k + 1 : Nat) : Int) ft true (i + 1) t hd p
         | .error e => .error e)
      else if List.isPrefixOf ([117, 99, 97, 110, 47] : Bytes) key = true then
        Gen.Inspect.loop1 fuel node sig spn sn ((k + 1 : Nat) : Int) true fh (i + 1) key h v
      else .error (.err "unexpected key type %q") := by
  have hk1 : ((k : Int) + 1) = ((k + 1 : Nat) : Int) := by omega
  rw [Gen.Inspect.loop1]
  simp only [lt_len_of_getElem? _ _ _ hk, idx_of_getElem? _ _ _ hk, decide_true, Bool.not_true, Bool.false_eq_true, ↓reduceIte, bind,
    Except.bind, pure, Except.pure, asString, throw, throwThe, MonadExceptOf.throw, hk1, beq_iff_eq]
  by_cases hi : i ≥ 2
  · simp only [hi, decide_true, ↓reduceIte]
  · simp only [hi, decide_false, Bool.false_eq_true, ↓reduceIte]
    by_cases hkey : key = ([104] : Bytes)
    · simp only [hkey, ↓reduceIte]
      cases asBytes v <;> rfl
    · simp only [hkey, ↓reduceIte]

theorem inspect_step_header (node : Node) (sig : Bytes) (spn sn : Node) (fuel k : Nat) (ft fh : Bool) (i : Int) (t h : Bytes) (p : Node)
    (key hd : Bytes) (v : Node) (hk : (mapEntries spn)[k]? = some (Node.str key, v)) (hi : ¬ i ≥ 2)
    (hc : classifyEntry key v = .ok (.inl hd)) :
    Gen.Inspect.loop1 (fuel + 1) node sig spn sn (k : Int) ft fh i t h p =
      Gen.Inspect.loop1 fuel node sig spn sn ((k + 1 : Nat) : Int) ft true (i + 1) t hd p := by
  rw [inspect_loop_unfold _ _ _ _ _ _ _ _ _ _ _ _ key v hk]
  unfold classifyEntry at hc
  by_cases hkey : key = headerKey
  · have hkey' : key = ([104] : Bytes) := hkey
    cases v <;> simp [hkey] at hc
    subst hc
    simp only [hi, ↓reduceIte, hkey', asBytes, pure, Except.pure]
  · simp only [hkey, ↓reduceIte] at hc
    split at hc <;> cases hc

theorem inspect_step_payload (node : Node) (sig : Bytes) (spn sn : Node) (fuel k : Nat) (ft fh : Bool) (i : Int) (t h : Bytes) (p : Node)
    (key tg : Bytes) (v pl : Node) (hk : (mapEntries spn)[k]? = some (Node.str key, v)) (hi : ¬ i ≥ 2)
    (hc : classifyEntry key v = .ok (.inr (tg, pl))) :
    Gen.Inspect.loop1 (fuel + 1) node sig spn sn (k : Int) ft fh i t h p =
      Gen.Inspect.loop1 fuel node sig spn sn ((k + 1 : Nat) : Int) true fh (i + 1) tg h pl := by
  rw [inspect_loop_unfold _ _ _ _ _ _ _ _ _ _ _ _ key v hk]
  unfold classifyEntry at hc
  by_cases hkey : key = headerKey
  · cases v <;> simp [hkey] at hc
  · have hkey' : ¬ key = ([104] : Bytes) := hkey
    simp only [hkey, ↓reduceIte] at hc
    split at hc
    · rename_i hp
      have hp' : List.isPrefixOf ([117, 99, 97, 110, 47] : Bytes) key = true := hp
      simp only [Except.ok.injEq, Sum.inr.injEq, Prod.mk.injEq] at hc
      obtain ⟨rfl, rfl⟩ := hc
      simp only [hi, ↓reduceIte, hkey', hp']
    · cases hc

theorem inspect_step_error (node : Node) (sig : Bytes) (spn sn : Node) (fuel k : Nat) (ft fh : Bool) (i : Int) (t h : Bytes) (p : Node)
    (key : Bytes) (v : Node) (e : Err) (hk : (mapEntries spn)[k]? = some (Node.str key, v))
    (hc : classifyEntry key v = .error e) :
    ∀ out, Gen.Inspect.loop1 (fuel + 1) node sig spn sn (k : Int) ft fh i t h p ≠ .ok out := by
  intro out hh
  rw [inspect_loop_unfold _ _ _ _ _ _ _ _ _ _ _ _ key v hk] at hh
  unfold classifyEntry at hc
  by_cases hi : i ≥ 2
  · simp only [hi, ↓reduceIte] at hh; cases hh
  · simp only [hi, ↓reduceIte] at hh
    by_cases hkey : key = headerKey
    · have hkey' : key = ([104] : Bytes) := hkey
      simp only [hkey', ↓reduceIte] at hh
      cases v <;> simp [hkey, asBytes, pure, Except.pure, throw, throwThe, MonadExceptOf.throw] at hc hh
    · have hkey' : ¬ key = ([104] : Bytes) := hkey
      simp only [hkey, hkey', ↓reduceIte] at hc hh
      split at hc
      · cases hc
      · rename_i hp
        have hp' : ¬ List.isPrefixOf ([117, 99, 97, 110, 47] : Bytes) key = true := hp
        simp only [hp', ↓reduceIte] at hh
        cases hh

theorem inspect_loop_end (node : Node) (sig : Bytes) (spn sn : Node) (fuel k : Nat) (ft fh : Bool) (i : Int) (t h : Bytes) (p : Node)
    (hk : k = (mapEntries spn).length) :
    Gen.Inspect.loop1 (fuel + 1) node sig spn sn (k : Int) ft fh i t h p = .ok (.next ((k : Int), ft, fh, i, t, h, p)) := by
  rw [Gen.Inspect.loop1]
  have : ¬ ((k : Int) < len (mapEntries spn)) := by simp only [len]; omega
  simp [this, pure, Except.pure]

/-- what `Inspect` does with the outcome of its loop -/
def inspectPost (sig : Bytes) (spn : Node) (r : GoM (LoopOut Gen.EnvInfo (Int × Bool × Bool × Int × Bytes × Bytes × Node))) : GoM Gen.EnvInfo :=
  match r with
  | .error e => .error e
  | .ok (.ret x) => .ok x
  | .ok (.next (_, ft, fh, i, t, h, p)) =>
    if i ≠ 2 then .error (.err "expected two and only two fields in SigPayload: %d")
    else if fh = false then .error (.err "failed to find VarsigHeader field")
    else if ft = false then .error (.err "failed to find TokenPayload field")
    else .ok { Tag := t, Signature := sig, VarsigHeader := h, sigPayloadNode := spn, tokenPayloadNode := p }

/-- `Inspect` on `[bytes, map]` is its loop followed by the three closing tests -/
theorem Inspect_eq_loop (sig : Bytes) (kvs : List (Bytes × Node)) :
    Gen.Inspect (.list [.bytes sig, .map kvs]) =
      inspectPost sig (.map kvs)
        (Gen.Inspect.loop1 ((mapEntries (Node.map kvs)).length + 1) (.list [.bytes sig, .map kvs]) sig (.map kvs) (.bytes sig)
          0 false false 0 [] [] Node.null) := by
  unfold Gen.Inspect
  simp only [Node.kind, nodeLength, lookupByIndex, asBytes, bind, Except.bind, pure, Except.pure, List.length_cons, List.length_nil,
    bne_self_eq_false, Bool.false_eq_true, Bool.or_self, ↓reduceIte, Int.reduceNeg]
  simp (config := { decide := true }) only [↓reduceDIte, ↓reduceIte, List.getElem_cons_zero, List.getElem_cons_succ, Int.toNat_zero, Int.toNat_one,
    Nat.reduceLT, Int.reduceLE, and_self]
  generalize Gen.Inspect.loop1 _ _ _ _ _ _ _ _ _ _ _ _ = r
  cases r with
  | error e => rfl
  | ok v =>
    cases v with
    | ret x => rfl
    | next out =>
      obtain ⟨_, ft, fh, i, t, h, p⟩ := out
      by_cases hi : i = 2 <;> cases fh <;> cases ft <;>
        simp [inspectPost, hi, throw, throwThe, MonadExceptOf.throw]

/-- two entries: the regenerated function and the hand model agree -/
theorem Inspect_two (sig k1 k2 : Bytes) (v1 v2 : Node) (g : Gen.EnvInfo) :
    Gen.Inspect (.list [.bytes sig, .map [(k1, v1), (k2, v2)]]) = .ok g ↔
      ∃ i, Envelope.inspect (.list [.bytes sig, .map [(k1, v1), (k2, v2)]]) = .ok i ∧ g = envInfoOf i := by
  rw [Inspect_eq_loop]
  have e0 : (mapEntries (Node.map [(k1, v1), (k2, v2)]))[0]? = some (Node.str k1, v1) := rfl
  have e1 : (mapEntries (Node.map [(k1, v1), (k2, v2)]))[1]? = some (Node.str k2, v2) := rfl
  have hfuel : (mapEntries (Node.map [(k1, v1), (k2, v2)])).length + 1 = 2 + 1 := rfl
  have n0 : ¬ ((0 : Int) ≥ 2) := by omega
  have n1 : ¬ ((0 : Int) + 1 ≥ 2) := by omega
  rw [hfuel]
  show inspectPost sig _ (Gen.Inspect.loop1 (2 + 1) _ sig _ _ ((0 : Nat) : Int) false false 0 [] [] Node.null) = .ok g ↔ _
  unfold Envelope.inspect
  cases c1 : classifyEntry k1 v1 with
  | error e =>
    have := inspect_step_error (.list [.bytes sig, .map [(k1, v1), (k2, v2)]]) sig (.map [(k1, v1), (k2, v2)]) (.bytes sig) 2 0 false false 0 [] []
      Node.null k1 v1 e e0 c1
    cases hl : Gen.Inspect.loop1 (2 + 1) (.list [.bytes sig, .map [(k1, v1), (k2, v2)]]) sig (.map [(k1, v1), (k2, v2)]) (.bytes sig)
        ((0 : Nat) : Int) false false 0 [] [] Node.null with
    | ok out => exact absurd hl (this out)
    | error e' => simp [inspectPost, c1]
  | ok r1 =>
    cases r1 with
    | inl h1 =>
      rw [inspect_step_header _ _ _ _ 2 0 _ _ _ _ _ _ k1 h1 v1 e0 n0 c1]
      cases c2 : classifyEntry k2 v2 with
      | error e =>
        have := inspect_step_error (.list [.bytes sig, .map [(k1, v1), (k2, v2)]]) sig (.map [(k1, v1), (k2, v2)]) (.bytes sig) 1 1 false true (0 + 1) []
          h1 Node.null k2 v2 e e1 c2
        cases hl : Gen.Inspect.loop1 (1 + 1) (.list [.bytes sig, .map [(k1, v1), (k2, v2)]]) sig (.map [(k1, v1), (k2, v2)]) (.bytes sig)
            ((0 + 1 : Nat) : Int) false true (0 + 1) [] h1 Node.null with
        | ok out => exact absurd hl (this out)
        | error e' => simp [inspectPost, c1, c2]
      | ok r2 =>
        cases r2 with
        | inl h2 =>
          rw [inspect_step_header _ _ _ _ 1 1 _ _ _ _ _ _ k2 h2 v2 e1 n1 c2, inspect_loop_end _ _ _ _ 0 2 _ _ _ _ _ _ rfl]
          simp [inspectPost, c1, c2]
        | inr tp =>
          obtain ⟨t2, p2⟩ := tp
          rw [inspect_step_payload _ _ _ _ 1 1 _ _ _ _ _ _ k2 t2 v2 p2 e1 n1 c2, inspect_loop_end _ _ _ _ 0 2 _ _ _ _ _ _ rfl]
          simp [inspectPost, c1, c2, envInfoOf, eq_comm]
    | inr tp =>
      obtain ⟨t1, p1⟩ := tp
      rw [inspect_step_payload _ _ _ _ 2 0 _ _ _ _ _ _ k1 t1 v1 p1 e0 n0 c1]
      cases c2 : classifyEntry k2 v2 with
      | error e =>
        have := inspect_step_error (.list [.bytes sig, .map [(k1, v1), (k2, v2)]]) sig (.map [(k1, v1), (k2, v2)]) (.bytes sig) 1 1 true false (0 + 1) t1
          [] p1 k2 v2 e e1 c2
        cases hl : Gen.Inspect.loop1 (1 + 1) (.list [.bytes sig, .map [(k1, v1), (k2, v2)]]) sig (.map [(k1, v1), (k2, v2)]) (.bytes sig)
            ((0 + 1 : Nat) : Int) true false (0 + 1) t1 [] p1 with
        | ok out => exact absurd hl (this out)
        | error e' => simp [inspectPost, c1, c2]
      | ok r2 =>
        cases r2 with
        | inl h2 =>
          rw [inspect_step_header _ _ _ _ 1 1 _ _ _ _ _ _ k2 h2 v2 e1 n1 c2, inspect_loop_end _ _ _ _ 0 2 _ _ _ _ _ _ rfl]
          simp [inspectPost, c1, c2, envInfoOf, eq_comm]
        | inr tp2 =>
          obtain ⟨t2, p2⟩ := tp2
          rw [inspect_step_payload _ _ _ _ 1 1 _ _ _ _ _ _ k2 t2 v2 p2 e1 n1 c2, inspect_loop_end _ _ _ _ 0 2 _ _ _ _ _ _ rfl]
          simp [inspectPost, c1, c2]

/-- `envelope.Inspect`, regenerated, accepts exactly the nodes the hand model accepts and hands out the same parts -/
theorem Inspect_ok_iff (n : Node) (g : Gen.EnvInfo) :
    Gen.Inspect n = .ok g ↔ ∃ i, Envelope.inspect n = .ok i ∧ g = envInfoOf i := by
  -- everything that is not a two-element list is refused by both
  have notEnv : ∀ m : Node, (Node.kind m != Kind.list || nodeLength m != 2) = true →
      (Gen.Inspect m = .ok g ↔ False) := by
    intro m hm
    unfold Gen.Inspect
    simp [hm, throw, throwThe, MonadExceptOf.throw, bind, Except.bind]
  cases n with
  | list xs =>
    rcases xs with _ | ⟨a, _ | ⟨b, _ | ⟨c, r⟩⟩⟩
    · rw [notEnv _ (by simp [Node.kind, nodeLength])]; simp [Envelope.inspect]
    · rw [notEnv _ (by simp [Node.kind, nodeLength])]; simp [Envelope.inspect]
    · -- [a, b]
      cases a with
      | bytes sig =>
        cases b with
        | map kvs =>
          rcases kvs with _ | ⟨⟨k1, v1⟩, _ | ⟨⟨k2, v2⟩, _ | ⟨e3, r⟩⟩⟩
          · constructor
            · intro h; have := Inspect_ok_two_entries sig [] g h; simp at this
            · rintro ⟨i, hi, _⟩; simp [Envelope.inspect] at hi
          · constructor
            · intro h; have := Inspect_ok_two_entries sig [(k1, v1)] g h; simp at this
            · rintro ⟨i, hi, _⟩; simp [Envelope.inspect] at hi
          · exact Inspect_two sig k1 k2 v1 v2 g
          · constructor
            · intro h; have := Inspect_ok_two_entries sig ((k1, v1) :: (k2, v2) :: e3 :: r) g h; simp at this
            · rintro ⟨i, hi, _⟩; simp [Envelope.inspect] at hi
        | _ =>
          constructor
          · intro h
            unfold Gen.Inspect at h
            simp [Node.kind, nodeLength, lookupByIndex, asBytes, bind, Except.bind, pure, Except.pure, throw, throwThe, MonadExceptOf.throw] at h
          · rintro ⟨i, hi, _⟩; simp [Envelope.inspect] at hi
      | _ =>
        constructor
        · intro h
          unfold Gen.Inspect at h
          simp [Node.kind, nodeLength, lookupByIndex, asBytes, bind, Except.bind, pure, Except.pure, throw, throwThe, MonadExceptOf.throw] at h
        · rintro ⟨i, hi, _⟩; simp [Envelope.inspect] at hi
    · rw [notEnv _ (by simp [Node.kind, nodeLength]; omega)]; simp [Envelope.inspect]
  | _ => rw [notEnv _ (by simp [Node.kind, nodeLength])]; simp [Envelope.inspect]

/-- … in particular: a signed map with more than the header and the tagged payload is refused, wherever the extra entry stands
(the statement C10 makes about "exactly one header plus one payload", on the regenerated code) -/
theorem Inspect_refuses_extra_entries (sig : Bytes) (e1 e2 e3 : Bytes × Node) (r : List (Bytes × Node)) (g : Gen.EnvInfo) :
    Gen.Inspect (.list [.bytes sig, .map (e1 :: e2 :: e3 :: r)]) ≠ .ok g := by
  intro h
  have := Inspect_ok_two_entries sig _ g h
  simp at this

/-- non-vacuity: a well-formed envelope is accepted and its parts come out -/
example : Gen.Inspect (.list [.bytes [1, 2], .map [([104], .bytes [52]), ([117, 99, 97, 110, 47, 100], .map [])]]) =
    .ok { Tag := [117, 99, 97, 110, 47, 100], Signature := [1, 2], VarsigHeader := [52],
          sigPayloadNode := .map [([104], .bytes [52]), ([117, 99, 97, 110, 47, 100], .map [])], tokenPayloadNode := .map [] } := by
  rw [Inspect_ok_iff]
  exact ⟨{ sig := [1, 2], header := [52], tag := [117, 99, 97, 110, 47, 100], payload := .map [],
           sigPayload := .map [([104], .bytes [52]), ([117, 99, 97, 110, 47, 100], .map [])] }, by
    simp [Envelope.inspect, classifyEntry, headerKey, tagPrefix], rfl⟩

end Ucan.Tie
