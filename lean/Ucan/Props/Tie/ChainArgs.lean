import Ucan.Gen.ChainArgs
import Ucan.Props.Tie.ChainDefs
import Ucan.Props.Tie.PolicyMatch
/-! Regenerated-code tie for `verifyArgs` (C03): the two `range` loops over the proof list (the first only counts, for the
capacity of the slice) gather the policy of EVERY loaded delegation, in chain order, into one policy; the arguments are
converted once (`ToIPLD`, a parameter) and `Policy.Match` — itself regenerated and tied in `PolicyMatch` — decides.
`matchStatement` is instantiated with the model's statement evaluator as in `PolicyMatch`. The Go struct's policy field is
related to the model's policy by the hypothesis `hpol` (no nil statement: constructors and decoders produce none). -/
set_option linter.unusedSimpArgs false
set_option linter.unusedSectionVars false
namespace Ucan.Tie
open Ucan Ucan.GoM Ucan.Policy

variable {D C A : Type} [DecidableEq D]

/-- the counting loop only counts: it ends normally at the end of the proof list -/
theorem verifyArgs_loop1 (extIPLD : A → GoM Node) (g : Gen.InvTok D C A) (ds : List (Gen.DlgTok D Stmt)) (a : A)
    (hlen : ds.length = g.proof.length) (fuel k : Nat) (hf : ds.length - k < fuel) (hk : k ≤ ds.length) (count : Int) :
    ∃ c, Gen.Inv_verifyArgs.loop1 extMatch extIPLD fuel g ds a (k : Int) count = .ok (.next ((ds.length : Int), c)) := by
  induction fuel generalizing k count with
  | zero => omega
  | succ fuel ih =>
    unfold Gen.Inv_verifyArgs.loop1
    by_cases hlt : k < ds.length
    · have hltp : k < g.proof.length := by omega
      have h1 : ((k : Int) < (g.proof.length : Int)) := by omega
      have h2 : ((k : Int) + 1) = ((k + 1 : Nat) : Int) := by omega
      simp only [len, idx, h1, decide_true, Bool.not_true, Bool.false_eq_true, ↓reduceIte,
        Int.natCast_nonneg, Int.toNat_natCast, hltp, hlt, and_self, ↓reduceDIte, bind, Except.bind, pure, Except.pure, h2]
      exact ih (k + 1) (by omega) (by omega) _
    · have : k = ds.length := by omega
      subst this
      have h1 : ¬ (((ds.length : Nat) : Int) < (g.proof.length : Int)) := by omega
      exact ⟨count, by simp [len, h1, bind, Except.bind, pure, Except.pure]⟩

/-- the gathering loop appends the policy of every delegation from position `k` on, in order -/
theorem verifyArgs_loop2 (extIPLD : A → GoM Node) (g : Gen.InvTok D C A) (ds : List (Gen.DlgTok D Stmt)) (a : A)
    (hlen : ds.length = g.proof.length) (fuel k : Nat) (hf : ds.length - k < fuel) (hk : k ≤ ds.length) (count : Int)
    (acc : List (Option Stmt)) :
    Gen.Inv_verifyArgs.loop2 extMatch extIPLD fuel g ds a count (k : Int) acc =
      .ok (.next ((ds.length : Int), acc ++ ((ds.drop k).map (·.policy)).flatten)) := by
  induction fuel generalizing k acc with
  | zero => omega
  | succ fuel ih =>
    unfold Gen.Inv_verifyArgs.loop2
    by_cases hlt : k < ds.length
    · have hd : ds.drop k = ds[k] :: ds.drop (k + 1) := List.drop_eq_getElem_cons hlt
      have hltp : k < g.proof.length := by omega
      have h1 : ((k : Int) < (g.proof.length : Int)) := by omega
      have h2 : ((k : Int) + 1) = ((k + 1 : Nat) : Int) := by omega
      simp only [len, idx, h1, decide_true, Bool.not_true, Bool.false_eq_true, ↓reduceIte,
        Int.natCast_nonneg, Int.toNat_natCast, hltp, hlt, and_self, ↓reduceDIte, bind, Except.bind, pure, Except.pure, h2]
      rw [ih (k + 1) (by omega) (by omega), hd]
      simp only [List.map_cons, List.flatten_cons, List.append_assoc]
    · have : k = ds.length := by omega
      subst this
      have h1 : ¬ (((ds.length : Nat) : Int) < (g.proof.length : Int)) := by omega
      simp [len, h1, bind, Except.bind, pure, Except.pure]

/-- `verifyArgs`, regenerated, is the model's `verifyArgs` (the function C03 is about): with the arguments converting to
`args`, it returns nil exactly when the concatenation of the policies of ALL loaded delegations matches `args`. -/
theorem Inv_verifyArgs_eq (undef : D) (pol : Gen.DlgTok D Stmt → List Stmt) (extIPLD : A → GoM Node)
    (g : Gen.InvTok D C A) (ds : List (Gen.DlgTok D Stmt)) (a : A) (args : Node)
    (hlen : ds.length = g.proof.length) (hipld : extIPLD a = .ok args)
    (hpol : ∀ d ∈ ds, d.policy = (pol d).map some) :
    Gen.Inv_verifyArgs extMatch extIPLD g ds a =
      (Chain.verifyArgs (ds.map (toDlg undef pol)) args).mapError chainErr := by
  unfold Gen.Inv_verifyArgs
  obtain ⟨c, hc⟩ := verifyArgs_loop1 extIPLD g ds a hlen (g.proof.length + 1) 0 (by omega) (by omega) 0
  have h2 := verifyArgs_loop2 extIPLD g ds a hlen (g.proof.length + 1) 0 (by omega) (by omega) c []
  simp only [Int.natCast_zero] at hc h2
  have hflat : ((ds.map (·.policy)).flatten) = (((ds.map (toDlg undef pol)).map (·.pol)).flatten).map some := by
    clear hc h2 hlen
    induction ds with
    | nil => rfl
    | cons d ds ih =>
      have hd := hpol d (by simp)
      have := ih (fun d' hd' => hpol d' (by simp [hd']))
      simp only [List.map_cons, List.flatten_cons, List.map_append, this, hd, toDlg]
  obtain ⟨leaf, hm⟩ := Policy_Match_eq (((ds.map (toDlg undef pol)).map (·.pol)).flatten) args
  simp only [hc, h2, List.drop_zero, List.nil_append, hipld, hflat, hm, bind, Except.bind, pure, Except.pure,
    Chain.verifyArgs]
  cases Policy.Match (((ds.map (toDlg undef pol)).map (·.pol)).flatten) args <;>
    simp [Except.mapError, chainErr, throw, throwThe, MonadExceptOf.throw]

/-- a failing conversion of the arguments is the result of `verifyArgs` (nothing is matched) -/
theorem Inv_verifyArgs_ipld_error (extIPLD : A → GoM Node) (g : Gen.InvTok D C A) (ds : List (Gen.DlgTok D Stmt)) (a : A)
    (e : GoErr) (hlen : ds.length = g.proof.length) (hipld : extIPLD a = .error e) :
    Gen.Inv_verifyArgs extMatch extIPLD g ds a = .error e := by
  unfold Gen.Inv_verifyArgs
  obtain ⟨c, hc⟩ := verifyArgs_loop1 extIPLD g ds a hlen (g.proof.length + 1) 0 (by omega) (by omega) 0
  have h2 := verifyArgs_loop2 extIPLD g ds a hlen (g.proof.length + 1) 0 (by omega) (by omega) c []
  simp only [Int.natCast_zero] at hc h2
  simp [hc, h2, hipld, bind, Except.bind]

end Ucan.Tie
