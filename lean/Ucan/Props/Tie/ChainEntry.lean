import Ucan.Gen.ChainEntry
/-! Regenerated-code tie for the two exported entry points of the authorization decision (the observation points of C01–C05):
`ExecutionAllowed` decides the token's OWN arguments; `ExecutionAllowedWithArgsHook` hands a read-only view of the token's own
arguments to the hook and decides the hook's result — and only that — with the SAME `executionAllowed` (all four stages, the
same loader, the same token); an error of the hook ends the check with that error. Stated on the bodies of these two functions
alone (shell translations): `executionAllowed` — whatever it does —, the read-only view and the hook are parameters, so that the
obligation depends on nothing else. -/
namespace Ucan.Tie
open Ucan Ucan.GoM

variable {D C A L R : Type} [DecidableEq D]

theorem Inv_ExecutionAllowed_eq (ea : Gen.InvTok D C A → L → A → GoM Unit) (g : Gen.InvTok D C A) (loader : L) :
    Gen.Inv_ExecutionAllowed ea g loader =
      ea g loader g.arguments := by
  unfold Gen.Inv_ExecutionAllowed
  cases ea g loader g.arguments <;> rfl

theorem Inv_ExecutionAllowedWithArgsHook_eq (ea : Gen.InvTok D C A → L → A → GoM Unit) (extRO : A → GoM R) (g : Gen.InvTok D C A) (loader : L)
    (hook : R → GoM A) :
    Gen.Inv_ExecutionAllowedWithArgsHook ea extRO g loader hook =
      (extRO g.arguments >>= hook >>= fun newArgs => ea g loader newArgs) := by
  unfold Gen.Inv_ExecutionAllowedWithArgsHook
  cases extRO g.arguments with
  | error e => rfl
  | ok ro =>
    cases h : hook ro with
    | error e => simp [bind, Except.bind, h]
    | ok a =>
      cases h2 : ea g loader a <;>
        simp [bind, Except.bind, h, h2, pure, Except.pure]

/-- the hook's result is what is checked: with a hook that answers `a`, the hook entry point IS `executionAllowed` on `a` -/
theorem hook_result_is_checked (ea : Gen.InvTok D C A → L → A → GoM Unit) (extRO : A → GoM R) (g : Gen.InvTok D C A) (loader : L)
    (hook : R → GoM A) (ro : R) (a : A) (h1 : extRO g.arguments = .ok ro) (h2 : hook ro = .ok a) :
    Gen.Inv_ExecutionAllowedWithArgsHook ea extRO g loader hook =
      ea g loader a := by
  rw [Inv_ExecutionAllowedWithArgsHook_eq, h1]
  simp only [bind, Except.bind, h2]

/-- an identity hook (one that answers the token's own arguments) decides what `ExecutionAllowed` decides -/
theorem identity_hook_agrees (ea : Gen.InvTok D C A → L → A → GoM Unit) (extRO : A → GoM R) (g : Gen.InvTok D C A) (loader : L)
    (hook : R → GoM A) (ro : R) (h1 : extRO g.arguments = .ok ro) (h2 : hook ro = .ok g.arguments) :
    Gen.Inv_ExecutionAllowedWithArgsHook ea extRO g loader hook =
      Gen.Inv_ExecutionAllowed ea g loader := by
  rw [hook_result_is_checked ea extRO g loader hook ro g.arguments h1 h2, Inv_ExecutionAllowed_eq]

/-- a failing hook fails the check with the hook's error -/
theorem hook_error_ends_check (ea : Gen.InvTok D C A → L → A → GoM Unit) (extRO : A → GoM R) (g : Gen.InvTok D C A) (loader : L)
    (hook : R → GoM A) (ro : R) (e : GoErr) (h1 : extRO g.arguments = .ok ro) (h2 : hook ro = .error e) :
    Gen.Inv_ExecutionAllowedWithArgsHook ea extRO g loader hook = .error e := by
  rw [Inv_ExecutionAllowedWithArgsHook_eq, h1]
  simp only [bind, Except.bind, h2]

end Ucan.Tie
