import Ucan.Gen.PolicyAcc
import Ucan.Props.Tie.PolicyMatch
/-! Regenerated-code tie for `accumulate` (C11): the function that folds the result of one more operand of `and`/`or` (one more
element under `all`/`any`) into the running result, once the caller has dealt with the decisive result. Its `switch` over the
result codes (numeric values read from the `iota` block of the source) is one step of the model's `andLoop` / `orLoop` — the
loops whose order-independence C11 proves. -/
set_option linter.unusedSimpArgs false
namespace Ucan.Tie
open Ucan Ucan.GoM Ucan.Policy

/-- one step of the fold, on the model's result type: missing data wins over missing optional data, which wins over the
neutral result -/
def accRes (acc r neutral : Res) : Res :=
  if r = .noData ∧ acc ≠ .noData then r else if r = .optNoData ∧ acc = neutral then r else acc

theorem resCode_inj (a b : Res) : resCode a = resCode b ↔ a = b := by
  cases a <;> cases b <;> simp [resCode]

/-- `accumulate`, regenerated, computes `accRes`; the statement it hands back is the one that came with the result it keeps
(not part of any property) -/
theorem accumulate_eq {S : Type} (acc r neutral : Res) (accLeaf leaf : Option S) :
    ∃ l, Gen.accumulate (resCode acc) accLeaf (resCode r) leaf (resCode neutral) = .ok (resCode (accRes acc r neutral), l) ∧
      (l = accLeaf ∨ l = leaf) := by
  cases acc <;> cases r <;> cases neutral <;>
    simp [Gen.accumulate, accRes, resCode, bind, Except.bind, pure, Except.pure]

/-- the loop of `and` / `all`: a false operand is decisive, every other one is folded in by `accumulate` with neutral `true` -/
theorem andLoop_step (acc r : Res) (rs : List Res) :
    andLoop acc (r :: rs) = if r = .f then .f else andLoop (accRes acc r .t) rs := by
  cases acc <;> cases r <;> simp [andLoop, accRes]

/-- the loop of `or` / `any`: a true operand is decisive, every other one is folded in by `accumulate` with neutral `false` -/
theorem orLoop_step (acc r : Res) (rs : List Res) :
    orLoop acc (r :: rs) = if r = .t then .t else orLoop (accRes acc r .f) rs := by
  cases acc <;> cases r <;> simp [orLoop, accRes]

end Ucan.Tie
