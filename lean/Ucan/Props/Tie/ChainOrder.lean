import Ucan.Gen.ChainShell
/-! Regenerated-code tie for the shape of `executionAllowed` (anchored by C01, C03, C04, C05), stated on the body of that one
function alone: every method it calls is a parameter of this translation (`ChainShell`), so the theorem depends on no other function
of the library and on no other tie. It returns nil EXACTLY when the proofs load and each of the three checks returns nil on the
delegations that were loaded (and the arguments that were handed in). Which error a refused invocation gets when several checks would
fail — the order of the checks — is not part of any property and is not fixed here: the proof is a case analysis over the outcomes
of the four calls and goes through for any order in which the body makes them (`ChainOrderExact` states the order the code has
today; it is built by `setup` but belongs to no property). -/
namespace Ucan.Tie
open Ucan Ucan.GoM

variable {D C S L A : Type} [DecidableEq D]

/-- nil exactly when the proofs load and all three stages return nil on them -/
theorem Inv_executionAllowed_ok_iff
    (extLoad : Gen.InvTok D C A → L → GoM (List (Gen.DlgTok D S)))
    (extProofs extTime : Gen.InvTok D C A → List (Gen.DlgTok D S) → GoM Unit)
    (extArgs : Gen.InvTok D C A → List (Gen.DlgTok D S) → A → GoM Unit)
    (g : Gen.InvTok D C A) (loader : L) (a : A) :
    Gen.Inv_executionAllowed_shell extLoad extProofs extTime extArgs g loader a = .ok () ↔
      ∃ ds, extLoad g loader = .ok ds ∧ extProofs g ds = .ok () ∧ extTime g ds = .ok () ∧ extArgs g ds a = .ok () := by
  unfold Gen.Inv_executionAllowed_shell
  cases hl : extLoad g loader with
  | error e => simp [bind, Except.bind]
  | ok ds =>
    cases h1 : extProofs g ds <;> cases h2 : extTime g ds <;> cases h3 : extArgs g ds a <;>
      simp [bind, Except.bind, pure, Except.pure, h1, h2, h3]

end Ucan.Tie
