import Ucan.Gen.ChainAllowed
/-! Regenerated-code tie for the ORDER of the stages of `executionAllowed` (anchored by C01, C03, C04, C05), stated on
the regenerated functions alone, so that it depends on no other tie: the proofs are loaded first and a loading error
ends the check; then `verifyProofs`, then `verifyTimeBound` — which is `verifyTimeBoundAt` at the instant `now` —, then
`verifyArgs` on the delegations that were loaded and the arguments that were handed in; the first failing stage
decides. `loadProofs` and `verifyArgs` are parameters: the statement holds whatever they do. -/
namespace Ucan.Tie
open Ucan Ucan.GoM

variable {D C L A : Type} [DecidableEq D]

theorem Inv_executionAllowed_order (now : Int)
    (extLoad : Gen.InvTok D C → L → GoM (List (Gen.DlgTok D)))
    (extArgs : Gen.InvTok D C → List (Gen.DlgTok D) → A → GoM Unit)
    (g : Gen.InvTok D C) (loader : L) (a : A) :
    Gen.Inv_executionAllowed now extLoad extArgs g loader a =
      (extLoad g loader >>= fun ds =>
        Gen.Inv_verifyProofs g ds >>= fun _ =>
        Gen.Inv_verifyTimeBoundAt g now ds >>= fun _ =>
        extArgs g ds a) := by
  unfold Gen.Inv_executionAllowed Gen.Inv_verifyTimeBound
  cases extLoad g loader with
  | error e => rfl
  | ok ds =>
    simp only [bind, Except.bind, pure, Except.pure]
    cases Gen.Inv_verifyProofs g ds with
    | error e => rfl
    | ok u =>
      cases Gen.Inv_verifyTimeBoundAt g now ds with
      | error e => rfl
      | ok u => cases extArgs g ds a <;> rfl

end Ucan.Tie
