import Ucan.Gen.PolicyMatch
import Ucan.Model.Policy
/-! Regenerated-code tie for `Policy.Match` and `Policy.PartialMatch` (C03, C11): the `range` loop over the statements with
its `switch` on the four result codes (whose numeric values are read from the `iota` block of the source) is the model's
conjunction. `matchStatement` — the statement evaluator — is a parameter of the generated code; it is instantiated with
the model's `matchStmt`, coded as the Go constants code it. The second component (the statement reported with a
failure) is not part of any property. -/
set_option linter.unusedSimpArgs false
set_option linter.unusedSectionVars false
namespace Ucan.Tie
open Ucan Ucan.GoM Ucan.Policy

/-- `matchResultTrue = 0, matchResultFalse = 1, matchResultNoData = 2, matchResultOptionalNoData = 3` -/
def resCode : Res → Int
  | .t => 0 | .f => 1 | .noData => 2 | .optNoData => 3

/-- the model's evaluator in the shape of Go's `matchStatement` -/
def extMatch : Option Stmt → Node → (Int × Option Stmt) := fun os n =>
  match os with
  | some s => (resCode (matchStmt s n), some s)
  | none => (0, none)

theorem idx_natP {α} (xs : List α) (n : Nat) (h : n < xs.length) : idx xs (n : Int) = .ok xs[n] := by
  simp [idx, h, pure, Except.pure]

theorem match_loop (p : List Stmt) (n : Node) (fuel k : Nat) (hf : p.length - k < fuel) (hk : k ≤ p.length) :
    ∃ out, Gen.Policy_Match.loop1 extMatch fuel (p.map some) n (k : Int) = .ok out ∧
      (Policy.Match (p.drop k) n = true → out = .next (p.length : Int)) ∧
      (Policy.Match (p.drop k) n = false → ∃ leaf, out = .ret (false, leaf)) := by
  induction fuel generalizing k with
  | zero => omega
  | succ fuel ih =>
    rw [Gen.Policy_Match.loop1]
    by_cases hlt : k < p.length
    · have hd : p.drop k = p[k] :: p.drop (k + 1) := List.drop_eq_getElem_cons hlt
      have hlt' : k < (p.map some).length := by simpa using hlt
      have h1 : ((k : Int) < ((p.map some).length : Int)) := by omega
      have h2 : ((k : Int) + 1) = ((k + 1 : Nat) : Int) := by omega
      have hget : (p.map some)[k] = some p[k] := by simp
      obtain ⟨out, ho, h3, h4⟩ := ih (k + 1) (by omega) (by omega)
      rw [hd]
      cases hr : matchStmt p[k] n <;>
        simp only [len, h1, decide_true, Bool.not_true, Bool.false_eq_true, ↓reduceIte, idx_natP _ k hlt', hget, extMatch, hr,
          resCode, bind, Except.bind, pure, Except.pure, h2, Policy.Match] <;>
        first
          | exact ⟨out, by simpa using ho, h3, h4⟩
          | exact ⟨_, rfl, by simp, fun _ => ⟨_, rfl⟩⟩
    · have : k = p.length := by omega
      subst this
      have h1 : ¬ (((p.length : Nat) : Int) < ((p.map some).length : Int)) := by simp
      refine ⟨.next (p.length : Int), ?_, by simp, by simp [Policy.Match]⟩
      simp [len, h1, bind, Except.bind, pure, Except.pure]

/-- `Policy.Match`, regenerated, decides what the model's `Match` decides (the conjunction C03 and C11 are about) -/
theorem Policy_Match_eq (p : List Stmt) (n : Node) :
    ∃ leaf, Gen.Policy_Match extMatch (p.map some) n = .ok (Policy.Match p n, leaf) := by
  unfold Gen.Policy_Match
  obtain ⟨out, ho, h3, h4⟩ := match_loop p n (p.length + 1) 0 (by omega) (by omega)
  simp only [Int.natCast_zero, List.drop_zero, List.length_map] at ho h3 h4
  cases hm : Policy.Match p n with
  | true =>
    rw [h3 hm] at ho
    exact ⟨none, by simp [ho, bind, Except.bind, pure, Except.pure]⟩
  | false =>
    obtain ⟨leaf, hl⟩ := h4 hm
    rw [hl] at ho
    exact ⟨leaf, by simp [ho, bind, Except.bind, pure, Except.pure]⟩

theorem partial_loop (p : List Stmt) (n : Node) (fuel k : Nat) (hf : p.length - k < fuel) (hk : k ≤ p.length) :
    ∃ out, Gen.Policy_PartialMatch.loop1 extMatch fuel (p.map some) n (k : Int) = .ok out ∧
      (Policy.PartialMatch (p.drop k) n = true → out = .next (p.length : Int)) ∧
      (Policy.PartialMatch (p.drop k) n = false → ∃ leaf, out = .ret (false, leaf)) := by
  induction fuel generalizing k with
  | zero => omega
  | succ fuel ih =>
    rw [Gen.Policy_PartialMatch.loop1]
    by_cases hlt : k < p.length
    · have hd : p.drop k = p[k] :: p.drop (k + 1) := List.drop_eq_getElem_cons hlt
      have hlt' : k < (p.map some).length := by simpa using hlt
      have h1 : ((k : Int) < ((p.map some).length : Int)) := by omega
      have h2 : ((k : Int) + 1) = ((k + 1 : Nat) : Int) := by omega
      have hget : (p.map some)[k] = some p[k] := by simp
      obtain ⟨out, ho, h3, h4⟩ := ih (k + 1) (by omega) (by omega)
      rw [hd]
      cases hr : matchStmt p[k] n <;>
        simp only [len, h1, decide_true, Bool.not_true, Bool.false_eq_true, ↓reduceIte, idx_natP _ k hlt', hget, extMatch, hr,
          resCode, bind, Except.bind, pure, Except.pure, h2, Policy.PartialMatch] <;>
        first
          | exact ⟨out, by simpa using ho, h3, h4⟩
          | exact ⟨_, rfl, by simp, fun _ => ⟨_, rfl⟩⟩
    · have : k = p.length := by omega
      subst this
      have h1 : ¬ (((p.length : Nat) : Int) < ((p.map some).length : Int)) := by simp
      refine ⟨.next (p.length : Int), ?_, by simp, by simp [Policy.PartialMatch]⟩
      simp [len, h1, bind, Except.bind, pure, Except.pure]

/-- `Policy.PartialMatch`, regenerated, decides what the model's `PartialMatch` decides -/
theorem Policy_PartialMatch_eq (p : List Stmt) (n : Node) :
    ∃ leaf, Gen.Policy_PartialMatch extMatch (p.map some) n = .ok (Policy.PartialMatch p n, leaf) := by
  unfold Gen.Policy_PartialMatch
  obtain ⟨out, ho, h3, h4⟩ := partial_loop p n (p.length + 1) 0 (by omega) (by omega)
  simp only [Int.natCast_zero, List.drop_zero, List.length_map] at ho h3 h4
  cases hm : Policy.PartialMatch p n with
  | true =>
    rw [h3 hm] at ho
    exact ⟨none, by simp [ho, bind, Except.bind, pure, Except.pure]⟩
  | false =>
    obtain ⟨leaf, hl⟩ := h4 hm
    rw [hl] at ho
    exact ⟨leaf, by simp [ho, bind, Except.bind, pure, Except.pure]⟩

end Ucan.Tie
